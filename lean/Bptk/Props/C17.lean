import Bptk.Core.C17
/-!
C17 — property theorems.  Quantifier: every timed history (`List (Nat × Ev)`, times non-decreasing),
every state reachable by one, every next request at every later clock value.  Nothing is bounded.
-/
namespace Bptk.C17

/-! ### basic facts about the building blocks -/

theorem hasId_iff (s : State) (k : Nat) : hasId s k = true ↔ ∃ i ∈ s.insts, i.id = k := by
  simp [hasId, List.any_eq_true]

theorem hasId_false_iff (s : State) (k : Nat) : hasId s k = false ↔ ∀ i ∈ s.insts, i.id ≠ k := by
  rw [← Bool.not_eq_true, hasId_iff]; simp

theorem mem_sweep (now : Nat) (s : State) (i : Inst) :
    i ∈ (sweep now s).insts ↔ i ∈ s.insts ∧ now < i.last + i.timeout := by
  simp [sweep, expired, List.mem_filter]

theorem touchInst_id (now k : Nat) (i : Inst) : (touchInst now k i).id = i.id := by
  unfold touchInst; split <;> rfl

theorem touchInst_timeout (now k : Nat) (i : Inst) : (touchInst now k i).timeout = i.timeout := by
  unfold touchInst; split <;> rfl

theorem touchInst_other (now k : Nat) (i : Inst) (h : i.id ≠ k) : touchInst now k i = i := by
  simp [touchInst, h]

theorem touchInst_self (now k : Nat) (i : Inst) (h : i.id = k) : (touchInst now k i).last = now := by
  simp [touchInst, h]

theorem setSess_id (k : Nat) (b : Bool) (i : Inst) : (setSess k b i).id = i.id := by
  unfold setSess; split <;> rfl

theorem setSess_last (k : Nat) (b : Bool) (i : Inst) : (setSess k b i).last = i.last := by
  unfold setSess; split <;> rfl

theorem setSess_timeout (k : Nat) (b : Bool) (i : Inst) : (setSess k b i).timeout = i.timeout := by
  unfold setSess; split <;> rfl

theorem map_touch_ids (now k : Nat) (l : List Inst) : (l.map (touchInst now k)).map (·.id) = l.map (·.id) := by
  simp [List.map_map, Function.comp_def, touchInst_id]

theorem map_setSess_ids (k : Nat) (b : Bool) (l : List Inst) : (l.map (setSess k b)).map (·.id) = l.map (·.id) := by
  simp [List.map_map, Function.comp_def, setSess_id]

/-- what the lifetime statement is about: id, last access, timeout (not the session flag) -/
def core (i : Inst) : Nat × Nat × Nat := (i.id, i.last, i.timeout)

theorem setSess_core (k : Nat) (b : Bool) (i : Inst) : core (setSess k b i) = core i := by
  unfold setSess core; split <;> rfl

theorem map_setSess_core (k : Nat) (b : Bool) (l : List Inst) : (l.map (setSess k b)).map core = l.map core := by
  simp [List.map_map, Function.comp_def, setSess_core]

/-- `applyKind` changes neither ids, nor timers, nor timeouts, nor the destroy log -/
theorem applyKind_core (s : State) (i : Inst) (kind : Kind) :
    (applyKind s i kind).1.insts.map core = s.insts.map core ∧
    (applyKind s i kind).1.destroyed = s.destroyed ∧ (applyKind s i kind).1.next = s.next := by
  cases kind
  · exact ⟨map_setSess_core _ _ _, rfl, rfl⟩
  · exact ⟨rfl, rfl, rfl⟩
  · simp only [applyKind]; split <;> exact ⟨rfl, rfl, rfl⟩
  · exact ⟨map_setSess_core _ _ _, rfl, rfl⟩

theorem mem_core (l : List Inst) (k a b : Nat) :
    (k, a, b) ∈ l.map core ↔ ∃ i ∈ l, i.id = k ∧ i.last = a ∧ i.timeout = b := by
  simp [core, List.mem_map, Prod.ext_iff]

/-! ### the invariant of reachable states -/

structure Inv (s : State) (t : Nat) : Prop where
  nodup : (s.insts.map (·.id)).Nodup
  bound : ∀ i ∈ s.insts, i.id < s.next
  lastLe : ∀ i ∈ s.insts, i.last ≤ t
  storedBound : ∀ k τ, lookupStored s.stored k = some τ → k < s.next

theorem inv_init : Inv State.init 0 := by
  constructor <;> simp [State.init, lookupStored]

theorem inv_sweep (s : State) (t now : Nat) (h : Inv s t) : Inv (sweep now s) t := by
  constructor
  · simp only [sweep]
    exact List.Nodup.sublist (List.Sublist.map _ List.filter_sublist) h.nodup
  · intro i hi; exact h.bound i ((mem_sweep now s i).mp hi).1
  · intro i hi; exact h.lastLe i ((mem_sweep now s i).mp hi).1
  · exact h.storedBound

theorem inv_touch (s : State) (t now k : Nat) (h : Inv s t) (ht : t ≤ now) : Inv (touch now k s) now := by
  constructor
  · simp only [touch, map_touch_ids]; exact h.nodup
  · intro i hi
    simp only [touch] at hi
    obtain ⟨j, hj, rfl⟩ := List.mem_map.mp hi
    rw [touchInst_id]; exact h.bound j hj
  · intro i hi
    simp only [touch] at hi
    obtain ⟨j, hj, rfl⟩ := List.mem_map.mp hi
    unfold touchInst; split
    · simp
    · have := h.lastLe j hj; omega
  · exact h.storedBound

theorem inv_mono (s : State) (t t' : Nat) (h : Inv s t) (ht : t ≤ t') : Inv s t' :=
  ⟨h.nodup, h.bound, fun i hi => Nat.le_trans (h.lastLe i hi) ht, h.storedBound⟩

theorem inv_ensure (s : State) (t now k : Nat) (h : Inv s t) (ht : t ≤ now) : Inv (ensure s now k).1 now := by
  unfold ensure
  split
  · exact inv_mono s t now h ht
  · rename_i hk
    split
    · exact inv_mono s t now h ht
    · rename_i τ hτ
      have hk' := (hasId_false_iff s k).mp (by simpa using hk)
      constructor
      · simp only [List.map_append, List.map_cons, List.map_nil]
        rw [List.nodup_append]
        refine ⟨h.nodup, by simp, ?_⟩
        intro a ha b hb
        simp at hb; subst hb
        obtain ⟨i, hi, rfl⟩ := List.mem_map.mp ha
        exact hk' i hi
      · intro i hi
        simp only [List.mem_append, List.mem_singleton] at hi
        rcases hi with hi | rfl
        · exact h.bound i hi
        · exact h.storedBound k τ hτ
      · intro i hi
        simp only [List.mem_append, List.mem_singleton] at hi
        rcases hi with hi | rfl
        · have := h.lastLe i hi; omega
        · simp
      · exact h.storedBound

theorem inv_applyKind (s : State) (t : Nat) (i : Inst) (hi : i ∈ s.insts) (kind : Kind) (h : Inv s t) :
    Inv (applyKind s i kind).1 t := by
  have hsess : ∀ b, Inv { s with insts := s.insts.map (setSess i.id b) } t := by
    intro b
    constructor
    · simp only [map_setSess_ids]; exact h.nodup
    · intro j hj
      obtain ⟨j0, hj0, rfl⟩ := List.mem_map.mp hj
      rw [setSess_id]; exact h.bound j0 hj0
    · intro j hj
      obtain ⟨j0, hj0, rfl⟩ := List.mem_map.mp hj
      rw [setSess_last]; exact h.lastLe j0 hj0
    · exact h.storedBound
  cases kind
  · exact hsess true
  · exact h
  · simp only [applyKind]; split
    · constructor
      · exact h.nodup
      · exact h.bound
      · exact h.lastLe
      · intro k τ hk
        simp only [lookupStored] at hk
        split at hk
        · rename_i e; rw [← e]; exact h.bound i hi
        · exact h.storedBound k τ hk
    · exact h
  · exact hsess false

theorem findInst_mem (s : State) (k : Nat) (i : Inst) (h : findInst s k = some i) : i ∈ s.insts ∧ i.id = k := by
  unfold findInst at h
  exact ⟨List.mem_of_find?_eq_some h, by simpa using List.find?_some h⟩

theorem findInst_none (s : State) (k : Nat) (h : findInst s k = none) : ∀ i ∈ s.insts, i.id ≠ k := by
  unfold findInst at h
  intro i hi
  have := List.find?_eq_none.mp h i hi
  simpa using this

theorem inv_step (c : Cfg) (s : State) (t now : Nat) (ev : Ev) (h : Inv s t) (ht : t ≤ now) :
    Inv (step c s now ev).1 now := by
  cases ev with
  | create τ =>
    simp only [step, create]
    have h1 := inv_mono _ t now (inv_sweep s t now h) ht
    constructor
    · simp only [List.map_append, List.map_cons, List.map_nil]
      rw [List.nodup_append]
      refine ⟨h1.nodup, by simp, ?_⟩
      intro a ha b hb
      simp at hb; subst hb
      obtain ⟨i, hi, rfl⟩ := List.mem_map.mp ha
      exact Nat.ne_of_lt (h1.bound i hi)
    · intro i hi
      simp only [List.mem_append, List.mem_singleton] at hi
      rcases hi with hi | rfl
      · have := h1.bound i hi; simp only at this ⊢; omega
      · simp
    · intro i hi
      simp only [List.mem_append, List.mem_singleton] at hi
      rcases hi with hi | rfl
      · exact h1.lastLe i hi
      · simp
    · intro k τ' hk
      have := h1.storedBound k τ' hk
      simp only at this ⊢; omega
  | access k kind =>
    simp only [step, access]
    have he := inv_ensure s t now k h ht
    cases hen : ensure s now k with
    | mk s1 b =>
      rw [hen] at he
      cases b with
      | false => exact inv_mono s t now h ht
      | true =>
        simp only
        have h2 := inv_sweep _ now now (inv_touch s1 now now k he (Nat.le_refl _))
        cases hf : findInst (sweep now (touch now k s1)) k with
        | none => exact h2
        | some i => exact inv_applyKind _ now i (findInst_mem _ _ _ hf).1 kind h2
  | keepAlive k =>
    simp only [step, keepAlive]
    cases hr : c.keepAliveRestores with
    | true =>
      simp only [if_true]
      have he := inv_ensure s t now k h ht
      cases hen : ensure s now k with
      | mk s1 b =>
        rw [hen] at he
        cases b with
        | false => exact inv_mono s t now h ht
        | true => exact inv_sweep _ now now (inv_touch s1 now now k he (Nat.le_refl _))
    | false =>
      simp only [Bool.false_eq_true, if_false]
      cases hasId s k with
      | false => exact inv_mono s t now h ht
      | true => exact inv_sweep _ now now (inv_touch s t now k h ht)
  | metrics => exact inv_mono _ t now (inv_sweep s t now h) ht
  | fullMetrics => exact inv_mono _ t now (inv_sweep s t now h) ht

/-- the invariant holds after every well-timed history -/
theorem inv_run (c : Cfg) (evs : List (Nat × Ev)) : ∀ (s : State) (t0 : Nat), Inv s t0 → wellTimed t0 evs = true →
    Inv (run c s evs) (endTime t0 evs) := by
  induction evs with
  | nil => intro s t0 h _; exact h
  | cons e rest ih =>
    intro s t0 h hw
    obtain ⟨t, ev⟩ := e
    simp only [wellTimed, Bool.and_eq_true, decide_eq_true_eq] at hw
    exact ih _ t (inv_step c s t0 t ev h hw.1) hw.2

/-! ### alive: less than the timeout elapsed since the last access ⇒ still there -/

/-- instance `k` is held with timeout `τ` and a last-access time ≥ `l` -/
def Holds (s : State) (k τ l : Nat) : Prop := ∃ i ∈ s.insts, i.id = k ∧ i.timeout = τ ∧ l ≤ i.last

theorem holds_iff_core (s : State) (k τ l : Nat) :
    Holds s k τ l ↔ ∃ a, (k, a, τ) ∈ s.insts.map core ∧ l ≤ a := by
  constructor
  · rintro ⟨i, hi, h1, h2, h3⟩
    exact ⟨i.last, (mem_core _ _ _ _).mpr ⟨i, hi, h1, rfl, h2⟩, h3⟩
  · rintro ⟨a, ha, hl⟩
    obtain ⟨i, hi, h1, h2, h3⟩ := (mem_core _ _ _ _).mp ha
    exact ⟨i, hi, h1, h3, by omega⟩

theorem holds_sweep (s : State) (k τ l now : Nat) (h : Holds s k τ l) (hn : now < l + τ) :
    Holds (sweep now s) k τ l := by
  obtain ⟨i, hi, h1, h2, h3⟩ := h
  exact ⟨i, (mem_sweep now s i).mpr ⟨hi, by omega⟩, h1, h2, h3⟩

theorem holds_touch (s : State) (k τ l now j : Nat) (h : Holds s k τ l) (hl : l ≤ now) :
    Holds (touch now j s) k τ l := by
  obtain ⟨i, hi, h1, h2, h3⟩ := h
  refine ⟨touchInst now j i, List.mem_map.mpr ⟨i, hi, rfl⟩, by rw [touchInst_id]; exact h1,
    by rw [touchInst_timeout]; exact h2, ?_⟩
  unfold touchInst; split
  · exact hl
  · exact h3

theorem ensure_insts (s : State) (now k : Nat) :
    (ensure s now k).1.insts = s.insts ∨
    (hasId s k = false ∧ ∃ τ, lookupStored s.stored k = some τ ∧
      (ensure s now k).1.insts = s.insts ++ [{ id := k, last := now, timeout := τ, sess := true }] ∧
      (ensure s now k).2 = true) := by
  unfold ensure
  split
  · left; rfl
  · rename_i hk
    split
    · left; rfl
    · rename_i τ hτ
      right
      exact ⟨by simpa using hk, τ, hτ, rfl, rfl⟩

theorem ensure_destroyed (s : State) (now k : Nat) : (ensure s now k).1.destroyed = s.destroyed := by
  unfold ensure; split
  · rfl
  · split <;> rfl

theorem ensure_stored (s : State) (now k : Nat) : (ensure s now k).1.stored = s.stored := by
  unfold ensure; split
  · rfl
  · split <;> rfl

theorem holds_ensure (s : State) (k τ l now j : Nat) (h : Holds s k τ l) : Holds (ensure s now j).1 k τ l := by
  obtain ⟨i, hi, h1, h2, h3⟩ := h
  rcases ensure_insts s now j with e | ⟨_, τ', _, e, _⟩
  · exact ⟨i, by rw [e]; exact hi, h1, h2, h3⟩
  · exact ⟨i, by rw [e]; exact List.mem_append_left _ hi, h1, h2, h3⟩

theorem holds_applyKind (s : State) (k τ l : Nat) (i : Inst) (kind : Kind) (h : Holds s k τ l) :
    Holds (applyKind s i kind).1 k τ l := by
  rw [holds_iff_core] at h ⊢
  rw [(applyKind_core s i kind).1]; exact h

/-- one request at `now` keeps every instance whose timeout has not elapsed (`now < l + τ`) -/
theorem alive_step (c : Cfg) (s : State) (k τ l now : Nat) (ev : Ev) (h : Holds s k τ l)
    (hl : l ≤ now) (hn : now < l + τ) : Holds (step c s now ev).1 k τ l := by
  cases ev with
  | create τ' =>
    simp only [step, create]
    obtain ⟨i, hi, h1, h2, h3⟩ := holds_sweep s k τ l now h hn
    exact ⟨i, List.mem_append_left _ hi, h1, h2, h3⟩
  | access j kind =>
    simp only [step, access]
    have he := holds_ensure s k τ l now j h
    cases hen : ensure s now j with
    | mk s1 b =>
      rw [hen] at he
      cases b with
      | false => exact h
      | true =>
        simp only
        have h2 := holds_sweep _ k τ l now (holds_touch s1 k τ l now j he hl) hn
        cases hf : findInst (sweep now (touch now j s1)) j with
        | none => exact h2
        | some i => exact holds_applyKind _ k τ l i kind h2
  | keepAlive j =>
    simp only [step, keepAlive]
    cases hr : c.keepAliveRestores with
    | true =>
      simp only [if_true]
      have he := holds_ensure s k τ l now j h
      cases hen : ensure s now j with
      | mk s1 b =>
        rw [hen] at he
        cases b with
        | false => exact h
        | true => exact holds_sweep _ k τ l now (holds_touch s1 k τ l now j he hl) hn
    | false =>
      simp only [Bool.false_eq_true, if_false]
      cases hasId s j with
      | false => exact h
      | true => exact holds_sweep _ k τ l now (holds_touch s k τ l now j h hl) hn
  | metrics => exact holds_sweep s k τ l now h hn
  | fullMetrics => exact holds_sweep s k τ l now h hn

/-- `C17_alive`: an instance last accessed at (or after) `l` with timeout `τ` is still there after ANY
well-timed sequence of requests all of which happen before `l + τ` -/
theorem C17_alive (c : Cfg) (evs : List (Nat × Ev)) : ∀ (s : State) (t0 k τ l : Nat), Holds s k τ l →
    l ≤ t0 → wellTimed t0 evs = true → (∀ e ∈ evs, e.1 < l + τ) → Holds (run c s evs) k τ l := by
  induction evs with
  | nil => intro s t0 k τ l h _ _ _; exact h
  | cons e rest ih =>
    intro s t0 k τ l h hl hw hall
    obtain ⟨t, ev⟩ := e
    simp only [wellTimed, Bool.and_eq_true, decide_eq_true_eq] at hw
    have ht : t < l + τ := hall (t, ev) (by simp)
    exact ih _ t k τ l (alive_step c s k τ l t ev h (by omega) ht) (by omega) hw.2
      (fun e he => hall e (by simp [he]))

/-- `C17_never_early`: an instance that was there before a request at `now` and is not there afterwards
had its full timeout elapsed: `last + timeout ≤ now` -/
theorem C17_never_early (c : Cfg) (s : State) (t now : Nat) (ev : Ev) (hinv : Inv s t) (ht : t ≤ now)
    (i : Inst) (hi : i ∈ s.insts) (hgone : ∀ j ∈ (step c s now ev).1.insts, j.id ≠ i.id) :
    i.last + i.timeout ≤ now := by
  rcases Nat.lt_or_ge now (i.last + i.timeout) with hlt | hge
  · exfalso
    have hl : i.last ≤ now := Nat.le_trans (hinv.lastLe i hi) ht
    obtain ⟨j, hj, hid, _, _⟩ := alive_step c s i.id i.timeout i.last now ev ⟨i, hi, rfl, rfl, Nat.le_refl _⟩ hl hlt
    exact hgone j hj hid
  · exact hge

/-! ### access restarts the timer -/

theorem eq_of_nodup_id (l : List Inst) (hn : (l.map (·.id)).Nodup) (a b : Inst) (ha : a ∈ l) (hb : b ∈ l)
    (h : a.id = b.id) : a = b := by
  induction l with
  | nil => cases ha
  | cons x xs ih =>
    simp only [List.map_cons, List.nodup_cons] at hn
    rcases List.mem_cons.mp ha with rfl | ha' <;> rcases List.mem_cons.mp hb with rfl | hb'
    · rfl
    · exact absurd (List.mem_map.mpr ⟨b, hb', h.symm⟩) hn.1
    · exact absurd (List.mem_map.mpr ⟨a, ha', h⟩) hn.1
    · exact ih hn.2 ha' hb'

theorem ensure_present (s : State) (now k : Nat) (h : hasId s k = true) : ensure s now k = (s, true) := by
  simp [ensure, h]

/-- the state right after `touch` + `sweep` on a present instance with a positive timeout -/
theorem touched_survives (s : State) (t now k : Nat) (hinv : Inv s t) (ht : t ≤ now) (i : Inst) (hi : i ∈ s.insts)
    (hk : i.id = k) (hτ : 0 < i.timeout) :
    findInst (sweep now (touch now k s)) k = some { i with last := now } := by
  have hmem : ({ i with last := now } : Inst) ∈ (sweep now (touch now k s)).insts := by
    rw [mem_sweep]
    refine ⟨List.mem_map.mpr ⟨i, hi, by simp [touchInst, hk]⟩, by simp; omega⟩
  have hinv2 := inv_sweep _ now now (inv_touch s t now k hinv ht)
  cases hf : findInst (sweep now (touch now k s)) k with
  | none => exact absurd hk (by have := findInst_none _ _ hf _ hmem; simpa using this)
  | some j =>
    have hj := findInst_mem _ _ _ hf
    rw [eq_of_nodup_id _ hinv2.nodup j _ hj.1 hmem (by simp [hj.2, hk])]

/-- `access_resets` / availability: any instance-scoped request to a present instance with a positive
timeout, whatever time has passed as long as no sweep removed it, succeeds (a `run-step` needs a session)
and leaves it with `last = now` -/
theorem C17_access_resets (s : State) (t now : Nat) (hinv : Inv s t) (ht : t ≤ now) (i : Inst) (hi : i ∈ s.insts)
    (hτ : 0 < i.timeout) (kind : Kind) :
    (∃ j ∈ (access s now i.id kind).1.insts, j.id = i.id ∧ j.last = now ∧ j.timeout = i.timeout) ∧
    ((kind ≠ .step ∨ i.sess = true) → (access s now i.id kind).2 = true) := by
  have hp : hasId s i.id = true := (hasId_iff s i.id).mpr ⟨i, hi, rfl⟩
  have hf := touched_survives s t now i.id hinv ht i hi rfl hτ
  have hj := (findInst_mem _ _ _ hf).1
  simp only [access, ensure_present s now i.id hp, hf]
  constructor
  · have : (i.id, now, i.timeout) ∈ (applyKind (sweep now (touch now i.id s)) { i with last := now } kind).1.insts.map core := by
      rw [(applyKind_core _ _ kind).1]
      exact (mem_core _ _ _ _).mpr ⟨_, hj, rfl, rfl, rfl⟩
    obtain ⟨j, hj', h1, h2, h3⟩ := (mem_core _ _ _ _).mp this
    exact ⟨j, hj', h1, h2, h3⟩
  · intro hk
    cases kind with
    | begin => rfl
    | results => rfl
    | endS => rfl
    | step =>
      rcases hk with hk | hk
      · exact absurd rfl hk
      · simp [applyKind, hk]

theorem C17_keepalive_resets (c : Cfg) (s : State) (t now : Nat) (hinv : Inv s t) (ht : t ≤ now) (i : Inst)
    (hi : i ∈ s.insts) (hτ : 0 < i.timeout) :
    (∃ j ∈ (keepAlive c s now i.id).1.insts, j.id = i.id ∧ j.last = now ∧ j.timeout = i.timeout) ∧
    (keepAlive c s now i.id).2 = true := by
  have hp : hasId s i.id = true := (hasId_iff s i.id).mpr ⟨i, hi, rfl⟩
  have hf := touched_survives s t now i.id hinv ht i hi rfl hτ
  have hj := (findInst_mem _ _ _ hf).1
  have : keepAlive c s now i.id = (sweep now (touch now i.id s), true) := by
    unfold keepAlive
    cases c.keepAliveRestores <;> simp [ensure_present s now i.id hp, hp]
  rw [this]
  exact ⟨⟨_, hj, rfl, rfl, rfl⟩, rfl⟩

/-! ### gone after the next trigger; released exactly once -/

theorem count_filter_zero (l : List Inst) (p : Inst → Bool) (k : Nat) (h : ∀ i ∈ l, i.id = k → p i = false) :
    ((l.filter p).map (·.id)).count k = 0 := by
  rw [List.count_eq_zero]
  intro hm
  obtain ⟨i, hi, hid⟩ := List.mem_map.mp hm
  have hf := List.mem_filter.mp hi
  rw [h i hf.1 hid] at hf
  exact absurd hf.2 (by simp)

theorem count_filter_one (l : List Inst) (p : Inst → Bool) (hn : (l.map (·.id)).Nodup) (i : Inst) (hi : i ∈ l)
    (hp : p i = true) : ((l.filter p).map (·.id)).count i.id = 1 := by
  induction l with
  | nil => cases hi
  | cons x xs ih =>
    simp only [List.map_cons, List.nodup_cons] at hn
    rcases List.mem_cons.mp hi with rfl | hi'
    · have hz : ((xs.filter p).map (·.id)).count i.id = 0 :=
        count_filter_zero xs p i.id (fun j hj hid => absurd (List.mem_map.mpr ⟨j, hj, hid⟩) hn.1)
      simp [hp, hz]
    · have hne : x.id ≠ i.id := fun e => hn.1 (e ▸ List.mem_map.mpr ⟨i, hi', rfl⟩)
      simp only [List.filter_cons]
      split
      · simp only [List.map_cons]
        rw [List.count_cons_of_ne (by simpa using hne)]
        exact ih hn.2 hi'
      · exact ih hn.2 hi'

/-- the sweep itself: an expired instance is removed and `destroy()` is called on it exactly once -/
theorem gone_via (s1 : State) (t now : Nat) (hinv : Inv s1 t) (i : Inst) (hi : i ∈ s1.insts)
    (hexp : i.last + i.timeout ≤ now) :
    (∀ j ∈ (sweep now s1).insts, j.id ≠ i.id) ∧
    (sweep now s1).destroyed.count i.id = s1.destroyed.count i.id + 1 := by
  constructor
  · intro j hj hid
    have hm := (mem_sweep now s1 j).mp hj
    have := eq_of_nodup_id _ hinv.nodup j i hm.1 hi hid
    subst this; omega
  · simp only [sweep, List.count_append]
    rw [count_filter_one _ _ hinv.nodup i hi (by simp [expired, hexp])]

/-- a sweep does not release an instance whose timeout has not elapsed -/
theorem sweep_keeps_count (s1 : State) (t now k τ l : Nat) (hinv : Inv s1 t) (h : Holds s1 k τ l) (hn : now < l + τ) :
    (sweep now s1).destroyed.count k = s1.destroyed.count k := by
  obtain ⟨i, hi, h1, h2, h3⟩ := h
  simp only [sweep, List.count_append]
  rw [count_filter_zero]
  · rfl
  · intro j hj hid
    have := eq_of_nodup_id _ hinv.nodup j i hj hi (by omega)
    subst this
    simp [expired]; omega

theorem absent_of_core (a b : State) (k : Nat) (hc : a.insts.map core = b.insts.map core)
    (h : ∀ j ∈ b.insts, j.id ≠ k) : ∀ j ∈ a.insts, j.id ≠ k := by
  intro j hj hid
  have : (j.id, j.last, j.timeout) ∈ b.insts.map core := by
    rw [← hc]; exact (mem_core _ _ _ _).mpr ⟨j, hj, rfl, rfl, rfl⟩
  obtain ⟨j', hj', h1, _, _⟩ := (mem_core _ _ _ _).mp this
  exact h j' hj' (by omega)

theorem ensure_ok (s : State) (now j : Nat) (h : (hasId s j || (lookupStored s.stored j).isSome) = true) :
    (ensure s now j).2 = true := by
  unfold ensure
  cases hp : hasId s j with
  | true => simp
  | false =>
    simp only [hp, Bool.false_or] at h
    cases hl : lookupStored s.stored j with
    | none => simp [hl] at h
    | some τ => simp

theorem mem_ensure (s : State) (now j : Nat) (i : Inst) (hi : i ∈ s.insts) : i ∈ (ensure s now j).1.insts := by
  rcases ensure_insts s now j with e | ⟨_, _, _, e, _⟩
  · rw [e]; exact hi
  · rw [e]; exact List.mem_append_left _ hi

theorem mem_touch_other (s : State) (now j : Nat) (i : Inst) (hi : i ∈ s.insts) (hne : i.id ≠ j) :
    i ∈ (touch now j s).insts :=
  List.mem_map.mpr ⟨i, hi, touchInst_other now j i hne⟩

/-- `C17_gone_after_trigger`: once `last + timeout ≤ now`, the next metrics query, instance creation or
(successful) request to another instance removes the instance (so it is absent from `_instances`, hence
from both metrics) and calls `destroy()` on it exactly once. -/
theorem C17_gone_after_trigger (c : Cfg) (s : State) (t now : Nat) (ev : Ev) (hinv : Inv s t) (ht : t ≤ now)
    (i : Inst) (hi : i ∈ s.insts) (hexp : i.last + i.timeout ≤ now) (htr : isTrigger c s i.id ev = true) :
    (∀ j ∈ (step c s now ev).1.insts, j.id ≠ i.id) ∧
    (step c s now ev).1.destroyed.count i.id = s.destroyed.count i.id + 1 := by
  cases ev with
  | create τ =>
    obtain ⟨h1, h2⟩ := gone_via s t now hinv i hi hexp
    simp only [step, create]
    refine ⟨?_, h2⟩
    intro j hj
    simp only [List.mem_append, List.mem_singleton] at hj
    rcases hj with hj | rfl
    · exact h1 j hj
    · have := hinv.bound i hi
      simp only [sweep]; omega
  | metrics => exact gone_via s t now hinv i hi hexp
  | fullMetrics => exact gone_via s t now hinv i hi hexp
  | access j kind =>
    simp only [isTrigger, Bool.and_eq_true, bne_iff_ne, ne_eq] at htr
    have hne : i.id ≠ j := fun e => htr.1 e.symm
    have hok := ensure_ok s now j htr.2
    have hinv1 := inv_ensure s t now j hinv ht
    have hi1 := mem_ensure s now j i hi
    have hd1 := ensure_destroyed s now j
    simp only [step, access]
    cases hen : ensure s now j with
    | mk s1 b =>
      rw [hen] at hok hinv1 hi1 hd1
      simp only at hok hinv1 hi1 hd1
      subst hok
      simp only
      have hinv2 := inv_touch s1 now now j hinv1 (Nat.le_refl _)
      obtain ⟨h1, h2⟩ := gone_via (touch now j s1) now now hinv2 i (mem_touch_other s1 now j i hi1 hne) hexp
      have h2' : (sweep now (touch now j s1)).destroyed.count i.id = s.destroyed.count i.id + 1 := by
        rw [h2]; simp only [touch]; rw [hd1]
      cases hf : findInst (sweep now (touch now j s1)) j with
      | none => exact ⟨h1, h2'⟩
      | some x =>
        simp only
        obtain ⟨c1, c2, _⟩ := applyKind_core (sweep now (touch now j s1)) x kind
        exact ⟨absent_of_core _ _ _ c1 h1, by rw [c2]; exact h2'⟩
  | keepAlive j =>
    simp only [isTrigger, Bool.and_eq_true, bne_iff_ne, ne_eq] at htr
    have hne : i.id ≠ j := fun e => htr.1 e.symm
    simp only [step, keepAlive]
    cases hr : c.keepAliveRestores with
    | true =>
      simp only [hr, Bool.true_and] at htr
      simp only [if_true]
      have hok := ensure_ok s now j htr.2
      have hinv1 := inv_ensure s t now j hinv ht
      have hi1 := mem_ensure s now j i hi
      have hd1 := ensure_destroyed s now j
      cases hen : ensure s now j with
      | mk s1 b =>
        rw [hen] at hok hinv1 hi1 hd1
        simp only at hok hinv1 hi1 hd1
        subst hok
        simp only
        have hinv2 := inv_touch s1 now now j hinv1 (Nat.le_refl _)
        obtain ⟨h1, h2⟩ := gone_via (touch now j s1) now now hinv2 i (mem_touch_other s1 now j i hi1 hne) hexp
        exact ⟨h1, by rw [h2]; simp only [touch]; rw [hd1]⟩
    | false =>
      simp only [hr, Bool.false_and, Bool.or_false] at htr
      simp only [Bool.false_eq_true, if_false, htr.2]
      have hinv2 := inv_touch s t now j hinv ht
      obtain ⟨h1, h2⟩ := gone_via (touch now j s) now now hinv2 i (mem_touch_other s now j i hi hne) hexp
      exact ⟨h1, by rw [h2]; rfl⟩

/-! ### id refused / transparent restore -/

/-- a timed-out instance whose state was not externalised: its id is refused and nothing changes -/
theorem C17_refused (c : Cfg) (s : State) (now k : Nat) (kind : Kind) (habs : hasId s k = false)
    (hst : lookupStored s.stored k = none) :
    access s now k kind = (s, false) ∧ keepAlive c s now k = (s, false) := by
  have he : ensure s now k = (s, false) := by simp [ensure, habs, hst]
  constructor
  · simp [access, he]
  · unfold keepAlive
    cases c.keepAliveRestores <;> simp [he, habs]

theorem ensure_restores (s : State) (now k τ : Nat) (habs : hasId s k = false) (hst : lookupStored s.stored k = some τ) :
    ensure s now k = ({ s with insts := s.insts ++ [{ id := k, last := now, timeout := τ, sess := true }]
                               restored := s.restored ++ [k] }, true) := by
  simp [ensure, habs, hst]

/-- `restore_transparent`: an absent instance whose state is externalised is restored by the next
instance-scoped request, which succeeds as on a live instance (also a `run-step`: the restored instance
has its session); its timer starts at `now` with the stored timeout -/
theorem C17_restore (s : State) (t now k τ : Nat) (kind : Kind) (hinv : Inv s t) (ht : t ≤ now)
    (habs : hasId s k = false) (hst : lookupStored s.stored k = some τ) (hτ : 0 < τ) :
    (access s now k kind).2 = true ∧
    ∃ j ∈ (access s now k kind).1.insts, j.id = k ∧ j.last = now ∧ j.timeout = τ := by
  have he := ensure_restores s now k τ habs hst
  have hinv1 := inv_ensure s t now k hinv ht
  rw [he] at hinv1
  simp only at hinv1
  let n : Inst := { id := k, last := now, timeout := τ, sess := true }
  let s1 : State := { s with insts := s.insts ++ [n], restored := s.restored ++ [k] }
  have hn : n ∈ s1.insts := List.mem_append_right _ (by simp)
  have hp1 : hasId s1 k = true := (hasId_iff s1 k).mpr ⟨n, hn, rfl⟩
  have e1 : ensure s1 now k = (s1, true) := ensure_present s1 now k hp1
  have heq : access s now k kind = access s1 now k kind := by
    unfold access; rw [he, e1]
  rw [heq]
  obtain ⟨h1, h2⟩ := C17_access_resets s1 now now hinv1 (Nat.le_refl _) n hn hτ kind
  exact ⟨h2 (Or.inr rfl), h1⟩

theorem C17_restore_keepalive (c : Cfg) (hc : c.keepAliveRestores = true) (s : State) (t now k τ : Nat)
    (hinv : Inv s t) (ht : t ≤ now) (habs : hasId s k = false) (hst : lookupStored s.stored k = some τ) (hτ : 0 < τ) :
    (keepAlive c s now k).2 = true ∧
    ∃ j ∈ (keepAlive c s now k).1.insts, j.id = k ∧ j.last = now ∧ j.timeout = τ := by
  have he := ensure_restores s now k τ habs hst
  have hinv1 := inv_ensure s t now k hinv ht
  rw [he] at hinv1
  simp only at hinv1
  let n : Inst := { id := k, last := now, timeout := τ, sess := true }
  let s1 : State := { s with insts := s.insts ++ [n], restored := s.restored ++ [k] }
  have hn : n ∈ s1.insts := List.mem_append_right _ (by simp)
  have hp1 : hasId s1 k = true := (hasId_iff s1 k).mpr ⟨n, hn, rfl⟩
  have e1 : ensure s1 now k = (s1, true) := ensure_present s1 now k hp1
  have heq : keepAlive c s now k = keepAlive c s1 now k := by
    unfold keepAlive; simp only [hc, if_true]; rw [he, e1]
  rw [heq]
  obtain ⟨h1, h2⟩ := C17_keepalive_resets c s1 now now hinv1 (Nat.le_refl _) n hn hτ
  exact ⟨h2, h1⟩

/-- `units_sum`: the timeout dictionary is the sum of its seven units -/
theorem units_sum (t : Timeout) :
    t.toMicros = t.weeks * 604800000000 + t.days * 86400000000 + t.hours * 3600000000 + t.minutes * 60000000
      + t.seconds * 1000000 + t.milliseconds * 1000 + t.microseconds := by
  unfold Timeout.toMicros; omega

/-- while its timeout has not elapsed an instance's resources are not released -/
theorem alive_not_destroyed (c : Cfg) (s : State) (t now : Nat) (ev : Ev) (hinv : Inv s t) (ht : t ≤ now)
    (k τ l : Nat) (h : Holds s k τ l) (hl : l ≤ now) (hn : now < l + τ) :
    (step c s now ev).1.destroyed.count k = s.destroyed.count k := by
  cases ev with
  | create τ' => simp only [step, create]; exact sweep_keeps_count s t now k τ l hinv h hn
  | metrics => exact sweep_keeps_count s t now k τ l hinv h hn
  | fullMetrics => exact sweep_keeps_count s t now k τ l hinv h hn
  | access j kind =>
    simp only [step, access]
    have he := holds_ensure s k τ l now j h
    have hinv1 := inv_ensure s t now j hinv ht
    have hd1 := ensure_destroyed s now j
    cases hen : ensure s now j with
    | mk s1 b =>
      rw [hen] at he hinv1 hd1
      cases b with
      | false => rfl
      | true =>
        simp only at hd1 ⊢
        have hinv2 := inv_touch s1 now now j hinv1 (Nat.le_refl _)
        have h2 := sweep_keeps_count (touch now j s1) now now k τ l hinv2 (holds_touch s1 k τ l now j he hl) hn
        have h2' : (sweep now (touch now j s1)).destroyed.count k = s.destroyed.count k := by
          rw [h2]; simp only [touch]; rw [hd1]
        cases hf : findInst (sweep now (touch now j s1)) j with
        | none => exact h2'
        | some x => simp only; rw [(applyKind_core _ x kind).2.1]; exact h2'
  | keepAlive j =>
    simp only [step, keepAlive]
    cases hr : c.keepAliveRestores with
    | true =>
      simp only [if_true]
      have he := holds_ensure s k τ l now j h
      have hinv1 := inv_ensure s t now j hinv ht
      have hd1 := ensure_destroyed s now j
      cases hen : ensure s now j with
      | mk s1 b =>
        rw [hen] at he hinv1 hd1
        cases b with
        | false => rfl
        | true =>
          simp only at hd1 ⊢
          have hinv2 := inv_touch s1 now now j hinv1 (Nat.le_refl _)
          rw [sweep_keeps_count (touch now j s1) now now k τ l hinv2 (holds_touch s1 k τ l now j he hl) hn]
          simp only [touch]; rw [hd1]
    | false =>
      simp only [Bool.false_eq_true, if_false]
      cases hasId s j with
      | false => rfl
      | true =>
        simp only
        have hinv2 := inv_touch s t now j hinv ht
        rw [sweep_keeps_count (touch now j s) now now k τ l hinv2 (holds_touch s k τ l now j h hl) hn]
        rfl

/-! ### the property -/

/-- Everything the statement says except "keep-alive restores an externalised instance": for every
well-timed history from the empty server, in the state `s` it leads to, for every next request `ev` at
every later clock value `now`. -/
def C17_core (c : Cfg) : Prop :=
  ∀ (evs : List (Nat × Ev)), wellTimed 0 evs = true →
    ∀ (now : Nat), endTime 0 evs ≤ now → ∀ (ev : Ev),
      let s := run c State.init evs
      let s' := (step c s now ev).1
      -- (1) less than the timeout elapsed since the last access: still there, same timeout, timer not moved back, not released
      (∀ i ∈ s.insts, now < i.last + i.timeout →
        (∃ j ∈ s'.insts, j.id = i.id ∧ j.timeout = i.timeout ∧ i.last ≤ j.last) ∧
        s'.destroyed.count i.id = s.destroyed.count i.id) ∧
      -- (2) never removed early
      (∀ i ∈ s.insts, (∀ j ∈ s'.insts, j.id ≠ i.id) → i.last + i.timeout ≤ now) ∧
      -- (3) every instance-scoped request and keep-alive succeeds on a present instance and restarts its timer
      (∀ i ∈ s.insts, 0 < i.timeout → ∀ kind,
        (∃ j ∈ (access s now i.id kind).1.insts, j.id = i.id ∧ j.last = now ∧ j.timeout = i.timeout) ∧
        ((kind ≠ .step ∨ i.sess = true) → (access s now i.id kind).2 = true)) ∧
      (∀ i ∈ s.insts, 0 < i.timeout →
        (∃ j ∈ (keepAlive c s now i.id).1.insts, j.id = i.id ∧ j.last = now ∧ j.timeout = i.timeout) ∧
        (keepAlive c s now i.id).2 = true) ∧
      -- (4) full timeout elapsed: gone after the next trigger, released exactly once
      (∀ i ∈ s.insts, i.last + i.timeout ≤ now → isTrigger c s i.id ev = true →
        (∀ j ∈ s'.insts, j.id ≠ i.id) ∧ s'.destroyed.count i.id = s.destroyed.count i.id + 1) ∧
      -- (5) id refused when gone and not externalised (and nothing changes)
      (∀ k kind, hasId s k = false → lookupStored s.stored k = none →
        access s now k kind = (s, false) ∧ keepAlive c s now k = (s, false)) ∧
      -- (6) externalised: the next instance-scoped request restores it transparently
      (∀ k τ kind, hasId s k = false → lookupStored s.stored k = some τ → 0 < τ →
        (access s now k kind).2 = true ∧
        ∃ j ∈ (access s now k kind).1.insts, j.id = k ∧ j.last = now ∧ j.timeout = τ)

/-- keep-alive is a request to the instance as well: it restores an externalised instance -/
def C17_keepalive_restores (c : Cfg) : Prop :=
  ∀ (evs : List (Nat × Ev)), wellTimed 0 evs = true →
    ∀ (now : Nat), endTime 0 evs ≤ now →
      let s := run c State.init evs
      ∀ k τ, hasId s k = false → lookupStored s.stored k = some τ → 0 < τ →
        (keepAlive c s now k).2 = true ∧
        ∃ j ∈ (keepAlive c s now k).1.insts, j.id = k ∧ j.last = now ∧ j.timeout = τ

/-- The property at full strength. -/
def C17_full (c : Cfg) : Prop := C17_core c ∧ C17_keepalive_restores c

/-- holds whatever the configuration -/
theorem C17_partial (c : Cfg) : C17_core c := by
  intro evs hw now hnow ev
  have hinv := inv_run c evs State.init 0 inv_init hw
  refine ⟨?_, ?_, ?_, ?_, ?_, ?_, ?_⟩
  · intro i hi hlt
    have hl : i.last ≤ now := Nat.le_trans (hinv.lastLe i hi) hnow
    have hh : Holds (run c State.init evs) i.id i.timeout i.last := ⟨i, hi, rfl, rfl, Nat.le_refl _⟩
    exact ⟨alive_step c _ i.id i.timeout i.last now ev hh hl hlt,
      alive_not_destroyed c _ _ now ev hinv hnow i.id i.timeout i.last hh hl hlt⟩
  · intro i hi hg
    exact C17_never_early c _ _ now ev hinv hnow i hi hg
  · intro i hi hτ kind
    exact C17_access_resets _ _ now hinv hnow i hi hτ kind
  · intro i hi hτ
    exact C17_keepalive_resets c _ _ now hinv hnow i hi hτ
  · intro i hi hexp htr
    exact C17_gone_after_trigger c _ _ now ev hinv hnow i hi hexp htr
  · intro k kind habs hst
    exact C17_refused c _ now k kind habs hst
  · intro k τ kind habs hst hτ
    exact C17_restore _ _ now k τ kind hinv hnow habs hst hτ

theorem C17_full_of_good (c : Cfg) (hc : c.keepAliveRestores = true) : C17_full c := by
  refine ⟨C17_partial c, ?_⟩
  intro evs hw now hnow s k τ habs hst hτ
  exact C17_restore_keepalive c hc _ _ now k τ (inv_run c evs State.init 0 inv_init hw) hnow habs hst hτ

/-- Negation witness `keep-alive-no-restore`: create (1 s), begin-session, run-step (externalised),
metrics at 5 s (timed out and swept), keep-alive at 6 s is refused and restores nothing. -/
theorem C17_witness_keepalive (c : Cfg) (hc : c.keepAliveRestores = false) : ¬ C17_full c := by
  intro h
  have := h.2 [(0, .create 1000000), (1, .access 0 .begin), (2, .access 0 .step), (5000000, .metrics)]
    (by decide) 6000000 (by decide) 0 1000000
  cases c; simp only at hc; subst hc
  revert this; decide

/-! ### non-vacuity -/

-- boundary: one microsecond before `last + timeout` the instance is there, at `last + timeout` it is gone and released once
example : ((run ⟨false⟩ State.init [(0, .create 2000000), (1999999, .metrics)]).insts.map (·.id),
           (run ⟨false⟩ State.init [(0, .create 2000000), (2000000, .metrics)]).insts.map (·.id),
           (run ⟨false⟩ State.init [(0, .create 2000000), (2000000, .metrics), (2000001, .fullMetrics)]).destroyed)
          = ([0], [], [0]) := by decide
-- own access before any sweep revives an expired instance; restore of an externalised one
example : (run ⟨false⟩ State.init [(0, .create 10), (50, .access 0 .begin), (55, .access 0 .step), (70, .create 5),
           (80, .access 0 .results)]).insts.map (fun i => (i.id, i.last, i.timeout, i.sess)) = [(0, 80, 10, true)] := by decide
example : isTrigger ⟨false⟩ (run ⟨false⟩ State.init [(0, .create 10), (0, .create 7)]) 0 (.access 1 .results) = true := by decide

#print axioms C17_alive
#print axioms C17_never_early
#print axioms C17_access_resets
#print axioms C17_keepalive_resets
#print axioms C17_gone_after_trigger
#print axioms C17_refused
#print axioms C17_restore
#print axioms C17_restore_keepalive
#print axioms C17_partial
#print axioms C17_full_of_good
#print axioms C17_witness_keepalive
#print axioms inv_run
#print axioms units_sum

/-! ## Wave 2 — `stop-instance`, `save-state`, `load-state`; the global destroy balance -/

/-! ### stored-state lemmas -/

theorem lookupStored_mem (st : List (Nat × Nat)) (k τ : Nat) (h : lookupStored st k = some τ) : (k, τ) ∈ st := by
  induction st with
  | nil => simp [lookupStored] at h
  | cons x rest ih =>
    obtain ⟨a, b⟩ := x
    simp only [lookupStored] at h
    split at h
    · rename_i e; cases h; simp [e]
    · exact List.mem_cons_of_mem _ (ih h)

theorem lookupStored_drop (st : List (Nat × Nat)) (k j τ : Nat) (h : lookupStored (dropStored st k) j = some τ) :
    lookupStored st j = some τ := by
  induction st with
  | nil => simp [dropStored, lookupStored] at h
  | cons x rest ih =>
    obtain ⟨a, b⟩ := x
    simp only [dropStored, List.filter_cons] at h
    split at h
    · rename_i hak
      simp only [lookupStored] at h ⊢
      split
      · rename_i e; simpa [e] using h
      · rename_i e; simp only [e, if_false] at h; exact ih h
    · rename_i hak
      have hak' : a = k := by simpa using hak
      simp only [lookupStored]
      have hj : j ≠ k := by
        intro e
        have hm := lookupStored_mem _ _ _ h
        simp only [dropStored, List.mem_filter] at hm
        simp [e] at hm
      split
      · rename_i e; exact absurd (e ▸ hak') (by omega)
      · exact ih h

theorem lookupStored_append (a b : List (Nat × Nat)) (k τ : Nat) (h : lookupStored (a ++ b) k = some τ) :
    (k, τ) ∈ a ∨ lookupStored b k = some τ := by
  induction a with
  | nil => right; simpa using h
  | cons x rest ih =>
    obtain ⟨p, q⟩ := x
    simp only [List.cons_append, lookupStored] at h
    split at h
    · rename_i e; cases h; left; simp [e]
    · rcases ih h with h1 | h1
      · left; exact List.mem_cons_of_mem _ h1
      · right; exact h1

/-- a stored timeout is the timeout of the live instance of that id -/
def Cons (s : State) : Prop := ∀ i ∈ s.insts, ∀ τ, lookupStored s.stored i.id = some τ → τ = i.timeout

/-- `s'` has the stored table of `s` and only instances (id, timeout) that `s` has -/
def Sub (s' s : State) : Prop :=
  s'.stored = s.stored ∧ ∀ j ∈ s'.insts, ∃ i ∈ s.insts, i.id = j.id ∧ i.timeout = j.timeout

theorem cons_of_sub (s' s : State) (h : Sub s' s) (hc : Cons s) : Cons s' := by
  intro j hj τ hτ
  obtain ⟨i, hi, h1, h2⟩ := h.2 j hj
  rw [h.1, ← h1] at hτ
  rw [← h2]; exact hc i hi τ hτ

theorem sub_sweep (now : Nat) (s : State) : Sub (sweep now s) s :=
  ⟨rfl, fun j hj => ⟨j, ((mem_sweep now s j).mp hj).1, rfl, rfl⟩⟩

theorem sub_touch (now k : Nat) (s : State) : Sub (touch now k s) s := by
  refine ⟨rfl, ?_⟩
  intro j hj
  simp only [touch] at hj
  obtain ⟨i, hi, rfl⟩ := List.mem_map.mp hj
  exact ⟨i, hi, (touchInst_id _ _ _).symm, (touchInst_timeout _ _ _).symm⟩

theorem sub_setSess (s : State) (k : Nat) (b : Bool) : Sub { s with insts := s.insts.map (setSess k b) } s := by
  refine ⟨rfl, ?_⟩
  intro j hj
  obtain ⟨i, hi, rfl⟩ := List.mem_map.mp hj
  exact ⟨i, hi, (setSess_id _ _ _).symm, (setSess_timeout _ _ _).symm⟩

theorem cons_ensure (s : State) (now k : Nat) (hc : Cons s) : Cons (ensure s now k).1 := by
  unfold ensure
  split
  · exact hc
  · split
    · exact hc
    · rename_i τ hτ
      intro i hi τ' hτ'
      simp only [List.mem_append, List.mem_singleton] at hi
      rcases hi with hi | rfl
      · exact hc i hi τ' hτ'
      · simp only at hτ' ⊢
        rw [hτ] at hτ'; exact (Option.some.inj hτ').symm

theorem cons_applyKind (s : State) (t : Nat) (i : Inst) (hi : i ∈ s.insts) (kind : Kind) (hinv : Inv s t) (hc : Cons s) :
    Cons (applyKind s i kind).1 := by
  cases kind
  · exact cons_of_sub _ s (sub_setSess s i.id true) hc
  · exact hc
  · simp only [applyKind]; split
    · intro j hj τ hτ
      simp only [lookupStored] at hτ
      split at hτ
      · rename_i e
        cases hτ
        rw [eq_of_nodup_id _ hinv.nodup i j hi hj e]
      · exact hc j hj τ hτ
    · exact hc
  · exact cons_of_sub _ s (sub_setSess s i.id false) hc

theorem cons_step (c : Cfg) (s : State) (t now : Nat) (ev : Ev) (hinv : Inv s t) (ht : t ≤ now) (hc : Cons s) :
    Cons (step c s now ev).1 := by
  have touched : ∀ (s1 : State) (j : Nat), Cons s1 → Cons (sweep now (touch now j s1)) := fun s1 j h1 =>
    cons_of_sub _ _ (sub_sweep now _) (cons_of_sub _ _ (sub_touch now j s1) h1)
  cases ev with
  | create τ =>
    simp only [step, create]
    have h1 := cons_of_sub _ s (sub_sweep now s) hc
    have hi1 := inv_sweep s t now hinv
    intro i hi τ' hτ'
    simp only [List.mem_append, List.mem_singleton] at hi
    rcases hi with hi | rfl
    · exact h1 i hi τ' hτ'
    · exact absurd (hi1.storedBound _ τ' hτ') (Nat.lt_irrefl _)
  | access k kind =>
    simp only [step, access]
    have he := cons_ensure s now k hc
    have hie := inv_ensure s t now k hinv ht
    cases hen : ensure s now k with
    | mk s1 b =>
      rw [hen] at he hie
      cases b with
      | false => exact hc
      | true =>
        simp only
        have h2 := touched s1 k he
        have hi2 := inv_sweep _ now now (inv_touch s1 now now k hie (Nat.le_refl _))
        cases hf : findInst (sweep now (touch now k s1)) k with
        | none => exact h2
        | some i => exact cons_applyKind _ now i (findInst_mem _ _ _ hf).1 kind hi2 h2
  | keepAlive k =>
    simp only [step, keepAlive]
    cases hr : c.keepAliveRestores with
    | true =>
      simp only [if_true]
      have he := cons_ensure s now k hc
      cases hen : ensure s now k with
      | mk s1 b =>
        rw [hen] at he
        cases b with
        | false => exact hc
        | true => exact touched s1 k he
    | false =>
      simp only [Bool.false_eq_true, if_false]
      cases hasId s k with
      | false => exact hc
      | true => exact touched s k hc
  | metrics => exact cons_of_sub _ s (sub_sweep now s) hc
  | fullMetrics => exact cons_of_sub _ s (sub_sweep now s) hc

/-! ### the new events keep the invariant -/

theorem inv_stop (s : State) (t k : Nat) (h : Inv s t) : Inv (stopInst s k) t := by
  constructor
  · simp only [stopInst]
    exact List.Nodup.sublist (List.Sublist.map _ List.filter_sublist) h.nodup
  · intro i hi; exact h.bound i (List.mem_filter.mp hi).1
  · intro i hi; exact h.lastLe i (List.mem_filter.mp hi).1
  · intro j τ hj; exact h.storedBound j τ (lookupStored_drop _ k j τ hj)

theorem cons_stop (s : State) (k : Nat) (hc : Cons s) : Cons (stopInst s k) := by
  intro i hi τ hτ
  exact hc i (List.mem_filter.mp hi).1 τ (lookupStored_drop _ k _ τ hτ)

theorem saveState_insts (s : State) : (saveState s).1.insts = s.insts := rfl

/-- save-state always succeeds -/
theorem saveState_ok (s : State) : (saveState s).2 = true := rfl

/-- save-state externalises exactly the live instances that have a session, with their timeout -/
theorem saveState_stores (s : State) (i : Inst) (hi : i ∈ s.insts) (hs : i.sess = true) :
    (i.id, i.timeout) ∈ (saveState s).1.stored := by
  simp only [saveState, List.mem_append, List.mem_reverse, List.mem_map, List.mem_filter]
  exact Or.inl ⟨i, ⟨hi, hs⟩, rfl⟩

theorem saveState_stored (s : State) (k τ : Nat) (h : lookupStored (saveState s).1.stored k = some τ) :
    (∃ i ∈ s.insts, i.sess = true ∧ i.id = k ∧ i.timeout = τ) ∨ lookupStored s.stored k = some τ := by
  unfold saveState at h
  rcases lookupStored_append _ _ k τ h with h1 | h1
  · left
    simp only [List.mem_reverse, List.mem_map, List.mem_filter, Prod.mk.injEq] at h1
    obtain ⟨i, ⟨hi, hs⟩, h2, h3⟩ := h1
    exact ⟨i, hi, hs, h2, h3⟩
  · right; exact h1

theorem inv_save (s : State) (t : Nat) (h : Inv s t) : Inv (saveState s).1 t := by
  refine ⟨by rw [saveState_insts]; exact h.nodup, ?_, by rw [saveState_insts]; exact h.lastLe, ?_⟩
  · intro i hi
    rw [saveState_insts] at hi
    exact h.bound i hi
  · intro k τ hk
    show k < s.next
    rcases saveState_stored s k τ hk with ⟨i, hi, _, h1, _⟩ | h1
    · rw [← h1]; exact h.bound i hi
    · exact h.storedBound k τ h1

theorem cons_save (s : State) (t : Nat) (hinv : Inv s t) (hc : Cons s) : Cons (saveState s).1 := by
  intro j hj τ hτ
  rw [saveState_insts] at hj
  rcases saveState_stored s j.id τ hτ with ⟨i, hi, _, h1, h2⟩ | h1
  · rw [← h2, eq_of_nodup_id _ hinv.nodup i j hi hj h1]
  · exact hc j hj τ h1

theorem lookupStored_some_of_mem (st : List (Nat × Nat)) (k τ : Nat) (h : (k, τ) ∈ st) :
    ∃ τ', lookupStored st k = some τ' := by
  induction st with
  | nil => cases h
  | cons x rest ih =>
    obtain ⟨a, b⟩ := x
    simp only [lookupStored]
    split
    · exact ⟨b, rfl⟩
    · rename_i e
      rcases List.mem_cons.mp h with h1 | h1
      · exact absurd (Prod.mk.inj h1).1.symm e
      · exact ih h1

/-- after `save-state` every live instance that has a session is externalised with its own timeout: once
it has timed out and been swept, the next request restores it (`C17_restore`) -/
theorem saveState_lookup (s : State) (t : Nat) (hinv : Inv s t) (hc : Cons s) (i : Inst) (hi : i ∈ s.insts)
    (hs : i.sess = true) : lookupStored (saveState s).1.stored i.id = some i.timeout := by
  obtain ⟨τ', hτ'⟩ := lookupStored_some_of_mem _ _ _ (saveState_stores s i hi hs)
  rw [hτ', cons_save s t hinv hc i (by rw [saveState_insts]; exact hi) τ' hτ']

theorem replaceInst_id (n i : Inst) : (replaceInst n i).id = i.id := by
  unfold replaceInst; split
  · rename_i e; exact e.symm
  · rfl

theorem loadOne_next (now : Nat) (s : State) (kτ : Nat × Nat) : (loadOne now s kτ).next = s.next := by
  unfold loadOne; split <;> rfl

theorem loadOne_stored (now : Nat) (s : State) (kτ : Nat × Nat) : (loadOne now s kτ).stored = s.stored := by
  unfold loadOne; split <;> rfl

theorem loadOne_destroyed (now : Nat) (s : State) (kτ : Nat × Nat) : (loadOne now s kτ).destroyed = s.destroyed := by
  unfold loadOne; split <;> rfl

theorem inv_loadOne (now : Nat) (s : State) (kτ : Nat × Nat) (h : Inv s now) (hk : kτ.1 < s.next) :
    Inv (loadOne now s kτ) now := by
  unfold loadOne
  split
  · constructor
    · have : ∀ n : Inst, (s.insts.map (replaceInst n)).map (·.id) = s.insts.map (·.id) := by
        intro n; simp [List.map_map, Function.comp_def, replaceInst_id]
      simp only [this]; exact h.nodup
    · intro i hi
      obtain ⟨j, hj, rfl⟩ := List.mem_map.mp hi
      rw [replaceInst_id]; exact h.bound j hj
    · intro i hi
      obtain ⟨j, hj, rfl⟩ := List.mem_map.mp hi
      unfold replaceInst; split
      · simp
      · exact h.lastLe j hj
    · exact h.storedBound
  · rename_i hn
    have hn' := (hasId_false_iff s kτ.1).mp (by simpa using hn)
    constructor
    · simp only [List.map_append, List.map_cons, List.map_nil]
      rw [List.nodup_append]
      refine ⟨h.nodup, by simp, ?_⟩
      intro a ha b hb
      simp at hb; subst hb
      obtain ⟨i, hi, rfl⟩ := List.mem_map.mp ha
      exact hn' i hi
    · intro i hi
      simp only [List.mem_append, List.mem_singleton] at hi
      rcases hi with hi | rfl
      · exact h.bound i hi
      · exact hk
    · intro i hi
      simp only [List.mem_append, List.mem_singleton] at hi
      rcases hi with hi | rfl
      · exact h.lastLe i hi
      · simp
    · exact h.storedBound

theorem cons_loadOne (now : Nat) (s : State) (kτ : Nat × Nat) (hc : Cons s)
    (hk : lookupStored s.stored kτ.1 = some kτ.2) : Cons (loadOne now s kτ) := by
  unfold loadOne
  split
  · intro i hi τ hτ
    obtain ⟨j, hj, rfl⟩ := List.mem_map.mp hi
    rw [replaceInst_id] at hτ
    unfold replaceInst; split
    · rename_i e
      simp only at hτ ⊢
      rw [e, hk] at hτ; exact (Option.some.inj hτ).symm
    · exact hc j hj τ hτ
  · intro i hi τ hτ
    simp only [List.mem_append, List.mem_singleton] at hi
    rcases hi with hi | rfl
    · exact hc i hi τ hτ
    · simp only at hτ ⊢
      rw [hk] at hτ; exact (Option.some.inj hτ).symm

theorem mem_storedIds (s : State) (kτ : Nat × Nat) (h : kτ ∈ storedIds s) :
    kτ.1 < s.next ∧ lookupStored s.stored kτ.1 = some kτ.2 := by
  simp only [storedIds, List.mem_filterMap, List.mem_range, Option.map_eq_some_iff] at h
  obtain ⟨k, hk, τ, hτ, rfl⟩ := h
  exact ⟨hk, hτ⟩

theorem mem_loadEntries (s : State) (t : Nat) (hinv : Inv s t) (ord : List Nat) (kτ : Nat × Nat) (h : kτ ∈ loadEntries s ord) :
    kτ.1 < s.next ∧ lookupStored s.stored kτ.1 = some kτ.2 := by
  simp only [loadEntries, List.mem_filterMap, Option.map_eq_some_iff] at h
  obtain ⟨k, _, τ, hτ, rfl⟩ := h
  exact ⟨hinv.storedBound k τ hτ, hτ⟩

/-- what a fold of `loadOne` over entries of the stored table preserves -/
theorem load_fold (now : Nat) (l : List (Nat × Nat)) : ∀ (s : State) (n : Nat) (st : List (Nat × Nat)),
    s.next = n → s.stored = st → (∀ kτ ∈ l, kτ.1 < n ∧ lookupStored st kτ.1 = some kτ.2) → Inv s now → Cons s →
    Inv (l.foldl (loadOne now) s) now ∧ Cons (l.foldl (loadOne now) s) ∧
    (l.foldl (loadOne now) s).destroyed = s.destroyed ∧ (l.foldl (loadOne now) s).stored = s.stored ∧
    (l.foldl (loadOne now) s).next = s.next := by
  induction l with
  | nil => intro s n st _ _ _ hi hc; exact ⟨hi, hc, rfl, rfl, rfl⟩
  | cons x rest ih =>
    intro s n st hn hst hall hi hc
    have hx := hall x (by simp)
    simp only [List.foldl_cons]
    obtain ⟨a1, a2, a3, a4, a5⟩ := ih (loadOne now s x) n st (by rw [loadOne_next]; exact hn) (by rw [loadOne_stored]; exact hst)
      (fun kτ h => hall kτ (by simp [h])) (inv_loadOne now s x hi (by rw [hn]; exact hx.1))
      (cons_loadOne now s x hc (by rw [hst]; exact hx.2))
    exact ⟨a1, a2, by rw [a3, loadOne_destroyed], by rw [a4, loadOne_stored], by rw [a5, loadOne_next]⟩

theorem load_props (s : State) (t now : Nat) (hinv : Inv s t) (ht : t ≤ now) (hc : Cons s) :
    Inv (loadState s now) now ∧ Cons (loadState s now) ∧ (loadState s now).destroyed = s.destroyed := by
  obtain ⟨a1, a2, a3, _, _⟩ := load_fold now (storedIds s) s s.next s.stored rfl rfl
    (fun kτ h => mem_storedIds s kτ h) (inv_mono s t now hinv ht) hc
  exact ⟨a1, a2, a3⟩

/-- the invariant of wave 2: `Inv` and the consistency of stored timeouts -/
def Inv2 (s : State) (t : Nat) : Prop := Inv s t ∧ Cons s

theorem inv2_init : Inv2 State.init 0 := ⟨inv_init, by intro i hi; simp [State.init] at hi⟩

theorem inv2_step (c : Cfg) (s : State) (t now : Nat) (ev : Ev2) (h : Inv2 s t) (ht : t ≤ now) :
    Inv2 (step2 c s now ev).1 now := by
  cases ev with
  | old e => exact ⟨inv_step c s t now e h.1 ht, cons_step c s t now e h.1 ht h.2⟩
  | stop k => exact ⟨inv_mono _ t now (inv_stop s t k h.1) ht, cons_stop s k h.2⟩
  | saveState => exact ⟨inv_mono _ t now (inv_save s t h.1) ht, cons_save s t h.1 h.2⟩
  | loadState => exact ⟨(load_props s t now h.1 ht h.2).1, (load_props s t now h.1 ht h.2).2.1⟩
  | loadOrd ord =>
    obtain ⟨a1, a2, _, _, _⟩ := load_fold now (loadEntries s ord) s s.next s.stored rfl rfl
      (fun kτ hm => mem_loadEntries s t h.1 ord kτ hm) (inv_mono s t now h.1 ht) h.2
    exact ⟨a1, a2⟩

theorem inv2_run (c : Cfg) (evs : List (Nat × Ev2)) : ∀ (s : State) (t0 : Nat), Inv2 s t0 → wellTimed2 t0 evs = true →
    Inv2 (run2 c s evs) (endTime2 t0 evs) := by
  induction evs with
  | nil => intro s t0 h _; exact h
  | cons e rest ih =>
    intro s t0 h hw
    obtain ⟨t, ev⟩ := e
    simp only [wellTimed2, Bool.and_eq_true, decide_eq_true_eq] at hw
    exact ih _ t (inv2_step c s t0 t ev h hw.1) hw.2

/-! ### alive / never early over the extended alphabet -/

theorem holds_loadOne (now : Nat) (s : State) (kτ : Nat × Nat) (k τ l : Nat) (h : Holds s k τ l) (hl : l ≤ now)
    (hk : kτ.1 = k → kτ.2 = τ) : Holds (loadOne now s kτ) k τ l := by
  obtain ⟨i, hi, h1, h2, h3⟩ := h
  unfold loadOne
  split
  · by_cases e : kτ.1 = k
    · refine ⟨{ id := kτ.1, last := now, timeout := kτ.2, sess := true },
        List.mem_map.mpr ⟨i, hi, by simp [replaceInst, h1, e]⟩, e, hk e, hl⟩
    · exact ⟨i, List.mem_map.mpr ⟨i, hi, by simp [replaceInst, h1]; intro e'; exact absurd e'.symm e⟩, h1, h2, h3⟩
  · exact ⟨i, List.mem_append_left _ hi, h1, h2, h3⟩

theorem holds_load_fold (now : Nat) (k τ l : Nat) (hl : l ≤ now) (lst : List (Nat × Nat)) :
    ∀ (s : State), (∀ kτ ∈ lst, kτ.1 = k → kτ.2 = τ) → Holds s k τ l → Holds (lst.foldl (loadOne now) s) k τ l := by
  induction lst with
  | nil => intro s _ h; exact h
  | cons x rest ih =>
    intro s hall h
    simp only [List.foldl_cons]
    exact ih _ (fun kτ hm => hall kτ (by simp [hm])) (holds_loadOne now s x k τ l h hl (hall x (by simp)))

/-- `alive_step` over the extended alphabet: only an explicit `stop-instance` of the instance itself removes
an instance whose timeout has not elapsed; `load-state` keeps it (timer restarted, same timeout). -/
theorem alive_step2 (c : Cfg) (s : State) (t k τ l now : Nat) (ev : Ev2) (hinv : Inv2 s t) (h : Holds s k τ l)
    (hl : l ≤ now) (hn : now < l + τ) (hns : ev ≠ .stop k) : Holds (step2 c s now ev).1 k τ l := by
  cases ev with
  | old e => exact alive_step c s k τ l now e h hl hn
  | stop j =>
    obtain ⟨i, hi, h1, h2, h3⟩ := h
    have hj : j ≠ k := fun e => hns (by rw [e])
    refine ⟨i, ?_, h1, h2, h3⟩
    simp only [step2, stopInst, List.mem_filter]
    exact ⟨hi, by simp [h1]; exact fun e => hj e.symm⟩
  | saveState =>
    obtain ⟨i, hi, h1, h2, h3⟩ := h
    exact ⟨i, by simp only [step2]; rw [saveState_insts]; exact hi, h1, h2, h3⟩
  | loadState =>
    simp only [step2, loadState]
    refine holds_load_fold now k τ l hl (storedIds s) s ?_ h
    intro kτ hm e
    obtain ⟨i, hi, h1, h2, _⟩ := h
    have := hinv.2 i hi kτ.2 (by rw [h1, ← e]; exact (mem_storedIds s kτ hm).2)
    omega
  | loadOrd ord =>
    simp only [step2]
    refine holds_load_fold now k τ l hl (loadEntries s ord) s ?_ h
    intro kτ hm e
    obtain ⟨i, hi, h1, h2, _⟩ := h
    have := hinv.2 i hi kτ.2 (by rw [h1, ← e]; exact (mem_loadEntries s t hinv.1 ord kτ hm).2)
    omega

theorem alive_not_destroyed2 (c : Cfg) (s : State) (t now : Nat) (ev : Ev2) (hinv : Inv2 s t) (ht : t ≤ now)
    (k τ l : Nat) (h : Holds s k τ l) (hl : l ≤ now) (hn : now < l + τ) :
    (step2 c s now ev).1.destroyed.count k = s.destroyed.count k := by
  cases ev with
  | old e => exact alive_not_destroyed c s t now e hinv.1 ht k τ l h hl hn
  | stop j => rfl
  | saveState => rfl
  | loadState => simp only [step2]; rw [(load_props s t now hinv.1 ht hinv.2).2.2]
  | loadOrd ord =>
    simp only [step2]
    obtain ⟨_, _, a3, _, _⟩ := load_fold now (loadEntries s ord) s s.next s.stored rfl rfl
      (fun kτ hm => mem_loadEntries s t hinv.1 ord kτ hm) (inv_mono s t now hinv.1 ht) hinv.2
    rw [a3]

theorem C17_never_early2 (c : Cfg) (s : State) (t now : Nat) (ev : Ev2) (hinv : Inv2 s t) (ht : t ≤ now)
    (i : Inst) (hi : i ∈ s.insts) (hns : ev ≠ .stop i.id) (hgone : ∀ j ∈ (step2 c s now ev).1.insts, j.id ≠ i.id) :
    i.last + i.timeout ≤ now := by
  rcases Nat.lt_or_ge now (i.last + i.timeout) with hlt | hge
  · exfalso
    have hl : i.last ≤ now := Nat.le_trans (hinv.1.lastLe i hi) ht
    obtain ⟨j, hj, hid, _, _⟩ := alive_step2 c s t i.id i.timeout i.last now ev hinv ⟨i, hi, rfl, rfl, Nat.le_refl _⟩ hl hlt hns
    exact hgone j hj hid
  · exact hge

/-- `stop-instance`: the instance and its stored state are gone; its id is refused from then on -/
theorem C17_stop_refused (c : Cfg) (s : State) (now k : Nat) (kind : Kind) :
    hasId (stopInst s k) k = false ∧ lookupStored (stopInst s k).stored k = none ∧
    access (stopInst s k) now k kind = (stopInst s k, false) ∧ keepAlive c (stopInst s k) now k = (stopInst s k, false) := by
  have h1 : hasId (stopInst s k) k = false := by
    rw [hasId_false_iff]; intro i hi
    simp only [stopInst, List.mem_filter] at hi
    simpa using hi.2
  have h2 : lookupStored (stopInst s k).stored k = none := by
    cases hl : lookupStored (stopInst s k).stored k with
    | none => rfl
    | some τ =>
      have hm := lookupStored_mem _ _ _ hl
      simp [stopInst, dropStored] at hm
  exact ⟨h1, h2, C17_refused c _ now k kind h1 h2⟩

/-! ### the global destroy balance -/

/-- incarnations of id `k` ever made: its creation plus every restore (lazy, or by `load-state`) -/
def created (s : State) (k : Nat) : Nat := if k < s.next then 1 else 0

def incarnations (s : State) (k : Nat) : Nat := created s k + s.restored.count k

theorem created_congr (s' s : State) (k : Nat) (h : s'.next = s.next) : created s' k = created s k := by
  simp [created, h]

/-- every incarnation is accounted for exactly once: destroyed, dropped without `destroy()`, or live -/
def Bal (s : State) : Prop :=
  ∀ k, incarnations s k = s.destroyed.count k + s.dropped.count k + (s.insts.map (·.id)).count k

theorem count_partition (l : List Inst) (p : Inst → Bool) (k : Nat) :
    ((l.filter p).map (·.id)).count k + ((l.filter (fun i => !p i)).map (·.id)).count k = (l.map (·.id)).count k := by
  induction l with
  | nil => rfl
  | cons x xs ih =>
    simp only [List.filter_cons]
    cases hp : p x <;> simp [List.count_cons] <;> omega

theorem bal_sweep (now : Nat) (s : State) (h : Bal s) : Bal (sweep now s) := by
  intro k
  have hp := count_partition s.insts (expired now) k
  have := h k
  have hc : created (sweep now s) k = created s k := rfl
  simp only [incarnations, hc] at this ⊢
  simp only [sweep, List.count_append]
  omega

theorem bal_touch (now j : Nat) (s : State) (h : Bal s) : Bal (touch now j s) := by
  intro k
  have := h k
  have hc : created (touch now j s) k = created s k := rfl
  simp only [incarnations, hc] at this ⊢
  simp only [touch, map_touch_ids]
  exact this

theorem bal_ensure (s : State) (now j : Nat) (h : Bal s) : Bal (ensure s now j).1 := by
  unfold ensure
  split
  · exact h
  · split
    · exact h
    · intro k
      have := h k
      simp only [incarnations] at this ⊢
      show created s k + _ = _
      simp only [List.count_append, List.map_append, List.map_cons, List.map_nil, List.count_singleton]
      by_cases e : j = k <;> simp [e] <;> omega

theorem applyKind_ghost (s : State) (i : Inst) (kind : Kind) :
    (applyKind s i kind).1.insts.map (·.id) = s.insts.map (·.id) ∧ (applyKind s i kind).1.destroyed = s.destroyed ∧
    (applyKind s i kind).1.next = s.next ∧ (applyKind s i kind).1.restored = s.restored ∧
    (applyKind s i kind).1.dropped = s.dropped := by
  cases kind
  · exact ⟨map_setSess_ids _ _ _, rfl, rfl, rfl, rfl⟩
  · exact ⟨rfl, rfl, rfl, rfl, rfl⟩
  · simp only [applyKind]; split <;> exact ⟨rfl, rfl, rfl, rfl, rfl⟩
  · exact ⟨map_setSess_ids _ _ _, rfl, rfl, rfl, rfl⟩

theorem bal_applyKind (s : State) (i : Inst) (kind : Kind) (h : Bal s) : Bal (applyKind s i kind).1 := by
  intro k
  obtain ⟨a, b, c, d, e⟩ := applyKind_ghost s i kind
  have := h k
  simp only [incarnations] at this ⊢
  rw [created_congr _ s k c, a, b, d, e]; exact this

theorem bal_step (c : Cfg) (s : State) (now : Nat) (ev : Ev) (h : Bal s) : Bal (step c s now ev).1 := by
  cases ev with
  | create τ =>
    simp only [step, create]
    have h1 := bal_sweep now s h
    intro k
    have := h1 k
    simp only [incarnations, created, List.count_append, List.map_append, List.map_cons, List.map_nil, List.count_singleton] at this ⊢
    by_cases e : (sweep now s).next = k
    · have h1 : ¬ k < (sweep now s).next := by omega
      have h2 : k < (sweep now s).next + 1 := by omega
      have e' : ((sweep now s).next == k) = true := by simpa using e
      simp only [h1, h2, e', ↓reduceIte] at this ⊢
      omega
    · have e' : ((sweep now s).next == k) = false := by simpa using e
      by_cases e2 : k < (sweep now s).next
      · have h2 : k < (sweep now s).next + 1 := by omega
        simp only [e2, h2, e', Bool.false_eq_true, ↓reduceIte] at this ⊢
        omega
      · have h2 : ¬ k < (sweep now s).next + 1 := by omega
        simp only [e2, h2, e', Bool.false_eq_true, ↓reduceIte] at this ⊢
        omega
  | access j kind =>
    simp only [step, access]
    have he := bal_ensure s now j h
    cases hen : ensure s now j with
    | mk s1 b =>
      rw [hen] at he
      cases b with
      | false => exact h
      | true =>
        simp only
        have h2 := bal_sweep now _ (bal_touch now j s1 he)
        cases hf : findInst (sweep now (touch now j s1)) j with
        | none => exact h2
        | some i => exact bal_applyKind _ i kind h2
  | keepAlive j =>
    simp only [step, keepAlive]
    cases hr : c.keepAliveRestores with
    | true =>
      simp only [if_true]
      have he := bal_ensure s now j h
      cases hen : ensure s now j with
      | mk s1 b =>
        rw [hen] at he
        cases b with
        | false => exact h
        | true => exact bal_sweep now _ (bal_touch now j s1 he)
    | false =>
      simp only [Bool.false_eq_true, if_false]
      cases hasId s j with
      | false => exact h
      | true => exact bal_sweep now _ (bal_touch now j s h)
  | metrics => exact bal_sweep now s h
  | fullMetrics => exact bal_sweep now s h

theorem bal_stop (s : State) (j : Nat) (h : Bal s) : Bal (stopInst s j) := by
  intro k
  have hp := count_partition s.insts (fun i => i.id == j) k
  have := h k
  have hc : created (stopInst s j) k = created s k := rfl
  simp only [incarnations, hc] at this ⊢
  simp only [stopInst, List.count_append]
  omega

theorem bal_loadOne (now : Nat) (s : State) (kτ : Nat × Nat) (h : Bal s) : Bal (loadOne now s kτ) := by
  intro k
  have := h k
  unfold loadOne
  split
  · have hid : (s.insts.map (replaceInst { id := kτ.1, last := now, timeout := kτ.2, sess := true })).map (·.id)
        = s.insts.map (·.id) := by simp [List.map_map, Function.comp_def, replaceInst_id]
    simp only [incarnations] at this ⊢
    show created s k + _ = _
    simp only [List.count_append, List.count_singleton, hid]
    omega
  · simp only [incarnations] at this ⊢
    show created s k + _ = _
    simp only [List.count_append, List.map_append, List.map_cons, List.map_nil, List.count_singleton]
    omega

theorem bal_load_fold (now : Nat) (l : List (Nat × Nat)) : ∀ s, Bal s → Bal (l.foldl (loadOne now) s) := by
  induction l with
  | nil => intro s h; exact h
  | cons x rest ih => intro s h; exact ih _ (bal_loadOne now s x h)

theorem bal_step2 (c : Cfg) (s : State) (now : Nat) (ev : Ev2) (h : Bal s) : Bal (step2 c s now ev).1 := by
  cases ev with
  | old e => exact bal_step c s now e h
  | stop j => exact bal_stop s j h
  | saveState =>
    intro k
    exact h k
  | loadState => exact bal_load_fold now _ s h
  | loadOrd ord => exact bal_load_fold now _ s h

theorem bal_run2 (c : Cfg) (evs : List (Nat × Ev2)) : ∀ s, Bal s → Bal (run2 c s evs) := by
  induction evs with
  | nil => intro s h; exact h
  | cons e rest ih => intro s h; exact ih _ (bal_step2 c s e.1 e.2 h)

theorem bal_init : Bal State.init := by intro k; simp [incarnations, created, State.init]

/-- **Global destroy balance.**  After every history (any events, any times), for every id: the number of
incarnations ever made equals destroy() calls + objects dropped without destroy() + (1 if live).  Hence no
incarnation is destroyed twice, none that is live has been destroyed, and without `stop-instance` /
`load-state` overwrites every non-live incarnation has been destroyed exactly once. -/
theorem C17_destroy_balance (c : Cfg) (evs : List (Nat × Ev2)) (k : Nat) :
    let s := run2 c State.init evs
    incarnations s k = s.destroyed.count k + s.dropped.count k + (s.insts.map (·.id)).count k :=
  bal_run2 c evs State.init bal_init k

theorem C17_destroyed_at_most_once (c : Cfg) (evs : List (Nat × Ev2)) (k : Nat) :
    (run2 c State.init evs).destroyed.count k + (if hasId (run2 c State.init evs) k then 1 else 0)
      ≤ incarnations (run2 c State.init evs) k := by
  have hb := C17_destroy_balance c evs k
  simp only at hb
  generalize run2 c State.init evs = s at hb ⊢
  by_cases hh : hasId s k = true
  · obtain ⟨i, hi, hid⟩ := (hasId_iff s k).mp hh
    have : 0 < (s.insts.map (·.id)).count k := List.count_pos_iff.mpr (List.mem_map.mpr ⟨i, hi, hid⟩)
    simp only [hh, ↓reduceIte]; omega
  · have hh' : hasId s k = false := by simpa using hh
    simp only [hh', Bool.false_eq_true, ↓reduceIte]; omega

/-- only `stop-instance` and `load-state` drop an object without `destroy()` -/
theorem dropped_old (c : Cfg) (s : State) (now : Nat) (e : Ev) : (step c s now e).1.dropped = s.dropped := by
  have hsw : ∀ (s1 : State), (sweep now s1).dropped = s1.dropped := fun _ => rfl
  have hen : ∀ j, (ensure s now j).1.dropped = s.dropped := by
    intro j; unfold ensure; split
    · rfl
    · split <;> rfl
  cases e with
  | create τ => rfl
  | access j kind =>
    simp only [step, access]
    have := hen j
    cases he : ensure s now j with
    | mk s1 b =>
      rw [he] at this
      cases b with
      | false => rfl
      | true =>
        simp only
        cases hf : findInst (sweep now (touch now j s1)) j with
        | none => exact this
        | some i => simp only; rw [(applyKind_ghost _ i kind).2.2.2.2]; exact this
  | keepAlive j =>
    simp only [step, keepAlive]
    cases c.keepAliveRestores with
    | true =>
      simp only [if_true]
      have := hen j
      cases he : ensure s now j with
      | mk s1 b =>
        rw [he] at this
        cases b with
        | false => rfl
        | true => exact this
    | false =>
      simp only [Bool.false_eq_true, if_false]
      cases hasId s j <;> rfl
  | metrics => rfl
  | fullMetrics => rfl

/-! ### the property over the extended alphabet -/

def lift (evs : List (Nat × Ev)) : List (Nat × Ev2) := evs.map (fun e => (e.1, Ev2.old e.2))

theorem run2_lift (c : Cfg) (evs : List (Nat × Ev)) : ∀ s, run2 c s (lift evs) = run c s evs := by
  induction evs with
  | nil => intro s; rfl
  | cons e rest ih => intro s; obtain ⟨t, ev⟩ := e; simp only [lift, List.map_cons, run2, run, step2]; exact ih _

theorem wellTimed2_lift (evs : List (Nat × Ev)) : ∀ t0, wellTimed2 t0 (lift evs) = wellTimed t0 evs := by
  induction evs with
  | nil => intro t0; rfl
  | cons e rest ih => intro t0; obtain ⟨t, ev⟩ := e; simp only [lift, List.map_cons, wellTimed2, wellTimed]; rw [← ih t]; rfl

theorem endTime2_lift (evs : List (Nat × Ev)) : ∀ t0, endTime2 t0 (lift evs) = endTime t0 evs := by
  induction evs with
  | nil => intro t0; rfl
  | cons e rest ih => intro t0; obtain ⟨t, ev⟩ := e; simp only [lift, List.map_cons, endTime2, endTime]; rw [← ih t]; rfl

/-- `C17_core` over histories that may contain `stop-instance`, `save-state`, `load-state`, with the next
request ranging over the extended alphabet too.  Clauses (1), (2) except the instance's own explicit
`stop-instance`; new clauses (7) stop ⇒ gone, file gone, id refused; (8) the destroy balance. -/
def C17_core2 (c : Cfg) : Prop :=
  ∀ (evs : List (Nat × Ev2)), wellTimed2 0 evs = true →
    ∀ (now : Nat), endTime2 0 evs ≤ now → ∀ (ev : Ev2),
      let s := run2 c State.init evs
      let s' := (step2 c s now ev).1
      (∀ i ∈ s.insts, now < i.last + i.timeout → ev ≠ .stop i.id →
        (∃ j ∈ s'.insts, j.id = i.id ∧ j.timeout = i.timeout ∧ i.last ≤ j.last) ∧
        s'.destroyed.count i.id = s.destroyed.count i.id) ∧
      (∀ i ∈ s.insts, ev ≠ .stop i.id → (∀ j ∈ s'.insts, j.id ≠ i.id) → i.last + i.timeout ≤ now) ∧
      (∀ i ∈ s.insts, 0 < i.timeout → ∀ kind,
        (∃ j ∈ (access s now i.id kind).1.insts, j.id = i.id ∧ j.last = now ∧ j.timeout = i.timeout) ∧
        ((kind ≠ .step ∨ i.sess = true) → (access s now i.id kind).2 = true)) ∧
      (∀ i ∈ s.insts, 0 < i.timeout →
        (∃ j ∈ (keepAlive c s now i.id).1.insts, j.id = i.id ∧ j.last = now ∧ j.timeout = i.timeout) ∧
        (keepAlive c s now i.id).2 = true) ∧
      (∀ i ∈ s.insts, i.last + i.timeout ≤ now → isTrigger2 c s i.id ev = true →
        (∀ j ∈ s'.insts, j.id ≠ i.id) ∧ s'.destroyed.count i.id = s.destroyed.count i.id + 1) ∧
      (∀ k kind, hasId s k = false → lookupStored s.stored k = none →
        access s now k kind = (s, false) ∧ keepAlive c s now k = (s, false)) ∧
      (∀ k τ kind, hasId s k = false → lookupStored s.stored k = some τ → 0 < τ →
        (access s now k kind).2 = true ∧
        ∃ j ∈ (access s now k kind).1.insts, j.id = k ∧ j.last = now ∧ j.timeout = τ) ∧
      (∀ k kind, hasId (stopInst s k) k = false ∧ lookupStored (stopInst s k).stored k = none ∧
        access (stopInst s k) now k kind = (stopInst s k, false) ∧
        keepAlive c (stopInst s k) now k = (stopInst s k, false)) ∧
      (∀ k, incarnations s k = s.destroyed.count k + s.dropped.count k + (s.insts.map (·.id)).count k)

def C17_keepalive_restores2 (c : Cfg) : Prop :=
  ∀ (evs : List (Nat × Ev2)), wellTimed2 0 evs = true →
    ∀ (now : Nat), endTime2 0 evs ≤ now →
      let s := run2 c State.init evs
      ∀ k τ, hasId s k = false → lookupStored s.stored k = some τ → 0 < τ →
        (keepAlive c s now k).2 = true ∧
        ∃ j ∈ (keepAlive c s now k).1.insts, j.id = k ∧ j.last = now ∧ j.timeout = τ

def C17_full2 (c : Cfg) : Prop := C17_core2 c ∧ C17_keepalive_restores2 c

theorem C17_partial2 (c : Cfg) : C17_core2 c := by
  intro evs hw now hnow ev
  have hinv := inv2_run c evs State.init 0 inv2_init hw
  refine ⟨?_, ?_, ?_, ?_, ?_, ?_, ?_, ?_, ?_⟩
  · intro i hi hlt hns
    have hl : i.last ≤ now := Nat.le_trans (hinv.1.lastLe i hi) hnow
    have hh : Holds (run2 c State.init evs) i.id i.timeout i.last := ⟨i, hi, rfl, rfl, Nat.le_refl _⟩
    exact ⟨alive_step2 c _ _ i.id i.timeout i.last now ev hinv hh hl hlt hns,
      alive_not_destroyed2 c _ _ now ev hinv hnow i.id i.timeout i.last hh hl hlt⟩
  · intro i hi hns hg
    exact C17_never_early2 c _ _ now ev hinv hnow i hi hns hg
  · intro i hi hτ kind
    exact C17_access_resets _ _ now hinv.1 hnow i hi hτ kind
  · intro i hi hτ
    exact C17_keepalive_resets c _ _ now hinv.1 hnow i hi hτ
  · intro i hi hexp htr
    cases ev with
    | old e => exact C17_gone_after_trigger c _ _ now e hinv.1 hnow i hi hexp htr
    | stop j => simp [isTrigger2] at htr
    | saveState => simp [isTrigger2] at htr
    | loadState => simp [isTrigger2] at htr
    | loadOrd _ => simp [isTrigger2] at htr
  · intro k kind habs hst
    exact C17_refused c _ now k kind habs hst
  · intro k τ kind habs hst hτ
    exact C17_restore _ _ now k τ kind hinv.1 hnow habs hst hτ
  · intro k kind
    exact C17_stop_refused c _ now k kind
  · intro k
    exact C17_destroy_balance c evs k

theorem C17_full2_of_good (c : Cfg) (hc : c.keepAliveRestores = true) : C17_full2 c := by
  refine ⟨C17_partial2 c, ?_⟩
  intro evs hw now hnow s k τ habs hst hτ
  exact C17_restore_keepalive c hc _ _ now k τ (inv2_run c evs State.init 0 inv2_init hw).1 hnow habs hst hτ

/-- nothing was weakened: the statement over the extended alphabet implies the statement of wave 1 -/
theorem C17_full2_implies_full (c : Cfg) (h : C17_full2 c) : C17_full c := by
  constructor
  · intro evs hw now hnow ev
    have := h.1 (lift evs) (by rw [wellTimed2_lift]; exact hw) now (by rw [endTime2_lift]; exact hnow) (.old ev)
    simp only [run2_lift] at this
    obtain ⟨h1, h2, h3, h4, h5, h6, h7, _, _⟩ := this
    exact ⟨fun i hi hlt => h1 i hi hlt (by simp), fun i hi hg => h2 i hi (by simp) hg, h3, h4, h5, h6, h7⟩
  · intro evs hw now hnow
    have := h.2 (lift evs) (by rw [wellTimed2_lift]; exact hw) now (by rw [endTime2_lift]; exact hnow)
    simp only [run2_lift] at this
    exact this

theorem C17_witness_keepalive2 (c : Cfg) (hc : c.keepAliveRestores = false) : ¬ C17_full2 c :=
  fun h => C17_witness_keepalive c hc (C17_full2_implies_full c h)

/-! ### timeouts outside the documented contract -/

/-- the code compares `now ≥ last + timeout` with a signed timeout; the machine runs on the clamped one:
for `last ≤ now` the two tests agree -/
theorem clamp_expiry (last now : Nat) (z : Int) (h : last ≤ now) :
    ((last : Int) + z ≤ (now : Int)) ↔ (last + clampTimeout z ≤ now) := by
  unfold clampTimeout; omega

/-- a negative timeout: expired at once, at every later clock value -/
theorem negative_timeout_expired (last now : Nat) (z : Int) (hz : z ≤ 0) (h : last ≤ now) :
    expired now { id := 0, last := last, timeout := clampTimeout z, sess := false } = true := by
  unfold expired clampTimeout
  simp only [decide_eq_true_eq]
  have : z.toNat = 0 := Int.toNat_eq_zero.mpr hz
  omega

/-- the rounded value is within half a microsecond of the exact quarter sum, ties to even -/
theorem roundHalfEvenDiv4_spec (z : Int) :
    let r := roundHalfEvenDiv4 z
    (4 * r - 2 ≤ z ∧ z ≤ 4 * r + 2) ∧ ((z = 4 * r - 2 ∨ z = 4 * r + 2) → r % 2 = 0) := by
  simp only [roundHalfEvenDiv4]
  split
  · omega
  · split
    · omega
    · split <;> omega

example : quarterMicros 0 0 0 0 2 0 10 = 500002 ∧ quarterMicros 0 0 0 0 0 0 (-10) = -2 ∧ quarterMicros 0 0 0 0 0 0 14 = 4 ∧
    quarterMicros 0 0 0 1 (-40) 0 0 = 5000000 := by decide

-- non-vacuity of the new events: restored short-timeout instance next to a live long-timeout one
example : (run2 ⟨true⟩ State.init [(0, .old (.create 2000000)), (0, .old (.create 3600000000)), (1, .old (.access 0 .begin)),
    (2, .old (.access 0 .step)), (3000000, .old .metrics), (4000000, .old (.access 0 .results)), (6000000, .old .metrics)]).insts.map (·.id)
    = [1] := by decide
example : let s := run2 ⟨true⟩ State.init [(0, .old (.create 1500000)), (0, .old (.create 86400000000)), (1, .old (.access 0 .begin)),
    (2, .saveState), (3, .old (.access 1 .begin)), (4, .saveState), (2000000, .old .fullMetrics), (3000000, .loadState), (5000000, .stop 1)]
    (s.insts.map (·.id), s.destroyed, s.dropped, s.restored) = ([0], [0], [1, 1], [0, 1]) := by decide

#print axioms inv2_run
#print axioms alive_step2
#print axioms C17_never_early2
#print axioms C17_stop_refused
#print axioms saveState_lookup
#print axioms C17_destroy_balance
#print axioms C17_destroyed_at_most_once
#print axioms dropped_old
#print axioms C17_partial2
#print axioms C17_full2_of_good
#print axioms C17_full2_implies_full
#print axioms C17_witness_keepalive2
#print axioms clamp_expiry
#print axioms roundHalfEvenDiv4_spec

/-! ## Wave 5 — the clock advances inside a request -/

theorem take_sum_le (l : List Nat) (n : Nat) : (l.take n).sum ≤ l.sum := by
  induction l generalizing n with
  | nil => simp
  | cons x xs ih =>
    cases n with
    | zero => simp
    | succ m => simp only [List.take_succ_cons, List.sum_cons]; have := ih m; omega

theorem rdOf_ge (t : Nat) (incs : List Nat) (n : Nat) : t ≤ rdOf t incs n := Nat.le_add_right _ _

theorem rdOf_le (t : Nat) (incs : List Nat) (n : Nat) : rdOf t incs n ≤ t + incs.sum := by
  unfold rdOf; have := take_sum_le incs n; omega

theorem rdOf_zero (t : Nat) (incs : List Nat) : rdOf t incs 0 = t := by simp [rdOf]

/-- the reads of a request never go backwards -/
theorem rdOf_mono (t : Nat) (incs : List Nat) (a b : Nat) (h : a ≤ b) : rdOf t incs a ≤ rdOf t incs b := by
  unfold rdOf
  have : incs.take a = (incs.take b).take a := by rw [List.take_take, Nat.min_eq_left h]
  rw [this]
  have := take_sum_le (incs.take b) a
  omega

theorem stampOf_le (c : CfgR) (t : Nat) : stampOf c t ≤ t := by
  unfold stampOf; split
  · exact Nat.le_refl _
  · exact Nat.div_mul_le_self t 1000000

theorem stampOf_exact (c : CfgR) (h : c.stampExact = true) (t : Nat) : stampOf c t = t := by simp [stampOf, h]

/-! ### one iteration of the sweep loop -/

theorem mem_sweepOne (t k : Nat) (s : State) (i : Inst) :
    i ∈ (sweepOne t k s).insts ↔ i ∈ s.insts ∧ ¬ (i.id = k ∧ i.last + i.timeout ≤ t) := by
  simp only [sweepOne, List.mem_filter]
  constructor
  · rintro ⟨h1, h2⟩
    refine ⟨h1, ?_⟩
    rintro ⟨e, hexp⟩
    simp [expired, e, hexp] at h2
  · rintro ⟨h1, h2⟩
    refine ⟨h1, ?_⟩
    by_cases e : i.id = k
    · have : ¬ i.last + i.timeout ≤ t := fun hh => h2 ⟨e, hh⟩
      simp [expired, e, this]
    · simp [e]

theorem inv_sweepOne (t k : Nat) (s : State) (h : Nat) (hi : Inv s h) : Inv (sweepOne t k s) h := by
  constructor
  · simp only [sweepOne]
    exact List.Nodup.sublist (List.Sublist.map _ List.filter_sublist) hi.nodup
  · intro i hm; exact hi.bound i ((mem_sweepOne t k s i).mp hm).1
  · intro i hm; exact hi.lastLe i ((mem_sweepOne t k s i).mp hm).1
  · exact hi.storedBound

theorem sub_sweepOne (t k : Nat) (s : State) : Sub (sweepOne t k s) s :=
  ⟨rfl, fun j hj => ⟨j, ((mem_sweepOne t k s j).mp hj).1, rfl, rfl⟩⟩

theorem sub_trans (a b c : State) (h1 : Sub a b) (h2 : Sub b c) : Sub a c := by
  refine ⟨h1.1.trans h2.1, ?_⟩
  intro j hj
  obtain ⟨i, hi, e1, e2⟩ := h1.2 j hj
  obtain ⟨i', hi', e3, e4⟩ := h2.2 i hi
  exact ⟨i', hi', e3.trans e1, e4.trans e2⟩

theorem sub_refl (s : State) : Sub s s := ⟨rfl, fun j hj => ⟨j, hj, rfl, rfl⟩⟩

theorem holds_sweepOne (t k : Nat) (s : State) (k' τ l : Nat) (h : Holds s k' τ l) (ht : t < l + τ) :
    Holds (sweepOne t k s) k' τ l := by
  obtain ⟨i, hi, h1, h2, h3⟩ := h
  exact ⟨i, (mem_sweepOne t k s i).mpr ⟨hi, by intro hh; omega⟩, h1, h2, h3⟩

/-- whatever each iteration of the loop preserves, the loop preserves -/
theorem sweepKeys_pres (P : State → Prop) (rd : Rd) (hP : ∀ n k s, P s → P (sweepOne (rd n) k s)) :
    ∀ (ks : List Nat) (n : Nat) (s : State), P s → P (sweepKeys rd ks n s) := by
  intro ks
  induction ks with
  | nil => intro n s h; exact h
  | cons k ks ih => intro n s h; exact ih (n + 1) _ (hP n k s h)

theorem inv_sweepR (rd : Rd) (n : Nat) (s : State) (h : Nat) (hi : Inv s h) : Inv (sweepR rd n s) h :=
  sweepKeys_pres (fun s => Inv s h) rd (fun n k s hs => inv_sweepOne (rd n) k s h hs) _ n s hi

theorem sub_sweepR (rd : Rd) (n : Nat) (s : State) : Sub (sweepR rd n s) s :=
  sweepKeys_pres (fun s' => Sub s' s) rd (fun n k s' hs => sub_trans _ _ _ (sub_sweepOne (rd n) k s') hs) _ n s (sub_refl s)

theorem holds_sweepR (rd : Rd) (n : Nat) (s : State) (k τ l : Nat) (h : Holds s k τ l) (hrd : ∀ m, rd m < l + τ) :
    Holds (sweepR rd n s) k τ l :=
  sweepKeys_pres (fun s => Holds s k τ l) rd (fun n k' s hs => holds_sweepOne (rd n) k' s k τ l hs (hrd n)) _ n s h

theorem mem_sweepR_of (rd : Rd) (n : Nat) (s : State) (i : Inst) (hi : i ∈ s.insts) (hrd : ∀ m, rd m < i.last + i.timeout) :
    i ∈ (sweepR rd n s).insts :=
  sweepKeys_pres (fun s => i ∈ s.insts) rd
    (fun n k s hs => (mem_sweepOne (rd n) k s i).mpr ⟨hs, by intro hh; have := hrd n; omega⟩) _ n s hi

theorem sweepOne_ghost (t k : Nat) (s : State) :
    (sweepOne t k s).stored = s.stored ∧ (sweepOne t k s).next = s.next ∧ (sweepOne t k s).restored = s.restored ∧
    (sweepOne t k s).dropped = s.dropped := ⟨rfl, rfl, rfl, rfl⟩

theorem sweepR_ghost (rd : Rd) (n : Nat) (s : State) :
    (sweepR rd n s).stored = s.stored ∧ (sweepR rd n s).next = s.next ∧ (sweepR rd n s).restored = s.restored ∧
    (sweepR rd n s).dropped = s.dropped :=
  sweepKeys_pres (fun s' => s'.stored = s.stored ∧ s'.next = s.next ∧ s'.restored = s.restored ∧ s'.dropped = s.dropped) rd
    (fun n k s' hs => hs) _ n s ⟨rfl, rfl, rfl, rfl⟩

/-- an instance whose timeout has not elapsed at any read is not released by the loop -/
theorem sweepOne_keeps_count (t k : Nat) (s : State) (h : Nat) (hinv : Inv s h) (k' τ l : Nat) (hh : Holds s k' τ l)
    (ht : t < l + τ) : (sweepOne t k s).destroyed.count k' = s.destroyed.count k' := by
  obtain ⟨i, hi, h1, h2, h3⟩ := hh
  simp only [sweepOne, List.count_append]
  rw [count_filter_zero]
  · rfl
  · intro j hj hid
    have := eq_of_nodup_id _ hinv.nodup j i hj hi (by omega)
    subst this
    simp [expired]; intro _; omega

theorem sweepR_keeps_count (rd : Rd) (n : Nat) (s : State) (h : Nat) (hinv : Inv s h) (k τ l : Nat) (hh : Holds s k τ l)
    (hrd : ∀ m, rd m < l + τ) : (sweepR rd n s).destroyed.count k = s.destroyed.count k := by
  have := sweepKeys_pres (fun s' => Inv s' h ∧ Holds s' k τ l ∧ s'.destroyed.count k = s.destroyed.count k) rd
    (fun n k' s' hs => ⟨inv_sweepOne (rd n) k' s' h hs.1, holds_sweepOne (rd n) k' s' k τ l hs.2.1 (hrd n),
      by rw [sweepOne_keeps_count (rd n) k' s' h hs.1 k τ l hs.2.1 (hrd n)]; exact hs.2.2⟩)
    (s.insts.map (·.id)) n s ⟨hinv, hh, rfl⟩
  exact this.2.2

/-- once an id is absent the loop neither brings it back nor releases it again -/
theorem sweepKeys_absent (rd : Rd) (k : Nat) : ∀ (ks : List Nat) (n : Nat) (s : State), (∀ j ∈ s.insts, j.id ≠ k) →
    (∀ j ∈ (sweepKeys rd ks n s).insts, j.id ≠ k) ∧ (sweepKeys rd ks n s).destroyed.count k = s.destroyed.count k := by
  intro ks
  induction ks with
  | nil => intro n s h; exact ⟨h, rfl⟩
  | cons k' ks ih =>
    intro n s h
    have h1 : ∀ j ∈ (sweepOne (rd n) k' s).insts, j.id ≠ k := fun j hj => h j ((mem_sweepOne _ _ _ _).mp hj).1
    have h2 : (sweepOne (rd n) k' s).destroyed.count k = s.destroyed.count k := by
      simp only [sweepOne, List.count_append]
      rw [count_filter_zero]
      · rfl
      · intro j hj hid; exact absurd hid (h j hj)
    obtain ⟨a, b⟩ := ih (n + 1) _ h1
    exact ⟨a, by simp only [sweepKeys]; rw [b, h2]⟩

/-- an instance that is expired at every read is removed by the loop at its own key, released exactly once -/
theorem sweepKeys_gone (rd : Rd) (h : Nat) : ∀ (ks : List Nat) (n : Nat) (s : State), Inv s h → ∀ i ∈ s.insts,
    (∀ m, i.last + i.timeout ≤ rd m) → i.id ∈ ks →
    (∀ j ∈ (sweepKeys rd ks n s).insts, j.id ≠ i.id) ∧
    (sweepKeys rd ks n s).destroyed.count i.id = s.destroyed.count i.id + 1 := by
  intro ks
  induction ks with
  | nil => intro n s _ i _ _ hk; cases hk
  | cons k ks ih =>
    intro n s hinv i hi hexp hk
    simp only [sweepKeys]
    by_cases e : k = i.id
    · -- removed here
      have hgone : ∀ j ∈ (sweepOne (rd n) k s).insts, j.id ≠ i.id := by
        intro j hj hid
        have hm := (mem_sweepOne _ _ _ _).mp hj
        have := eq_of_nodup_id _ hinv.nodup j i hm.1 hi hid
        subst this
        exact hm.2 ⟨e.symm, hexp n⟩
      have hcnt : (sweepOne (rd n) k s).destroyed.count i.id = s.destroyed.count i.id + 1 := by
        simp only [sweepOne, List.count_append]
        rw [count_filter_one _ _ hinv.nodup i hi (by simp [expired, e, hexp n])]
      obtain ⟨a, b⟩ := sweepKeys_absent rd i.id ks (n + 1) _ hgone
      exact ⟨a, by rw [b, hcnt]⟩
    · have hi' : i ∈ (sweepOne (rd n) k s).insts :=
        (mem_sweepOne _ _ _ _).mpr ⟨hi, fun hh => e hh.1.symm⟩
      have hcnt : (sweepOne (rd n) k s).destroyed.count i.id = s.destroyed.count i.id := by
        simp only [sweepOne, List.count_append]
        rw [count_filter_zero]
        · rfl
        · intro j _ hid; simp [hid]; intro e'; exact absurd e'.symm e
      have hk' : i.id ∈ ks := by
        rcases List.mem_cons.mp hk with h1 | h1
        · exact absurd h1.symm e
        · exact h1
      obtain ⟨a, b⟩ := ih (n + 1) _ (inv_sweepOne (rd n) k s h hinv) i hi' hexp hk'
      exact ⟨a, by rw [b, hcnt]⟩

theorem sweepR_gone (rd : Rd) (n : Nat) (s : State) (h : Nat) (hinv : Inv s h) (i : Inst) (hi : i ∈ s.insts)
    (hexp : ∀ m, i.last + i.timeout ≤ rd m) :
    (∀ j ∈ (sweepR rd n s).insts, j.id ≠ i.id) ∧ (sweepR rd n s).destroyed.count i.id = s.destroyed.count i.id + 1 :=
  sweepKeys_gone rd h _ n s hinv i hi hexp (List.mem_map.mpr ⟨i, hi, rfl⟩)

/-! ### the invariant over requests with an advancing clock -/

theorem inv_touch_le (s : State) (h v k : Nat) (hi : Inv s h) (hv : v ≤ h) : Inv (touch v k s) h := by
  constructor
  · simp only [touch, map_touch_ids]; exact hi.nodup
  · intro i hm
    simp only [touch] at hm
    obtain ⟨j, hj, rfl⟩ := List.mem_map.mp hm
    rw [touchInst_id]; exact hi.bound j hj
  · intro i hm
    simp only [touch] at hm
    obtain ⟨j, hj, rfl⟩ := List.mem_map.mp hm
    unfold touchInst; split
    · exact hv
    · exact hi.lastLe j hj
  · exact hi.storedBound

theorem inv_loadOne_le (v h : Nat) (s : State) (kτ : Nat × Nat) (hi : Inv s h) (hv : v ≤ h) (hk : kτ.1 < s.next) :
    Inv (loadOne v s kτ) h := by
  unfold loadOne
  split
  · constructor
    · have : ∀ n : Inst, (s.insts.map (replaceInst n)).map (·.id) = s.insts.map (·.id) := by
        intro n; simp [List.map_map, Function.comp_def, replaceInst_id]
      simp only [this]; exact hi.nodup
    · intro i hm
      obtain ⟨j, hj, rfl⟩ := List.mem_map.mp hm
      rw [replaceInst_id]; exact hi.bound j hj
    · intro i hm
      obtain ⟨j, hj, rfl⟩ := List.mem_map.mp hm
      unfold replaceInst; split
      · exact hv
      · exact hi.lastLe j hj
    · exact hi.storedBound
  · rename_i hn
    have hn' := (hasId_false_iff s kτ.1).mp (by simpa using hn)
    constructor
    · simp only [List.map_append, List.map_cons, List.map_nil]
      rw [List.nodup_append]
      refine ⟨hi.nodup, by simp, ?_⟩
      intro a ha b hb
      simp at hb; subst hb
      obtain ⟨i, hm, rfl⟩ := List.mem_map.mp ha
      exact hn' i hm
    · intro i hm
      simp only [List.mem_append, List.mem_singleton] at hm
      rcases hm with hm | rfl
      · exact hi.bound i hm
      · exact hk
    · intro i hm
      simp only [List.mem_append, List.mem_singleton] at hm
      rcases hm with hm | rfl
      · exact hi.lastLe i hm
      · exact hv
    · exact hi.storedBound

/-- what the fold of `loadOne` with per-entry reads preserves -/
theorem loadKeys_fold (rd : Rd) (h : Nat) (hrd : ∀ m, rd m ≤ h) (l : List (Nat × Nat)) :
    ∀ (n : Nat) (s : State) (nx : Nat) (st : List (Nat × Nat)),
    s.next = nx → s.stored = st → (∀ kτ ∈ l, kτ.1 < nx ∧ lookupStored st kτ.1 = some kτ.2) → Inv s h → Cons s →
    Inv (loadKeys rd l n s) h ∧ Cons (loadKeys rd l n s) ∧ (loadKeys rd l n s).destroyed = s.destroyed := by
  induction l with
  | nil => intro n s nx st _ _ _ hi hc; exact ⟨hi, hc, rfl⟩
  | cons x rest ih =>
    intro n s nx st hn hst hall hi hc
    have hx := hall x (by simp)
    simp only [loadKeys]
    obtain ⟨a1, a2, a3⟩ := ih (n + 1) (loadOne (rd n) s x) nx st (by rw [loadOne_next]; exact hn)
      (by rw [loadOne_stored]; exact hst) (fun kτ hm => hall kτ (by simp [hm]))
      (inv_loadOne_le (rd n) h s x hi (hrd n) (by rw [hn]; exact hx.1)) (cons_loadOne (rd n) s x hc (by rw [hst]; exact hx.2))
    exact ⟨a1, a2, by rw [a3, loadOne_destroyed]⟩

theorem holds_loadKeys (rd : Rd) (k τ l : Nat) (hl : ∀ m, l ≤ rd m) (lst : List (Nat × Nat)) :
    ∀ (n : Nat) (s : State), (∀ kτ ∈ lst, kτ.1 = k → kτ.2 = τ) → Holds s k τ l → Holds (loadKeys rd lst n s) k τ l := by
  induction lst with
  | nil => intro n s _ h; exact h
  | cons x rest ih =>
    intro n s hall h
    simp only [loadKeys]
    exact ih (n + 1) _ (fun kτ hm => hall kτ (by simp [hm])) (holds_loadOne (rd n) s x k τ l h (hl n) (hall x (by simp)))

theorem cons_touch_sweepR (rd : Rd) (n v j : Nat) (s : State) (hc : Cons s) : Cons (sweepR rd n (touch v j s)) :=
  cons_of_sub _ _ (sub_sweepR rd n _) (cons_of_sub _ _ (sub_touch v j s) hc)

/-- `Inv2` is kept by every request whose reads lie in `[t, t + incs.sum]` -/
theorem inv2_stepR (c : CfgR) (s : State) (t0 t : Nat) (incs : List Nat) (ev : Ev2) (h : Inv2 s t0) (ht : t0 ≤ t) :
    Inv2 (stepR c (rdOf t incs) s ev).1 (t + incs.sum) := by
  have hhi : ∀ m, rdOf t incs m ≤ t + incs.sum := rdOf_le t incs
  have hst : ∀ m, stampOf c (rdOf t incs m) ≤ t + incs.sum := fun m => Nat.le_trans (stampOf_le c _) (hhi m)
  have h0 : Inv s (t + incs.sum) := inv_mono s t0 _ h.1 (by omega)
  have hens : ∀ k, Inv (ensure s (rdOf t incs 0) k).1 (t + incs.sum) := fun k =>
    inv_mono _ _ _ (inv_ensure s t0 (rdOf t incs 0) k h.1 (Nat.le_trans ht (rdOf_ge t incs 0))) (hhi 0)
  cases ev with
  | old e =>
    cases e with
    | create τ =>
      simp only [stepR, createR]
      have h1 := inv_sweepR (rdOf t incs) 0 s _ h0
      have hc1 : Cons (sweepR (rdOf t incs) 0 s) := cons_of_sub _ _ (sub_sweepR _ 0 s) h.2
      constructor
      · constructor
        · simp only [List.map_append, List.map_cons, List.map_nil]
          rw [List.nodup_append]
          refine ⟨h1.nodup, by simp, ?_⟩
          intro a ha b hb
          simp at hb; subst hb
          obtain ⟨i, hi, rfl⟩ := List.mem_map.mp ha
          exact Nat.ne_of_lt (h1.bound i hi)
        · intro i hi
          simp only [List.mem_append, List.mem_singleton] at hi
          rcases hi with hi | rfl
          · have := h1.bound i hi; simp only at this ⊢; omega
          · simp
        · intro i hi
          simp only [List.mem_append, List.mem_singleton] at hi
          rcases hi with hi | rfl
          · exact h1.lastLe i hi
          · exact hst _
        · intro k τ' hk
          have := h1.storedBound k τ' hk
          simp only at this ⊢; omega
      · intro i hi τ' hτ'
        simp only [List.mem_append, List.mem_singleton] at hi
        rcases hi with hi | rfl
        · exact hc1 i hi τ' hτ'
        · exact absurd (h1.storedBound _ τ' hτ') (Nat.lt_irrefl _)
    | access k kind =>
      simp only [stepR, accessR]
      have he := hens k
      have hce := cons_ensure s (rdOf t incs 0) k h.2
      cases hen : ensure s (rdOf t incs 0) k with
      | mk s1 b =>
        rw [hen] at he hce
        cases b with
        | false => exact ⟨h0, h.2⟩
        | true =>
          simp only
          have h2 := inv_sweepR (rdOf t incs) ((if hasId s k then 0 else 1) + 1) _ _
            (inv_touch_le s1 _ (stampOf c (rdOf t incs (if hasId s k then 0 else 1))) k he (hst _))
          have hc2 := cons_touch_sweepR (rdOf t incs) ((if hasId s k then 0 else 1) + 1)
            (stampOf c (rdOf t incs (if hasId s k then 0 else 1))) k s1 hce
          split
          · exact ⟨h2, hc2⟩
          · rename_i i hf
            exact ⟨inv_applyKind _ _ i (findInst_mem _ _ _ hf).1 kind h2,
              cons_applyKind _ _ i (findInst_mem _ _ _ hf).1 kind h2 hc2⟩
    | keepAlive k =>
      simp only [stepR, keepAliveR]
      cases hr : c.keepAliveRestores with
      | true =>
        simp only [if_true]
        have he := hens k
        have hce := cons_ensure s (rdOf t incs 0) k h.2
        cases hen : ensure s (rdOf t incs 0) k with
        | mk s1 b =>
          rw [hen] at he hce
          cases b with
          | false => exact ⟨h0, h.2⟩
          | true =>
            exact ⟨inv_sweepR _ _ _ _ (inv_touch_le s1 _ _ k he (hst _)), cons_touch_sweepR _ _ _ k s1 hce⟩
      | false =>
        simp only [Bool.false_eq_true, if_false]
        cases hasId s k with
        | false => exact ⟨h0, h.2⟩
        | true => exact ⟨inv_sweepR _ _ _ _ (inv_touch_le s _ _ k h0 (hst _)), cons_touch_sweepR _ _ _ k s h.2⟩
    | metrics => exact ⟨inv_sweepR _ 0 s _ h0, cons_of_sub _ _ (sub_sweepR _ 0 s) h.2⟩
    | fullMetrics => exact ⟨inv_sweepR _ 0 s _ h0, cons_of_sub _ _ (sub_sweepR _ 0 s) h.2⟩
  | stop k => exact ⟨inv_stop s _ k h0, cons_stop s k h.2⟩
  | saveState => exact ⟨inv_save s _ h0, cons_save s _ h0 h.2⟩
  | loadState =>
    obtain ⟨a1, a2, _⟩ := loadKeys_fold (rdOf t incs) _ hhi (storedIds s) 0 s s.next s.stored rfl rfl
      (fun kτ hm => mem_storedIds s kτ hm) h0 h.2
    exact ⟨a1, a2⟩
  | loadOrd ord =>
    obtain ⟨a1, a2, _⟩ := loadKeys_fold (rdOf t incs) _ hhi (loadEntries s ord) 0 s s.next s.stored rfl rfl
      (fun kτ hm => mem_loadEntries s _ h0 ord kτ hm) h0 h.2
    exact ⟨a1, a2⟩

theorem inv2_runR (c : CfgR) (evs : List Req) : ∀ (s : State) (t0 : Nat), Inv2 s t0 → wellTimedR t0 evs = true →
    Inv2 (runR c s evs) (endTimeR t0 evs) := by
  induction evs with
  | nil => intro s t0 h _; exact h
  | cons e rest ih =>
    intro s t0 h hw
    obtain ⟨t, incs, ev⟩ := e
    simp only [wellTimedR, Bool.and_eq_true, decide_eq_true_eq] at hw
    exact ih _ _ (inv2_stepR c s t0 t incs ev h hw.1) hw.2

/-! ### alive / never early -/

/-- **`alive` for advancing clocks.**  An instance whose stored timestamp is ≥ `l` (`l` no later than the
request's first read `t`) survives every request that ENDS before `l + τ` (`t + incs.sum < l + τ`) — whatever
the increments between the reads — with the same timeout and a timestamp still ≥ `l`; exception: its own
explicit stop.  Needs exact timestamps (a truncated timestamp may move the timer back). -/
theorem alive_stepR (c : CfgR) (hx : c.stampExact = true) (s : State) (t0 k τ l t : Nat) (incs : List Nat) (ev : Ev2)
    (hinv : Inv2 s t0) (h : Holds s k τ l) (hl : l ≤ t) (hn : t + incs.sum < l + τ) (hns : ev ≠ .stop k) :
    Holds (stepR c (rdOf t incs) s ev).1 k τ l := by
  have hrd : ∀ m, rdOf t incs m < l + τ := fun m => Nat.lt_of_le_of_lt (rdOf_le t incs m) hn
  have hlo : ∀ m, l ≤ rdOf t incs m := fun m => Nat.le_trans hl (rdOf_ge t incs m)
  have hst : ∀ m, l ≤ stampOf c (rdOf t incs m) := fun m => by rw [stampOf_exact c hx]; exact hlo m
  have touchedH : ∀ (s1 : State) (j n m : Nat), Holds s1 k τ l →
      Holds (sweepR (rdOf t incs) m (touch (stampOf c (rdOf t incs n)) j s1)) k τ l :=
    fun s1 j n m hh => holds_sweepR _ m _ k τ l (holds_touch s1 k τ l (stampOf c (rdOf t incs n)) j hh (hst n)) hrd
  cases ev with
  | old e =>
    cases e with
    | create τ' =>
      simp only [stepR, createR]
      obtain ⟨i, hi, h1, h2, h3⟩ := holds_sweepR _ 0 s k τ l h hrd
      exact ⟨i, List.mem_append_left _ hi, h1, h2, h3⟩
    | access j kind =>
      simp only [stepR, accessR]
      have he := holds_ensure s k τ l (rdOf t incs 0) j h
      cases hen : ensure s (rdOf t incs 0) j with
      | mk s1 b =>
        rw [hen] at he
        cases b with
        | false => exact h
        | true =>
          simp only
          have h2 := touchedH s1 j (if hasId s j then 0 else 1) ((if hasId s j then 0 else 1) + 1) he
          split
          · exact h2
          · exact holds_applyKind _ k τ l _ kind h2
    | keepAlive j =>
      simp only [stepR, keepAliveR]
      cases hr : c.keepAliveRestores with
      | true =>
        simp only [if_true]
        have he := holds_ensure s k τ l (rdOf t incs 0) j h
        cases hen : ensure s (rdOf t incs 0) j with
        | mk s1 b =>
          rw [hen] at he
          cases b with
          | false => exact h
          | true => exact touchedH s1 j _ _ he
      | false =>
        simp only [Bool.false_eq_true, if_false]
        cases hasId s j with
        | false => exact h
        | true => exact touchedH s j _ _ h
    | metrics => exact holds_sweepR _ 0 s k τ l h hrd
    | fullMetrics => exact holds_sweepR _ 0 s k τ l h hrd
  | stop j =>
    obtain ⟨i, hi, h1, h2, h3⟩ := h
    have hj : j ≠ k := fun e => hns (by rw [e])
    refine ⟨i, ?_, h1, h2, h3⟩
    simp only [stepR, stopInst, List.mem_filter]
    exact ⟨hi, by simp [h1]; exact fun e => hj e.symm⟩
  | saveState =>
    obtain ⟨i, hi, h1, h2, h3⟩ := h
    exact ⟨i, hi, h1, h2, h3⟩
  | loadState =>
    simp only [stepR]
    refine holds_loadKeys (rdOf t incs) k τ l hlo (storedIds s) 0 s ?_ h
    intro kτ hm e
    obtain ⟨i, hi, h1, h2, _⟩ := h
    have := hinv.2 i hi kτ.2 (by rw [h1, ← e]; exact (mem_storedIds s kτ hm).2)
    omega
  | loadOrd ord =>
    simp only [stepR]
    refine holds_loadKeys (rdOf t incs) k τ l hlo (loadEntries s ord) 0 s ?_ h
    intro kτ hm e
    obtain ⟨i, hi, h1, h2, _⟩ := h
    have := hinv.2 i hi kτ.2 (by rw [h1, ← e]; exact (mem_loadEntries s t0 hinv.1 ord kτ hm).2)
    omega

theorem alive_not_destroyedR (c : CfgR) (hx : c.stampExact = true) (s : State) (t0 k τ l t : Nat) (incs : List Nat)
    (ev : Ev2) (hinv : Inv2 s t0) (ht : t0 ≤ t) (h : Holds s k τ l) (hl : l ≤ t) (hn : t + incs.sum < l + τ) :
    (stepR c (rdOf t incs) s ev).1.destroyed.count k = s.destroyed.count k := by
  have hrd : ∀ m, rdOf t incs m < l + τ := fun m => Nat.lt_of_le_of_lt (rdOf_le t incs m) hn
  have hlo : ∀ m, l ≤ rdOf t incs m := fun m => Nat.le_trans hl (rdOf_ge t incs m)
  have hst : ∀ m, l ≤ stampOf c (rdOf t incs m) := fun m => by rw [stampOf_exact c hx]; exact hlo m
  have hhi : ∀ m, rdOf t incs m ≤ t + incs.sum := rdOf_le t incs
  have hsl : ∀ m, stampOf c (rdOf t incs m) ≤ t + incs.sum := fun m => Nat.le_trans (stampOf_le c _) (hhi m)
  have h0 : Inv s (t + incs.sum) := inv_mono s t0 _ hinv.1 (by omega)
  have touched : ∀ (s1 : State) (j n : Nat), Inv s1 (t + incs.sum) → Holds s1 k τ l → s1.destroyed = s.destroyed →
      (sweepR (rdOf t incs) (n + 1) (touch (stampOf c (rdOf t incs n)) j s1)).destroyed.count k = s.destroyed.count k := by
    intro s1 j n hi1 hh1 hd1
    rw [sweepR_keeps_count _ _ _ _ (inv_touch_le s1 _ _ j hi1 (hsl n)) k τ l (holds_touch s1 k τ l _ j hh1 (hst n)) hrd]
    simp only [touch]; rw [hd1]
  cases ev with
  | old e =>
    cases e with
    | create τ' =>
      simp only [stepR, createR]
      exact sweepR_keeps_count _ 0 s _ h0 k τ l h hrd
    | metrics => exact sweepR_keeps_count _ 0 s _ h0 k τ l h hrd
    | fullMetrics => exact sweepR_keeps_count _ 0 s _ h0 k τ l h hrd
    | access j kind =>
      simp only [stepR, accessR]
      have he := holds_ensure s k τ l (rdOf t incs 0) j h
      have hie := inv_mono _ _ _ (inv_ensure s t0 (rdOf t incs 0) j hinv.1 (Nat.le_trans ht (rdOf_ge t incs 0))) (hhi 0)
      have hd1 := ensure_destroyed s (rdOf t incs 0) j
      cases hen : ensure s (rdOf t incs 0) j with
      | mk s1 b =>
        rw [hen] at he hie hd1
        cases b with
        | false => rfl
        | true =>
          simp only at hd1 ⊢
          have h2 := touched s1 j (if hasId s j then 0 else 1) hie he hd1
          split
          · exact h2
          · rw [(applyKind_core _ _ kind).2.1]; exact h2
    | keepAlive j =>
      simp only [stepR, keepAliveR]
      cases hr : c.keepAliveRestores with
      | true =>
        simp only [if_true]
        have he := holds_ensure s k τ l (rdOf t incs 0) j h
        have hie := inv_mono _ _ _ (inv_ensure s t0 (rdOf t incs 0) j hinv.1 (Nat.le_trans ht (rdOf_ge t incs 0))) (hhi 0)
        have hd1 := ensure_destroyed s (rdOf t incs 0) j
        cases hen : ensure s (rdOf t incs 0) j with
        | mk s1 b =>
          rw [hen] at he hie hd1
          cases b with
          | false => rfl
          | true => exact touched s1 j _ hie he hd1
      | false =>
        simp only [Bool.false_eq_true, if_false]
        cases hasId s j with
        | false => rfl
        | true => exact touched s j _ h0 h rfl
  | stop j => rfl
  | saveState => rfl
  | loadState =>
    simp only [stepR]
    obtain ⟨_, _, a3⟩ := loadKeys_fold (rdOf t incs) _ hhi (storedIds s) 0 s s.next s.stored rfl rfl
      (fun kτ hm => mem_storedIds s kτ hm) h0 hinv.2
    rw [a3]
  | loadOrd ord =>
    simp only [stepR]
    obtain ⟨_, _, a3⟩ := loadKeys_fold (rdOf t incs) _ hhi (loadEntries s ord) 0 s s.next s.stored rfl rfl
      (fun kτ hm => mem_loadEntries s _ h0 ord kτ hm) h0 hinv.2
    rw [a3]

/-- **`C17_alive` for advancing clocks**, over whole request sequences: all requests end before `l + τ`. -/
theorem C17R_alive (c : CfgR) (hx : c.stampExact = true) (evs : List Req) : ∀ (s : State) (t0 k τ l : Nat),
    Inv2 s t0 → Holds s k τ l → l ≤ t0 → wellTimedR t0 evs = true → endTimeR t0 evs < l + τ →
    (∀ r ∈ evs, r.2.2 ≠ .stop k) → Holds (runR c s evs) k τ l := by
  induction evs with
  | nil => intro s t0 k τ l _ h _ _ _ _; exact h
  | cons e rest ih =>
    intro s t0 k τ l hinv h hl hw hend hns
    obtain ⟨t, incs, ev⟩ := e
    simp only [wellTimedR, Bool.and_eq_true, decide_eq_true_eq] at hw
    simp only [endTimeR] at hend
    have hmono : ∀ (r : List Req) (a : Nat), wellTimedR a r = true → a ≤ endTimeR a r := by
      intro r
      induction r with
      | nil => intro a _; exact Nat.le_refl _
      | cons x xs ihx =>
        intro a hwx
        obtain ⟨t', incs', ev'⟩ := x
        simp only [wellTimedR, Bool.and_eq_true, decide_eq_true_eq] at hwx
        simp only [endTimeR]
        have := ihx _ hwx.2
        omega
    have hle := hmono rest _ hw.2
    exact ih _ _ k τ l (inv2_stepR c s t0 t incs ev hinv hw.1)
      (alive_stepR c hx s t0 k τ l t incs ev hinv h (by omega) (by omega) (hns (t, incs, ev) (by simp)))
      (by omega) hw.2 hend (fun r hr => hns r (by simp [hr]))

/-- **`C17_never_early` for advancing clocks**: an instance present before a request and absent after it
(not by its own stop) had its stored timestamp + timeout reached by the END of the request. -/
theorem C17R_never_early (c : CfgR) (hx : c.stampExact = true) (s : State) (t0 t : Nat) (incs : List Nat) (ev : Ev2)
    (hinv : Inv2 s t0) (ht : t0 ≤ t) (i : Inst) (hi : i ∈ s.insts) (hns : ev ≠ .stop i.id)
    (hgone : ∀ j ∈ (stepR c (rdOf t incs) s ev).1.insts, j.id ≠ i.id) : i.last + i.timeout ≤ t + incs.sum := by
  rcases Nat.lt_or_ge (t + incs.sum) (i.last + i.timeout) with hlt | hge
  · exfalso
    have hl : i.last ≤ t := Nat.le_trans (hinv.1.lastLe i hi) ht
    obtain ⟨j, hj, hid, _, _⟩ := alive_stepR c hx s t0 i.id i.timeout i.last t incs ev hinv
      ⟨i, hi, rfl, rfl, Nat.le_refl _⟩ hl hlt hns
    exact hgone j hj hid
  · exact hge

/-! ### gone after the next trigger -/

/-- **`C17_gone_after_trigger` for advancing clocks**: the timeout had elapsed when the request STARTED
(`last + timeout ≤ t`, the first read) — then whatever the later reads are, the instance is removed at its own
key of the loop and released exactly once.  Holds for every configuration. -/
theorem C17R_gone_after_trigger (c : CfgR) (s : State) (t0 t : Nat) (incs : List Nat) (ev : Ev2) (hinv : Inv s t0)
    (ht : t0 ≤ t) (i : Inst) (hi : i ∈ s.insts) (hexp : i.last + i.timeout ≤ t) (htr : isTriggerR c s i.id ev = true) :
    (∀ j ∈ (stepR c (rdOf t incs) s ev).1.insts, j.id ≠ i.id) ∧
    (stepR c (rdOf t incs) s ev).1.destroyed.count i.id = s.destroyed.count i.id + 1 := by
  have hrd : ∀ m, i.last + i.timeout ≤ rdOf t incs m := fun m => Nat.le_trans hexp (rdOf_ge t incs m)
  have hhi : ∀ m, rdOf t incs m ≤ t + incs.sum := rdOf_le t incs
  have hsl : ∀ m, stampOf c (rdOf t incs m) ≤ t + incs.sum := fun m => Nat.le_trans (stampOf_le c _) (hhi m)
  have h0 : Inv s (t + incs.sum) := inv_mono s t0 _ hinv (by omega)
  have touched : ∀ (s1 : State) (j n : Nat), Inv s1 (t + incs.sum) → i ∈ s1.insts → i.id ≠ j → s1.destroyed = s.destroyed →
      (∀ x ∈ (sweepR (rdOf t incs) (n + 1) (touch (stampOf c (rdOf t incs n)) j s1)).insts, x.id ≠ i.id) ∧
      (sweepR (rdOf t incs) (n + 1) (touch (stampOf c (rdOf t incs n)) j s1)).destroyed.count i.id = s.destroyed.count i.id + 1 := by
    intro s1 j n hi1 him hne hd1
    obtain ⟨a, b⟩ := sweepR_gone (rdOf t incs) (n + 1) _ _ (inv_touch_le s1 _ _ j hi1 (hsl n)) i
      (mem_touch_other s1 _ j i him hne) hrd
    exact ⟨a, by rw [b]; simp only [touch]; rw [hd1]⟩
  cases ev with
  | old e =>
    cases e with
    | create τ =>
      obtain ⟨a, b⟩ := sweepR_gone (rdOf t incs) 0 s _ h0 i hi hrd
      simp only [stepR, createR]
      refine ⟨?_, b⟩
      intro j hj
      simp only [List.mem_append, List.mem_singleton] at hj
      rcases hj with hj | rfl
      · exact a j hj
      · have := hinv.bound i hi
        rw [(sweepR_ghost (rdOf t incs) 0 s).2.1]; simp only; omega
    | metrics => exact sweepR_gone (rdOf t incs) 0 s _ h0 i hi hrd
    | fullMetrics => exact sweepR_gone (rdOf t incs) 0 s _ h0 i hi hrd
    | access j kind =>
      simp only [isTriggerR, isTrigger2, isTrigger, Bool.and_eq_true, bne_iff_ne, ne_eq] at htr
      have hne : i.id ≠ j := fun e => htr.1 e.symm
      have hok := ensure_ok s (rdOf t incs 0) j htr.2
      have hie := inv_mono _ _ _ (inv_ensure s t0 (rdOf t incs 0) j hinv (Nat.le_trans ht (rdOf_ge t incs 0))) (hhi 0)
      have hi1 := mem_ensure s (rdOf t incs 0) j i hi
      have hd1 := ensure_destroyed s (rdOf t incs 0) j
      simp only [stepR, accessR]
      cases hen : ensure s (rdOf t incs 0) j with
      | mk s1 b =>
        rw [hen] at hok hie hi1 hd1
        simp only at hok hie hi1 hd1
        subst hok
        simp only
        obtain ⟨a, b⟩ := touched s1 j (if hasId s j then 0 else 1) hie hi1 hne hd1
        split
        · exact ⟨a, b⟩
        · obtain ⟨c1, c2, _⟩ := applyKind_core (sweepR (rdOf t incs) ((if hasId s j then 0 else 1) + 1)
            (touch (stampOf c (rdOf t incs (if hasId s j then 0 else 1))) j s1)) _ kind
          exact ⟨absent_of_core _ _ _ c1 a, by rw [c2]; exact b⟩
    | keepAlive j =>
      simp only [isTriggerR, isTrigger2, isTrigger, CfgR.base, Bool.and_eq_true, bne_iff_ne, ne_eq] at htr
      have hne : i.id ≠ j := fun e => htr.1 e.symm
      simp only [stepR, keepAliveR]
      cases hr : c.keepAliveRestores with
      | true =>
        simp only [hr, Bool.true_and] at htr
        simp only [if_true]
        have hok := ensure_ok s (rdOf t incs 0) j htr.2
        have hie := inv_mono _ _ _ (inv_ensure s t0 (rdOf t incs 0) j hinv (Nat.le_trans ht (rdOf_ge t incs 0))) (hhi 0)
        have hi1 := mem_ensure s (rdOf t incs 0) j i hi
        have hd1 := ensure_destroyed s (rdOf t incs 0) j
        cases hen : ensure s (rdOf t incs 0) j with
        | mk s1 b =>
          rw [hen] at hok hie hi1 hd1
          simp only at hok hie hi1 hd1
          subst hok
          exact touched s1 j _ hie hi1 hne hd1
      | false =>
        simp only [hr, Bool.false_and, Bool.or_false] at htr
        simp only [Bool.false_eq_true, if_false, htr.2]
        exact touched s j _ h0 hi hne rfl
  | stop j => simp [isTriggerR, isTrigger2] at htr
  | saveState => simp [isTriggerR, isTrigger2] at htr
  | loadState => simp [isTriggerR, isTrigger2] at htr
  | loadOrd _ => simp [isTriggerR, isTrigger2] at htr

/-! ### access restarts the timer / transparent restore — the stored timestamp is a read of THIS request -/

theorem touched_survivesR (c : CfgR) (hx : c.stampExact = true) (rd : Rd) (n h : Nat) (s : State) (k : Nat) (hinv : Inv s h)
    (hv : rd n ≤ h) (i : Inst) (hi : i ∈ s.insts) (hk : i.id = k) (hrd : ∀ m, rd m < rd n + i.timeout) :
    findInst (sweepR rd (n + 1) (touch (stampOf c (rd n)) k s)) k = some { i with last := rd n } := by
  rw [stampOf_exact c hx]
  have hmem0 : ({ i with last := rd n } : Inst) ∈ (touch (rd n) k s).insts :=
    List.mem_map.mpr ⟨i, hi, by simp [touchInst, hk]⟩
  have hmem := mem_sweepR_of rd (n + 1) _ _ hmem0 (by simpa using hrd)
  have hinv2 := inv_sweepR rd (n + 1) _ h (inv_touch_le s h (rd n) k hinv hv)
  cases hf : findInst (sweepR rd (n + 1) (touch (rd n) k s)) k with
  | none => exact absurd hk (by have := findInst_none _ _ hf _ hmem; simpa using this)
  | some j =>
    have hj := findInst_mem _ _ _ hf
    rw [eq_of_nodup_id _ hinv2.nodup j _ hj.1 hmem (by simp [hj.2, hk])]

/-- **`access_resets` for advancing clocks**: a request to a PRESENT instance that lasts less than the
instance's timeout (`incs.sum < timeout`) succeeds and leaves it with the stored timestamp = the request's
FIRST read `t`. -/
theorem C17R_access_resets (c : CfgR) (hx : c.stampExact = true) (s : State) (t0 t : Nat) (incs : List Nat)
    (hinv : Inv s t0) (ht : t0 ≤ t) (i : Inst) (hi : i ∈ s.insts) (hτ : incs.sum < i.timeout) (kind : Kind) :
    (∃ j ∈ (accessR c (rdOf t incs) s i.id kind).1.insts, j.id = i.id ∧ j.last = t ∧ j.timeout = i.timeout) ∧
    ((kind ≠ .step ∨ i.sess = true) → (accessR c (rdOf t incs) s i.id kind).2.1 = true) := by
  have hp : hasId s i.id = true := (hasId_iff s i.id).mpr ⟨i, hi, rfl⟩
  have h0 : Inv s (t + incs.sum) := inv_mono s t0 _ hinv (by omega)
  have hf := touched_survivesR c hx (rdOf t incs) 0 _ s i.id h0 (rdOf_le t incs 0) i hi rfl
    (fun m => by have := rdOf_le t incs m; rw [rdOf_zero]; omega)
  rw [rdOf_zero] at hf
  have hj := (findInst_mem _ _ _ hf).1
  simp only [accessR, ensure_present s _ i.id hp, hp, if_true, rdOf_zero, hf]
  constructor
  · have : (i.id, t, i.timeout) ∈ (applyKind (sweepR (rdOf t incs) (0 + 1) (touch (stampOf c t) i.id s)) { i with last := t } kind).1.insts.map core := by
      rw [(applyKind_core _ _ kind).1]
      exact (mem_core _ _ _ _).mpr ⟨_, hj, rfl, rfl, rfl⟩
    obtain ⟨j, hj', h1, h2, h3⟩ := (mem_core _ _ _ _).mp this
    exact ⟨j, hj', h1, h2, h3⟩
  · intro hk
    cases kind with
    | begin => rfl
    | results => rfl
    | endS => rfl
    | step =>
      rcases hk with hk | hk
      · exact absurd rfl hk
      · simp [applyKind, hk]

/-- **`C17_restore` for advancing clocks**: an absent instance with externalised state is restored by the
next instance-scoped request, which succeeds if it lasts less than the stored timeout; the stored timestamp is
the request's SECOND read (`_update_instance_timestamp`, after the adapter's read) — at or after its first. -/
theorem C17R_restore (c : CfgR) (hx : c.stampExact = true) (s : State) (t0 t k τ : Nat) (incs : List Nat) (kind : Kind)
    (hinv : Inv s t0) (ht : t0 ≤ t) (habs : hasId s k = false) (hst : lookupStored s.stored k = some τ)
    (hτ : incs.sum < τ) :
    (accessR c (rdOf t incs) s k kind).2.1 = true ∧
    ∃ j ∈ (accessR c (rdOf t incs) s k kind).1.insts, j.id = k ∧ j.last = rdOf t incs 1 ∧ t ≤ j.last ∧ j.timeout = τ := by
  have he := ensure_restores s (rdOf t incs 0) k τ habs hst
  have hinv1 := inv_mono _ _ _ (inv_ensure s t0 (rdOf t incs 0) k hinv (Nat.le_trans ht (rdOf_ge t incs 0))) (rdOf_le t incs 0)
  rw [he] at hinv1
  simp only at hinv1
  let n : Inst := { id := k, last := rdOf t incs 0, timeout := τ, sess := true }
  have hn : n ∈ (s.insts ++ [n]) := List.mem_append_right _ (by simp)
  have hf := touched_survivesR c hx (rdOf t incs) 1 _ _ k hinv1 (rdOf_le t incs 1) n hn rfl
    (fun m => by have := rdOf_le t incs m; have := rdOf_ge t incs 1; show rdOf t incs m < rdOf t incs 1 + τ; omega)
  have hj := (findInst_mem _ _ _ hf).1
  simp only [accessR, he, habs, Bool.false_eq_true, if_false, hf]
  constructor
  · cases kind <;> simp [applyKind, n]
  · have : (k, rdOf t incs 1, τ) ∈ (applyKind (sweepR (rdOf t incs) (1 + 1) (touch (stampOf c (rdOf t incs 1)) k
        { s with insts := s.insts ++ [n], restored := s.restored ++ [k] })) { n with last := rdOf t incs 1 } kind).1.insts.map core := by
      rw [(applyKind_core _ _ kind).1]
      exact (mem_core _ _ _ _).mpr ⟨_, hj, rfl, rfl, rfl⟩
    obtain ⟨j, hj', h1, h2, h3⟩ := (mem_core _ _ _ _).mp this
    exact ⟨j, hj', h1, h2, by rw [h2]; exact rdOf_ge t incs 1, h3⟩

/-- a request to an absent, not externalised id reads no clock, is refused and changes nothing -/
theorem C17R_refused (c : CfgR) (rd : Rd) (s : State) (k : Nat) (kind : Kind) (habs : hasId s k = false)
    (hst : lookupStored s.stored k = none) :
    accessR c rd s k kind = (s, false, 0) ∧ keepAliveR c rd s k = (s, false, 0) := by
  have he : ensure s (rd 0) k = (s, false) := by simp [ensure, habs, hst]
  constructor
  · simp [accessR, he]
  · unfold keepAliveR
    cases c.keepAliveRestores <;> simp [he, habs]

/-- creation: the new instance's stored timestamp is the read AFTER the sweep's reads — at or after the
request's first read -/
theorem C17R_create_stamp (c : CfgR) (hx : c.stampExact = true) (s : State) (t : Nat) (incs : List Nat) (τ : Nat) :
    ∃ j ∈ (createR c (rdOf t incs) s τ).1.insts, j.id = s.next ∧ j.timeout = τ ∧ j.last = rdOf t incs s.insts.length ∧ t ≤ j.last := by
  refine ⟨{ id := (sweepR (rdOf t incs) 0 s).next, last := stampOf c (rdOf t incs s.insts.length), timeout := τ, sess := false }, ?_, ?_, rfl, ?_, ?_⟩
  · simp [createR]
  · exact (sweepR_ghost _ 0 s).2.1
  · exact stampOf_exact c hx _
  · rw [stampOf_exact c hx]; exact rdOf_ge t incs _

/-! ### the statement: never removed before (arrival of the last access) + timeout -/

/-- request `ev` addresses instance `k` (for a creation: `k` is the id it hands out) -/
def touchesId (s : State) (k : Nat) : Ev2 → Bool
  | .old (.access j _) => j == k
  | .old (.keepAlive j) => j == k
  | .old (.create _) => k == s.next
  | _ => false

/-- after `touch v k`, the sweep loop leaves every instance of id `k` with the timestamp `v` -/
theorem touched_last (rd : Rd) (n v k : Nat) (s1 : State) :
    ∀ j ∈ (sweepR rd n (touch v k s1)).insts, j.id = k → j.last = v := by
  intro j hj hid
  have hj' : j ∈ (touch v k s1).insts :=
    sweepKeys_pres (fun s' => ∀ x ∈ s'.insts, x ∈ (touch v k s1).insts) rd
      (fun n k' s' hs x hx' => hs x ((mem_sweepOne _ _ _ _).mp hx').1) _ n _ (fun x hx' => hx') j hj
  simp only [touch] at hj'
  obtain ⟨i', _, rfl⟩ := List.mem_map.mp hj'
  rw [touchInst_id] at hid
  exact touchInst_self v k i' hid

theorem applyKind_last (s : State) (i : Inst) (kind : Kind) (j : Inst) (hj : j ∈ (applyKind s i kind).1.insts) :
    ∃ j' ∈ s.insts, j'.id = j.id ∧ j'.last = j.last := by
  have : (j.id, j.last, j.timeout) ∈ s.insts.map core := by
    rw [← (applyKind_core s i kind).1]
    exact (mem_core _ _ _ _).mpr ⟨j, hj, rfl, rfl, rfl⟩
  obtain ⟨j', hj', h1, h2, _⟩ := (mem_core _ _ _ _).mp this
  exact ⟨j', hj', h1, h2⟩

/-- **The stored "last access" is a clock read of the request itself**: after a SUCCESSFUL request that
addresses instance `k`, the stored timestamp of `k` is at or after the request's first read `t` (its arrival). -/
theorem stamp_ge_arrival (c : CfgR) (hx : c.stampExact = true) (s : State) (t0 t : Nat) (incs : List Nat) (ev : Ev2)
    (k : Nat) (hinv : Inv s t0) (htc : touchesId s k ev = true) (hok : (stepR c (rdOf t incs) s ev).2.1 = true) :
    ∀ j ∈ (stepR c (rdOf t incs) s ev).1.insts, j.id = k → t ≤ j.last := by
  have hst : ∀ m, t ≤ stampOf c (rdOf t incs m) := fun m => by rw [stampOf_exact c hx]; exact rdOf_ge t incs m
  intro j hj hid
  cases ev with
  | old e =>
    cases e with
    | create τ =>
      simp only [touchesId, beq_iff_eq] at htc
      simp only [stepR, createR, List.mem_append, List.mem_singleton] at hj
      rcases hj with hj | rfl
      · exfalso
        obtain ⟨i, hi, e1, _⟩ := (sub_sweepR (rdOf t incs) 0 s).2 j hj
        have := hinv.bound i hi
        omega
      · exact hst _
    | access k' kind =>
      simp only [touchesId, beq_iff_eq] at htc
      subst htc
      simp only [stepR, accessR] at hj hok
      cases hen : ensure s (rdOf t incs 0) k' with
      | mk s1 b =>
        rw [hen] at hj hok
        cases b with
        | false => simp at hok
        | true =>
          simp only at hj hok
          split at hj
          · simp_all
          · rename_i i hf
            obtain ⟨j', hj', h1, h2⟩ := applyKind_last _ i kind j hj
            rw [← h2, touched_last _ _ _ _ s1 j' hj' (by omega)]; exact hst _
    | keepAlive k' =>
      simp only [touchesId, beq_iff_eq] at htc
      subst htc
      simp only [stepR, keepAliveR] at hj hok
      cases hr : c.keepAliveRestores with
      | true =>
        simp only [hr, if_true] at hj hok
        cases hen : ensure s (rdOf t incs 0) k' with
        | mk s1 b =>
          rw [hen] at hj hok
          cases b with
          | false => simp at hok
          | true => simp only at hj; rw [touched_last _ _ _ _ s1 j hj hid]; exact hst _
      | false =>
        simp only [hr, Bool.false_eq_true, if_false] at hj hok
        cases hh : hasId s k' with
        | false => rw [hh] at hok; simp at hok
        | true => rw [hh] at hj; simp only at hj; rw [touched_last _ _ _ _ s j hj hid]; exact hst _
    | metrics => simp [touchesId] at htc
    | fullMetrics => simp [touchesId] at htc
  | stop _ => simp [touchesId] at htc
  | saveState => simp [touchesId] at htc
  | loadState => simp [touchesId] at htc
  | loadOrd _ => simp [touchesId] at htc

/-- **The lifetime statement with a clock that advances inside requests** ("never removed before last access +
timeout", last access = ARRIVAL of the request).  After every well-timed history `h1`, let a successful request
`(t, incs, ev)` address instance `k` (access, keep-alive, or the creation that hands out `k`) and leave it
present with timeout `τ`.  Then after ANY further requests `h2` (each with its own intra-request increments)
that all end before `t + τ` and do not stop `k` explicitly, `k` is still present with timeout `τ`. -/
def C17R_arrival (c : CfgR) : Prop :=
  ∀ (h1 : List Req), wellTimedR 0 h1 = true → ∀ (t : Nat) (incs : List Nat) (ev : Ev2), endTimeR 0 h1 ≤ t →
    ∀ (k τ : Nat), touchesId (runR c State.init h1) k ev = true →
      (stepR c (rdOf t incs) (runR c State.init h1) ev).2.1 = true →
      (∃ i ∈ (stepR c (rdOf t incs) (runR c State.init h1) ev).1.insts, i.id = k ∧ i.timeout = τ) →
      ∀ (h2 : List Req), wellTimedR (t + incs.sum) h2 = true → endTimeR (t + incs.sum) h2 < t + τ →
        (∀ r ∈ h2, r.2.2 ≠ .stop k) →
        ∃ j ∈ (runR c (stepR c (rdOf t incs) (runR c State.init h1) ev).1 h2).insts, j.id = k ∧ j.timeout = τ

theorem C17R_arrival_of_exact (c : CfgR) (hx : c.stampExact = true) : C17R_arrival c := by
  intro h1 hw1 t incs ev hend k τ htc hok hpres h2 hw2 hend2 hns
  have hinv := inv2_runR c h1 State.init 0 inv2_init hw1
  have hinv' := inv2_stepR c _ _ t incs ev hinv hend
  obtain ⟨i, hi, hid, hτ⟩ := hpres
  have hge := stamp_ge_arrival c hx _ _ t incs ev k hinv.1 htc hok i hi hid
  obtain ⟨j, hj, a, b, _⟩ := C17R_alive c hx h2 _ (t + incs.sum) k τ t hinv' ⟨i, hi, hid, hτ, hge⟩ (by omega) hw2 hend2 hns
  exact ⟨j, hj, a, b⟩

/-- Negation witness `timestamp-before-request`: when the stored timestamp is the clock reading truncated to
whole seconds — EARLIER than every read of the request — an instance created at 1.5 s with a timeout of 1 s
is removed by a metrics query at 2.0 s, half a second before arrival + timeout. -/
theorem C17R_witness_trunc (c : CfgR) (hc : c.stampExact = false) : ¬ C17R_arrival c := by
  intro h
  have := h [] (by decide) 1500000 [] (.old (.create 1000000)) (by decide) 0 1000000
  cases c with
  | mk ka sx =>
    simp only at hc; subst hc
    cases ka <;> exact absurd (this (by decide) (by decide) (by decide) [(2000000, [], .old .metrics)] (by decide) (by decide) (by decide)) (by decide)

/-- the step-wise clauses for reachable states and requests with advancing clocks -/
def C17R_core (c : CfgR) : Prop :=
  ∀ (evs : List Req), wellTimedR 0 evs = true →
    ∀ (t : Nat) (incs : List Nat), endTimeR 0 evs ≤ t → ∀ (ev : Ev2),
      let s := runR c State.init evs
      let s' := (stepR c (rdOf t incs) s ev).1
      -- (1) the request ENDS before last + timeout: still there, same timeout, timer not moved back, not released
      (∀ i ∈ s.insts, t + incs.sum < i.last + i.timeout → ev ≠ .stop i.id →
        (∃ j ∈ s'.insts, j.id = i.id ∧ j.timeout = i.timeout ∧ i.last ≤ j.last) ∧
        s'.destroyed.count i.id = s.destroyed.count i.id) ∧
      -- (2) removed (not stopped) ⇒ last + timeout reached by the end of the request
      (∀ i ∈ s.insts, ev ≠ .stop i.id → (∀ j ∈ s'.insts, j.id ≠ i.id) → i.last + i.timeout ≤ t + incs.sum) ∧
      -- (3) a request shorter than the timeout to a present instance succeeds; stored timestamp = its first read
      (∀ i ∈ s.insts, incs.sum < i.timeout → ∀ kind,
        (∃ j ∈ (accessR c (rdOf t incs) s i.id kind).1.insts, j.id = i.id ∧ j.last = t ∧ j.timeout = i.timeout) ∧
        ((kind ≠ .step ∨ i.sess = true) → (accessR c (rdOf t incs) s i.id kind).2.1 = true)) ∧
      -- (4) timeout elapsed when the request starts: gone after the trigger, released exactly once
      (∀ i ∈ s.insts, i.last + i.timeout ≤ t → isTriggerR c s i.id ev = true →
        (∀ j ∈ s'.insts, j.id ≠ i.id) ∧ s'.destroyed.count i.id = s.destroyed.count i.id + 1) ∧
      -- (5) gone and not externalised: refused, no clock read, nothing changes
      (∀ k kind, hasId s k = false → lookupStored s.stored k = none →
        accessR c (rdOf t incs) s k kind = (s, false, 0) ∧ keepAliveR c (rdOf t incs) s k = (s, false, 0)) ∧
      -- (6) externalised: restored by a request shorter than the stored timeout; timestamp = its second read ≥ t
      (∀ k τ kind, hasId s k = false → lookupStored s.stored k = some τ → incs.sum < τ →
        (accessR c (rdOf t incs) s k kind).2.1 = true ∧
        ∃ j ∈ (accessR c (rdOf t incs) s k kind).1.insts, j.id = k ∧ j.last = rdOf t incs 1 ∧ t ≤ j.last ∧ j.timeout = τ)

def C17R_full (c : CfgR) : Prop := C17R_core c ∧ C17R_arrival c

theorem C17R_full_of_good (c : CfgR) (hx : c.stampExact = true) : C17R_full c := by
  refine ⟨?_, C17R_arrival_of_exact c hx⟩
  intro evs hw t incs hend ev
  have hinv := inv2_runR c evs State.init 0 inv2_init hw
  refine ⟨?_, ?_, ?_, ?_, ?_, ?_⟩
  · intro i hi hlt hns
    have hl : i.last ≤ t := Nat.le_trans (hinv.1.lastLe i hi) hend
    have hh : Holds (runR c State.init evs) i.id i.timeout i.last := ⟨i, hi, rfl, rfl, Nat.le_refl _⟩
    exact ⟨alive_stepR c hx _ _ i.id i.timeout i.last t incs ev hinv hh hl hlt hns,
      alive_not_destroyedR c hx _ _ i.id i.timeout i.last t incs ev hinv hend hh hl hlt⟩
  · intro i hi hns hg
    exact C17R_never_early c hx _ _ t incs ev hinv hend i hi hns hg
  · intro i hi hτ kind
    exact C17R_access_resets c hx _ _ t incs hinv.1 hend i hi hτ kind
  · intro i hi hexp htr
    exact C17R_gone_after_trigger c _ _ t incs ev hinv.1 hend i hi hexp htr
  · intro k kind habs hst
    exact C17R_refused c _ _ k kind habs hst
  · intro k τ kind habs hst hτ
    exact C17R_restore c hx _ _ t k τ incs kind hinv.1 hend habs hst hτ

theorem C17R_witness_trunc_full (c : CfgR) (hc : c.stampExact = false) : ¬ C17R_full c :=
  fun h => C17R_witness_trunc c hc h.2

-- non-vacuity: the clock crosses the expiry boundary BETWEEN the timestamp write and the sweep reads
-- (instance 0: timeout 1000, last 0; request at 998 with increments 1,1,1: own access at 998 keeps it;
-- a request to instance 1 at 998 with the same increments sweeps instance 0 at the read 1000 of its key)
example : (stepR ⟨true, true⟩ (rdOf 999 [1, 1, 1]) (runR ⟨true, true⟩ State.init [(0, [], .old (.create 1000)), (0, [], .old (.create 5000))])
    (.old (.access 1 .results))).1.insts.map (fun i => (i.id, i.last)) = [(1, 999)] := by decide
example : (stepR ⟨true, true⟩ (rdOf 998 [1, 1, 1]) (runR ⟨true, true⟩ State.init [(0, [], .old (.create 1000)), (0, [], .old (.create 5000))])
    (.old (.access 1 .results))).1.insts.map (fun i => (i.id, i.last)) = [(0, 0), (1, 998)] := by decide
example : (stepR ⟨true, true⟩ (rdOf 999 [1, 1, 1]) (runR ⟨true, true⟩ State.init [(0, [], .old (.create 1000)), (0, [], .old (.create 5000))])
    (.old (.access 0 .results))).1.insts.map (fun i => (i.id, i.last)) = [(0, 999), (1, 0)] := by decide

#print axioms inv2_runR
#print axioms C17R_alive
#print axioms C17R_never_early
#print axioms C17R_gone_after_trigger
#print axioms C17R_access_resets
#print axioms C17R_restore
#print axioms C17R_refused
#print axioms stamp_ge_arrival
#print axioms C17R_arrival_of_exact
#print axioms C17R_witness_trunc
#print axioms C17R_full_of_good
#print axioms C17R_witness_trunc_full

/-! ## Wave 6 -/

/-! ### refinement: a request without increments is the constant-clock request of `step2` -/

theorem state_ext (a b : State) (h1 : a.insts = b.insts) (h2 : a.stored = b.stored) (h3 : a.destroyed = b.destroyed)
    (h4 : a.restored = b.restored) (h5 : a.next = b.next) (h6 : a.dropped = b.dropped) : a = b := by
  cases a; cases b; simp_all

theorem rdOf_nil (t n : Nat) : rdOf t [] n = t := by simp [rdOf]

theorem filter_other_id (l : List Inst) (t k : Nat) (h : ∀ i ∈ l, i.id ≠ k) :
    l.filter (fun i => !(i.id == k && expired t i)) = l ∧ l.filter (fun i => i.id == k && expired t i) = [] := by
  constructor
  · rw [List.filter_eq_self]; intro i hi; simp [h i hi]
  · rw [List.filter_eq_nil_iff]; intro i hi; simp [h i hi]

/-- with a constant clock the loop over the key snapshot is the one-pass sweep (ids unique) -/
theorem sweepKeys_const (t : Nat) : ∀ (l pre : List Inst) (n : Nat) (s : State), s.insts = pre ++ l →
    ((pre ++ l).map (·.id)).Nodup →
    (sweepKeys (fun _ => t) (l.map (·.id)) n s).insts = pre ++ l.filter (fun i => !expired t i) ∧
    (sweepKeys (fun _ => t) (l.map (·.id)) n s).destroyed = s.destroyed ++ (l.filter (expired t)).map (·.id) := by
  intro l
  induction l with
  | nil => intro pre n s hs _; simp [sweepKeys, hs]
  | cons x xs ih =>
    intro pre n s hs hnd
    simp only [List.map_cons, sweepKeys]
    have hnd' : (pre.map (·.id) ++ x.id :: xs.map (·.id)).Nodup := by simpa using hnd
    have hpre : ∀ i ∈ pre, i.id ≠ x.id := by
      intro i hi e
      have := (List.nodup_append.mp hnd').2.2 i.id (List.mem_map.mpr ⟨i, hi, rfl⟩) x.id (by simp)
      exact this e
    have hxs : ∀ i ∈ xs, i.id ≠ x.id := by
      intro i hi e
      have h2 := (List.nodup_cons.mp (List.nodup_append.mp hnd').2.1).1
      exact h2 (e ▸ List.mem_map.mpr ⟨i, hi, rfl⟩)
    obtain ⟨p1, p2⟩ := filter_other_id pre t x.id hpre
    obtain ⟨q1, q2⟩ := filter_other_id xs t x.id hxs
    by_cases hx : expired t x = true
    · have e1 : (sweepOne t x.id s).insts = pre ++ xs := by
        simp only [sweepOne, hs, List.filter_append, List.filter_cons, p1, q1]; simp [hx]
      have e2 : (sweepOne t x.id s).destroyed = s.destroyed ++ [x.id] := by
        simp only [sweepOne, hs, List.filter_append, List.filter_cons, p2, q2]; simp [hx]
      obtain ⟨a, b⟩ := ih pre (n + 1) (sweepOne t x.id s) e1 (by
        have : ((pre ++ xs).map (·.id)) = pre.map (·.id) ++ xs.map (·.id) := by simp
        rw [this]
        have h3 := List.nodup_append.mp hnd'
        rw [List.nodup_append]
        exact ⟨h3.1, (List.nodup_cons.mp h3.2.1).2, fun a ha b hb => h3.2.2 a ha b (List.mem_cons_of_mem _ hb)⟩)
      refine ⟨by rw [a]; simp [hx], by rw [b, e2]; simp [hx]⟩
    · have hx' : expired t x = false := by simpa using hx
      have e1 : (sweepOne t x.id s).insts = (pre ++ [x]) ++ xs := by
        simp only [sweepOne, hs, List.filter_append, List.filter_cons, p1, q1]; simp [hx']
      have e2 : (sweepOne t x.id s).destroyed = s.destroyed := by
        simp only [sweepOne, hs, List.filter_append, List.filter_cons, p2, q2]; simp [hx']
      obtain ⟨a, b⟩ := ih (pre ++ [x]) (n + 1) (sweepOne t x.id s) e1 (by simpa using hnd)
      refine ⟨by rw [a]; simp [hx'], by rw [b, e2]; simp [hx']⟩

theorem sweepR_const (t n : Nat) (s : State) (hnd : (s.insts.map (·.id)).Nodup) :
    sweepR (fun _ => t) n s = sweep t s := by
  obtain ⟨a, b⟩ := sweepKeys_const t s.insts [] n s (by simp) (by simpa using hnd)
  obtain ⟨g1, g2, g3, g4⟩ := sweepR_ghost (fun _ => t) n s
  apply state_ext
  · simpa [sweepR, sweep] using a
  · exact g1
  · simpa [sweepR, sweep] using b
  · exact g3
  · exact g2
  · exact g4

theorem loadKeys_const (t : Nat) (l : List (Nat × Nat)) : ∀ (n : Nat) (s : State),
    loadKeys (fun _ => t) l n s = l.foldl (loadOne t) s := by
  induction l with
  | nil => intro n s; rfl
  | cons x rest ih => intro n s; simp only [loadKeys, List.foldl_cons]; exact ih _ _

/-- **Refinement.**  A request whose clock does not move (no increments), with exact timestamps, IS the request
of the constant-clock machine `step2` at that clock value: same state, same answer.  (So everything proved about
`step2` / `run2` is a statement about `stepR` / `runR` on such requests.) -/
theorem stepR_const_eq_step2 (c : CfgR) (hx : c.stampExact = true) (s : State) (t0 t : Nat) (ev : Ev2)
    (hinv : Inv s t0) (ht : t0 ≤ t) :
    (stepR c (rdOf t []) s ev).1 = (step2 c.base s t ev).1 ∧ (stepR c (rdOf t []) s ev).2.1 = (step2 c.base s t ev).2 := by
  have hrd : rdOf t [] = fun _ => t := by funext n; exact rdOf_nil t n
  have hst : ∀ v, stampOf c v = v := stampOf_exact c hx
  rw [hrd]
  have hsw : ∀ (s1 : State) (h1 : Nat) (n : Nat), Inv s1 h1 → sweepR (fun _ => t) n s1 = sweep t s1 :=
    fun s1 h1 n hi => sweepR_const t n s1 hi.nodup
  have htouch : ∀ (s1 : State) (j n : Nat), Inv s1 t → sweepR (fun _ => t) n (touch t j s1) = sweep t (touch t j s1) :=
    fun s1 j n hi => hsw _ t n (inv_touch s1 t t j hi (Nat.le_refl _))
  have h0 : Inv s t := inv_mono s t0 t hinv ht
  cases ev with
  | old e =>
    cases e with
    | create τ =>
      simp only [stepR, createR, step2, step, create, hst, hsw s t 0 h0]
      first | exact ⟨rfl, rfl⟩ | exact ⟨trivial, trivial⟩ | simp
    | metrics => simp only [stepR, step2, step, hsw s t 0 h0]; first | exact ⟨rfl, rfl⟩ | exact ⟨trivial, trivial⟩ | simp
    | fullMetrics => simp only [stepR, step2, step, hsw s t 0 h0]; first | exact ⟨rfl, rfl⟩ | exact ⟨trivial, trivial⟩ | simp
    | access k kind =>
      simp only [stepR, accessR, step2, step, access, hst]
      have hie := inv_ensure s t0 t k hinv ht
      cases hen : ensure s t k with
      | mk s1 b =>
        rw [hen] at hie
        cases b with
        | false => first | exact ⟨rfl, rfl⟩ | exact ⟨trivial, trivial⟩ | simp
        | true =>
          simp only [htouch s1 k _ hie]
          split <;> first | exact ⟨rfl, rfl⟩ | exact ⟨trivial, trivial⟩ | simp
    | keepAlive k =>
      simp only [stepR, keepAliveR, step2, step, keepAlive, hst, CfgR.base]
      rcases c with ⟨ka, sx⟩
      cases ka with
      | true =>
        simp only [if_true]
        have hie := inv_ensure s t0 t k hinv ht
        cases hen : ensure s t k with
        | mk s1 b =>
          rw [hen] at hie
          cases b with
          | false => first | exact ⟨rfl, rfl⟩ | exact ⟨trivial, trivial⟩ | simp
          | true => simp only [htouch s1 k _ hie]; first | exact ⟨rfl, rfl⟩ | exact ⟨trivial, trivial⟩ | simp
      | false =>
        simp only [Bool.false_eq_true, if_false]
        cases hh : hasId s k with
        | false => first | exact ⟨rfl, rfl⟩ | exact ⟨trivial, trivial⟩ | simp
        | true => simp only [htouch s k _ h0]; first | exact ⟨rfl, rfl⟩ | exact ⟨trivial, trivial⟩ | simp
  | stop k => first | exact ⟨rfl, rfl⟩ | exact ⟨trivial, trivial⟩ | simp
  | saveState => first | exact ⟨rfl, rfl⟩ | exact ⟨trivial, trivial⟩ | simp
  | loadState => simp only [stepR, step2, loadState, loadKeys_const]; first | exact ⟨rfl, rfl⟩ | exact ⟨trivial, trivial⟩ | simp
  | loadOrd ord => simp only [stepR, step2, loadKeys_const]; first | exact ⟨rfl, rfl⟩ | exact ⟨trivial, trivial⟩ | simp

def liftR (evs : List (Nat × Ev2)) : List Req := evs.map (fun e => (e.1, [], e.2))

theorem wellTimedR_lift (evs : List (Nat × Ev2)) : ∀ t0, wellTimedR t0 (liftR evs) = wellTimed2 t0 evs := by
  induction evs with
  | nil => intro t0; rfl
  | cons e rest ih =>
    intro t0; obtain ⟨t, ev⟩ := e
    simp only [liftR, List.map_cons, wellTimedR, wellTimed2, List.sum_nil, Nat.add_zero]
    rw [← ih t]; rfl

/-- whole histories: `runR` on requests without increments is `run2` -/
theorem runR_lift_eq_run2 (c : CfgR) (hx : c.stampExact = true) (evs : List (Nat × Ev2)) : ∀ (s : State) (t0 : Nat),
    Inv2 s t0 → wellTimed2 t0 evs = true → runR c s (liftR evs) = run2 c.base s evs := by
  induction evs with
  | nil => intro s t0 _ _; rfl
  | cons e rest ih =>
    intro s t0 hinv hw
    obtain ⟨t, ev⟩ := e
    simp only [wellTimed2, Bool.and_eq_true, decide_eq_true_eq] at hw
    have h1 := (stepR_const_eq_step2 c hx s t0 t ev hinv.1 hw.1).1
    simp only [liftR, List.map_cons, runR, run2]
    rw [h1]
    exact ih _ t (inv2_step c.base s t0 t ev hinv hw.1) hw.2

/-! ### the destroy balance with advancing clocks -/

theorem bal_sweepOne (t k : Nat) (s : State) (h : Bal s) : Bal (sweepOne t k s) := by
  intro j
  have hp := count_partition s.insts (fun i => i.id == k && expired t i) j
  have := h j
  have hc : created (sweepOne t k s) j = created s j := rfl
  simp only [incarnations, hc] at this ⊢
  simp only [sweepOne, List.count_append]
  omega

theorem bal_sweepR (rd : Rd) (n : Nat) (s : State) (h : Bal s) : Bal (sweepR rd n s) :=
  sweepKeys_pres Bal rd (fun n k s hs => bal_sweepOne (rd n) k s hs) _ n s h

theorem bal_loadKeys (rd : Rd) (l : List (Nat × Nat)) : ∀ (n : Nat) (s : State), Bal s → Bal (loadKeys rd l n s) := by
  induction l with
  | nil => intro n s h; exact h
  | cons x rest ih => intro n s h; exact ih _ _ (bal_loadOne (rd n) s x h)

theorem bal_stepR (c : CfgR) (rd : Rd) (s : State) (ev : Ev2) (h : Bal s) : Bal (stepR c rd s ev).1 := by
  cases ev with
  | old e =>
    cases e with
    | create τ =>
      simp only [stepR, createR]
      have h1 := bal_sweepR rd 0 s h
      intro k
      have := h1 k
      simp only [incarnations, created, List.count_append, List.map_append, List.map_cons, List.map_nil, List.count_singleton] at this ⊢
      by_cases e : (sweepR rd 0 s).next = k
      · have h1 : ¬ k < (sweepR rd 0 s).next := by omega
        have h2 : k < (sweepR rd 0 s).next + 1 := by omega
        have e' : ((sweepR rd 0 s).next == k) = true := by simpa using e
        simp only [h1, h2, e', ↓reduceIte] at this ⊢
        omega
      · have e' : ((sweepR rd 0 s).next == k) = false := by simpa using e
        by_cases e2 : k < (sweepR rd 0 s).next
        · have h2 : k < (sweepR rd 0 s).next + 1 := by omega
          simp only [e2, h2, e', Bool.false_eq_true, ↓reduceIte] at this ⊢
          omega
        · have h2 : ¬ k < (sweepR rd 0 s).next + 1 := by omega
          simp only [e2, h2, e', Bool.false_eq_true, ↓reduceIte] at this ⊢
          omega
    | access j kind =>
      simp only [stepR, accessR]
      have he := bal_ensure s (rd 0) j h
      cases hen : ensure s (rd 0) j with
      | mk s1 b =>
        rw [hen] at he
        cases b with
        | false => exact h
        | true =>
          simp only
          have h2 := bal_sweepR rd ((if hasId s j then 0 else 1) + 1) _ (bal_touch (stampOf c (rd (if hasId s j then 0 else 1))) j s1 he)
          split
          · exact h2
          · exact bal_applyKind _ _ kind h2
    | keepAlive j =>
      simp only [stepR, keepAliveR]
      cases hr : c.keepAliveRestores with
      | true =>
        simp only [if_true]
        have he := bal_ensure s (rd 0) j h
        cases hen : ensure s (rd 0) j with
        | mk s1 b =>
          rw [hen] at he
          cases b with
          | false => exact h
          | true => exact bal_sweepR rd _ _ (bal_touch _ j s1 he)
      | false =>
        simp only [Bool.false_eq_true, if_false]
        cases hasId s j with
        | false => exact h
        | true => exact bal_sweepR rd _ _ (bal_touch _ j s h)
    | metrics => exact bal_sweepR rd 0 s h
    | fullMetrics => exact bal_sweepR rd 0 s h
  | stop j => exact bal_stop s j h
  | saveState => intro k; exact h k
  | loadState => exact bal_loadKeys rd _ 0 s h
  | loadOrd ord => exact bal_loadKeys rd _ 0 s h

theorem bal_runR (c : CfgR) (evs : List Req) : ∀ s, Bal s → Bal (runR c s evs) := by
  induction evs with
  | nil => intro s h; exact h
  | cons e rest ih => intro s h; obtain ⟨t, incs, ev⟩ := e; exact ih _ (bal_stepR c (rdOf t incs) s ev h)

/-- **Destroy balance with advancing clocks** (`release-count`): after every history of requests with arbitrary
intra-request clocks, for every id: incarnations = destroy() calls + dropped without destroy() + (live ? 1 : 0). -/
theorem C17R_destroy_balance (c : CfgR) (evs : List Req) (k : Nat) :
    incarnations (runR c State.init evs) k = (runR c State.init evs).destroyed.count k +
      (runR c State.init evs).dropped.count k + ((runR c State.init evs).insts.map (·.id)).count k :=
  bal_runR c evs State.init bal_init k

/-- no incarnation destroyed twice, none destroyed while it is live -/
theorem C17R_destroyed_at_most_once (c : CfgR) (evs : List Req) (k : Nat) :
    (runR c State.init evs).destroyed.count k + (if hasId (runR c State.init evs) k then 1 else 0)
      ≤ incarnations (runR c State.init evs) k := by
  have hb := C17R_destroy_balance c evs k
  generalize runR c State.init evs = s at hb ⊢
  by_cases hh : hasId s k = true
  · obtain ⟨i, hi, hid⟩ := (hasId_iff s k).mp hh
    have : 0 < (s.insts.map (·.id)).count k := List.count_pos_iff.mpr (List.mem_map.mpr ⟨i, hi, hid⟩)
    simp only [hh, ↓reduceIte]; omega
  · have hh' : hasId s k = false := by simpa using hh
    simp only [hh', Bool.false_eq_true, ↓reduceIte]; omega

/-- only stop-instance and load-state drop an object without destroy(): every other request leaves `dropped` -/
theorem droppedR_old (c : CfgR) (rd : Rd) (s : State) (e : Ev) : (stepR c rd s (.old e)).1.dropped = s.dropped := by
  have hen : ∀ j, (ensure s (rd 0) j).1.dropped = s.dropped := by
    intro j; unfold ensure; split
    · rfl
    · split <;> rfl
  have hsw : ∀ (n : Nat) (s1 : State), (sweepR rd n s1).dropped = s1.dropped := fun n s1 => (sweepR_ghost rd n s1).2.2.2
  cases e with
  | create τ => simp only [stepR, createR]; exact hsw 0 s
  | metrics => exact hsw 0 s
  | fullMetrics => exact hsw 0 s
  | access j kind =>
    simp only [stepR, accessR]
    have := hen j
    cases he : ensure s (rd 0) j with
    | mk s1 b =>
      rw [he] at this
      cases b with
      | false => rfl
      | true =>
        simp only
        split
        · rw [hsw]; exact this
        · rw [(applyKind_ghost _ _ kind).2.2.2.2, hsw]; exact this
  | keepAlive j =>
    simp only [stepR, keepAliveR]
    cases c.keepAliveRestores with
    | true =>
      simp only [if_true]
      have := hen j
      cases he : ensure s (rd 0) j with
      | mk s1 b =>
        rw [he] at this
        cases b with
        | false => rfl
        | true => simp only; rw [hsw]; exact this
    | false =>
      simp only [Bool.false_eq_true, if_false]
      cases hasId s j with
      | false => rfl
      | true => simp only; rw [hsw]; rfl

/-! ### the expiry comparison is on the full duration -/

theorem expLookup_good (o : ExpObs) (h : expiryIsFullDuration o = true) (idle τ : Nat) (v : Bool)
    (hl : expLookup o idle τ = some v) : v = fullCmp idle τ := by
  induction o with
  | nil => simp [expLookup] at hl
  | cons x rest ih =>
    obtain ⟨i, t, b⟩ := x
    simp only [expiryIsFullDuration, List.all_cons, Bool.and_eq_true, beq_iff_eq] at h
    simp only [expLookup] at hl
    split at hl
    · rename_i he
      obtain ⟨rfl, rfl⟩ := he
      cases hl; exact h.1
    · exact ih (by simpa [expiryIsFullDuration] using h.2) hl

theorem expOf_good (o : ExpObs) (h : expiryIsFullDuration o = true) : expOf o = fullCmp := by
  funext idle τ
  simp only [expOf]
  cases hl : expLookup o idle τ with
  | none => rfl
  | some v => simp [expLookup_good o h idle τ v hl]

/-- the machine's test is the full-duration comparison of the idle time -/
theorem expired_eq_fullCmp (now : Nat) (i : Inst) (h : i.last ≤ now) : expired now i = fullCmp (now - i.last) i.timeout := by
  simp only [expired, fullCmp]; congr 1; apply propext; omega

/-- the two lifetime clauses of the statement for ONE instance, with the comparison as a parameter: gone once the
full timeout has elapsed; still there before -/
def LifetimeClauses (cmp : ExpCmp) : Prop :=
  (∀ last τ now, last + τ ≤ now → cmp (now - last) τ = true) ∧
  (∀ last τ now, last ≤ now → now < last + τ → cmp (now - last) τ = false)

/-- they hold for a comparison iff it compares the WHOLE idle time with the WHOLE timeout, at every scale (µs,
days): no component, no truncation -/
theorem lifetime_iff_full (cmp : ExpCmp) : LifetimeClauses cmp ↔ ∀ idle τ, cmp idle τ = fullCmp idle τ := by
  constructor
  · rintro ⟨h1, h2⟩ idle τ
    by_cases h : τ ≤ idle
    · have := h1 0 τ idle (by omega); simpa [fullCmp, h] using this
    · have := h2 0 τ idle (by omega) (by omega); simpa [fullCmp, h] using this
  · intro h
    refine ⟨fun last τ now hh => ?_, fun last τ now h1 h2 => ?_⟩
    · rw [h]; simp only [fullCmp, decide_eq_true_eq]; omega
    · rw [h]; simp only [fullCmp, decide_eq_false_iff_not]; omega

theorem lifetime_of_good (o : ExpObs) (h : expiryIsFullDuration o = true) : LifetimeClauses (expOf o) :=
  (lifetime_iff_full _).mpr (fun idle τ => by rw [expOf_good o h])

/-- Negation witness `expiry-not-full-duration`: an observed verdict of the real sweep differs from the
full-duration comparison -/
theorem C17_witness_expiry (o : ExpObs) (idle τ : Nat) (h : expDeviatesAt o idle τ = true) : ¬ LifetimeClauses (expOf o) := by
  intro hl
  have := (lifetime_iff_full _).mp hl idle τ
  simp [expDeviatesAt, this] at h

/-- the seeded comparison never expires a timeout of a day or more … -/
theorem secondsCmp_day_never (idle τ : Nat) (h : dayMicros ≤ τ) : secondsCmp idle τ = false := by
  unfold dayMicros at h
  unfold secondsCmp dayMicros
  rw [decide_eq_false_iff_not]
  have h1 : idle % 86400000000 < 86400000000 := Nat.mod_lt _ (by omega)
  have h2 := Nat.div_mul_le_self (idle % 86400000000) 1000000
  omega

/-- … and expires a sub-second timeout only at the next whole second of idle time -/
theorem secondsCmp_late (idle τ : Nat) (h1 : 0 < τ) (h2 : idle < 1000000) : secondsCmp idle τ = false := by
  unfold secondsCmp dayMicros
  rw [decide_eq_false_iff_not]
  have : idle % 86400000000 = idle := Nat.mod_eq_of_lt (by omega)
  rw [this, Nat.div_eq_of_lt h2]; omega

theorem secondsCmp_not_lifetime : ¬ LifetimeClauses secondsCmp := by
  intro h
  have := (lifetime_iff_full _).mp h 86400000000 86400000000
  rw [secondsCmp_day_never 86400000000 86400000000 (by unfold dayMicros; omega)] at this
  unfold fullCmp at this
  have h2 : decide (86400000000 ≤ 86400000000) = true := decide_eq_true (Nat.le_refl _)
  rw [h2] at this; cases this

#print axioms stepR_const_eq_step2
#print axioms runR_lift_eq_run2
#print axioms C17R_destroy_balance
#print axioms C17R_destroyed_at_most_once
#print axioms droppedR_old
#print axioms lifetime_iff_full
#print axioms lifetime_of_good
#print axioms C17_witness_expiry
#print axioms secondsCmp_day_never
#print axioms secondsCmp_not_lifetime
end Bptk.C17
