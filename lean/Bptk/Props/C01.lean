import Bptk.Core.C01
import Bptk.Props.C02
import Bptk.Props.C05
/-!
C01 — SD-DSL simulation equals the explicit-Euler solution of the difference equations.

Chain of theorems (all quantifiers unbounded: every equation tree, every grid index k):
* A1 `render_parses` (Proofs/PyFrag): every function string parses to skeleton[operands as units].
* `denote_shift`: if every operator's shape at time `t - model.dt` is its shape at `t` with `t`
  replaced (decidable per-run obligation `shiftOK` on the probed tables — "time threading"), then for
  EVERY equation tree the text rendered at `t - model.dt` denotes the tree rendered at `t`, shifted.
* `stock_euler`, `flow_clamped`, `converter_eq`: any assignment `W` of values that satisfies the
  function strings (i.e. what evaluation returns) satisfies
  stock(0) = init, stock(k+1) = stock(k) + dt * eq[shifted](k+1), flow = max(0, eq), converter = eq.
* `evalM_shift`: on an exact grid the shifted equation at k+1 is the equation at k.
Carrier operations are uninterpreted: the equalities are between operation trees (bit-exact on doubles).
-/
namespace Bptk.C01
open Bptk.Py

variable {α : Type}

/-- what `Model.memoize`'s normalisation and the run specs guarantee about the time grid
(hypotheses, established for decimal/binary grids by C05's theorems and probed on the real code) -/
structure GridOK (C : TC α) : Prop where
  start0 : ∀ k, C.truthy (C.bin .le (C.time k) C.start) = decide (k = 0)
  idxPred : ∀ k, C.idx (C.bin .sub (C.time (k + 1)) C.dt) = some k
  idxNow : ∀ k, C.idx (C.time k) = some k

/-- a stock whose (parenthesis-free) function string is the stock skeleton satisfies the explicit
Euler recurrence — for every solution `W` and every step `k`. -/
theorem stock_euler (C : TC α) (hG : GridOK C) (W : String → Nat → α) (ρ : Nat → α)
    (n : String) (init eq body : Py) (hb : body = stockSkel n init eq)
    (hW : ∀ k, W n k = evalM C W ρ k body) :
    W n 0 = evalM C W ρ 0 init ∧
    ∀ k, W n (k + 1) = C.bin .add (W n k) (C.bin .mul C.dt (evalM C W ρ (k + 1) eq)) := by
  subst hb
  constructor
  · rw [hW 0]
    simp [stockSkel, evalM, isModel, modelAttr, hG.start0]
  · intro k
    rw [hW (k + 1)]
    simp [stockSkel, memoCall, tMinusDt, evalM, evalML, isModel, isMemoize, strArg, modelAttr,
      hG.start0, hG.idxPred]

/-- a stock without equation keeps its initial value -/
theorem stock0_const (C : TC α) (hG : GridOK C) (W : String → Nat → α) (ρ : Nat → α)
    (n : String) (init body : Py) (hb : body = stockSkel0 n init)
    (hW : ∀ k, W n k = evalM C W ρ k body) :
    W n 0 = evalM C W ρ 0 init ∧ ∀ k, W n (k + 1) = W n k := by
  subst hb
  constructor
  · rw [hW 0]
    simp [stockSkel0, evalM, isModel, modelAttr, hG.start0]
  · intro k
    rw [hW (k + 1)]
    simp [stockSkel0, memoCall, tMinusDt, evalM, evalML, isModel, isMemoize, strArg, modelAttr,
      hG.start0, hG.idxPred]

/-- a flow is its equation clamped at zero, at the same time -/
theorem flow_clamped (C : TC α) (W : String → Nat → α) (ρ : Nat → α) (n : String) (eq body : Py)
    (hb : body = flowSkel eq) (hW : ∀ k, W n k = evalM C W ρ k body) :
    ∀ k, W n k = C.call (C.name "max") [C.num "0", evalM C W ρ k eq] := by
  subst hb
  intro k
  rw [hW k]
  simp [flowSkel, evalM, evalML, isMemoize]

/-- a converter / biflow is its equation at the same time -/
theorem converter_eq (C : TC α) (W : String → Nat → α) (ρ : Nat → α) (n : String) (body : Py)
    (hW : ∀ k, W n k = evalM C W ρ k body) : ∀ k, W n k = evalM C W ρ k body := hW

/-- a reference to element `x` at the current time is that element's value at the same index -/
theorem ref_now (C : TC α) (hG : GridOK C) (W : String → Nat → α) (ρ : Nat → α) (x : String) (k : Nat) :
    evalM C W ρ k (memoCall x (.name "t")) = W x k := by
  simp [memoCall, evalM, evalML, isMemoize, strArg, hG.idxNow]

/-- a reference asked for at `t - model.dt` is the element's value one index earlier -/
theorem ref_prev (C : TC α) (hG : GridOK C) (W : String → Nat → α) (ρ : Nat → α) (x : String) (k : Nat) :
    evalM C W ρ (k + 1) (memoCall x tMinusDt) = W x k := by
  simp [memoCall, tMinusDt, evalM, evalML, isMemoize, isModel, strArg, modelAttr, hG.idxPred]

/-! ### Shift: evaluating the shifted text one index later -/

theorem isModel_substT (e : Py) : isModel (substT e) = isModel e := by
  match e with
  | .name s =>
    by_cases h : s = "t"
    · subst h; simp [substT, tMinusDt, isModel]
    · simp [substT, h, isModel]
  | .num _ | .str _ | .hole _ | .paren _ | .neg _ | .not _ | .bin _ _ _ | .ite _ _ _ | .attr _ _
  | .call _ _ | .index _ _ | .list _ | .kw _ _ => simp [substT, isModel]

theorem isMemoize_substT (f : Py) : isMemoize (substT f) = isMemoize f := by
  match f with
  | .attr (.name s) a =>
    by_cases h : s = "t"
    · subst h; simp [substT, tMinusDt, isMemoize]
    · simp [substT, h, isMemoize]
  | .attr (.num _) _ | .attr (.str _) _ | .attr (.hole _) _ | .attr (.paren _) _ | .attr (.neg _) _
  | .attr (.not _) _ | .attr (.bin _ _ _) _ | .attr (.ite _ _ _) _ | .attr (.attr _ _) _
  | .attr (.call _ _) _ | .attr (.index _ _) _ | .attr (.list _) _ | .attr (.kw _ _) _ =>
    simp [substT, isMemoize]
  | .name s =>
    by_cases h : s = "t"
    · subst h; simp [substT, tMinusDt, isMemoize]
    · simp [substT, h, isMemoize]
  | .num _ | .str _ | .hole _ | .paren _ | .neg _ | .not _ | .bin _ _ _ | .ite _ _ _
  | .call _ _ | .index _ _ | .list _ | .kw _ _ => simp [substT, isMemoize]

theorem strArg_substTL (args : List Py) : strArg (substTL args) = strArg args := by
  match args with
  | [] => simp [substTL, strArg]
  | [a] => cases a <;> simp [substTL, strArg]
  | a :: b :: c :: rest => cases a <;> simp [substTL, strArg]
  | [a, b] =>
    match a with
    | .name s =>
      by_cases h : s = "t"
      · subst h; simp [substTL, substT, tMinusDt, strArg]
      · simp [substTL, substT, h, strArg]
    | .num _ | .str _ | .hole _ | .paren _ | .neg _ | .not _ | .bin _ _ _ | .ite _ _ _ | .attr _ _
    | .call _ _ | .index _ _ | .list _ | .kw _ _ => simp [substTL, substT, strArg]

mutual
/-- on a grid where `t - dt` is exactly the previous label, the text shifted to `t - model.dt`
evaluated at index k+1 is the original text evaluated at index k -/
theorem evalM_shift (C : TC α) (W : String → Nat → α) (ρ : Nat → α) (k : Nat)
    (hx : C.bin .sub (C.time (k + 1)) C.dt = C.time k) (s : Py) :
    evalM C W ρ (k + 1) (substT s) = evalM C W ρ k s := by
  match s with
  | .num _ => simp [substT, evalM]
  | .str _ => simp [substT, evalM]
  | .hole _ => simp [substT, evalM]
  | .name n =>
    by_cases h : n = "t"
    · subst h; simp [substT, tMinusDt, evalM, isModel, modelAttr, hx]
    · simp [substT, h, evalM]
  | .paren e => simp [substT, evalM, evalM_shift C W ρ k hx e]
  | .neg e => simp [substT, evalM, evalM_shift C W ρ k hx e]
  | .not e => simp [substT, evalM, evalM_shift C W ρ k hx e]
  | .bin op l r => simp [substT, evalM, evalM_shift C W ρ k hx l, evalM_shift C W ρ k hx r]
  | .ite x c y =>
    simp [substT, evalM, evalM_shift C W ρ k hx x, evalM_shift C W ρ k hx c, evalM_shift C W ρ k hx y]
  | .attr e a => simp [substT, evalM, isModel_substT, evalM_shift C W ρ k hx e]
  | .call f args =>
    simp only [substT, evalM, isMemoize_substT, strArg_substTL, evalML_shift C W ρ k hx args,
      evalM_shift C W ρ k hx f]
  | .index e i => simp [substT, evalM, evalM_shift C W ρ k hx e, evalM_shift C W ρ k hx i]
  | .list es => simp [substT, evalM, evalML_shift C W ρ k hx es]
  | .kw n e => simp [substT, evalM, evalM_shift C W ρ k hx e]
theorem evalML_shift (C : TC α) (W : String → Nat → α) (ρ : Nat → α) (k : Nat)
    (hx : C.bin .sub (C.time (k + 1)) C.dt = C.time k) (es : List Py) :
    evalML C W ρ (k + 1) (substTL es) = evalML C W ρ k es := by
  match es with
  | [] => simp [substTL, evalML]
  | e :: es => simp [substTL, evalML, evalM_shift C W ρ k hx e, evalML_shift C W ρ k hx es]
end

/-- **Explicit Euler, in the property's own words.** On an exact grid, a stock whose function string
is the stock skeleton around the shifted equation satisfies
`stock(k+1) = stock(k) + dt * eq(k)`, `stock(0) = init`. -/
theorem stock_euler_exact (C : TC α) (hG : GridOK C) (W : String → Nat → α) (ρ : Nat → α)
    (hx : ∀ k, C.bin .sub (C.time (k + 1)) C.dt = C.time k)
    (n : String) (init eq body : Py) (hb : body = stockSkel n init (substT eq))
    (hW : ∀ k, W n k = evalM C W ρ k body) :
    W n 0 = evalM C W ρ 0 init ∧
    ∀ k, W n (k + 1) = C.bin .add (W n k) (C.bin .mul C.dt (evalM C W ρ k eq)) := by
  have h := stock_euler C hG W ρ n init (substT eq) body hb hW
  refine ⟨h.1, fun k => ?_⟩
  rw [h.2 k, evalM_shift C W ρ k (hx k) eq]

/-! ### Time threading for every equation tree -/

mutual
theorem erase_subst (σ : Nat → Py) (s : Py) : erase (subst σ s) = subst (fun i => erase (σ i)) (erase s) := by
  match s with
  | .num _ => simp [subst, erase]
  | .name _ => simp [subst, erase]
  | .str _ => simp [subst, erase]
  | .hole _ => simp [subst, erase]
  | .paren e => simp [subst, erase, erase_subst σ e]
  | .neg e => simp [subst, erase, erase_subst σ e]
  | .not e => simp [subst, erase, erase_subst σ e]
  | .bin k l r => simp [subst, erase, erase_subst σ l, erase_subst σ r]
  | .ite x c y => simp [subst, erase, erase_subst σ x, erase_subst σ c, erase_subst σ y]
  | .attr e a => simp [subst, erase, erase_subst σ e]
  | .call f args => simp [subst, erase, erase_subst σ f, eraseL_substL σ args]
  | .index e i => simp [subst, erase, erase_subst σ e, erase_subst σ i]
  | .list es => simp [subst, erase, eraseL_substL σ es]
  | .kw n e => simp [subst, erase, erase_subst σ e]
theorem eraseL_substL (σ : Nat → Py) (es : List Py) :
    eraseL (substL σ es) = substL (fun i => erase (σ i)) (eraseL es) := by
  match es with
  | [] => simp [substL, eraseL]
  | e :: es => simp [substL, eraseL, erase_subst σ e, eraseL_substL σ es]
end

mutual
theorem substT_subst (σ : Nat → Py) (s : Py) :
    substT (subst σ s) = subst (fun i => substT (σ i)) (substT s) := by
  match s with
  | .num _ => simp [subst, substT]
  | .str _ => simp [subst, substT]
  | .hole _ => simp [subst, substT]
  | .name n =>
    by_cases h : n = "t"
    · subst h; simp [subst, substT, tMinusDt, substL]
    · simp [subst, substT, h]
  | .paren e => simp [subst, substT, substT_subst σ e]
  | .neg e => simp [subst, substT, substT_subst σ e]
  | .not e => simp [subst, substT, substT_subst σ e]
  | .bin k l r => simp [subst, substT, substT_subst σ l, substT_subst σ r]
  | .ite x c y => simp [subst, substT, substT_subst σ x, substT_subst σ c, substT_subst σ y]
  | .attr e a => simp [subst, substT, substT_subst σ e]
  | .call f args => simp [subst, substT, substT_subst σ f, substTL_substL σ args]
  | .index e i => simp [subst, substT, substT_subst σ e, substT_subst σ i]
  | .list es => simp [subst, substT, substTL_substL σ es]
  | .kw n e => simp [subst, substT, substT_subst σ e]
theorem substTL_substL (σ : Nat → Py) (es : List Py) :
    substTL (substL σ es) = substL (fun i => substT (σ i)) (substTL es) := by
  match es with
  | [] => simp [substL, substTL]
  | e :: es => simp [substL, substTL, substT_subst σ e, substTL_substL σ es]
end

mutual
theorem subst_congr (σ σ' : Nat → Py) (h : ∀ i, σ i = σ' i) (s : Py) : subst σ s = subst σ' s := by
  match s with
  | .num _ => simp [subst]
  | .name _ => simp [subst]
  | .str _ => simp [subst]
  | .hole i => simp [subst, h]
  | .paren e => simp [subst, subst_congr σ σ' h e]
  | .neg e => simp [subst, subst_congr σ σ' h e]
  | .not e => simp [subst, subst_congr σ σ' h e]
  | .bin k l r => simp [subst, subst_congr σ σ' h l, subst_congr σ σ' h r]
  | .ite x c y => simp [subst, subst_congr σ σ' h x, subst_congr σ σ' h c, subst_congr σ σ' h y]
  | .attr e a => simp [subst, subst_congr σ σ' h e]
  | .call f args => simp [subst, subst_congr σ σ' h f, substL_congr σ σ' h args]
  | .index e i => simp [subst, subst_congr σ σ' h e, subst_congr σ σ' h i]
  | .list es => simp [subst, substL_congr σ σ' h es]
  | .kw n e => simp [subst, subst_congr σ σ' h e]
theorem substL_congr (σ σ' : Nat → Py) (h : ∀ i, σ i = σ' i) (es : List Py) :
    substL σ es = substL σ' es := by
  match es with
  | [] => simp [substL]
  | e :: es => simp [substL, subst_congr σ σ' h e, substL_congr σ σ' h es]
end

mutual
/-- the same expression tree with its leaves (element references, numbers) asked for at `t - model.dt` -/
def shiftE : E → E
  | .leaf p => .leaf (substT p)
  | .node k cs => .node k (shiftEL cs)
def shiftEL : List E → List E
  | [] => []
  | c :: cs => shiftE c :: shiftEL cs
end

/-- per-run decidable obligation ("time threading"): every operator's shape in the table probed at
time `t - model.dt` is its shape in the table probed at `t` with `t` replaced by `t - model.dt`. -/
def shiftOK (Tt Tdt : Table) : Bool :=
  decide (Tt.length = Tdt.length) &&
  (List.range Tt.length).all fun k => beqPy (erase (Tdt.shape k)) (substT (erase (Tt.shape k)))

theorem shiftOK_shape (Tt Tdt : Table) (h : shiftOK Tt Tdt = true) (k : Nat) (hk : k < Tt.length) :
    erase (Tdt.shape k) = substT (erase (Tt.shape k)) := by
  unfold shiftOK at h
  simp only [Bool.and_eq_true, decide_eq_true_eq, List.all_eq_true, List.mem_range] at h
  exact beqPy_eq _ _ (h.2 k hk)

theorem nthD_map' (f : Py → Py) (hf : f (.name "MISSING") = .name "MISSING") (l : List Py) (i : Nat) :
    f (nthD (.name "MISSING") l i) = nthD (.name "MISSING") (l.map f) i := by
  induction l generalizing i with
  | nil => simp [nthD, hf]
  | cons x xs ih => cases i <;> simp [nthD, ih]

mutual
/-- **Time threading for every equation tree**: rendering a tree at `t - model.dt` denotes the tree
rendered at `t` with the time variable shifted — no operand is silently read at the wrong time. -/
theorem denote_shift (Tt Tdt : Table) (h : shiftOK Tt Tdt = true) (e : E) (he : E.ok Tt 0 e = true) :
    erase (denote Tdt (shiftE e)) = substT (erase (denote Tt e)) := by
  match e, he with
  | .leaf p, _ => simp [shiftE, denote, erase_substT]
  | .node k cs, he =>
    simp only [E.ok, Bool.and_eq_true] at he
    have hk : k < Tt.length := by
      cases hT : Tt[k]? with
      | none => simp [hT] at he
      | some t => exact (List.getElem?_eq_some_iff.mp hT).1
    have hl := denoteL_shift Tt Tdt h cs he.2
    simp only [shiftE, denote, erase_subst, substT_subst, shiftOK_shape Tt Tdt h k hk]
    apply subst_congr
    intro i
    rw [nthD_map' erase (by simp [erase]), nthD_map' erase (by simp [erase]),
      nthD_map' substT (by simp [substT]), hl]
theorem denoteL_shift (Tt Tdt : Table) (h : shiftOK Tt Tdt = true) (cs : List E)
    (he : E.okL Tt 0 cs = true) :
    (denoteL Tdt (shiftEL cs)).map erase = ((denoteL Tt cs).map erase).map substT := by
  match cs, he with
  | [], _ => simp [shiftEL, denoteL]
  | c :: cs, he =>
    simp only [E.okL, Bool.and_eq_true] at he
    simp [shiftEL, denoteL, denote_shift Tt Tdt h c he.1, denoteL_shift Tt Tdt h cs he.2]
theorem erase_substT (p : Py) : erase (substT p) = substT (erase p) := by
  match p with
  | .num _ => simp [substT, erase]
  | .str _ => simp [substT, erase]
  | .hole _ => simp [substT, erase]
  | .name n =>
    by_cases h : n = "t"
    · subst h; simp [substT, erase, tMinusDt]
    · simp [substT, erase, h]
  | .paren e => simp [substT, erase, erase_substT e]
  | .neg e => simp [substT, erase, erase_substT e]
  | .not e => simp [substT, erase, erase_substT e]
  | .bin k l r => simp [substT, erase, erase_substT l, erase_substT r]
  | .ite x c y => simp [substT, erase, erase_substT x, erase_substT c, erase_substT y]
  | .attr e a => simp [substT, erase, erase_substT e]
  | .call f args => simp [substT, erase, erase_substT f, eraseL_substTL args]
  | .index e i => simp [substT, erase, erase_substT e, erase_substT i]
  | .list es => simp [substT, erase, eraseL_substTL es]
  | .kw n e => simp [substT, erase, erase_substT e]
theorem eraseL_substTL (es : List Py) : eraseL (substTL es) = substTL (eraseL es) := by
  match es with
  | [] => simp [substTL, eraseL]
  | e :: es => simp [substTL, eraseL, erase_substT e, eraseL_substTL es]
end

/-! ### Built-in functions: intended shapes and what they compute -/

private def h0 : Py := .hole 0
private def h1 : Py := .hole 1
private def h2 : Py := .hole 2

/-- intended parenthesis-free shapes of the time functions, at time `t` -/
def specPy01 : String → Option Py
  | "Step" => some (.ite h0 (.bin .gt (.name "t") h1) (.num "0.0"))
  | "Time" => some (.name "t")
  | "Lookup" => some (.call (.attr (.name "model") "_lookup") [h0, .str "tbl"])
  -- the probe instantiates the next four with fixed numbers: delay 3.0 / initial 1.5; pulse volume H0, first 2.0,
  -- interval 3.0, dt 1.0; wave amplitude H0, period H1
  | "Delay" => some (.ite (memoCall "__h0__" (.bin .sub (.name "t") (.num "3.0")))
      (.bin .ge (.bin .sub (.name "t") (.num "3.0")) (.num "0.0")) (.num "1.5"))
  -- delay whose duration and initial value are model ELEMENTS (read at the start time): the input at `t - duration`
  -- when that is not before the start, the initial value otherwise
  | "Delay[element]" =>
      let d : Py := .bin .sub (.name "t") (memoCall "__h1__" (.num "0.0"))
      some (.ite (memoCall "__h0__" d) (.bin .ge d (.num "0.0")) (memoCall "__h2__" (.num "0.0")))
  | "Pulse[first]" =>
      let d : Py := .bin .sub (.name "t") (.num "2.0")
      some (.ite (.bin .div h0 (.num "1.0"))
        (.bin .and (.bin .gt d (.bin .mul (.neg (.num "1.0")) (.num "0.499999999")))
          (.bin .le d (.bin .mul (.num "1.0") (.num "0.500000001"))))
        (.num "0.0"))
  | "Pulse[interval]" =>
      let d : Py := .bin .sub (.name "t") (.num "2.0")
      let x : Py := .bin .sub d (.bin .mul (.num "3.0") (.call (.attr (.name "math") "ceil")
        [.bin .div (.bin .sub d (.bin .mul (.num "1.0") (.num "0.500000001"))) (.num "3.0")]))
      let lo : Py := .bin .mul (.neg (.num "1.0")) (.num "0.499999999")
      let hi : Py := .bin .mul (.num "1.0") (.num "0.500000001")
      some (.ite (.bin .div h0 (.num "1.0"))
        (.bin .and (.bin .and (.bin .gt d lo) (.bin .gt x lo)) (.bin .le x hi))
        (.num "0.0"))
  | "Sinwave" => some (.bin .mul (.call (.attr (.name "np") "sin")
      [.bin .mul (.bin .div (.bin .mul (.num "2") (.attr (.name "np") "pi")) h1)
        (.bin .sub (.name "t") (.attr (.name "model") "starttime"))]) h0)
  | "Coswave" => some (.bin .mul (.call (.attr (.name "np") "cos")
      [.bin .mul (.bin .div (.bin .mul (.num "2") (.attr (.name "np") "pi")) h1)
        (.bin .sub (.name "t") (.attr (.name "model") "starttime"))]) h0)
  | _ => none

def specOK01 (T : Table) : Bool :=
  T.all fun t => match specPy01 t.cls with
    | some s => beqPy (erase (shapeOf t)) s
    | none => true

/-- STEP(height, time): `height` after the step time, else 0.0 -/
theorem step_sem (C : TC α) (W : String → Nat → α) (ρ : Nat → α) (k : Nat) :
    evalM C W ρ k (.ite h0 (.bin .gt (.name "t") h1) (.num "0.0")) =
      if C.truthy (C.bin .gt (C.time k) (ρ 1)) then ρ 0 else C.num "0.0" := by
  simp [evalM, h0, h1]

/-- DELAY(input x, duration d, initial i): the input element's value at the index of `t - d` when
that time is not before the start, the initial value otherwise -/
theorem delay_sem (C : TC α) (W : String → Nat → α) (ρ : Nat → α) (k : Nat) (x : String) (d init : Py) (j : Nat)
    (hj : C.idx (C.bin .sub (C.time k) (evalM C W ρ k d)) = some j) :
    evalM C W ρ k (.ite (memoCall x (.bin .sub (.name "t") d))
        (.bin .ge (.bin .sub (.name "t") d) (.attr (.name "model") "starttime")) init) =
      if C.truthy (C.bin .ge (C.bin .sub (C.time k) (evalM C W ρ k d)) C.start) then W x j
      else evalM C W ρ k init := by
  simp [evalM, evalML, memoCall, isMemoize, isModel, strArg, modelAttr, hj]

/-- SMOOTH / TREND core: with the helper stock `s` integrating the helper rate `r`, and
`r = (input - s) / T`, the stock is the first-order exponential average
`s(k+1) = s(k) + dt * ((input(k) - s(k)) / T(k))`. -/
theorem smooth_first_order (C : TC α) (hG : GridOK C) (W : String → Nat → α) (ρ : Nat → α)
    (s r inp avg : String) (init : Py)
    (hs : ∀ k, W s k = evalM C W ρ k (stockSkel s init (memoCall r tMinusDt)))
    (hr : ∀ k, W r k = evalM C W ρ k
      (.bin .div (.bin .sub (memoCall inp (.name "t")) (memoCall s (.name "t"))) (memoCall avg (.name "t")))) :
    W s 0 = evalM C W ρ 0 init ∧
    ∀ k, W s (k + 1) = C.bin .add (W s k)
      (C.bin .mul C.dt (C.bin .div (C.bin .sub (W inp k) (W s k)) (W avg k))) := by
  have h := stock_euler C hG W ρ s init (memoCall r tMinusDt) _ rfl hs
  refine ⟨h.1, fun k => ?_⟩
  rw [h.2 k, ref_prev C hG W ρ r k, hr k]
  simp [evalM, ref_now C hG W ρ]

/-- TREND(input, T, init): with the helper stock `s` (exponential average, as in `smooth_first_order`), the
reported trend is the fractional distance of the input from its average per averaging time,
`(input(k) - s(k)) / (s(k) * T(k))`. -/
theorem trend_sem (C : TC α) (hG : GridOK C) (W : String → Nat → α) (ρ : Nat → α)
    (tr s inp avg : String)
    (ht : ∀ k, W tr k = evalM C W ρ k
      (.bin .div (.bin .sub (memoCall inp (.name "t")) (memoCall s (.name "t")))
        (.bin .mul (memoCall s (.name "t")) (memoCall avg (.name "t"))))) :
    ∀ k, W tr k = C.bin .div (C.bin .sub (W inp k) (W s k)) (C.bin .mul (W s k) (W avg k)) := by
  intro k
  rw [ht k]
  simp [evalM, ref_now C hG W ρ]

/-- PULSE(volume, first) without interval: `volume/dt` exactly when `first` lies in the half-open window
`(t - dt/2, t + dt/2]` around the time (so exactly one grid point carries the pulse) -/
theorem pulse_first_sem (C : TC α) (W : String → Nat → α) (ρ : Nat → α) (k : Nat) (first dtl : String) :
    let d : Py := .bin .sub (.name "t") (.num first)
    evalM C W ρ k (.ite (.bin .div (.hole 0) (.num dtl))
        (.bin .and (.bin .gt d (.bin .mul (.neg (.num dtl)) (.num "0.499999999")))
          (.bin .le d (.bin .mul (.num dtl) (.num "0.500000001")))) (.num "0.0")) =
      if C.truthy (C.bin .and
          (C.bin .gt (C.bin .sub (C.time k) (C.num first)) (C.bin .mul (C.neg (C.num dtl)) (C.num "0.499999999")))
          (C.bin .le (C.bin .sub (C.time k) (C.num first)) (C.bin .mul (C.num dtl) (C.num "0.500000001"))))
      then C.bin .div (ρ 0) (C.num dtl) else C.num "0.0" := by
  simp [evalM]

/-! ### `_lookup`: clamped linear interpolation -/

theorem lookup_left (x0 y0 : Rat) (rest : List (Rat × Rat)) (x : Rat) (h : x ≤ x0) :
    lookup ((x0, y0) :: rest) x = y0 := by simp [lookup, h]

theorem lookup_right (pts : List (Rat × Rat)) (x0 y0 : Rat) (rest : List (Rat × Rat))
    (hp : pts = (x0, y0) :: rest) (x : Rat) (h0 : ¬ x ≤ x0) (h : x ≥ lastX pts) :
    lookup pts x = lastY pts := by
  subst hp; simp [lookup, h0, h]

theorem lookup_segment (x0 y0 x1 y1 : Rat) (rest : List (Rat × Rat)) (x : Rat)
    (h0 : ¬ x ≤ x0) (h1 : x ≤ x1) (hl : ¬ x ≥ lastX ((x0, y0) :: (x1, y1) :: rest)) :
    lookup ((x0, y0) :: (x1, y1) :: rest) x = y0 + (y1 - y0) * ((x - x0) / (x1 - x0)) := by
  simp [lookup, h0, hl, interp, h1]

theorem interp_later (x0 y0 x1 y1 : Rat) (rest : List (Rat × Rat)) (x : Rat) (h1 : ¬ x ≤ x1) :
    interp ((x0, y0) :: (x1, y1) :: rest) x = interp ((x1, y1) :: rest) x := by
  simp [interp, h1]

/-- Negation witness for the pinned tree's `number * element` template (`(H1) * (H0)` rendered with
the number operand at the default time): the shape asked for at `t - model.dt` still reads the
element at `t`, so `shiftOK` is false. -/
def nmulT : Tmpl :=
  ⟨"NumericalMultiplicationOperator", 2,
   [.lp, .name "model", .dot, .name "memoize", .lp, .str "f", .comma, .name "t", .rp, .rp, .op .mul,
    .lp, .hole 0, .rp]⟩
theorem C01_witness_time_dropped : shiftOK [nmulT] [nmulT] = false := by decide +kernel

/-- Non-vacuity: a concrete carrier (Int values, exact grid) satisfying `GridOK` exists. -/
def demoC : TC Int where
  num := fun _ => 0
  name := fun _ => 0
  str := fun _ => 0
  neg := fun x => -x
  not := fun x => if x = 0 then 1 else 0
  bin := fun op a b => match op with
    | .add => a + b | .sub => a - b | .mul => a * b | .le => if a ≤ b then 1 else 0 | _ => 0
  attr := fun _ _ => 0
  call := fun _ _ => 0
  index := fun _ _ => 0
  list := fun _ => 0
  kw := fun _ x => x
  time := fun k => k
  dt := 1
  start := 0
  stop := 10
  truthy := fun x => x != 0
  idx := fun x => if x < 0 then none else some x.toNat

example : GridOK demoC := by
  constructor
  · intro k
    cases k with
    | zero => simp [demoC]
    | succ n => simp [demoC]
  · intro k; simp [demoC]
  · intro k; simp [demoC]

/-! ## Wave 3 (1): `GridOK` derived from C05's theorems on decimal grids -/

section c05
open Bptk.C05 (Fl Grid Budget label normalize memoKey label_lt label_zero route_independent back_label)

/-- `GridOK` on a horizon of `N` steps (C05's error budget is per horizon) -/
structure GridOKN (C : TC α) (N : Nat) : Prop where
  start0 : ∀ k, k ≤ N → C.truthy (C.bin .le (C.time k) C.start) = decide (k = 0)
  idxPred : ∀ k, k + 1 ≤ N → C.idx (C.bin .sub (C.time (k + 1)) C.dt) = some k
  idxNow : ∀ k, k ≤ N → C.idx (C.time k) = some k

theorem GridOK.toN {C : TC α} (h : GridOK C) (N : Nat) : GridOKN C N :=
  ⟨fun k _ => h.start0 k, fun k _ => h.idxPred k, fun k _ => h.idxNow k⟩

theorem stock_eulerN (C : TC α) (N : Nat) (hG : GridOKN C N) (W : String → Nat → α) (ρ : Nat → α)
    (n : String) (init eq body : Py) (hb : body = stockSkel n init eq)
    (hW : ∀ k, k ≤ N → W n k = evalM C W ρ k body) :
    W n 0 = evalM C W ρ 0 init ∧
    ∀ k, k + 1 ≤ N → W n (k + 1) = C.bin .add (W n k) (C.bin .mul C.dt (evalM C W ρ (k + 1) eq)) := by
  subst hb
  constructor
  · rw [hW 0 (Nat.zero_le _)]
    simp [stockSkel, evalM, isModel, modelAttr, hG.start0 0 (Nat.zero_le _)]
  · intro k hk
    rw [hW (k + 1) hk]
    simp [stockSkel, memoCall, tMinusDt, evalM, evalML, isModel, isMemoize, strArg, modelAttr,
      hG.start0 (k + 1) hk, hG.idxPred k hk]

/-- the grid index `Model.memoize`'s normalisation assigns to a float time value `x`: the `k ≤ N` whose
label `normalize(x, dt, start, precision)` is -/
def idxOf (F : Fl) (G : Grid) (N : ℕ) (x : ℚ) : Option ℕ :=
  (List.range (N + 1)).find? fun k => decide (normalize F.fl x (G.h F) (G.s F) G.p = label F G (k : ℤ))

theorem idxOf_eq (F : Fl) (G : Grid) (N : ℕ) (r : ℚ) (B : Budget F G N r) (x : ℚ) (k : ℕ) (hk : k ≤ N)
    (h : normalize F.fl x (G.h F) (G.s F) G.p = label F G (k : ℤ)) : idxOf F G N x = some k := by
  unfold idxOf
  rw [List.find?_range_eq_some]
  refine ⟨by simpa using h, by simp; omega, ?_⟩
  intro j hj
  have := label_lt F G N r B j k hj hk
  simp only [h, Bool.not_eq_eq_eq_not, Bool.not_true, decide_eq_false_iff_not]
  exact fun e => absurd e.symm (ne_of_lt this)

/-- C01's carrier with its time part interpreted by C05's float model: time values are embedded by `num`,
`t` at index k is the label, `t - model.dt` is the rounded subtraction, `t <= model.starttime` the
comparison of the floats, `idx` the index `normalize` assigns. -/
structure FloatTime (C : TC α) (F : Fl) (G : Grid) (N : ℕ) (num : ℚ → α) : Prop where
  time : ∀ k, C.time k = num (label F G (k : ℤ))
  dt : C.dt = num (G.h F)
  start : C.start = num (G.s F)
  sub : ∀ a b, C.bin .sub (num a) (num b) = num (F.fl (a - b))
  le : ∀ a b, C.truthy (C.bin .le (num a) (num b)) = decide (a ≤ b)
  idx : ∀ x, C.idx (num x) = idxOf F G N x

theorem label_near (F : Fl) (G : Grid) (N : ℕ) (r : ℚ) (B : Budget F G N r) (k : ℕ) (hk : k ≤ N) :
    |label F G (k : ℤ) - G.g (k : ℤ)| ≤ r := by
  have e0 := F.u_nonneg
  have hH := G.H_pos
  have hM := G.g_abs_le N k hk
  have hM0 : 0 ≤ G.M N := le_trans (abs_nonneg _) hM
  have hh := B.h_pos
  have l1 : |label F G (k : ℤ) - G.g (k : ℤ)| ≤ F.u * |G.g (k : ℤ)| := F.err _
  have y7 : F.u * |G.g (k : ℤ)| ≤ F.u * G.M N := mul_le_mul_of_nonneg_left hM e0
  have := B.hR
  have h1 : 0 ≤ F.u * ((1 + F.u) * G.M N + G.h F) := by positivity
  have h2 : 0 ≤ F.u * G.H := by positivity
  linarith

/-- **GridOK from C05's theorems** (`route_independent` = `normalize_near` on the horizon, `back_label`,
`label_lt`): nothing about the time grid is assumed beyond C05's explicit error `Budget`. -/
theorem gridOKN_of_C05 (C : TC α) (F : Fl) (G : Grid) (N : ℕ) (r : ℚ) (num : ℚ → α)
    (FT : FloatTime C F G N num) (B : Budget F G N r) : GridOKN C N := by
  have h0 : label F G ((0 : ℕ) : ℤ) = G.s F := by simpa using label_zero F G
  refine ⟨?_, ?_, ?_⟩
  · intro k hk
    rw [FT.time, FT.start, FT.le]
    cases k with
    | zero =>
      have : label F G ((0 : ℕ) : ℤ) ≤ G.s F := le_of_eq h0
      simpa using this
    | succ k =>
      have := label_lt F G N r B 0 (k + 1) (by omega) hk
      rw [h0] at this
      have h2 : ¬ label F G ((k + 1 : ℕ) : ℤ) ≤ G.s F := not_le.mpr this
      simpa using h2
  · intro k hk
    rw [FT.time, FT.dt, FT.sub, FT.idx]
    exact idxOf_eq F G N r B _ k (by omega) (back_label F G N r B k hk)
  · intro k hk
    rw [FT.time, FT.idx]
    exact idxOf_eq F G N r B _ k hk
      (route_independent F G N r B k hk _ _ (label_near F G N r B k hk) (label_near F G N r B k hk)).1

/-- **Explicit Euler without grid hypotheses**: on every decimal grid within C05's budget -/
theorem stock_euler_C05 (C : TC α) (F : Fl) (G : Grid) (N : ℕ) (r : ℚ) (num : ℚ → α)
    (FT : FloatTime C F G N num) (B : Budget F G N r)
    (W : String → Nat → α) (ρ : Nat → α) (n : String) (init eq : Py)
    (hW : ∀ k, k ≤ N → W n k = evalM C W ρ k (stockSkel n init eq)) :
    W n 0 = evalM C W ρ 0 init ∧
    ∀ k, k + 1 ≤ N → W n (k + 1) = C.bin .add (W n k) (C.bin .mul C.dt (evalM C W ρ (k + 1) eq)) :=
  stock_eulerN C N (gridOKN_of_C05 C F G N r num FT B) W ρ n init eq _ rfl hW
end c05

/-! ## Wave 3 (2): existence and uniqueness of the solution of an acyclic model -/

/-- `Wq` provides at least the values `Wp` provides -/
def leW (Wp Wq : String → Nat → Option α) : Prop := ∀ m j a, Wp m j = some a → Wq m j = some a

theorem callO_mono (C : TC α) (f g : Option α) (vs : List α) (v : α) (h : ∀ a, f = some a → g = some a)
    (hv : callO C f vs = some v) : callO C g vs = some v := by
  cases f with
  | none => simp [callO] at hv
  | some a => rw [h a rfl]; exact hv

mutual
theorem evalO_mono (C : TC α) (Wp Wq : String → Nat → Option α) (h : leW Wp Wq) (ρ : Nat → α) (k : Nat)
    (e : Py) (v : α) (hv : evalO C Wp ρ k e = some v) : evalO C Wq ρ k e = some v := by
  match e with
  | .num _ => simpa [evalO] using hv
  | .name _ => simpa [evalO] using hv
  | .str _ => simpa [evalO] using hv
  | .hole _ => simpa [evalO] using hv
  | .paren e => simp only [evalO] at hv ⊢; exact evalO_mono C Wp Wq h ρ k e v hv
  | .neg e =>
    have ih := evalO_mono C Wp Wq h ρ k e
    simp only [evalO] at hv ⊢
    split at hv
    · rename_i a ha; rw [ih a ha]; exact hv
    · simp at hv
  | .not e =>
    have ih := evalO_mono C Wp Wq h ρ k e
    simp only [evalO] at hv ⊢
    split at hv
    · rename_i a ha; rw [ih a ha]; exact hv
    · simp at hv
  | .kw n e =>
    have ih := evalO_mono C Wp Wq h ρ k e
    simp only [evalO] at hv ⊢
    split at hv
    · rename_i a ha; rw [ih a ha]; exact hv
    · simp at hv
  | .list es =>
    have ih := evalOL_mono C Wp Wq h ρ k es
    simp only [evalO] at hv ⊢
    split at hv
    · rename_i a ha; rw [ih a ha]; exact hv
    · simp at hv
  | .bin op l r =>
    have ihl := evalO_mono C Wp Wq h ρ k l
    have ihr := evalO_mono C Wp Wq h ρ k r
    simp only [evalO] at hv ⊢
    split at hv
    · rename_i a b ha hb
      rw [ihl a ha, ihr b hb]; exact hv
    · simp at hv
  | .index l r =>
    have ihl := evalO_mono C Wp Wq h ρ k l
    have ihr := evalO_mono C Wp Wq h ρ k r
    simp only [evalO] at hv ⊢
    split at hv
    · rename_i a b ha hb
      rw [ihl a ha, ihr b hb]; exact hv
    · simp at hv
  | .ite x c y =>
    have ihx := evalO_mono C Wp Wq h ρ k x
    have ihc := evalO_mono C Wp Wq h ρ k c
    have ihy := evalO_mono C Wp Wq h ρ k y
    simp only [evalO] at hv ⊢
    split at hv
    · rename_i cv hc
      rw [ihc cv hc]
      by_cases ht : C.truthy cv = true
      · simp only [ht, if_true] at hv ⊢; exact ihx v hv
      · simp only [ht] at hv ⊢; exact ihy v hv
    · simp at hv
  | .attr e a =>
    have ih := evalO_mono C Wp Wq h ρ k e
    simp only [evalO] at hv ⊢
    by_cases hm : isModel e = true
    · simpa [hm] using hv
    · rw [if_neg hm] at hv ⊢
      split at hv
      · rename_i b hb; rw [ih b hb]; exact hv
      · simp at hv
  | .call f args =>
    have ihf := evalO_mono C Wp Wq h ρ k f
    have iha := evalOL_mono C Wp Wq h ρ k args
    simp only [evalO] at hv ⊢
    split at hv
    · simp at hv
    · rename_i vs hvs
      rw [iha vs hvs]
      dsimp only
      by_cases hm : isMemoize f = true
      · simp only [hm, if_true] at hv ⊢
        split at hv
        · rename_i n x tv hn
          split at hv
          · exact h n _ v hv
          · exact hv
        · exact callO_mono C _ _ _ v ihf hv
      · rw [if_neg hm] at hv ⊢
        exact callO_mono C _ _ _ v ihf hv
theorem evalOL_mono (C : TC α) (Wp Wq : String → Nat → Option α) (h : leW Wp Wq) (ρ : Nat → α) (k : Nat)
    (es : List Py) (vs : List α) (hv : evalOL C Wp ρ k es = some vs) : evalOL C Wq ρ k es = some vs := by
  match es with
  | [] => simpa [evalOL] using hv
  | e :: es =>
    have ih1 := evalO_mono C Wp Wq h ρ k e
    have ih2 := evalOL_mono C Wp Wq h ρ k es
    simp only [evalOL] at hv ⊢
    split at hv
    · rename_i a b ha hb
      rw [ih1 a ha, ih2 b hb]; exact hv
    · simp at hv
end

/-- a total valuation seen as a partial one -/
def totalW (W : String → Nat → α) : String → Nat → Option α := fun m j => some (W m j)

mutual
/-- over a total valuation the instrumented evaluator is `evalM` -/
theorem evalO_total (C : TC α) (W : String → Nat → α) (ρ : Nat → α) (k : Nat) (e : Py) :
    evalO C (totalW W) ρ k e = some (evalM C W ρ k e) := by
  match e with
  | .num _ => simp [evalO, evalM]
  | .name _ => simp [evalO, evalM]
  | .str _ => simp [evalO, evalM]
  | .hole _ => simp [evalO, evalM]
  | .paren e => simp [evalO, evalM, evalO_total C W ρ k e]
  | .neg e => simp [evalO, evalM, evalO_total C W ρ k e]
  | .not e => simp [evalO, evalM, evalO_total C W ρ k e]
  | .kw n e => simp [evalO, evalM, evalO_total C W ρ k e]
  | .list es => simp [evalO, evalM, evalOL_total C W ρ k es]
  | .bin op l r => simp [evalO, evalM, evalO_total C W ρ k l, evalO_total C W ρ k r]
  | .index l r => simp [evalO, evalM, evalO_total C W ρ k l, evalO_total C W ρ k r]
  | .ite x c y =>
    simp only [evalO, evalM, evalO_total C W ρ k x, evalO_total C W ρ k c, evalO_total C W ρ k y]
    split <;> rfl
  | .attr e a =>
    simp only [evalO, evalM, evalO_total C W ρ k e]
    split <;> rfl
  | .call f args =>
    simp only [evalO, evalM, evalO_total C W ρ k f, evalOL_total C W ρ k args, callO]
    by_cases hm : isMemoize f = true
    · simp only [hm, if_true]
      split
      · split <;> simp_all [totalW]
      · rename_i hno
        first
          | rfl
          | (split
             · rename_i n x tv hn hvs
               exact (hno n x tv hn hvs).elim
             · rfl)
    · simp only [hm]; rfl
theorem evalOL_total (C : TC α) (W : String → Nat → α) (ρ : Nat → α) (k : Nat) (es : List Py) :
    evalOL C (totalW W) ρ k es = some (evalML C W ρ k es) := by
  match es with
  | [] => simp [evalOL, evalML]
  | e :: es => simp [evalOL, evalML, evalO_total C W ρ k e, evalOL_total C W ρ k es]
end

/-- **soundness of the instrumented evaluator**: if the evaluation over a partial valuation succeeds, every
total valuation extending it evaluates (by `evalM`) to the same value — the result depends only on the
consulted values -/
theorem evalO_sound (C : TC α) (Wp : String → Nat → Option α) (W : String → Nat → α) (ρ : Nat → α) (k : Nat)
    (e : Py) (v : α) (h : ∀ m j a, Wp m j = some a → W m j = a) (hv : evalO C Wp ρ k e = some v) :
    evalM C W ρ k e = v := by
  have h2 := evalO_mono C Wp (totalW W) (fun m j a ha => by simp [totalW, h m j a ha]) ρ k e v hv
  rw [evalO_total] at h2
  exact Option.some.inj h2

/-! #### the cache-free recursive evaluator -/

theorem solveF_succ (C : TC α) (els : List (String × Py)) (ρ : Nat → α) :
    ∀ fuel n k v, solveF C els ρ fuel n k = some v → solveF C els ρ (fuel + 1) n k = some v := by
  intro fuel
  induction fuel with
  | zero => intro n k v h; simp [solveF] at h
  | succ f ih =>
    intro n k v h
    rw [solveF] at h ⊢
    cases hb : bodyOf els n with
    | none => simp [hb] at h
    | some body =>
      simp only [hb] at h ⊢
      exact evalO_mono C _ _ (fun m j a ha => ih m j a ha) ρ k body v h

theorem solveF_mono (C : TC α) (els : List (String × Py)) (ρ : Nat → α) (f f' : Nat) (hf : f ≤ f')
    (n : String) (k : Nat) (v : α) (h : solveF C els ρ f n k = some v) : solveF C els ρ f' n k = some v := by
  induction hf with
  | refl => exact h
  | step _ ih => exact solveF_succ C els ρ _ n k v ih

/-- the evaluator is deterministic across fuels -/
theorem solveF_det (C : TC α) (els : List (String × Py)) (ρ : Nat → α) (f1 f2 : Nat) (n : String) (k : Nat)
    (v1 v2 : α) (h1 : solveF C els ρ f1 n k = some v1) (h2 : solveF C els ρ f2 n k = some v2) : v1 = v2 := by
  have a := solveF_mono C els ρ f1 (max f1 f2) (Nat.le_max_left _ _) n k v1 h1
  have b := solveF_mono C els ρ f2 (max f1 f2) (Nat.le_max_right _ _) n k v2 h2
  rw [a] at b; exact Option.some.inj b

/-- `W` solves the model: every element's value at every index is what its function string evaluates to
(the "solution equations"; what `Model.evaluate_equation` returns) -/
def Sol (C : TC α) (els : List (String × Py)) (ρ : Nat → α) (W : String → Nat → α) : Prop :=
  ∀ n body, bodyOf els n = some body → ∀ k, W n k = evalM C W ρ k body

/-- the evaluator terminates everywhere on the model -/
def Terminates (C : TC α) (els : List (String × Py)) (ρ : Nat → α) : Prop :=
  ∀ n, (bodyOf els n).isSome → ∀ k, ∃ fuel v, solveF C els ρ fuel n k = some v

/-- **every solution agrees with the recursive evaluator** wherever that terminates (no hypothesis) -/
theorem sol_agrees_solveF (C : TC α) (els : List (String × Py)) (ρ : Nat → α) (W : String → Nat → α)
    (hW : Sol C els ρ W) : ∀ fuel n k v, solveF C els ρ fuel n k = some v → W n k = v := by
  intro fuel
  induction fuel with
  | zero => intro n k v h; simp [solveF] at h
  | succ f ih =>
    intro n k v h
    rw [solveF] at h
    cases hb : bodyOf els n with
    | none => simp [hb] at h
    | some body =>
      simp only [hb] at h
      rw [hW n body hb k]
      exact evalO_sound C _ W ρ k body v (fun m j a ha => ih m j a ha) h

/-- **existence**: when the evaluator terminates everywhere, its result function solves the model -/
theorem solveF_solution (C : TC α) (els : List (String × Py)) (ρ : Nat → α) (W : String → Nat → α)
    (hT : Terminates C els ρ)
    (hW : ∀ fuel n k v, solveF C els ρ fuel n k = some v → W n k = v) : Sol C els ρ W := by
  intro n body hb k
  obtain ⟨fuel, v, h⟩ := hT n (by simp [hb]) k
  cases fuel with
  | zero => simp [solveF] at h
  | succ f =>
    have h0 := h
    rw [solveF] at h
    simp only [hb] at h
    rw [hW (f + 1) n k v h0]
    exact (evalO_sound C _ W ρ k body v (fun m j a ha => hW f m j a ha) h).symm

/-- **uniqueness**: when the evaluator terminates everywhere, any two solutions agree on every element of
the model at every index -/
theorem solution_unique_of_terminates (C : TC α) (els : List (String × Py)) (ρ : Nat → α)
    (hT : Terminates C els ρ) (W1 W2 : String → Nat → α) (h1 : Sol C els ρ W1) (h2 : Sol C els ρ W2) :
    ∀ n, (bodyOf els n).isSome → ∀ k, W1 n k = W2 n k := by
  intro n hn k
  obtain ⟨fuel, v, h⟩ := hT n hn k
  rw [sol_agrees_solveF C els ρ W1 h1 fuel n k v h, sol_agrees_solveF C els ρ W2 h2 fuel n k v h]

/-- the result function of the evaluator (`d` where it does not terminate) -/
noncomputable def solW (C : TC α) (els : List (String × Py)) (ρ : Nat → α) (d : α) (n : String) (k : Nat) : α :=
  open Classical in
  if h : ∃ fv : Nat × α, solveF C els ρ fv.1 n k = some fv.2 then (Classical.choose h).2 else d

theorem solW_spec (C : TC α) (els : List (String × Py)) (ρ : Nat → α) (d : α) (fuel : Nat) (n : String)
    (k : Nat) (v : α) (h : solveF C els ρ fuel n k = some v) : solW C els ρ d n k = v := by
  have hex : ∃ fv : Nat × α, solveF C els ρ fv.1 n k = some fv.2 := ⟨(fuel, v), h⟩
  unfold solW
  rw [dif_pos hex]
  exact solveF_det C els ρ _ _ n k _ _ (Classical.choose_spec hex) h

/-! #### acyclic models -/

/-- **acyclicity**, stated with the instrumented evaluator: there is a rank function such that evaluating
the body of `n` at index `k` succeeds whatever the values are, when only values at earlier indices, or at
the same index of elements of smaller rank, are provided — i.e. the evaluation never *consults* anything
else (which values are consulted may depend on the values: conditionals, delays) -/
def Acyclic (C : TC α) (els : List (String × Py)) (ρ : Nat → α) (rk : String → Nat) : Prop :=
  ∀ n body, bodyOf els n = some body → ∀ k (W : String → Nat → α),
    ∃ v, evalO C (restrictW els rk W n k) ρ k body = some v

def maxRank (rk : String → Nat) : List (String × Py) → Nat
  | [] => 0
  | p :: ps => max (rk p.1) (maxRank rk ps)

theorem rank_le_max (rk : String → Nat) (els : List (String × Py)) (n : String) (h : (bodyOf els n).isSome) :
    rk n ≤ maxRank rk els := by
  induction els with
  | nil => simp [bodyOf, List.lookup] at h
  | cons p ps ih =>
    obtain ⟨m, b⟩ := p
    simp only [bodyOf, List.lookup] at h ih
    by_cases e : n == m
    · have : n = m := by simpa using e
      subst this; exact Nat.le_max_left _ _
    · simp only [e] at h
      have := ih h
      simp only [maxRank]; omega

/-- **an acyclic model terminates everywhere** (uniformly: one fuel serves all elements up to an index) -/
theorem solve_terminates_upto (C : TC α) (els : List (String × Py)) (ρ : Nat → α) (rk : String → Nat)
    (hA : Acyclic C els ρ rk) :
    ∀ K, ∃ F, ∀ j, j < K → ∀ n, (bodyOf els n).isSome → ∃ v, solveF C els ρ F n j = some v := by
  intro K
  induction K with
  | zero => exact ⟨0, fun j hj => absurd hj (Nat.not_lt_zero _)⟩
  | succ K ihK =>
    obtain ⟨F0, h0⟩ := ihK
    have inner : ∀ r, ∃ F, F0 ≤ F ∧ ∀ n, (bodyOf els n).isSome → rk n < r → ∃ v, solveF C els ρ F n K = some v := by
      intro r
      induction r with
      | zero => exact ⟨F0, Nat.le_refl _, fun n _ h => absurd h (Nat.not_lt_zero _)⟩
      | succ r ihr =>
        obtain ⟨F1, hF, h1⟩ := ihr
        refine ⟨F1 + 1, by omega, ?_⟩
        intro n hn hr
        cases hb : bodyOf els n with
        | none => simp [hb] at hn
        | some body =>
          let W : String → Nat → α := fun m j => (solveF C els ρ F1 m j).getD (C.num "")
          obtain ⟨v, hv⟩ := hA n body hb K W
          have hle : leW (restrictW els rk W n K) (solveF C els ρ F1) := by
            intro m j a ha
            unfold restrictW at ha
            by_cases hal : allowed els rk n K m j = true
            · rw [if_pos hal] at ha
              have ha' : a = W m j := (Option.some.inj ha).symm
              simp only [allowed, Bool.and_eq_true, Bool.or_eq_true, decide_eq_true_eq] at hal
              obtain ⟨hm, hjk⟩ := hal
              have : ∃ v', solveF C els ρ F1 m j = some v' := by
                rcases hjk with hlt | ⟨hj, hrk⟩
                · obtain ⟨v', hv'⟩ := h0 j hlt m hm
                  exact ⟨v', solveF_mono C els ρ F0 F1 hF m j v' hv'⟩
                · subst hj; exact h1 m hm (by omega)
              obtain ⟨v', hv'⟩ := this
              rw [ha', hv']; simp [W, hv']
            · rw [if_neg hal] at ha; simp at ha
          refine ⟨v, ?_⟩
          rw [solveF]; simp only [hb]
          exact evalO_mono C _ _ hle ρ K body v hv
    obtain ⟨F, hF, hall⟩ := inner (maxRank rk els + 1)
    refine ⟨F, ?_⟩
    intro j hj n hn
    by_cases hjK : j < K
    · obtain ⟨v, hv⟩ := h0 j hjK n hn
      exact ⟨v, solveF_mono C els ρ F0 F hF n j v hv⟩
    · have : j = K := by omega
      subst this
      exact hall n hn (Nat.lt_succ_of_le (rank_le_max rk els n hn))

theorem acyclic_terminates (C : TC α) (els : List (String × Py)) (ρ : Nat → α) (rk : String → Nat)
    (hA : Acyclic C els ρ rk) : Terminates C els ρ := by
  intro n hn k
  obtain ⟨F, h⟩ := solve_terminates_upto C els ρ rk hA (k + 1)
  obtain ⟨v, hv⟩ := h k (Nat.lt_succ_self k) n hn
  exact ⟨F, v, hv⟩

/-- THE solution of an acyclic model: the result function of the recursive evaluator -/
noncomputable def theSol (C : TC α) (els : List (String × Py)) (ρ : Nat → α) : String → Nat → α :=
  solW C els ρ (C.num "")

/-- **existence and uniqueness for acyclic models**: `theSol` solves the model, it is what the cache-free
recursive evaluation computes, and every solution coincides with it on the model's elements -/
theorem acyclic_exists_unique (C : TC α) (els : List (String × Py)) (ρ : Nat → α) (rk : String → Nat)
    (hA : Acyclic C els ρ rk) :
    Sol C els ρ (theSol C els ρ) ∧
    (∀ fuel n k v, solveF C els ρ fuel n k = some v → theSol C els ρ n k = v) ∧
    (∀ W, Sol C els ρ W → ∀ n, (bodyOf els n).isSome → ∀ k, W n k = theSol C els ρ n k) := by
  have hT := acyclic_terminates C els ρ rk hA
  have hS : ∀ fuel n k v, solveF C els ρ fuel n k = some v → theSol C els ρ n k = v :=
    fun fuel n k v h => solW_spec C els ρ _ fuel n k v h
  have hsol := solveF_solution C els ρ _ hT hS
  exact ⟨hsol, hS, fun W hW n hn k => solution_unique_of_terminates C els ρ hT W _ hW hsol n hn k⟩

/-- **Euler for THE solution**: in an acyclic model, the value the simulation computes for a stock whose
function string is the stock skeleton is the explicit-Euler recurrence over the (unique) solution -/
theorem stock_euler_theSol (C : TC α) (hG : GridOK C) (els : List (String × Py)) (ρ : Nat → α)
    (rk : String → Nat) (hA : Acyclic C els ρ rk) (n : String) (init eq : Py)
    (hb : bodyOf els n = some (stockSkel n init eq)) :
    theSol C els ρ n 0 = evalM C (theSol C els ρ) ρ 0 init ∧
    ∀ k, theSol C els ρ n (k + 1) =
      C.bin .add (theSol C els ρ n k) (C.bin .mul C.dt (evalM C (theSol C els ρ) ρ (k + 1) eq)) :=
  stock_euler C hG _ ρ n init eq _ rfl ((acyclic_exists_unique C els ρ rk hA).1 n _ hb)

theorem stock_euler_exact_theSol (C : TC α) (hG : GridOK C)
    (hx : ∀ k, C.bin .sub (C.time (k + 1)) C.dt = C.time k) (els : List (String × Py)) (ρ : Nat → α)
    (rk : String → Nat) (hA : Acyclic C els ρ rk) (n : String) (init eq : Py)
    (hb : bodyOf els n = some (stockSkel n init (substT eq))) :
    theSol C els ρ n 0 = evalM C (theSol C els ρ) ρ 0 init ∧
    ∀ k, theSol C els ρ n (k + 1) =
      C.bin .add (theSol C els ρ n k) (C.bin .mul C.dt (evalM C (theSol C els ρ) ρ k eq)) :=
  stock_euler_exact C hG _ ρ hx n init eq _ rfl ((acyclic_exists_unique C els ρ rk hA).1 n _ hb)

theorem flow_clamped_theSol (C : TC α) (els : List (String × Py)) (ρ : Nat → α)
    (rk : String → Nat) (hA : Acyclic C els ρ rk) (n : String) (eq : Py)
    (hb : bodyOf els n = some (flowSkel eq)) :
    ∀ k, theSol C els ρ n k = C.call (C.name "max") [C.num "0", evalM C (theSol C els ρ) ρ k eq] :=
  flow_clamped C _ ρ n eq _ rfl ((acyclic_exists_unique C els ρ rk hA).1 n _ hb)

theorem converter_theSol (C : TC α) (els : List (String × Py)) (ρ : Nat → α)
    (rk : String → Nat) (hA : Acyclic C els ρ rk) (n : String) (body : Py) (hb : bodyOf els n = some body) :
    ∀ k, theSol C els ρ n k = evalM C (theSol C els ρ) ρ k body :=
  (acyclic_exists_unique C els ρ rk hA).1 n _ hb

/-- non-vacuity: a stock fed by a flow that reads the stock (a feedback loop through the stock — acyclic in
the sense above, rank stock < rank flow) over the concrete carrier `demoC` -/
def demoEls : List (String × Py) :=
  [("s", stockSkel "s" (.num "1") (memoCall "f" tMinusDt)), ("f", flowSkel (memoCall "s" (.name "t")))]

def demoRk (n : String) : Nat := if n = "s" then 0 else 1

theorem demo_acyclic (ρ : Nat → Int) : Acyclic demoC demoEls ρ demoRk := by
  intro n body hb k W
  by_cases hs : n = "s"
  · subst hs
    have : body = stockSkel "s" (.num "1") (memoCall "f" tMinusDt) := by
      simpa [bodyOf, demoEls, List.lookup] using hb.symm
    subst this
    cases k with
    | zero => exact ⟨_, by simp [stockSkel, evalO, isModel, modelAttr, demoC]; rfl⟩
    | succ k =>
      refine ⟨W "s" k + 1 * W "f" k, ?_⟩
      have hk : ¬ ((k : Int) < 0) := by omega
      simp [hk, stockSkel, memoCall, tMinusDt, evalO, evalOL, isModel, isMemoize, strArg, modelAttr, demoC,
        restrictW, allowed, bodyOf, demoEls, List.lookup]
  · by_cases hf : n = "f"
    · subst hf
      have : body = flowSkel (memoCall "s" (.name "t")) := by
        simpa [bodyOf, demoEls, List.lookup] using hb.symm
      subst this
      refine ⟨0, ?_⟩
      have hk : ¬ ((k : Int) < 0) := by omega
      simp [hk, flowSkel, memoCall, evalO, evalOL, isMemoize, strArg, demoC, restrictW, allowed, bodyOf, demoEls,
        List.lookup, callO, demoRk]
    · have e1 : (n == "s") = false := by simpa using hs
      have e2 : (n == "f") = false := by simpa using hf
      simp [bodyOf, demoEls, List.lookup, e1, e2] at hb


/-! #### a decidable syntactic criterion for acyclicity -/

theorem isT_eq (e : Py) (h : isT e = true) : e = .name "t" := by
  cases e <;> simp_all [isT]

theorem isTMinusDt_eq (e : Py) (h : isTMinusDt e = true) : e = tMinusDt := by
  unfold isTMinusDt at h
  split at h
  · simp only [Bool.and_eq_true, beq_iff_eq] at h
    obtain ⟨⟨rfl, rfl⟩, rfl⟩ := h
    rfl
  · simp at h

theorem stockParts_eq (n : String) (body init eq : Py) (h : stockParts n body = some (init, eq)) :
    body = stockSkel n init eq := by
  unfold stockParts at h
  split at h
  · split at h
    · rename_i hc
      simp only [Bool.and_eq_true, beq_iff_eq] at hc
      simp only [Option.some.injEq, Prod.mk.injEq] at h
      obtain ⟨rfl, rfl⟩ := h
      obtain ⟨⟨⟨⟨⟨⟨⟨⟨⟨⟨rfl, rfl⟩, rfl⟩, rfl⟩, rfl⟩, rfl⟩, rfl⟩, rfl⟩, rfl⟩, rfl⟩, rfl⟩ := hc
      rfl
    · simp at h
  · simp at h
mutual
theorem evalO_defined (C : TC α) (hG : GridOK C) (Wp : String → Nat → Option α) (ρ : Nat → α) (k : Nat)
    (now prev : String → Bool)
    (hnow : ∀ m, now m = true → ∃ a, Wp m k = some a)
    (hprev : ∀ m, prev m = true → ∃ j a, k = j + 1 ∧ Wp m j = some a)
    (e : Py) (h : refsIn now prev e = true) : (evalO C Wp ρ k e).isSome = true := by
  match e with
  | .num _ => simp [evalO]
  | .name _ => simp [evalO]
  | .str _ => simp [evalO]
  | .hole _ => simp [evalO]
  | .paren e =>
    simp only [refsIn] at h
    obtain ⟨v, hv⟩ := Option.isSome_iff_exists.mp (evalO_defined C hG Wp ρ k now prev hnow hprev e h)
    simp [evalO, hv]
  | .neg e =>
    simp only [refsIn] at h
    obtain ⟨v, hv⟩ := Option.isSome_iff_exists.mp (evalO_defined C hG Wp ρ k now prev hnow hprev e h)
    simp [evalO, hv]
  | .not e =>
    simp only [refsIn] at h
    obtain ⟨v, hv⟩ := Option.isSome_iff_exists.mp (evalO_defined C hG Wp ρ k now prev hnow hprev e h)
    simp [evalO, hv]
  | .kw n e =>
    simp only [refsIn] at h
    obtain ⟨v, hv⟩ := Option.isSome_iff_exists.mp (evalO_defined C hG Wp ρ k now prev hnow hprev e h)
    simp [evalO, hv]
  | .bin op l r =>
    simp only [refsIn, Bool.and_eq_true] at h
    obtain ⟨a, ha⟩ := Option.isSome_iff_exists.mp (evalO_defined C hG Wp ρ k now prev hnow hprev l h.1)
    obtain ⟨b, hb⟩ := Option.isSome_iff_exists.mp (evalO_defined C hG Wp ρ k now prev hnow hprev r h.2)
    simp [evalO, ha, hb]
  | .index l r =>
    simp only [refsIn, Bool.and_eq_true] at h
    obtain ⟨a, ha⟩ := Option.isSome_iff_exists.mp (evalO_defined C hG Wp ρ k now prev hnow hprev l h.1)
    obtain ⟨b, hb⟩ := Option.isSome_iff_exists.mp (evalO_defined C hG Wp ρ k now prev hnow hprev r h.2)
    simp [evalO, ha, hb]
  | .ite x c y =>
    simp only [refsIn, Bool.and_eq_true] at h
    obtain ⟨a, ha⟩ := Option.isSome_iff_exists.mp (evalO_defined C hG Wp ρ k now prev hnow hprev x h.1.1)
    obtain ⟨b, hb⟩ := Option.isSome_iff_exists.mp (evalO_defined C hG Wp ρ k now prev hnow hprev c h.1.2)
    obtain ⟨d, hd⟩ := Option.isSome_iff_exists.mp (evalO_defined C hG Wp ρ k now prev hnow hprev y h.2)
    by_cases ht : C.truthy b = true
    · simp [evalO, hb, ht, ha]
    · simp [evalO, hb, ht, hd]
  | .attr e a =>
    simp only [refsIn] at h
    obtain ⟨v, hv⟩ := Option.isSome_iff_exists.mp (evalO_defined C hG Wp ρ k now prev hnow hprev e h)
    by_cases hm : isModel e = true
    · simp [evalO, hm]
    · simp [evalO, hm, hv]
  | .list es =>
    simp only [refsIn] at h
    obtain ⟨vs, hvs⟩ := Option.isSome_iff_exists.mp (evalOL_defined C hG Wp ρ k now prev hnow hprev es h)
    simp [evalO, hvs]
  | .call f args =>
    simp only [refsIn] at h
    by_cases hm : isMemoize f = true
    · simp only [hm, if_true] at h
      match args, h with
      | [.str m, τ], h =>
        simp only [Bool.or_eq_true, Bool.and_eq_true] at h
        rcases h with ⟨ht, hn⟩ | ⟨ht, hp⟩
        · have := isT_eq _ ht
          subst this
          obtain ⟨a, ha⟩ := hnow m hn
          simp [evalO, evalOL, hm, strArg, hG.idxNow, ha]
        · have := isTMinusDt_eq _ ht
          subst this
          obtain ⟨j, a, hk, ha⟩ := hprev m hp
          subst hk
          simp [evalO, evalOL, hm, strArg, tMinusDt, isModel, modelAttr, hG.idxPred, ha]
    · rw [if_neg hm] at h
      simp only [Bool.and_eq_true] at h
      obtain ⟨fv, hf⟩ := Option.isSome_iff_exists.mp (evalO_defined C hG Wp ρ k now prev hnow hprev f h.1)
      obtain ⟨vs, hvs⟩ := Option.isSome_iff_exists.mp (evalOL_defined C hG Wp ρ k now prev hnow hprev args h.2)
      simp [evalO, hm, hvs, hf, callO]
theorem evalOL_defined (C : TC α) (hG : GridOK C) (Wp : String → Nat → Option α) (ρ : Nat → α) (k : Nat)
    (now prev : String → Bool)
    (hnow : ∀ m, now m = true → ∃ a, Wp m k = some a)
    (hprev : ∀ m, prev m = true → ∃ j a, k = j + 1 ∧ Wp m j = some a)
    (es : List Py) (h : refsInL now prev es = true) : (evalOL C Wp ρ k es).isSome = true := by
  match es with
  | [] => simp [evalOL]
  | e :: es =>
    simp only [refsInL, Bool.and_eq_true] at h
    obtain ⟨v, hv⟩ := Option.isSome_iff_exists.mp (evalO_defined C hG Wp ρ k now prev hnow hprev e h.1)
    obtain ⟨vs, hvs⟩ := Option.isSome_iff_exists.mp (evalOL_defined C hG Wp ρ k now prev hnow hprev es h.2)
    simp [evalOL, hv, hvs]
end

/-- element-wise syntactic criterion (Prop form of `elemOKb`) -/
theorem elemOKb_consults (C : TC α) (hG : GridOK C) (els : List (String × Py)) (ρ : Nat → α) (rk : String → Nat)
    (n : String) (body : Py) (h : elemOKb els rk n body = true) (k : Nat) (W : String → Nat → α) :
    ∃ v, evalO C (restrictW els rk W n k) ρ k body = some v := by
  apply Option.isSome_iff_exists.mp
  have hnow : ∀ m, lowerNow els rk n m = true → ∃ a, restrictW els rk W n k m k = some a := by
    intro m hm
    simp only [lowerNow, Bool.and_eq_true, decide_eq_true_eq] at hm
    exact ⟨W m k, by simp [restrictW, allowed, hm.1, hm.2]⟩
  have hno : ∀ m, (fun _ : String => false) m = true → ∃ j a, k = j + 1 ∧ restrictW els rk W n k m j = some a := by
    intro m hm; simp at hm
  simp only [elemOKb, Bool.or_eq_true] at h
  rcases h with h | h
  · exact evalO_defined C hG _ ρ k _ _ hnow hno body h
  · split at h
    · rename_i init eq hsp
      have hbody := stockParts_eq n body init eq hsp
      subst hbody
      simp only [Bool.and_eq_true] at h
      obtain ⟨⟨hn, hi⟩, he⟩ := h
      cases k with
      | zero =>
        have := evalO_defined C hG _ ρ 0 _ _ hnow hno init hi
        simpa [stockSkel, evalO, isModel, modelAttr, hG.start0] using this
      | succ j =>
        have hprev : ∀ m, inModel els m = true → ∃ j' a, j + 1 = j' + 1 ∧ restrictW els rk W n (j + 1) m j' = some a := by
          intro m hm
          have hm' : (bodyOf els m).isSome = true := hm
          exact ⟨j, W m j, rfl, by simp [restrictW, allowed, hm']⟩
        have hnone : ∀ m, (fun _ : String => false) m = true → ∃ a, restrictW els rk W n (j + 1) m (j + 1) = some a := by
          intro m hm; simp at hm
        have h1 := Option.isSome_iff_exists.mp (evalO_defined C hG _ ρ (j + 1) _ _ hnone hprev eq he)
        obtain ⟨ve, hve⟩ := h1
        have hn' : (bodyOf els n).isSome = true := hn
        have hself : restrictW els rk W n (j + 1) n j = some (W n j) := by
          simp [restrictW, allowed, hn']
        simp [stockSkel, memoCall, tMinusDt, evalO, evalOL, isModel, isMemoize, strArg, modelAttr, hG.start0,
          hG.idxPred, hself, hve]
    · simp at h

theorem mem_of_bodyOf (els : List (String × Py)) (n : String) (body : Py) (h : bodyOf els n = some body) :
    (n, body) ∈ els := by
  induction els with
  | nil => simp [bodyOf, List.lookup] at h
  | cons p ps ih =>
    obtain ⟨m, b⟩ := p
    simp only [bodyOf, List.lookup] at h ih
    by_cases e : n == m
    · have : n = m := by simpa using e
      subst this
      simp only [e, Option.some.injEq] at h
      subst h; simp
    · simp only [e] at h
      exact List.mem_cons_of_mem _ (ih h)

/-- **a decidable sufficient condition for acyclicity**: when `modelOKb els rk` evaluates to `true` (the driver
evaluates it on the real function strings of every generated model), the model is acyclic — hence it has exactly
one solution, the one the recursive evaluation computes, and that solution is the explicit-Euler one -/
theorem acyclic_of_modelOKb (C : TC α) (hG : GridOK C) (els : List (String × Py)) (ρ : Nat → α) (rk : String → Nat)
    (h : modelOKb els rk = true) : Acyclic C els ρ rk := by
  intro n body hb k W
  unfold modelOKb at h
  rw [List.all_eq_true] at h
  exact elemOKb_consults C hG els ρ rk n body (h _ (mem_of_bodyOf els n body hb)) k W

/-- non-vacuity: the feedback model of `demo_acyclic` passes the decidable criterion (kernel-evaluated) -/
example : modelOKb demoEls demoRk = true := by decide +kernel

/-- the decidable criterion gives the whole chain: unique solution, computed by the recursive evaluation,
Euler recurrence for every stock of the model -/
theorem euler_of_modelOKb (C : TC α) (hG : GridOK C) (els : List (String × Py)) (ρ : Nat → α) (rk : String → Nat)
    (h : modelOKb els rk = true) (n : String) (init eq : Py) (hb : bodyOf els n = some (stockSkel n init eq)) :
    (∀ W, Sol C els ρ W → ∀ m, (bodyOf els m).isSome → ∀ k, W m k = theSol C els ρ m k) ∧
    theSol C els ρ n 0 = evalM C (theSol C els ρ) ρ 0 init ∧
    ∀ k, theSol C els ρ n (k + 1) =
      C.bin .add (theSol C els ρ n k) (C.bin .mul C.dt (evalM C (theSol C els ρ) ρ (k + 1) eq)) := by
  have hA := acyclic_of_modelOKb C hG els ρ rk h
  exact ⟨(acyclic_exists_unique C els ρ rk hA).2.2, stock_euler_theSol C hG els ρ rk hA n init eq hb⟩

/-- **Euler for THE solution, without grid hypotheses**: acyclic model, float time on a decimal grid within
C05's budget for `N` steps -/
theorem stock_euler_theSol_C05 (C : TC α) (F : Bptk.C05.Fl) (G : Bptk.C05.Grid) (N : ℕ) (r : ℚ) (num : ℚ → α)
    (FT : FloatTime C F G N num) (B : Bptk.C05.Budget F G N r)
    (els : List (String × Py)) (ρ : Nat → α) (rk : String → Nat) (hA : Acyclic C els ρ rk)
    (n : String) (init eq : Py) (hb : bodyOf els n = some (stockSkel n init eq)) :
    theSol C els ρ n 0 = evalM C (theSol C els ρ) ρ 0 init ∧
    ∀ k, k + 1 ≤ N → theSol C els ρ n (k + 1) =
      C.bin .add (theSol C els ρ n k) (C.bin .mul C.dt (evalM C (theSol C els ρ) ρ (k + 1) eq)) :=
  stock_euler_C05 C F G N r num FT B _ ρ n init eq
    (fun k _ => (acyclic_exists_unique C els ρ rk hA).1 n _ hb k)

/-- non-vacuity of `FloatTime`: a carrier over ℚ whose time part is C05's float model -/
def ftCarrier (F : Bptk.C05.Fl) (G : Bptk.C05.Grid) (N : ℕ) : TC ℚ where
  num := fun _ => 0
  name := fun _ => 0
  str := fun _ => 0
  neg := fun x => -x
  not := fun x => if x = 0 then 1 else 0
  bin := fun op a b => match op with
    | .add => a + b | .sub => F.fl (a - b) | .mul => a * b | .le => if a ≤ b then 1 else 0 | _ => 0
  attr := fun _ _ => 0
  call := fun _ _ => 0
  index := fun _ _ => 0
  list := fun _ => 0
  kw := fun _ x => x
  time := fun k => Bptk.C05.label F G (k : ℤ)
  dt := G.h F
  start := G.s F
  stop := Bptk.C05.label F G (N : ℤ)
  truthy := fun x => x != 0
  idx := fun x => idxOf F G N x

theorem ftCarrier_floatTime (F : Bptk.C05.Fl) (G : Bptk.C05.Grid) (N : ℕ) :
    FloatTime (ftCarrier F G N) F G N id := by
  refine ⟨fun _ => rfl, rfl, rfl, fun _ _ => rfl, ?_, fun _ => rfl⟩
  intro a b
  by_cases h : a ≤ b <;> simp [ftCarrier, h]

/-- … with a genuinely inexact rounding (C05's counter-model `flW`, dt = 0.1, four steps) all hypotheses of
`stock_euler_C05` hold -/
example : GridOKN (ftCarrier Bptk.C05.flW Bptk.C05.G01 4) 4 :=
  gridOKN_of_C05 _ Bptk.C05.flW Bptk.C05.G01 4 (1/500) id (ftCarrier_floatTime _ _ _) Bptk.C05.budget_W

/-! ## Wave 6: lookup is a pure function of (x, table) -/

/-- **no hidden state**: every lookup of every history returns the table's clamped linear interpolation at its own argument -/
def LookupPure (c : LCfg) : Prop :=
  ∀ (pts : List (Rat × Rat)) (st : Nat) (xs : List Rat), lookupRun c pts st xs = xs.map (lookup pts)

theorem lookup_pure (c : LCfg) (h : c.lookupStateless = true) : LookupPure c := by
  intro pts st xs
  induction xs generalizing st with
  | nil => simp [lookupRun]
  | cons x xs ih => simp [lookupRun, h, ih]

/-- consequence in the property's words: the value of a lookup does not depend on what was looked up before it -/
theorem lookup_history_independent (c : LCfg) (h : c.lookupStateless = true) (pts : List (Rat × Rat))
    (st st' : Nat) (before before' : List Rat) (x : Rat) :
    (lookupRun c pts st (before ++ [x])).getLast? = (lookupRun c pts st' (before' ++ [x])).getLast? := by
  rw [lookup_pure c h pts st, lookup_pure c h pts st']
  simp

/-- the witness table: y = x² on 0..4 -/
def sqTable : List (Rat × Rat) := [(0, 0), (1, 1), (2, 4), (3, 9), (4, 16)]

/-- **a remembered segment breaks the lookup specification**: after a lookup at 7/2 (segment 3..4), a lookup at 1/2 searches
upwards from the remembered segment and extrapolates the line through (2,4),(3,9): −7/2 instead of 1/2 -/
theorem lookup_stateful_example : lookupRun ⟨false⟩ sqTable 0 [7/2, 1/2] = [25/2, -7/2] ∧
    [(7/2 : Rat), 1/2].map (lookup sqTable) = [25/2, 1/2] := by decide +kernel

theorem C01_witness_lookup_stateful (c : LCfg) (h : c.lookupStateless = false) : ¬ LookupPure c := by
  intro hp
  have hc : c = ⟨false⟩ := by cases c; simp_all
  subst hc
  have := hp sqTable 0 [7/2, 1/2]
  rw [lookup_stateful_example.1, lookup_stateful_example.2] at this
  exact absurd this (by decide +kernel)

/-- and the same history is right when nothing is remembered (the lookup theorems `lookup_left/right/segment` describe it) -/
example : lookupRun ⟨true⟩ sqTable 0 [7/2, 1/2] = [25/2, 1/2] := by decide +kernel

/-- **C01 at full strength** for the operator tables `Tt` (probed at `t`) and `Tdt` (probed at
`t - model.dt`): for every equation tree, every element kind, every solution and every step. -/
def C01_full (Tt Tdt : Table) : Prop :=
  -- (syntax) every equation tree, at either time, is emitted as text that parses to operands-as-units
  (∀ e : E, E.ok Tt L e = true → Parses (render Tt e) (denote Tt e)) ∧
  (∀ e : E, E.ok Tdt L e = true → Parses (render Tdt e) (denote Tdt e)) ∧
  -- (time threading) the tree rendered at t - dt is the tree rendered at t, shifted
  (∀ e : E, E.ok Tt 0 e = true → erase (denote Tdt (shiftE e)) = substT (erase (denote Tt e))) ∧
  -- (semantics) solutions of the function strings solve the difference equations
  (∀ (α : Type) (C : TC α), GridOK C → ∀ (W : String → Nat → α) (ρ : Nat → α),
    (∀ n init eq, (∀ k, W n k = evalM C W ρ k (stockSkel n init eq)) →
        W n 0 = evalM C W ρ 0 init ∧
        ∀ k, W n (k + 1) = C.bin .add (W n k) (C.bin .mul C.dt (evalM C W ρ (k + 1) eq))) ∧
    (∀ n eq, (∀ k, W n k = evalM C W ρ k (flowSkel eq)) →
        ∀ k, W n k = C.call (C.name "max") [C.num "0", evalM C W ρ k eq]) ∧
    (∀ k s, C.bin .sub (C.time (k + 1)) C.dt = C.time k →
        evalM C W ρ (k + 1) (substT s) = evalM C W ρ k s)) ∧
  -- (wave 3, existence and uniqueness) an acyclic model has exactly one solution, the one the cache-free
  -- recursive evaluation of the function strings computes
  (∀ (α : Type) (C : TC α) (els : List (String × Py)) (ρ : Nat → α) (rk : String → Nat),
    Acyclic C els ρ rk →
      Sol C els ρ (theSol C els ρ) ∧
      (∀ fuel n k v, solveF C els ρ fuel n k = some v → theSol C els ρ n k = v) ∧
      (∀ W, Sol C els ρ W → ∀ n, (bodyOf els n).isSome → ∀ k, W n k = theSol C els ρ n k)) ∧
  -- (wave 3, the grid hypotheses are C05's theorems) for float time on a decimal grid within C05's budget
  (∀ (α : Type) (C : TC α) (F : Bptk.C05.Fl) (G : Bptk.C05.Grid) (N : ℕ) (r : ℚ) (num : ℚ → α),
    FloatTime C F G N num → Bptk.C05.Budget F G N r → GridOKN C N)

theorem C01_full_of_tables (Tt Tdt : Table) (h1 : tableOK L Tt = true) (h2 : tableOK L Tdt = true)
    (h3 : shiftOK Tt Tdt = true) : C01_full Tt Tdt := by
  refine ⟨fun e he => render_parses L (by decide) Tt h1 e he,
    fun e he => render_parses L (by decide) Tdt h2 e he,
    fun e he => denote_shift Tt Tdt h3 e he, ?_⟩
  refine ⟨?_, fun α C els ρ rk hA => acyclic_exists_unique C els ρ rk hA,
    fun α C F G N r num FT B => gridOKN_of_C05 C F G N r num FT B⟩
  intro α C hG W ρ
  exact ⟨fun n init eq hW => stock_euler C hG W ρ n init eq _ rfl hW,
    fun n eq hW => flow_clamped C W ρ n eq _ rfl hW,
    fun k s hx => evalM_shift C W ρ k hx s⟩


#print axioms C01_full_of_tables
#print axioms stock_euler_exact
#print axioms denote_shift
#print axioms smooth_first_order
#print axioms delay_sem
#print axioms trend_sem
#print axioms pulse_first_sem
#print axioms C01_witness_time_dropped
#print axioms lookup_segment

#print axioms gridOKN_of_C05
#print axioms stock_euler_C05
#print axioms evalO_sound
#print axioms sol_agrees_solveF
#print axioms solveF_solution
#print axioms solution_unique_of_terminates
#print axioms acyclic_terminates
#print axioms acyclic_exists_unique
#print axioms stock_euler_theSol
#print axioms stock_euler_exact_theSol
#print axioms flow_clamped_theSol
#print axioms demo_acyclic
#print axioms lookup_pure
#print axioms lookup_history_independent
#print axioms C01_witness_lookup_stateful
#print axioms acyclic_of_modelOKb
#print axioms euler_of_modelOKb
#print axioms stock_euler_theSol_C05
#print axioms ftCarrier_floatTime

end Bptk.C01
