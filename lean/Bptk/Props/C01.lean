import Bptk.Core.C01
import Bptk.Props.C02
/-!
C01 — SD-DSL simulation equals the explicit-Euler solution of the difference equations.

Chain of theorems (all quantifiers unbounded: every equation tree, every grid index k):
* A1 `render_parses` (Proofs/PyFrag): every function string parses to skeleton[operands as units].
* `denote_shift`: if every operator's shape at time `t - model.dt` is its shape at `t` with `t`
  replaced (decidable per-run obligation `shiftOK` on the probed tables — "time threading"), then for
  EVERY equation tree the text rendered at `t - model.dt` denotes the tree rendered at `t`, shifted.
* `stock_euler`, `flow_clamped`, `converter_eq`: any assignment `W` of values that satisfies the
  function strings (i.e. what evaluation returns) satisfies
  stock(0) = init, stock(k+1) = stock(k) + dt * eq[shifted](k+1), flow = max(0, eq), converter = eq.
* `evalM_shift`: on an exact grid the shifted equation at k+1 is the equation at k.
Carrier operations are uninterpreted: the equalities are between operation trees (bit-exact on doubles).
-/
namespace Bptk.C01
open Bptk.Py

variable {α : Type}

/-- what `Model.memoize`'s normalisation and the run specs guarantee about the time grid
(hypotheses, established for decimal/binary grids by C05's theorems and probed on the real code) -/
structure GridOK (C : TC α) : Prop where
  start0 : ∀ k, C.truthy (C.bin .le (C.time k) C.start) = decide (k = 0)
  idxPred : ∀ k, C.idx (C.bin .sub (C.time (k + 1)) C.dt) = some k
  idxNow : ∀ k, C.idx (C.time k) = some k

/-- a stock whose (parenthesis-free) function string is the stock skeleton satisfies the explicit
Euler recurrence — for every solution `W` and every step `k`. -/
theorem stock_euler (C : TC α) (hG : GridOK C) (W : String → Nat → α) (ρ : Nat → α)
    (n : String) (init eq body : Py) (hb : body = stockSkel n init eq)
    (hW : ∀ k, W n k = evalM C W ρ k body) :
    W n 0 = evalM C W ρ 0 init ∧
    ∀ k, W n (k + 1) = C.bin .add (W n k) (C.bin .mul C.dt (evalM C W ρ (k + 1) eq)) := by
  subst hb
  constructor
  · rw [hW 0]
    simp [stockSkel, evalM, isModel, modelAttr, hG.start0]
  · intro k
    rw [hW (k + 1)]
    simp [stockSkel, memoCall, tMinusDt, evalM, evalML, isModel, isMemoize, strArg, modelAttr,
      hG.start0, hG.idxPred]

/-- a stock without equation keeps its initial value -/
theorem stock0_const (C : TC α) (hG : GridOK C) (W : String → Nat → α) (ρ : Nat → α)
    (n : String) (init body : Py) (hb : body = stockSkel0 n init)
    (hW : ∀ k, W n k = evalM C W ρ k body) :
    W n 0 = evalM C W ρ 0 init ∧ ∀ k, W n (k + 1) = W n k := by
  subst hb
  constructor
  · rw [hW 0]
    simp [stockSkel0, evalM, isModel, modelAttr, hG.start0]
  · intro k
    rw [hW (k + 1)]
    simp [stockSkel0, memoCall, tMinusDt, evalM, evalML, isModel, isMemoize, strArg, modelAttr,
      hG.start0, hG.idxPred]

/-- a flow is its equation clamped at zero, at the same time -/
theorem flow_clamped (C : TC α) (W : String → Nat → α) (ρ : Nat → α) (n : String) (eq body : Py)
    (hb : body = flowSkel eq) (hW : ∀ k, W n k = evalM C W ρ k body) :
    ∀ k, W n k = C.call (C.name "max") [C.num "0", evalM C W ρ k eq] := by
  subst hb
  intro k
  rw [hW k]
  simp [flowSkel, evalM, evalML, isMemoize]

/-- a converter / biflow is its equation at the same time -/
theorem converter_eq (C : TC α) (W : String → Nat → α) (ρ : Nat → α) (n : String) (body : Py)
    (hW : ∀ k, W n k = evalM C W ρ k body) : ∀ k, W n k = evalM C W ρ k body := hW

/-- a reference to element `x` at the current time is that element's value at the same index -/
theorem ref_now (C : TC α) (hG : GridOK C) (W : String → Nat → α) (ρ : Nat → α) (x : String) (k : Nat) :
    evalM C W ρ k (memoCall x (.name "t")) = W x k := by
  simp [memoCall, evalM, evalML, isMemoize, strArg, hG.idxNow]

/-- a reference asked for at `t - model.dt` is the element's value one index earlier -/
theorem ref_prev (C : TC α) (hG : GridOK C) (W : String → Nat → α) (ρ : Nat → α) (x : String) (k : Nat) :
    evalM C W ρ (k + 1) (memoCall x tMinusDt) = W x k := by
  simp [memoCall, tMinusDt, evalM, evalML, isMemoize, isModel, strArg, modelAttr, hG.idxPred]

/-! ### Shift: evaluating the shifted text one index later -/

theorem isModel_substT (e : Py) : isModel (substT e) = isModel e := by
  match e with
  | .name s =>
    by_cases h : s = "t"
    · subst h; simp [substT, tMinusDt, isModel]
    · simp [substT, h, isModel]
  | .num _ | .str _ | .hole _ | .paren _ | .neg _ | .not _ | .bin _ _ _ | .ite _ _ _ | .attr _ _
  | .call _ _ | .index _ _ | .list _ | .kw _ _ => simp [substT, isModel]

theorem isMemoize_substT (f : Py) : isMemoize (substT f) = isMemoize f := by
  match f with
  | .attr (.name s) a =>
    by_cases h : s = "t"
    · subst h; simp [substT, tMinusDt, isMemoize]
    · simp [substT, h, isMemoize]
  | .attr (.num _) _ | .attr (.str _) _ | .attr (.hole _) _ | .attr (.paren _) _ | .attr (.neg _) _
  | .attr (.not _) _ | .attr (.bin _ _ _) _ | .attr (.ite _ _ _) _ | .attr (.attr _ _) _
  | .attr (.call _ _) _ | .attr (.index _ _) _ | .attr (.list _) _ | .attr (.kw _ _) _ =>
    simp [substT, isMemoize]
  | .name s =>
    by_cases h : s = "t"
    · subst h; simp [substT, tMinusDt, isMemoize]
    · simp [substT, h, isMemoize]
  | .num _ | .str _ | .hole _ | .paren _ | .neg _ | .not _ | .bin _ _ _ | .ite _ _ _
  | .call _ _ | .index _ _ | .list _ | .kw _ _ => simp [substT, isMemoize]

theorem strArg_substTL (args : List Py) : strArg (substTL args) = strArg args := by
  match args with
  | [] => simp [substTL, strArg]
  | [a] => cases a <;> simp [substTL, strArg]
  | a :: b :: c :: rest => cases a <;> simp [substTL, strArg]
  | [a, b] =>
    match a with
    | .name s =>
      by_cases h : s = "t"
      · subst h; simp [substTL, substT, tMinusDt, strArg]
      · simp [substTL, substT, h, strArg]
    | .num _ | .str _ | .hole _ | .paren _ | .neg _ | .not _ | .bin _ _ _ | .ite _ _ _ | .attr _ _
    | .call _ _ | .index _ _ | .list _ | .kw _ _ => simp [substTL, substT, strArg]

mutual
/-- on a grid where `t - dt` is exactly the previous label, the text shifted to `t - model.dt`
evaluated at index k+1 is the original text evaluated at index k -/
theorem evalM_shift (C : TC α) (W : String → Nat → α) (ρ : Nat → α) (k : Nat)
    (hx : C.bin .sub (C.time (k + 1)) C.dt = C.time k) (s : Py) :
    evalM C W ρ (k + 1) (substT s) = evalM C W ρ k s := by
  match s with
  | .num _ => simp [substT, evalM]
  | .str _ => simp [substT, evalM]
  | .hole _ => simp [substT, evalM]
  | .name n =>
    by_cases h : n = "t"
    · subst h; simp [substT, tMinusDt, evalM, isModel, modelAttr, hx]
    · simp [substT, h, evalM]
  | .paren e => simp [substT, evalM, evalM_shift C W ρ k hx e]
  | .neg e => simp [substT, evalM, evalM_shift C W ρ k hx e]
  | .not e => simp [substT, evalM, evalM_shift C W ρ k hx e]
  | .bin op l r => simp [substT, evalM, evalM_shift C W ρ k hx l, evalM_shift C W ρ k hx r]
  | .ite x c y =>
    simp [substT, evalM, evalM_shift C W ρ k hx x, evalM_shift C W ρ k hx c, evalM_shift C W ρ k hx y]
  | .attr e a => simp [substT, evalM, isModel_substT, evalM_shift C W ρ k hx e]
  | .call f args =>
    simp only [substT, evalM, isMemoize_substT, strArg_substTL, evalML_shift C W ρ k hx args,
      evalM_shift C W ρ k hx f]
  | .index e i => simp [substT, evalM, evalM_shift C W ρ k hx e, evalM_shift C W ρ k hx i]
  | .list es => simp [substT, evalM, evalML_shift C W ρ k hx es]
  | .kw n e => simp [substT, evalM, evalM_shift C W ρ k hx e]
theorem evalML_shift (C : TC α) (W : String → Nat → α) (ρ : Nat → α) (k : Nat)
    (hx : C.bin .sub (C.time (k + 1)) C.dt = C.time k) (es : List Py) :
    evalML C W ρ (k + 1) (substTL es) = evalML C W ρ k es := by
  match es with
  | [] => simp [substTL, evalML]
  | e :: es => simp [substTL, evalML, evalM_shift C W ρ k hx e, evalML_shift C W ρ k hx es]
end

/-- **Explicit Euler, in the property's own words.** On an exact grid, a stock whose function string
is the stock skeleton around the shifted equation satisfies
`stock(k+1) = stock(k) + dt * eq(k)`, `stock(0) = init`. -/
theorem stock_euler_exact (C : TC α) (hG : GridOK C) (W : String → Nat → α) (ρ : Nat → α)
    (hx : ∀ k, C.bin .sub (C.time (k + 1)) C.dt = C.time k)
    (n : String) (init eq body : Py) (hb : body = stockSkel n init (substT eq))
    (hW : ∀ k, W n k = evalM C W ρ k body) :
    W n 0 = evalM C W ρ 0 init ∧
    ∀ k, W n (k + 1) = C.bin .add (W n k) (C.bin .mul C.dt (evalM C W ρ k eq)) := by
  have h := stock_euler C hG W ρ n init (substT eq) body hb hW
  refine ⟨h.1, fun k => ?_⟩
  rw [h.2 k, evalM_shift C W ρ k (hx k) eq]

/-! ### Time threading for every equation tree -/

mutual
theorem erase_subst (σ : Nat → Py) (s : Py) : erase (subst σ s) = subst (fun i => erase (σ i)) (erase s) := by
  match s with
  | .num _ => simp [subst, erase]
  | .name _ => simp [subst, erase]
  | .str _ => simp [subst, erase]
  | .hole _ => simp [subst, erase]
  | .paren e => simp [subst, erase, erase_subst σ e]
  | .neg e => simp [subst, erase, erase_subst σ e]
  | .not e => simp [subst, erase, erase_subst σ e]
  | .bin k l r => simp [subst, erase, erase_subst σ l, erase_subst σ r]
  | .ite x c y => simp [subst, erase, erase_subst σ x, erase_subst σ c, erase_subst σ y]
  | .attr e a => simp [subst, erase, erase_subst σ e]
  | .call f args => simp [subst, erase, erase_subst σ f, eraseL_substL σ args]
  | .index e i => simp [subst, erase, erase_subst σ e, erase_subst σ i]
  | .list es => simp [subst, erase, eraseL_substL σ es]
  | .kw n e => simp [subst, erase, erase_subst σ e]
theorem eraseL_substL (σ : Nat → Py) (es : List Py) :
    eraseL (substL σ es) = substL (fun i => erase (σ i)) (eraseL es) := by
  match es with
  | [] => simp [substL, eraseL]
  | e :: es => simp [substL, eraseL, erase_subst σ e, eraseL_substL σ es]
end

mutual
theorem substT_subst (σ : Nat → Py) (s : Py) :
    substT (subst σ s) = subst (fun i => substT (σ i)) (substT s) := by
  match s with
  | .num _ => simp [subst, substT]
  | .str _ => simp [subst, substT]
  | .hole _ => simp [subst, substT]
  | .name n =>
    by_cases h : n = "t"
    · subst h; simp [subst, substT, tMinusDt, substL]
    · simp [subst, substT, h]
  | .paren e => simp [subst, substT, substT_subst σ e]
  | .neg e => simp [subst, substT, substT_subst σ e]
  | .not e => simp [subst, substT, substT_subst σ e]
  | .bin k l r => simp [subst, substT, substT_subst σ l, substT_subst σ r]
  | .ite x c y => simp [subst, substT, substT_subst σ x, substT_subst σ c, substT_subst σ y]
  | .attr e a => simp [subst, substT, substT_subst σ e]
  | .call f args => simp [subst, substT, substT_subst σ f, substTL_substL σ args]
  | .index e i => simp [subst, substT, substT_subst σ e, substT_subst σ i]
  | .list es => simp [subst, substT, substTL_substL σ es]
  | .kw n e => simp [subst, substT, substT_subst σ e]
theorem substTL_substL (σ : Nat → Py) (es : List Py) :
    substTL (substL σ es) = substL (fun i => substT (σ i)) (substTL es) := by
  match es with
  | [] => simp [substL, substTL]
  | e :: es => simp [substL, substTL, substT_subst σ e, substTL_substL σ es]
end

mutual
theorem subst_congr (σ σ' : Nat → Py) (h : ∀ i, σ i = σ' i) (s : Py) : subst σ s = subst σ' s := by
  match s with
  | .num _ => simp [subst]
  | .name _ => simp [subst]
  | .str _ => simp [subst]
  | .hole i => simp [subst, h]
  | .paren e => simp [subst, subst_congr σ σ' h e]
  | .neg e => simp [subst, subst_congr σ σ' h e]
  | .not e => simp [subst, subst_congr σ σ' h e]
  | .bin k l r => simp [subst, subst_congr σ σ' h l, subst_congr σ σ' h r]
  | .ite x c y => simp [subst, subst_congr σ σ' h x, subst_congr σ σ' h c, subst_congr σ σ' h y]
  | .attr e a => simp [subst, subst_congr σ σ' h e]
  | .call f args => simp [subst, subst_congr σ σ' h f, substL_congr σ σ' h args]
  | .index e i => simp [subst, subst_congr σ σ' h e, subst_congr σ σ' h i]
  | .list es => simp [subst, substL_congr σ σ' h es]
  | .kw n e => simp [subst, subst_congr σ σ' h e]
theorem substL_congr (σ σ' : Nat → Py) (h : ∀ i, σ i = σ' i) (es : List Py) :
    substL σ es = substL σ' es := by
  match es with
  | [] => simp [substL]
  | e :: es => simp [substL, subst_congr σ σ' h e, substL_congr σ σ' h es]
end

mutual
/-- the same expression tree with its leaves (element references, numbers) asked for at `t - model.dt` -/
def shiftE : E → E
  | .leaf p => .leaf (substT p)
  | .node k cs => .node k (shiftEL cs)
def shiftEL : List E → List E
  | [] => []
  | c :: cs => shiftE c :: shiftEL cs
end

/-- per-run decidable obligation ("time threading"): every operator's shape in the table probed at
time `t - model.dt` is its shape in the table probed at `t` with `t` replaced by `t - model.dt`. -/
def shiftOK (Tt Tdt : Table) : Bool :=
  decide (Tt.length = Tdt.length) &&
  (List.range Tt.length).all fun k => beqPy (erase (Tdt.shape k)) (substT (erase (Tt.shape k)))

theorem shiftOK_shape (Tt Tdt : Table) (h : shiftOK Tt Tdt = true) (k : Nat) (hk : k < Tt.length) :
    erase (Tdt.shape k) = substT (erase (Tt.shape k)) := by
  unfold shiftOK at h
  simp only [Bool.and_eq_true, decide_eq_true_eq, List.all_eq_true, List.mem_range] at h
  exact beqPy_eq _ _ (h.2 k hk)

theorem nthD_map' (f : Py → Py) (hf : f (.name "MISSING") = .name "MISSING") (l : List Py) (i : Nat) :
    f (nthD (.name "MISSING") l i) = nthD (.name "MISSING") (l.map f) i := by
  induction l generalizing i with
  | nil => simp [nthD, hf]
  | cons x xs ih => cases i <;> simp [nthD, ih]

mutual
/-- **Time threading for every equation tree**: rendering a tree at `t - model.dt` denotes the tree
rendered at `t` with the time variable shifted — no operand is silently read at the wrong time. -/
theorem denote_shift (Tt Tdt : Table) (h : shiftOK Tt Tdt = true) (e : E) (he : E.ok Tt 0 e = true) :
    erase (denote Tdt (shiftE e)) = substT (erase (denote Tt e)) := by
  match e, he with
  | .leaf p, _ => simp [shiftE, denote, erase_substT]
  | .node k cs, he =>
    simp only [E.ok, Bool.and_eq_true] at he
    have hk : k < Tt.length := by
      cases hT : Tt[k]? with
      | none => simp [hT] at he
      | some t => exact (List.getElem?_eq_some_iff.mp hT).1
    have hl := denoteL_shift Tt Tdt h cs he.2
    simp only [shiftE, denote, erase_subst, substT_subst, shiftOK_shape Tt Tdt h k hk]
    apply subst_congr
    intro i
    rw [nthD_map' erase (by simp [erase]), nthD_map' erase (by simp [erase]),
      nthD_map' substT (by simp [substT]), hl]
theorem denoteL_shift (Tt Tdt : Table) (h : shiftOK Tt Tdt = true) (cs : List E)
    (he : E.okL Tt 0 cs = true) :
    (denoteL Tdt (shiftEL cs)).map erase = ((denoteL Tt cs).map erase).map substT := by
  match cs, he with
  | [], _ => simp [shiftEL, denoteL]
  | c :: cs, he =>
    simp only [E.okL, Bool.and_eq_true] at he
    simp [shiftEL, denoteL, denote_shift Tt Tdt h c he.1, denoteL_shift Tt Tdt h cs he.2]
theorem erase_substT (p : Py) : erase (substT p) = substT (erase p) := by
  match p with
  | .num _ => simp [substT, erase]
  | .str _ => simp [substT, erase]
  | .hole _ => simp [substT, erase]
  | .name n =>
    by_cases h : n = "t"
    · subst h; simp [substT, erase, tMinusDt]
    · simp [substT, erase, h]
  | .paren e => simp [substT, erase, erase_substT e]
  | .neg e => simp [substT, erase, erase_substT e]
  | .not e => simp [substT, erase, erase_substT e]
  | .bin k l r => simp [substT, erase, erase_substT l, erase_substT r]
  | .ite x c y => simp [substT, erase, erase_substT x, erase_substT c, erase_substT y]
  | .attr e a => simp [substT, erase, erase_substT e]
  | .call f args => simp [substT, erase, erase_substT f, eraseL_substTL args]
  | .index e i => simp [substT, erase, erase_substT e, erase_substT i]
  | .list es => simp [substT, erase, eraseL_substTL es]
  | .kw n e => simp [substT, erase, erase_substT e]
theorem eraseL_substTL (es : List Py) : eraseL (substTL es) = substTL (eraseL es) := by
  match es with
  | [] => simp [substTL, eraseL]
  | e :: es => simp [substTL, eraseL, erase_substT e, eraseL_substTL es]
end

/-! ### Built-in functions: intended shapes and what they compute -/

private def h0 : Py := .hole 0
private def h1 : Py := .hole 1
private def h2 : Py := .hole 2

/-- intended parenthesis-free shapes of the time functions, at time `t` -/
def specPy01 : String → Option Py
  | "Step" => some (.ite h0 (.bin .gt (.name "t") h1) (.num "0.0"))
  | "Time" => some (.name "t")
  | "Lookup" => some (.call (.attr (.name "model") "_lookup") [h0, .str "tbl"])
  -- the probe instantiates the next four with fixed numbers: delay 3.0 / initial 1.5; pulse volume H0, first 2.0,
  -- interval 3.0, dt 1.0; wave amplitude H0, period H1
  | "Delay" => some (.ite (memoCall "__h0__" (.bin .sub (.name "t") (.num "3.0")))
      (.bin .ge (.bin .sub (.name "t") (.num "3.0")) (.num "0.0")) (.num "1.5"))
  | "Pulse[first]" =>
      let d : Py := .bin .sub (.name "t") (.num "2.0")
      some (.ite (.bin .div h0 (.num "1.0"))
        (.bin .and (.bin .gt d (.bin .mul (.neg (.num "1.0")) (.num "0.499999999")))
          (.bin .le d (.bin .mul (.num "1.0") (.num "0.500000001"))))
        (.num "0.0"))
  | "Pulse[interval]" =>
      let d : Py := .bin .sub (.name "t") (.num "2.0")
      let x : Py := .bin .sub d (.bin .mul (.num "3.0") (.call (.attr (.name "math") "ceil")
        [.bin .div (.bin .sub d (.bin .mul (.num "1.0") (.num "0.500000001"))) (.num "3.0")]))
      let lo : Py := .bin .mul (.neg (.num "1.0")) (.num "0.499999999")
      let hi : Py := .bin .mul (.num "1.0") (.num "0.500000001")
      some (.ite (.bin .div h0 (.num "1.0"))
        (.bin .and (.bin .and (.bin .gt d lo) (.bin .gt x lo)) (.bin .le x hi))
        (.num "0.0"))
  | "Sinwave" => some (.bin .mul (.call (.attr (.name "np") "sin")
      [.bin .mul (.bin .div (.bin .mul (.num "2") (.attr (.name "np") "pi")) h1)
        (.bin .sub (.name "t") (.attr (.name "model") "starttime"))]) h0)
  | "Coswave" => some (.bin .mul (.call (.attr (.name "np") "cos")
      [.bin .mul (.bin .div (.bin .mul (.num "2") (.attr (.name "np") "pi")) h1)
        (.bin .sub (.name "t") (.attr (.name "model") "starttime"))]) h0)
  | _ => none

def specOK01 (T : Table) : Bool :=
  T.all fun t => match specPy01 t.cls with
    | some s => beqPy (erase (shapeOf t)) s
    | none => true

/-- STEP(height, time): `height` after the step time, else 0.0 -/
theorem step_sem (C : TC α) (W : String → Nat → α) (ρ : Nat → α) (k : Nat) :
    evalM C W ρ k (.ite h0 (.bin .gt (.name "t") h1) (.num "0.0")) =
      if C.truthy (C.bin .gt (C.time k) (ρ 1)) then ρ 0 else C.num "0.0" := by
  simp [evalM, h0, h1]

/-- DELAY(input x, duration d, initial i): the input element's value at the index of `t - d` when
that time is not before the start, the initial value otherwise -/
theorem delay_sem (C : TC α) (W : String → Nat → α) (ρ : Nat → α) (k : Nat) (x : String) (d init : Py) (j : Nat)
    (hj : C.idx (C.bin .sub (C.time k) (evalM C W ρ k d)) = some j) :
    evalM C W ρ k (.ite (memoCall x (.bin .sub (.name "t") d))
        (.bin .ge (.bin .sub (.name "t") d) (.attr (.name "model") "starttime")) init) =
      if C.truthy (C.bin .ge (C.bin .sub (C.time k) (evalM C W ρ k d)) C.start) then W x j
      else evalM C W ρ k init := by
  simp [evalM, evalML, memoCall, isMemoize, isModel, strArg, modelAttr, hj]

/-- SMOOTH / TREND core: with the helper stock `s` integrating the helper rate `r`, and
`r = (input - s) / T`, the stock is the first-order exponential average
`s(k+1) = s(k) + dt * ((input(k) - s(k)) / T(k))`. -/
theorem smooth_first_order (C : TC α) (hG : GridOK C) (W : String → Nat → α) (ρ : Nat → α)
    (s r inp avg : String) (init : Py)
    (hs : ∀ k, W s k = evalM C W ρ k (stockSkel s init (memoCall r tMinusDt)))
    (hr : ∀ k, W r k = evalM C W ρ k
      (.bin .div (.bin .sub (memoCall inp (.name "t")) (memoCall s (.name "t"))) (memoCall avg (.name "t")))) :
    W s 0 = evalM C W ρ 0 init ∧
    ∀ k, W s (k + 1) = C.bin .add (W s k)
      (C.bin .mul C.dt (C.bin .div (C.bin .sub (W inp k) (W s k)) (W avg k))) := by
  have h := stock_euler C hG W ρ s init (memoCall r tMinusDt) _ rfl hs
  refine ⟨h.1, fun k => ?_⟩
  rw [h.2 k, ref_prev C hG W ρ r k, hr k]
  simp [evalM, ref_now C hG W ρ]

/-- TREND(input, T, init): with the helper stock `s` (exponential average, as in `smooth_first_order`), the
reported trend is the fractional distance of the input from its average per averaging time,
`(input(k) - s(k)) / (s(k) * T(k))`. -/
theorem trend_sem (C : TC α) (hG : GridOK C) (W : String → Nat → α) (ρ : Nat → α)
    (tr s inp avg : String)
    (ht : ∀ k, W tr k = evalM C W ρ k
      (.bin .div (.bin .sub (memoCall inp (.name "t")) (memoCall s (.name "t")))
        (.bin .mul (memoCall s (.name "t")) (memoCall avg (.name "t"))))) :
    ∀ k, W tr k = C.bin .div (C.bin .sub (W inp k) (W s k)) (C.bin .mul (W s k) (W avg k)) := by
  intro k
  rw [ht k]
  simp [evalM, ref_now C hG W ρ]

/-- PULSE(volume, first) without interval: `volume/dt` exactly when `first` lies in the half-open window
`(t - dt/2, t + dt/2]` around the time (so exactly one grid point carries the pulse) -/
theorem pulse_first_sem (C : TC α) (W : String → Nat → α) (ρ : Nat → α) (k : Nat) (first dtl : String) :
    let d : Py := .bin .sub (.name "t") (.num first)
    evalM C W ρ k (.ite (.bin .div (.hole 0) (.num dtl))
        (.bin .and (.bin .gt d (.bin .mul (.neg (.num dtl)) (.num "0.499999999")))
          (.bin .le d (.bin .mul (.num dtl) (.num "0.500000001")))) (.num "0.0")) =
      if C.truthy (C.bin .and
          (C.bin .gt (C.bin .sub (C.time k) (C.num first)) (C.bin .mul (C.neg (C.num dtl)) (C.num "0.499999999")))
          (C.bin .le (C.bin .sub (C.time k) (C.num first)) (C.bin .mul (C.num dtl) (C.num "0.500000001"))))
      then C.bin .div (ρ 0) (C.num dtl) else C.num "0.0" := by
  simp [evalM]

/-! ### `_lookup`: clamped linear interpolation -/

theorem lookup_left (x0 y0 : Rat) (rest : List (Rat × Rat)) (x : Rat) (h : x ≤ x0) :
    lookup ((x0, y0) :: rest) x = y0 := by simp [lookup, h]

theorem lookup_right (pts : List (Rat × Rat)) (x0 y0 : Rat) (rest : List (Rat × Rat))
    (hp : pts = (x0, y0) :: rest) (x : Rat) (h0 : ¬ x ≤ x0) (h : x ≥ lastX pts) :
    lookup pts x = lastY pts := by
  subst hp; simp [lookup, h0, h]

theorem lookup_segment (x0 y0 x1 y1 : Rat) (rest : List (Rat × Rat)) (x : Rat)
    (h0 : ¬ x ≤ x0) (h1 : x ≤ x1) (hl : ¬ x ≥ lastX ((x0, y0) :: (x1, y1) :: rest)) :
    lookup ((x0, y0) :: (x1, y1) :: rest) x = y0 + (y1 - y0) * ((x - x0) / (x1 - x0)) := by
  simp [lookup, h0, hl, interp, h1]

theorem interp_later (x0 y0 x1 y1 : Rat) (rest : List (Rat × Rat)) (x : Rat) (h1 : ¬ x ≤ x1) :
    interp ((x0, y0) :: (x1, y1) :: rest) x = interp ((x1, y1) :: rest) x := by
  simp [interp, h1]

/-- **C01 at full strength** for the operator tables `Tt` (probed at `t`) and `Tdt` (probed at
`t - model.dt`): for every equation tree, every element kind, every solution and every step. -/
def C01_full (Tt Tdt : Table) : Prop :=
  -- (syntax) every equation tree, at either time, is emitted as text that parses to operands-as-units
  (∀ e : E, E.ok Tt L e = true → Parses (render Tt e) (denote Tt e)) ∧
  (∀ e : E, E.ok Tdt L e = true → Parses (render Tdt e) (denote Tdt e)) ∧
  -- (time threading) the tree rendered at t - dt is the tree rendered at t, shifted
  (∀ e : E, E.ok Tt 0 e = true → erase (denote Tdt (shiftE e)) = substT (erase (denote Tt e))) ∧
  -- (semantics) solutions of the function strings solve the difference equations
  (∀ (α : Type) (C : TC α), GridOK C → ∀ (W : String → Nat → α) (ρ : Nat → α),
    (∀ n init eq, (∀ k, W n k = evalM C W ρ k (stockSkel n init eq)) →
        W n 0 = evalM C W ρ 0 init ∧
        ∀ k, W n (k + 1) = C.bin .add (W n k) (C.bin .mul C.dt (evalM C W ρ (k + 1) eq))) ∧
    (∀ n eq, (∀ k, W n k = evalM C W ρ k (flowSkel eq)) →
        ∀ k, W n k = C.call (C.name "max") [C.num "0", evalM C W ρ k eq]) ∧
    (∀ k s, C.bin .sub (C.time (k + 1)) C.dt = C.time k →
        evalM C W ρ (k + 1) (substT s) = evalM C W ρ k s))

theorem C01_full_of_tables (Tt Tdt : Table) (h1 : tableOK L Tt = true) (h2 : tableOK L Tdt = true)
    (h3 : shiftOK Tt Tdt = true) : C01_full Tt Tdt := by
  refine ⟨fun e he => render_parses L (by decide) Tt h1 e he,
    fun e he => render_parses L (by decide) Tdt h2 e he,
    fun e he => denote_shift Tt Tdt h3 e he, ?_⟩
  intro α C hG W ρ
  exact ⟨fun n init eq hW => stock_euler C hG W ρ n init eq _ rfl hW,
    fun n eq hW => flow_clamped C W ρ n eq _ rfl hW,
    fun k s hx => evalM_shift C W ρ k hx s⟩

/-- Negation witness for the pinned tree's `number * element` template (`(H1) * (H0)` rendered with
the number operand at the default time): the shape asked for at `t - model.dt` still reads the
element at `t`, so `shiftOK` is false. -/
def nmulT : Tmpl :=
  ⟨"NumericalMultiplicationOperator", 2,
   [.lp, .name "model", .dot, .name "memoize", .lp, .str "f", .comma, .name "t", .rp, .rp, .op .mul,
    .lp, .hole 0, .rp]⟩
theorem C01_witness_time_dropped : shiftOK [nmulT] [nmulT] = false := by decide +kernel

/-- Non-vacuity: a concrete carrier (Int values, exact grid) satisfying `GridOK` exists. -/
def demoC : TC Int where
  num := fun _ => 0
  name := fun _ => 0
  str := fun _ => 0
  neg := fun x => -x
  not := fun x => if x = 0 then 1 else 0
  bin := fun op a b => match op with
    | .add => a + b | .sub => a - b | .mul => a * b | .le => if a ≤ b then 1 else 0 | _ => 0
  attr := fun _ _ => 0
  call := fun _ _ => 0
  index := fun _ _ => 0
  list := fun _ => 0
  kw := fun _ x => x
  time := fun k => k
  dt := 1
  start := 0
  stop := 10
  truthy := fun x => x != 0
  idx := fun x => if x < 0 then none else some x.toNat

example : GridOK demoC := by
  constructor
  · intro k
    cases k with
    | zero => simp [demoC]
    | succ n => simp [demoC]
  · intro k; simp [demoC]
  · intro k; simp [demoC]

#print axioms C01_full_of_tables
#print axioms stock_euler_exact
#print axioms denote_shift
#print axioms smooth_first_order
#print axioms delay_sem
#print axioms trend_sem
#print axioms pulse_first_sem
#print axioms C01_witness_time_dropped
#print axioms lookup_segment

end Bptk.C01
