import Bptk.Core.C20
/-!
C20 — after a server crash, externalised sessions continue as if nothing happened.
Quantifiers: every simulation (`Dyn`), every request history with crashes at arbitrary positions
(`List Op`: any number of crashes between requests and of crashes in the middle of a state write, any
number of instances), no bound.
-/
namespace Bptk.C20

variable {σ ρ : Type}

/-- the live simulation is what replaying the log on a fresh simulation gives -/
def SimOK (d : Dyn σ ρ) (i : Inst σ) : Prop := i.sim = replaySim d i.spec i.log

/-- invariant of the crashing server -/
structure Inv (d : Dyn σ ρ) (s : Server σ) : Prop where
  sim : ∀ id i, s.live id = some i → SimOK d i
  file : ∀ id i p, s.live id = some i → s.files id = some (.ok p) → p = persist i
  used : ∀ id, (s.live id).isSome ∨ (s.files id).isSome → s.used id = true

/-- simulation relation between the crashing run and the uninterrupted run: whatever instance a request
would work on after the crashes is the instance of the uninterrupted run (or is gone) -/
structure Rel (d : Dyn σ ρ) (s : Server σ) (u : UServer σ) : Prop where
  eff : ∀ id, eff d s id = none ∨ eff d s id = u.live id
  used : s.used = u.used

theorem restore_persist (d : Dyn σ ρ) (i : Inst σ) (h : SimOK d i) : restore d (persist i) = i := by
  cases i; simp only [SimOK] at h; simp [restore, persist, h]

theorem simOK_restore (d : Dyn σ ρ) (p : Persist) : SimOK d (restore d p) := rfl
theorem simOK_fresh (d : Dyn σ ρ) (spec : Spec) : SimOK d (fresh d spec) := rfl

theorem simOK_runStep (d : Dyn σ ρ) (i : Inst σ) (st : Settings) (h : SimOK d i) :
    SimOK d (runStep d i st).1 := by
  unfold runStep
  split
  · exact h
  · simp only [SimOK, replaySim] at h ⊢
    simp only [List.foldl_append, List.foldl_cons, List.foldl_nil, ← h]

theorem runStep_spec (d : Dyn σ ρ) (i : Inst σ) (st : Settings) : (runStep d i st).1.spec = i.spec := by
  unfold runStep; split <;> rfl

theorem inv_empty (d : Dyn σ ρ) : Inv d (Server.empty : Server σ) := by
  constructor <;> simp [Server.empty]

theorem rel_empty (d : Dyn σ ρ) : Rel d (Server.empty : Server σ) UServer.empty := by
  constructor
  · intro id; left; simp [eff, Server.empty, readable]
  · rfl

/-- every instance a request can work on has a simulation that equals the replay of its log -/
theorem simOK_eff (d : Dyn σ ρ) (s : Server σ) (hi : Inv d s) (id : Nat) (i : Inst σ)
    (h : eff d s id = some i) : SimOK d i := by
  unfold eff at h
  cases hl : s.live id with
  | some j =>
    rw [hl] at h
    have hji : j = i := by simpa using h
    subst hji
    exact hi.sim id j hl
  | none =>
    rw [hl] at h
    simp only [Option.map_eq_some_iff] at h
    obtain ⟨p, _, rfl⟩ := h
    exact simOK_restore d p

/-- a restart does not change the instance of any id whose file is readable -/
theorem eff_restart_of_readable (d : Dyn σ ρ) (s : Server σ) (hi : Inv d s) (id : Nat) (p : Persist)
    (hp : s.files id = some (.ok p)) : eff d (restart d s) id = eff d s id := by
  simp only [eff, restart, readable, hp, Option.map_some]
  cases hl : s.live id with
  | none => rfl
  | some i =>
    simp only
    have := hi.file id i p hl hp
    subst this
    rw [restore_persist d i (hi.sim id i hl)]

/-- after a restart the instances are exactly the readable files -/
theorem eff_restart (d : Dyn σ ρ) (s : Server σ) (id : Nat) :
    eff d (restart d s) id = (readable s.files id).map (restore d) := by
  simp only [eff, restart]
  cases h : (readable s.files id).map (restore d) <;> simp

theorem inv_restart (d : Dyn σ ρ) (s : Server σ) (hi : Inv d s) : Inv d (restart d s) := by
  constructor
  · intro id i h
    simp only [restart, Option.map_eq_some_iff] at h
    obtain ⟨p, _, rfl⟩ := h
    exact simOK_restore d p
  · intro id i p h hp
    simp only [restart, Option.map_eq_some_iff] at h hp
    obtain ⟨q, hq, rfl⟩ := h
    simp only [readable, hp] at hq
    cases hq; rfl
  · intro id h
    apply hi.used id
    right
    rcases h with h | h
    · simp only [restart, readable] at h
      cases hf : s.files id with
      | none => simp [hf] at h
      | some f => rfl
    · exact h

theorem rel_restart (d : Dyn σ ρ) (s : Server σ) (u : UServer σ) (hi : Inv d s) (hr : Rel d s u) :
    Rel d (restart d s) u := by
  constructor
  · intro id
    rw [eff_restart]
    cases hp : readable s.files id with
    | none => left; rfl
    | some p =>
      have hf : s.files id = some (.ok p) := by
        unfold readable at hp
        split at hp
        · rename_i q hq; cases hp; exact hq
        · cases hp
      have := eff_restart_of_readable d s hi id p hf
      rw [eff_restart, hp] at this
      rw [this]
      exact hr.eff id
  · exact hr.used

theorem eff_upd_live_same (d : Dyn σ ρ) (s : Server σ) (id : Nat) (i : Inst σ) (f : Nat → Option File) :
    eff d { s with live := upd s.live id (some i), files := f } id = some i := by
  simp [eff, upd]

theorem eff_upd_other (d : Dyn σ ρ) (s : Server σ) (id x : Nat) (v : Option (Inst σ)) (w : Option File)
    (h : x ≠ id) :
    eff d { s with live := upd s.live id v, files := upd s.files id w } x = eff d s x := by
  simp [eff, upd, h, readable]

/-- one request: invariant, relation and answers -/
theorem step_sim (d : Dyn σ ρ) (s : Server σ) (u : UServer σ) (hi : Inv d s) (hr : Rel d s u) (op : Op) :
    Inv d (stepC d s op).1 ∧ Rel d (stepC d s op).1 (stepU d u op).1 ∧
    ((stepC d s op).2 = (stepU d u op).2 ∨ (stepC d s op).2 = .invalid) := by
  cases op with
  | start id spec =>
    simp only [stepC, stepU, ← hr.used]
    cases hu : s.used id with
    | true => simp only [if_true]; exact ⟨hi, hr, (by simp)⟩
    | false =>
      simp only [Bool.false_eq_true, if_false]
      have hl : s.live id = none := by
        cases h : s.live id with
        | none => rfl
        | some i => have := hi.used id (Or.inl (by simp [h])); simp [hu] at this
      have hf : s.files id = none := by
        cases h : s.files id with
        | none => rfl
        | some i => have := hi.used id (Or.inr (by simp [h])); simp [hu] at this
      refine ⟨⟨?_, ?_, ?_⟩, ⟨?_, ?_⟩, (by simp)⟩
      · intro x i h
        simp only [upd] at h
        split at h
        · cases h; exact simOK_fresh d spec
        · exact hi.sim x i h
      · intro x i p h hp
        simp only [upd] at h
        split at h
        · rename_i hx; subst hx; simp [hf] at hp
        · exact hi.file x i p h hp
      · intro x h
        simp only [upd] at h
        by_cases hx : x = id
        · simp [hx]
        · simp only [hx, if_false] at h
          simp [hi.used x h]
      · intro x
        by_cases hx : x = id
        · subst hx; right; simp [eff, upd]
        · have : eff d { s with live := upd s.live id (some (fresh d spec)),
                                used := fun x => x = id || s.used x } x = eff d s x := by
            simp [eff, upd, hx]
          rw [this]
          simp only [upd, hx, if_false]
          exact hr.eff x
      · rfl
  | step id st =>
    simp only [stepC, stepU]
    cases he : eff d s id with
    | none => exact ⟨hi, by
        constructor
        · intro x
          rcases hr.eff x with h | h
          · left; exact h
          · cases hu : u.live id with
            | none => right; simpa [hu] using h
            | some j =>
              simp only [hu]
              by_cases hx : x = id
              · subst hx; left; exact he
              · right; simp [upd, hx, h]
        · cases hu : u.live id <;> exact hr.used, Or.inr rfl⟩
    | some i =>
      have hui : u.live id = some i := by
        rcases hr.eff id with h | h
        · rw [he] at h; cases h
        · rw [← h, he]
      have hsim := simOK_eff d s hi id i he
      simp only [hui]
      refine ⟨⟨?_, ?_, ?_⟩, ⟨?_, hr.used⟩, (by simp)⟩
      · intro x j h
        simp only [upd] at h
        split at h
        · cases h; exact simOK_runStep d i st hsim
        · exact hi.sim x j h
      · intro x j p h hp
        simp only [upd] at h hp
        split at h
        · rename_i hx; simp only [hx, if_true] at hp; cases h; cases hp; rfl
        · rename_i hx; simp only [hx, if_false] at hp; exact hi.file x j p h hp
      · intro x h
        by_cases hx : x = id
        · subst hx
          apply hi.used
          unfold eff at he
          split at he
          · rename_i j hj; left; simp [hj]
          · right
            simp only [Option.map_eq_some_iff, readable] at he
            obtain ⟨p, hp, _⟩ := he
            split at hp
            · rename_i q hq; simp [hq]
            · cases hp
        · simp only [upd, hx, if_false] at h
          exact hi.used x h
      · intro x
        by_cases hx : x = id
        · subst hx; right; simp [eff, upd]
        · rw [eff_upd_other d s id x _ _ hx]
          simp only [upd, hx, if_false]
          exact hr.eff x
  | crash =>
    simp only [stepC, stepU]
    exact ⟨inv_restart d s hi, rel_restart d s u hi hr, (by simp)⟩
  | crashInWrite id st =>
    simp only [stepC, stepU]
    cases he : eff d s id with
    | none =>
      simp only
      refine ⟨inv_restart d s hi, ?_, (by cases u.live id <;> simp)⟩
      have h1 := rel_restart d s u hi hr
      constructor
      · intro x
        rcases h1.eff x with h | h
        · left; exact h
        · cases hu : u.live id with
          | none => right; simpa [hu] using h
          | some j =>
            simp only [hu]
            by_cases hx : x = id
            · subst hx
              left
              rw [eff_restart]
              unfold eff at he
              split at he
              · cases he
              · exact he
            · right; simp [upd, hx, h]
      · cases hu : u.live id <;> exact hr.used
    | some i =>
      simp only
      -- the torn file: the instance is lost, every other instance is as before
      let s' : Server σ := { s with files := upd s.files id (some .torn) }
      have hi' : Inv d s' := by
        constructor
        · exact hi.sim
        · intro x j p h hp
          simp only [s', upd] at hp
          split at hp
          · cases hp
          · exact hi.file x j p h hp
        · intro x h
          simp only [s', upd] at h
          by_cases hx : x = id
          · subst hx
            apply hi.used
            unfold eff at he
            split at he
            · rename_i j hj; left; simp [hj]
            · right
              simp only [Option.map_eq_some_iff, readable] at he
              obtain ⟨p, hp, _⟩ := he
              split at hp
              · rename_i q hq; simp [hq]
              · cases hp
          · simp only [hx, if_false] at h; exact hi.used x h
      refine ⟨inv_restart d s' hi', ?_, (by cases u.live id <;> simp)⟩
      constructor
      · intro x
        rw [eff_restart]
        by_cases hx : x = id
        · subst hx; left; simp [s', readable, upd]
        · have hrd : readable s'.files x = readable s.files x := by simp [s', readable, upd, hx]
          rw [hrd]
          have h2 := (rel_restart d s u hi hr).eff x
          rw [eff_restart] at h2
          rcases h2 with h | h
          · left; exact h
          · right
            rw [h]
            cases hu : u.live id <;> simp [upd, hx]
      · cases hu : u.live id <;> exact hr.used
  | damage id =>
    simp only [stepC, stepU]
    by_cases hf : (s.files id).isSome
    · have hd : damageFile s id = { s with files := upd s.files id (some .torn) } := by simp [damageFile, hf]
      rw [hd]
      let s' : Server σ := { s with files := upd s.files id (some .torn) }
      have hi' : Inv d s' := by
        constructor
        · exact hi.sim
        · intro x j p h hp
          simp only [s', upd] at hp
          split at hp
          · cases hp
          · exact hi.file x j p h hp
        · intro x h
          simp only [s', upd] at h
          by_cases hx : x = id
          · subst hx; exact hi.used x (Or.inr hf)
          · simp only [hx, if_false] at h; exact hi.used x h
      refine ⟨inv_restart d s' hi', ?_, (by simp)⟩
      constructor
      · intro x
        rw [eff_restart]
        by_cases hx : x = id
        · subst hx; left; simp [s', readable, upd]
        · have hrd : readable s'.files x = readable s.files x := by simp [s', readable, upd, hx]
          rw [hrd]
          have h2 := (rel_restart d s u hi hr).eff x
          rw [eff_restart] at h2
          exact h2
      · exact hr.used
    · have hd : damageFile s id = s := by simp [damageFile, hf]
      rw [hd]
      exact ⟨inv_restart d s hi, rel_restart d s u hi hr, (by simp)⟩

/-- the relation and the invariant hold along every history; answers agree request by request -/
theorem run_sim (d : Dyn σ ρ) (ops : List Op) : ∀ (s : Server σ) (u : UServer σ), Inv d s → Rel d s u →
    (∀ n : Nat, (runC d s ops)[n]? = (runU d u ops)[n]? ∨ (runC d s ops)[n]? = some Resp.invalid) ∧
    Inv d (finalC d s ops) ∧ Rel d (finalC d s ops) (finalU d u ops) := by
  induction ops with
  | nil => intro s u hi hr; exact ⟨fun n => Or.inl rfl, hi, hr⟩
  | cons op ops ih =>
    intro s u hi hr
    obtain ⟨hi', hr', hresp⟩ := step_sim d s u hi hr op
    obtain ⟨h1, h2, h3⟩ := ih _ _ hi' hr'
    refine ⟨?_, h2, h3⟩
    intro n
    cases n with
    | zero =>
      simp only [runC, runU, List.getElem?_cons_zero]
      rcases hresp with h | h
      · left; rw [h]
      · right; rw [h]
    | succ n => simpa [runC, runU] using h1 n

/-- continuation: at ANY crash points of ANY history, every request is answered exactly as in the
uninterrupted run, unless the instance is gone ("invalid instance"). -/
theorem C20_continuation (d : Dyn σ ρ) (ops : List Op) (n : Nat) :
    (runC d Server.empty ops)[n]? = (runU d UServer.empty ops)[n]? ∨
    (runC d Server.empty ops)[n]? = some Resp.invalid :=
  (run_sim d ops _ _ (inv_empty d) (rel_empty d)).1 n

/-- … and an instance is gone only if it has no readable state file: after any history, an instance with
a readable file answers the next step exactly as the uninterrupted session does (same values, hence
the effect of all earlier settings and every requested equation), never "invalid". -/
theorem C20_externalised_continues (d : Dyn σ ρ) (ops : List Op) (id : Nat) (st : Settings) (p : Persist)
    (hp : (finalC d Server.empty ops).files id = some (.ok p)) :
    (stepC d (finalC d Server.empty ops) (.step id st)).2 = (stepU d (finalU d UServer.empty ops) (.step id st)).2 ∧
    (stepC d (finalC d Server.empty ops) (.step id st)).2 ≠ Resp.invalid := by
  obtain ⟨_, hi, hr⟩ := run_sim d ops _ _ (inv_empty d) (rel_empty d)
  have hsome : ∃ i, eff d (finalC d Server.empty ops) id = some i := by
    unfold eff
    cases (finalC d Server.empty ops).live id with
    | some i => exact ⟨i, rfl⟩
    | none => exact ⟨restore d p, by simp [readable, hp]⟩
  obtain ⟨i, he⟩ := hsome
  have hu : (finalU d UServer.empty ops).live id = some i := by
    rcases hr.eff id with h | h
    · rw [he] at h; cases h
    · rw [← h, he]
  constructor
  · simp only [stepC, stepU, he, hu]
  · simp only [stepC, he]
    unfold runStep
    split <;> simp

/-- damage containment: a torn state file costs that one instance only — the restart succeeds (the
model's `restart` is total), every other file is untouched and every other externalised instance is
restored unchanged. -/
theorem C20_damage_contained (d : Dyn σ ρ) (s : Server σ) (hi : Inv d s) (id : Nat) (st : Settings)
    (x : Nat) (hx : x ≠ id) :
    (stepC d s (.crashInWrite id st)).1.files x = s.files x ∧
    ∀ p, s.files x = some (.ok p) → eff d (stepC d s (.crashInWrite id st)).1 x = eff d s x := by
  simp only [stepC]
  cases he : eff d s id with
  | none =>
    simp only
    exact ⟨rfl, fun p hp => eff_restart_of_readable d s hi x p hp⟩
  | some i =>
    simp only
    constructor
    · simp [restart, upd, hx]
    · intro p hp
      rw [eff_restart]
      have : readable (upd s.files id (some File.torn)) x = readable s.files x := by
        simp [readable, upd, hx]
      simp only [this]
      rw [← eff_restart]
      exact eff_restart_of_readable d s hi x p hp

/-- a crash between two requests loses nothing that had been externalised -/
theorem C20_crash_keeps_externalised (d : Dyn σ ρ) (ops : List Op) (id : Nat) (p : Persist)
    (hp : (finalC d Server.empty ops).files id = some (.ok p)) :
    eff d (stepC d (finalC d Server.empty ops) .crash).1 id = eff d (finalC d Server.empty ops) id := by
  obtain ⟨_, hi, _⟩ := run_sim d ops _ _ (inv_empty d) (rel_empty d)
  exact eff_restart_of_readable d _ hi id p hp

/-- C20 at full strength, for a simulation `d`. -/
def C20_full (d : Dyn σ ρ) : Prop :=
  ∀ ops : List Op,
    (∀ n : Nat, (runC d Server.empty ops)[n]? = (runU d UServer.empty ops)[n]? ∨
          (runC d Server.empty ops)[n]? = some Resp.invalid) ∧
    (∀ id st p, (finalC d Server.empty ops).files id = some (.ok p) →
      (stepC d (finalC d Server.empty ops) (.step id st)).2 = (stepU d (finalU d UServer.empty ops) (.step id st)).2 ∧
      (stepC d (finalC d Server.empty ops) (.step id st)).2 ≠ Resp.invalid) ∧
    (∀ id st x, x ≠ id →
      (stepC d (finalC d Server.empty ops) (.crashInWrite id st)).1.files x = (finalC d Server.empty ops).files x ∧
      ∀ p, (finalC d Server.empty ops).files x = some (.ok p) →
        eff d (stepC d (finalC d Server.empty ops) (.crashInWrite id st)).1 x = eff d (finalC d Server.empty ops) x)

theorem C20_full_holds (d : Dyn σ ρ) : C20_full d := by
  intro ops
  refine ⟨C20_continuation d ops, fun id st p hp => C20_externalised_continues d ops id st p hp, ?_⟩
  intro id st x hx
  obtain ⟨_, hi, _⟩ := run_sim d ops _ _ (inv_empty d) (rel_empty d)
  exact C20_damage_contained d _ hi id st x hx

/-! ### non-vacuity (on the symbolic simulation: a step result is the history applied so far) -/

def demoSpec : Spec := { start := 1024, dt := 1024, stop := 10240, tag := 0 }
def demoOps : List Op :=
  [.start 1 demoSpec, .start 2 demoSpec, .step 1 [(0, "c=5")], .step 2 [], .step 1 [], .crash,
   .step 1 [], .crashInWrite 2 [(0, "c=7")], .step 2 [], .step 1 [(0, "c=9")]]

/-- instance 1 continues with the effect of `c=5` after the crash and after the torn write of instance 2;
instance 2 is gone after its torn write (and only then). -/
example : runC histDyn Server.empty demoOps =
    [.none, .none, .ok [(1024, [(0, "c=5")])], .ok [(1024, [])], .ok [(1024, [(0, "c=5")]), (2048, [])], .none,
     .ok [(1024, [(0, "c=5")]), (2048, []), (3072, [])], .none, .invalid,
     .ok [(1024, [(0, "c=5")]), (2048, []), (3072, []), (4096, [(0, "c=9")])]] := by decide

example : runU histDyn UServer.empty demoOps =
    [.none, .none, .ok [(1024, [(0, "c=5")])], .ok [(1024, [])], .ok [(1024, [(0, "c=5")]), (2048, [])], .none,
     .ok [(1024, [(0, "c=5")]), (2048, []), (3072, [])], .none, .ok [(1024, []), (2048, [(0, "c=7")]), (3072, [])],
     .ok [(1024, [(0, "c=5")]), (2048, []), (3072, []), (4096, [(0, "c=9")])]] := by decide


/-! ## Wave 2 — the restore as a mechanism fact, the atomic state write -/

theorem restoreC_good (c : Cfg) (h : c.restoreOK = true) (d : Dyn σ ρ) : restoreC c d = restore d := by
  have h1 : c.replayIsComplete = true := by simp only [Cfg.restoreOK, Bool.and_eq_true] at h; exact h.1
  have h2 : c.replayOrderPreserved = true := by simp only [Cfg.restoreOK, Bool.and_eq_true] at h; exact h.2
  funext p; simp [restoreC, restore, readLog, h1, h2]

theorem effC_good (c : Cfg) (h : c.restoreOK = true) (d : Dyn σ ρ) (s : Server σ) (id : Nat) :
    effC c d s id = eff d s id := by
  simp [effC, eff, restoreC_good c h d]

theorem restartC_good (c : Cfg) (h : c.restoreOK = true) (d : Dyn σ ρ) (s : Server σ) :
    restartC c d s = restart d s := by
  simp [restartC, restart, restoreC_good c h d]

/-- with a complete replay the configured server is the server of wave 1, a crash inside an atomic write being a
plain crash -/
theorem stepCC_good (c : Cfg) (h : c.restoreOK = true) (d : Dyn σ ρ) (s : Server σ) (op : Op) :
    stepCC c d s op = stepC d s (atomize c.atomicWrite op) := by
  cases op with
  | start id spec => rfl
  | step id st => simp [stepCC, stepC, atomize, effC_good c h]
  | crash => simp [stepCC, stepC, atomize, restartC_good c h]
  | damage id => simp [stepCC, stepC, atomize, restartC_good c h]
  | crashInWrite id st =>
    cases ha : c.atomicWrite with
    | false => simp [stepCC, stepC, atomize, effC_good c h, restartC_good c h, ha]
    | true =>
      simp only [stepCC, stepC, atomize, effC_good c h, restartC_good c h, ha, if_true]
      cases eff d s id <;> rfl

theorem runCC_good (c : Cfg) (h : c.restoreOK = true) (d : Dyn σ ρ) : ∀ (ops : List Op) (s : Server σ),
    runCC c d s ops = runC d s (ops.map (atomize c.atomicWrite))
  | [], _ => rfl
  | op :: ops, s => by simp [runCC, runC, stepCC_good c h, runCC_good c h d ops]

theorem finalCC_good (c : Cfg) (h : c.restoreOK = true) (d : Dyn σ ρ) : ∀ (ops : List Op) (s : Server σ),
    finalCC c d s ops = finalC d s (ops.map (atomize c.atomicWrite))
  | [], _ => rfl
  | op :: ops, s => by
    show finalCC c d (stepCC c d s op).1 ops = finalC d (stepC d s (atomize c.atomicWrite op)).1 (ops.map (atomize c.atomicWrite))
    rw [stepCC_good c h]; exact finalCC_good c h d ops _

/-- C20 with the mechanism facts.  Clauses 1–3 are those of `C20_full` for the configured server (the
uninterrupted run does not contain a request that was lost as a whole by a crash inside an atomic write);
clause 4 is the stronger containment an atomic write gives: a crash inside a write costs NO externalised instance,
not even the one being written. -/
def C20_full_cfg (c : Cfg) (d : Dyn σ ρ) : Prop :=
  ∀ ops : List Op,
    (∀ n : Nat, (runCC c d Server.empty ops)[n]? = (runU d UServer.empty (ops.map (atomize c.atomicWrite)))[n]? ∨
          (runCC c d Server.empty ops)[n]? = some Resp.invalid) ∧
    (∀ id st p, (finalCC c d Server.empty ops).files id = some (.ok p) →
      (stepCC c d (finalCC c d Server.empty ops) (.step id st)).2
        = (stepU d (finalU d UServer.empty (ops.map (atomize c.atomicWrite))) (.step id st)).2 ∧
      (stepCC c d (finalCC c d Server.empty ops) (.step id st)).2 ≠ Resp.invalid) ∧
    (∀ id st x, x ≠ id →
      (stepCC c d (finalCC c d Server.empty ops) (.crashInWrite id st)).1.files x = (finalCC c d Server.empty ops).files x ∧
      ∀ p, (finalCC c d Server.empty ops).files x = some (.ok p) →
        effC c d (stepCC c d (finalCC c d Server.empty ops) (.crashInWrite id st)).1 x = effC c d (finalCC c d Server.empty ops) x) ∧
    (c.atomicWrite = true → ∀ id st x p, (finalCC c d Server.empty ops).files x = some (.ok p) →
      (stepCC c d (finalCC c d Server.empty ops) (.crashInWrite id st)).1.files x = some (.ok p) ∧
      effC c d (stepCC c d (finalCC c d Server.empty ops) (.crashInWrite id st)).1 x = effC c d (finalCC c d Server.empty ops) x) ∧
    -- wave 3: start-up over ANY directory listing, either adapter mode: the constructor does not raise and
    -- reconstructs exactly the readable entries, each of them whatever stands before or after it
    (∀ (compress : Bool) (l : List (Option Persist)),
      startup compress (loadEntries c (listing l)) = some (l.filterMap id)) ∧
    -- wave 6: temporary files left by writes that died (nothing / a torn prefix / complete but not renamed, at any
    -- requests of any history) never influence an answer: the server with the temporary files answers as the server
    -- above, which has none — a load reads the committed state file only
    (∀ ocs : List (Op × Cut), runCT c d (Server.empty, noTmps) ocs = runCC c d Server.empty (ocs.map (·.1))) ∧
    -- wave 8: however the stepping requests end (answered / the client of a stream gone), the server answers as the one
    -- above, which writes the instance after every stepping request
    (∀ oes : List (Op × Ending), runCE c d Server.empty oes = runCC c d Server.empty (oes.map (·.1))) ∧
    -- wave 9: whatever sessions an instance has had one after the other, after EVERY stepping request the externalised logs
    -- are the live logs (so that `persist`, and with it the restore, is about the session that is live)
    (∀ (sessions : List SLog) (p : SLog × SLog), p ∈ sessionsRun c none sessions → p.2 = p.1)

theorem stepsRun_good (c : Cfg) (h : c.savedEqualsLive = true) : ∀ (r : SLog) (snap : Option SLog) (live : SLog) (p : SLog × SLog),
    p ∈ (stepsRun c snap live r).1 → p.2 = p.1
  | [], _, _, p, hp => by simp [stepsRun] at hp
  | e :: r, snap, live, p, hp => by
    simp only [stepsRun, List.mem_cons] at hp
    rcases hp with rfl | hp
    · simp [externalise, h]
    · exact stepsRun_good c h r _ _ p hp

theorem sessionsRun_good (c : Cfg) (h : c.savedEqualsLive = true) : ∀ (ss : List SLog) (snap : Option SLog) (p : SLog × SLog),
    p ∈ sessionsRun c snap ss → p.2 = p.1
  | [], _, p, hp => by simp [sessionsRun] at hp
  | s :: ss, snap, p, hp => by
    simp only [sessionsRun, List.mem_append] at hp
    rcases hp with hp | hp
    · exact stepsRun_good c h s snap [] p hp
    · exact sessionsRun_good c h ss _ p hp

theorem stepCE_good (c : Cfg) (h : c.saveOnEveryEnding = true) (d : Dyn σ ρ) (s : Server σ) (oe : Op × Ending) :
    stepCE c d s oe = stepCC c d s oe.1 := by
  obtain ⟨op, e⟩ := oe
  cases op <;> cases e <;> simp [stepCE, stepCC, h]

theorem runCE_good (c : Cfg) (h : c.saveOnEveryEnding = true) (d : Dyn σ ρ) : ∀ (oes : List (Op × Ending)) (s : Server σ),
    runCE c d s oes = runCC c d s (oes.map (·.1))
  | [], _ => rfl
  | oe :: oes, s => by
    simp only [runCE, runCC, List.map_cons, stepCE_good c h, runCE_good c h d oes]

theorem readT_good (c : Cfg) (h : c.loadReadsCommitted = true) (s : Server σ) (t : Tmps) (id : Nat) :
    readT c s t id = readable s.files id := by simp [readT, h]

theorem effT_good (c : Cfg) (h : c.loadReadsCommitted = true) (d : Dyn σ ρ) (s : Server σ) (t : Tmps) (id : Nat) :
    effT c d s t id = effC c d s id := by simp [effT, effC, readT_good c h]

theorem restartT_good (c : Cfg) (h : c.loadReadsCommitted = true) (d : Dyn σ ρ) (s : Server σ) (t : Tmps) :
    restartT c d s t = restartC c d s := by simp [restartT, restartC, readT_good c h]

/-- whatever temporary files lie around, one request changes the server and is answered as without them -/
theorem stepCT_good (c : Cfg) (h : c.loadReadsCommitted = true) (d : Dyn σ ρ) (st : Server σ × Tmps) (oc : Op × Cut) :
    (stepCT c d st oc).1.1 = (stepCC c d st.1 oc.1).1 ∧ (stepCT c d st oc).2 = (stepCC c d st.1 oc.1).2 := by
  obtain ⟨s, t⟩ := st
  obtain ⟨op, cut⟩ := oc
  cases op with
  | start id spec => simp only [stepCT, stepCC]; split <;> exact ⟨rfl, rfl⟩
  | step id stg =>
    simp only [stepCT, stepCC, effT_good c h]
    cases effC c d s id <;> exact ⟨rfl, rfl⟩
  | crash => simp [stepCT, stepCC, restartT_good c h]
  | damage id => simp [stepCT, stepCC, restartT_good c h]
  | crashInWrite id stg =>
    simp only [stepCT, stepCC, effT_good c h, restartT_good c h]
    cases effC c d s id with
    | none => exact ⟨rfl, rfl⟩
    | some i => simp only; split <;> exact ⟨rfl, rfl⟩

theorem runCT_good (c : Cfg) (h : c.loadReadsCommitted = true) (d : Dyn σ ρ) : ∀ (ocs : List (Op × Cut)) (st : Server σ × Tmps),
    runCT c d st ocs = runCC c d st.1 (ocs.map (·.1))
  | [], _ => rfl
  | oc :: ocs, st => by
    have hs := stepCT_good c h d st oc
    simp only [runCT, runCC, List.map_cons, hs.2, runCT_good c h d ocs, hs.1]

/-- per-entry load: unreadable entries dropped, every readable one decompressed -/
theorem startup_perEntry (compress : Bool) : ∀ l : List (Option Persist),
    startup compress ((listing l).filterMap perEntry) = some (l.filterMap id)
  | [] => rfl
  | none :: r => by
    have := startup_perEntry compress r
    simp only [listing, List.filterMap_cons, perEntry, id]
    exact this
  | some p :: r => by
    have := startup_perEntry compress r
    simp only [listing, List.filterMap_cons, perEntry, id, startup, this, Option.map_some]

theorem C20_full_of_good (c : Cfg) (h : c.good = true) (d : Dyn σ ρ) : C20_full_cfg c d := by
  have hl : c.loadIsPerEntry = true := by
    simp only [Cfg.good, Bool.and_eq_true] at h; exact h.1.1.1.1.2
  have hm : c.loadReadsCommitted = true := by
    simp only [Cfg.good, Bool.and_eq_true] at h; exact h.1.1.2
  have he : c.saveOnEveryEnding = true := by
    simp only [Cfg.good, Bool.and_eq_true] at h; exact h.1.2
  have hv : c.savedEqualsLive = true := by
    simp only [Cfg.good, Bool.and_eq_true] at h; exact h.2
  have h : c.restoreOK = true := by
    simp only [Cfg.good, Cfg.restoreOK, Bool.and_eq_true] at h ⊢; exact ⟨h.1.1.1.1.1, h.1.1.1.2⟩
  intro ops
  have hold := C20_full_holds d (ops.map (atomize c.atomicWrite))
  obtain ⟨_, hi, _⟩ := run_sim d (ops.map (atomize c.atomicWrite)) _ _ (inv_empty d) (rel_empty d)
  simp only [runCC_good c h, finalCC_good c h, stepCC_good c h, effC_good c h]
  refine ⟨hold.1, ?_, ?_, ?_, fun compress l => by simp only [loadEntries, hl, if_true]; exact startup_perEntry compress l, ?_⟩
  rotate_right
  · exact ⟨fun ocs => by rw [runCT_good c hm d ocs _, runCC_good c h],
           fun oes => by rw [runCE_good c he d oes _, runCC_good c h],
           fun sessions p hp => sessionsRun_good c hv sessions none p hp⟩
  · intro id st p hp
    simpa [atomize] using hold.2.1 id st p hp
  · intro id st x hx
    cases ha : c.atomicWrite with
    | false => simpa [atomize, ha] using hold.2.2 id st x hx
    | true =>
      simp only [atomize, if_true, stepC]
      exact ⟨rfl, fun p hp => eff_restart_of_readable d _ (by simpa [ha] using hi) x p (by simpa [ha] using hp)⟩
  · intro ha id st x p hp
    simp only [atomize, ha, if_true, stepC]
    exact ⟨by simpa [restart, ha] using hp,
      eff_restart_of_readable d _ (by simpa [ha] using hi) x p (by simpa [ha] using hp)⟩

theorem map_atomize_false : ∀ ops : List Op, ops.map (atomize false) = ops
  | [] => rfl
  | op :: ops => by cases op <;> simp [atomize, map_atomize_false ops]

/-- the statement of wave 1 is the instance `replayIsComplete, ¬ atomicWrite` -/
theorem C20_full_of_cfg (d : Dyn σ ρ) (hc : C20_full_cfg ⟨true, false, true, true, true, true, true, true⟩ d) : C20_full d := by
  intro ops
  have := hc ops
  simp only [runCC_good ⟨true, false, true, true, true, true, true, true⟩ rfl, finalCC_good ⟨true, false, true, true, true, true, true, true⟩ rfl, stepCC_good ⟨true, false, true, true, true, true, true, true⟩ rfl,
    effC_good ⟨true, false, true, true, true, true, true, true⟩ rfl] at this
  simp only [map_atomize_false, atomize] at this
  exact ⟨this.1, this.2.1, this.2.2.1⟩

/-! ### the incomplete replay -/

def lateSpec : Spec := { start := 1024, dt := 1024, stop := 10240, tag := 0 }
/-- steps WITHOUT settings before the crash, settings AFTER the restart -/
def lateOps : List Op := [.start 1 lateSpec, .step 1 [], .step 1 [], .crash, .step 1 [(0, "5")]]
/-- the same history without settings after the restart -/
def quietOps : List Op := [.start 1 lateSpec, .step 1 [], .step 1 [], .crash, .step 1 []]

/-- A restore that replays only up to the last step that carried settings violates C20: the two logged steps
are not replayed, the constant given after the restart is applied to them as well. -/
theorem C20_witness_partial_replay (c : Cfg) (h : c.replayIsComplete = false) : ¬ C20_full_cfg c lazyDyn := by
  intro hf
  have h4 := (hf lateOps).1 4
  obtain ⟨r, a, l, o, m, e, v, j⟩ := c
  simp only at h
  subst h
  cases a <;> cases l <;> cases o <;> cases m <;> cases e <;> cases v <;> cases j <;> exact absurd h4 (by decide)

/-- what the complete replay answers, and what the incomplete one answers -/
example : (runCC ⟨true, false, true, true, true, true, true, true⟩ lazyDyn Server.empty lateOps)[4]? = some (.ok [(1024, "1"), (2048, "1"), (3072, "5")]) := by decide
example : (runU lazyDyn UServer.empty lateOps)[4]? = some (.ok [(1024, "1"), (2048, "1"), (3072, "5")]) := by decide
example : (runCC ⟨false, false, true, true, true, true, true, true⟩ lazyDyn Server.empty lateOps)[4]? = some (.ok [(1024, "5"), (2048, "5"), (3072, "5")]) := by decide
/-- … and why such a defect passes every history WITHOUT settings after the restart: on-demand computation
gives the same values then -/
example : runCC ⟨false, false, true, true, true, true, true, true⟩ lazyDyn Server.empty quietOps = runU lazyDyn UServer.empty quietOps := by decide

/-! ### the order of the restored log (wave 4) -/

def lateDigitSpec : Spec := { start := 9, dt := 1, stop := 20, tag := 0 }
/-- a session whose step labels cross a decimal-digit boundary (9, 10): settings in the first step, crash after the second -/
def digitOps : List Op := [.start 1 lateDigitSpec, .step 1 [(0, "5")], .step 1 [], .crash, .step 1 []]

example : sortByText [(9, [(0, "5")]), (10, [])] = [(10, []), (9, [(0, "5")])] := by decide
example : sortByText [(-2, []), (-1, [])] = [(-1, []), (-2, [])] := by decide
example : sortByText [(1, []), (2, []), (3, [])] = [(1, []), (2, []), (3, [])] := by decide

/-- An adapter round trip that returns the log with its keys sorted as text breaks the continuation: the restored
session replays step 10 before step 9, so the constant set in step 9 is not in force at 9 and 10. -/
theorem C20_witness_sorted_keys (c : Cfg) (h : c.replayOrderPreserved = false) : ¬ C20_full_cfg c lazyDyn := by
  intro hf
  have h4 := (hf digitOps).1 4
  obtain ⟨r, a, l, o, m, e, v, j⟩ := c
  simp only at h
  subst h
  cases r <;> cases a <;> cases l <;> cases m <;> cases e <;> cases v <;> cases j <;> exact absurd h4 (by decide)

example : (runCC ⟨true, false, true, false, true, true, true, true⟩ lazyDyn Server.empty digitOps)[4]? = some (.ok [(9, "1"), (10, "1"), (11, "5")]) := by decide
example : (runU lazyDyn UServer.empty digitOps)[4]? = some (.ok [(9, "5"), (10, "5"), (11, "5")]) := by decide

/-! ### crash points between the file operations of a write (wave 10) -/

theorem fsRun_keeps_committed (new : Persist) : ∀ (ops : List FsOp) (dk : Disk), dk.1.isSome = true →
    ops.contains .removeCommitted = false → (fsRun new dk ops).1.isSome = true
  | [], _, h, _ => h
  | op :: ops, dk, h, hn => by
    simp only [List.contains_cons, Bool.or_eq_false_iff] at hn
    simp only [fsRun, List.foldl_cons]
    apply fsRun_keeps_committed new ops
    · cases op <;> simp_all [fsStep]
    · exact hn.2

/-- An atomic commit: whatever prefix of the write's operations has been executed when the process dies, an instance that
had a committed state file before the write began still has one (the old one, or the new one after the rename). -/
theorem commit_atomic_never_loses (ops : List FsOp) (h : commitAtomic ops = true) (old new : Persist) (tmp : Option Tmp) (k : Nat) :
    (fsRun new (some old, tmp) (ops.take k)).1.isSome = true := by
  apply fsRun_keeps_committed new _ _ rfl
  simp only [commitAtomic, Bool.and_eq_true, Bool.not_eq_true'] at h
  have := h.1
  cases hc : (ops.take k).contains FsOp.removeCommitted with
  | false => rfl
  | true =>
    have hm : FsOp.removeCommitted ∈ ops := List.mem_of_mem_take (List.contains_iff_mem.mp hc)
    rw [List.contains_iff_mem.mpr hm] at this
    cases this

/-- remove-then-rename: after the remove and before the rename only the complete temporary file is there -/
def removeThenRename : List FsOp := [.writeTmp, .fsyncTmp, .removeCommitted, .renameOnto]

theorem remove_then_rename_loses (old new : Persist) :
    fsRun new (some old, none) (removeThenRename.take 3) = (none, some (.complete new)) := rfl

example : commitAtomic removeThenRename = false := by decide
example : commitAtomic [.writeTmp, .fsyncTmp, .renameOnto] = true := by decide

/-! ### the incremental snapshot (wave 9) -/

/-- two sessions on one instance, both log step 1024 — with different settings -/
def twoSessions : List SLog := [[(1024, [(0, "c=5")]), (1536, [])], [(1024, [(0, "c=9")])]]

/-- Copying only the entries whose step key is not in the copy handed out last: the second session's step 1024 is never
externalised, the file keeps the first session's `c=5` (and its step 1536). -/
theorem C20_witness_stale_snapshot (c : Cfg) (h : c.savedEqualsLive = false) {d : Dyn σ ρ} : ¬ C20_full_cfg c d := by
  intro hf
  have h8 := (hf []).2.2.2.2.2.2.2 twoSessions ([(1024, [(0, "c=9")])], [(1024, [(0, "c=5")]), (1536, [])])
  obtain ⟨r, a, l, o, m, e, v, j⟩ := c
  simp only at h
  subst h
  cases r <;> cases a <;> cases l <;> cases o <;> cases m <;> cases e <;> cases j <;> exact absurd (h8 (by decide)) (by decide)

example : (sessionsRun ⟨true, true, true, true, true, true, false, true⟩ none twoSessions).map (·.2) =
    [[(1024, [(0, "c=5")])], [(1024, [(0, "c=5")]), (1536, [])], [(1024, [(0, "c=5")]), (1536, [])]] := by decide
example : (sessionsRun ⟨true, true, true, true, true, true, false, true⟩ none twoSessions).map (·.1) =
    [[(1024, [(0, "c=5")])], [(1024, [(0, "c=5")]), (1536, [])], [(1024, [(0, "c=9")])]] := by decide

/-! ### a stream whose client hung up (wave 8) -/

def goneOps : List (Op × Ending) :=
  [(.start 1 lateSpec, .answered), (.step 1 [(0, "c=5")], .answered), (.step 1 [], .clientGone), (.crash, .answered), (.step 1 [], .answered)]

/-- If the write is skipped when the client of a stream hangs up, the steps of that stream never reach the state file: after
a crash the restored session resumes at the step written before the stream. -/
theorem C20_witness_client_gone (c : Cfg) (h : c.saveOnEveryEnding = false) : ¬ C20_full_cfg c histDyn := by
  intro hf
  have h7 := (hf []).2.2.2.2.2.2.1 goneOps
  obtain ⟨r, a, l, o, m, e, v, j⟩ := c
  simp only at h
  subst h
  cases r <;> cases a <;> cases l <;> cases o <;> cases m <;> cases v <;> cases j <;> exact absurd h7 (by decide)

example : runCE ⟨true, true, true, true, true, false, true, true⟩ histDyn Server.empty goneOps
    = [.none, .ok [(1024, [(0, "c=5")])], .ok [(1024, [(0, "c=5")]), (2048, [])], .none, .ok [(1024, [(0, "c=5")]), (2048, [])]] := by decide
example : runCE ⟨true, true, true, true, true, true, true, true⟩ histDyn Server.empty goneOps
    = [.none, .ok [(1024, [(0, "c=5")])], .ok [(1024, [(0, "c=5")]), (2048, [])], .none, .ok [(1024, [(0, "c=5")]), (2048, []), (3072, [])]] := by decide

/-! ### the temporary file read first (wave 6) -/

def tmpOps (cut : Cut) : List (Op × Cut) :=
  [(.start 1 lateSpec, .nothing), (.step 1 [(0, "c=5")], .nothing), (.crashInWrite 1 [], cut), (.step 1 [], .nothing)]

/-- "Read the temporary file if there is a non-empty one": after a write that died in the middle the torn temporary
file is read instead of the intact state file, the load gives up, the instance is gone — although the atomic write
had kept its previous state. -/
theorem C20_witness_temp_first (c : Cfg) (h : c.loadReadsCommitted = false) (ha : c.atomicWrite = true) :
    ¬ C20_full_cfg c histDyn := by
  intro hf
  have h6 := (hf []).2.2.2.2.2.1 (tmpOps .prefix)
  obtain ⟨r, a, l, o, m, e, v, j⟩ := c
  simp only at h ha
  subst h; subst ha
  cases r <;> cases l <;> cases o <;> cases e <;> cases v <;> cases j <;> exact absurd h6 (by decide)

/-- the committed file is read (clean tree): every cut, the complete-but-not-renamed one included, loses the request
as a whole and nothing else; "temp first": a torn prefix loses the instance, a complete temporary file makes the
restored instance one step ahead of what was ever answered -/
example : ∀ cut, runCT ⟨true, true, true, true, true, true, true, true⟩ histDyn (Server.empty, noTmps) (tmpOps cut)
    = [.none, .ok [(1024, [(0, "c=5")])], .none, .ok [(1024, [(0, "c=5")]), (2048, [])]] := by
  intro cut; cases cut <;> decide
example : runCT ⟨true, true, true, true, false, true, true, true⟩ histDyn (Server.empty, noTmps) (tmpOps .prefix)
    = [.none, .ok [(1024, [(0, "c=5")])], .none, .invalid] := by decide
example : runCT ⟨true, true, true, true, false, true, true, true⟩ histDyn (Server.empty, noTmps) (tmpOps .all)
    = [.none, .ok [(1024, [(0, "c=5")])], .none, .ok [(1024, [(0, "c=5")]), (2048, []), (3072, [])]] := by decide
example : runCT ⟨true, true, true, true, false, true, true, true⟩ histDyn (Server.empty, noTmps) (tmpOps .nothing)
    = [.none, .ok [(1024, [(0, "c=5")])], .none, .ok [(1024, [(0, "c=5")]), (2048, [])]] := by decide

/-! ### the skipping load (wave 3) -/

def demoPersist : Persist := { spec := lateSpec, step := 2048, log := [(1024, [])] }

/-- `for x in state: if x is None: state.remove(x) …`: the entry after a removed one is never visited.  With a
damaged file listed before a readable one the readable one reaches the constructor with compressed logs: it raises. -/
theorem C20_witness_skipping_load (c : Cfg) (h : c.loadIsPerEntry = false) (d : Dyn σ ρ) : ¬ C20_full_cfg c d := by
  intro hf
  have h5 := (hf []).2.2.2.2.1 true [none, some demoPersist]
  simp only [loadEntries, h] at h5
  exact absurd h5 (by decide)

/-- the three shapes: damaged file first (compressed mode: raises), damaged file last (harmless — why the defect
hides), two adjacent damaged files (raises in either mode) -/
example : startup true (loopSkip 2 0 (listing [none, some demoPersist])) = none := by decide
example : startup true (loopSkip 2 0 (listing [some demoPersist, none])) = some [demoPersist] := by decide
example : startup false (loopSkip 3 0 (listing [none, none, some demoPersist])) = none := by decide
example : startup false (loopSkip 2 0 (listing [none, some demoPersist])) = some [demoPersist] := by decide

/-! ### state files that parse but hold no session state (wave 7) -/

/-- start-up never fails on a state file, whatever it holds: the sessions are reconstructed, everything else is skipped -/
def NoStartupFailureOnJunk (c : Cfg) : Prop :=
  ∀ (compress : Bool) (l : List Stored), startup compress (loadEntriesS c (listingS l)) = some (sessionsOf l)

theorem startup_skips_junk (compress : Bool) : ∀ l : List Stored,
    startup compress (((listingS l).filterMap perEntry).filter (· != .junk)) = some (sessionsOf l)
  | [] => rfl
  | .unreadable :: r => by
    have := startup_skips_junk compress r
    simp only [listingS, List.filterMap_cons, perEntry, sessionsOf]; exact this
  | .notASession :: r => by
    have := startup_skips_junk compress r
    simp only [listingS, List.filterMap_cons, perEntry, sessionsOf, List.filter_cons]
    simpa using this
  | .session p :: r => by
    have := startup_skips_junk compress r
    simp only [listingS, List.filterMap_cons, perEntry, sessionsOf, List.filter_cons]
    simp [startup, this]

theorem noStartupFailure_of_skip (c : Cfg) (hl : c.loadIsPerEntry = true) (hj : c.loadSkipsUnusable = true) :
    NoStartupFailureOnJunk c := by
  intro compress l
  simp only [loadEntriesS, hj, if_true, loadEntries, hl]
  exact startup_skips_junk compress l

/-- without that, ONE state file whose inner state is not a session keeps the server from starting (either mode) -/
theorem noStartupFailure_witness (c : Cfg) (hl : c.loadIsPerEntry = true) (hj : c.loadSkipsUnusable = false) :
    ¬ NoStartupFailureOnJunk c := by
  intro hf
  have := hf false [.notASession, .session demoPersist]
  simp only [loadEntriesS, hj, loadEntries, hl] at this
  exact absurd this (by decide)

/-! ### the atomic write -/

/-- no externalised instance is lost by a crash inside a state write -/
def NoLossInWrite (c : Cfg) (d : Dyn σ ρ) : Prop :=
  ∀ (ops : List Op) (id : Nat) (st : Settings) (x : Nat) (p : Persist),
    (finalCC c d Server.empty ops).files x = some (.ok p) →
    (stepCC c d (finalCC c d Server.empty ops) (.crashInWrite id st)).1.files x = some (.ok p)

theorem noLoss_of_atomic (c : Cfg) (h : c.good = true) (ha : c.atomicWrite = true) (d : Dyn σ ρ) : NoLossInWrite c d :=
  fun ops id st x p hp => ((C20_full_of_good c h d ops).2.2.2.1 ha id st x p hp).1

/-- without the atomic write the instance being written IS lost (the file is torn) -/
theorem noLoss_witness (c : Cfg) (ha : c.atomicWrite = false) : ¬ NoLossInWrite c histDyn := by
  intro hf
  have := hf [.start 1 lateSpec, .step 1 []] 1 [] 1 { spec := lateSpec, step := 2048, log := [(1024, [])] }
  obtain ⟨r, a, l, o, m, e, v, j⟩ := c
  simp only at ha
  subst ha
  cases r <;> cases l <;> cases o <;> cases m <;> cases e <;> cases v <;> cases j <;> exact absurd (this (by decide)) (by decide)

/-- the torn request is retried after the restart and answered as the uninterrupted session answers it -/
example : runCC ⟨true, true, true, true, true, true, true, true⟩ histDyn Server.empty [.start 1 lateSpec, .step 1 [(0, "c=5")], .crashInWrite 1 [], .step 1 []]
    = [.none, .ok [(1024, [(0, "c=5")])], .none, .ok [(1024, [(0, "c=5")]), (2048, [])]] := by decide
example : runCC ⟨true, false, true, true, true, true, true, true⟩ histDyn Server.empty [.start 1 lateSpec, .step 1 [(0, "c=5")], .crashInWrite 1 [], .step 1 []]
    = [.none, .ok [(1024, [(0, "c=5")])], .none, .invalid] := by decide

#print axioms C20_full_holds
#print axioms C20_full_of_good
#print axioms C20_full_of_cfg
#print axioms C20_witness_partial_replay
#print axioms noLoss_of_atomic
#print axioms noLoss_witness
#print axioms stepCC_good
#print axioms C20_witness_skipping_load
#print axioms C20_witness_sorted_keys
#print axioms C20_witness_temp_first
#print axioms C20_witness_client_gone
#print axioms C20_witness_stale_snapshot
#print axioms commit_atomic_never_loses
#print axioms remove_then_rename_loses
#print axioms sessionsRun_good
#print axioms runCE_good
#print axioms noStartupFailure_of_skip
#print axioms noStartupFailure_witness
#print axioms runCT_good
#print axioms startup_perEntry
#print axioms C20_continuation
#print axioms C20_externalised_continues
#print axioms C20_damage_contained
#print axioms C20_crash_keeps_externalised
#print axioms run_sim

end Bptk.C20
