import Bptk.Core.C20
/-!
C20 — after a server crash, externalised sessions continue as if nothing happened.
Quantifiers: every simulation (`Dyn`), every request history with crashes at arbitrary positions
(`List Op`: any number of crashes between requests and of crashes in the middle of a state write, any
number of instances), no bound.
-/
namespace Bptk.C20

variable {σ ρ : Type}

/-- the live simulation is what replaying the log on a fresh simulation gives -/
def SimOK (d : Dyn σ ρ) (i : Inst σ) : Prop := i.sim = replaySim d i.spec i.log

/-- invariant of the crashing server -/
structure Inv (d : Dyn σ ρ) (s : Server σ) : Prop where
  sim : ∀ id i, s.live id = some i → SimOK d i
  file : ∀ id i p, s.live id = some i → s.files id = some (.ok p) → p = persist i
  used : ∀ id, (s.live id).isSome ∨ (s.files id).isSome → s.used id = true

/-- simulation relation between the crashing run and the uninterrupted run: whatever instance a request
would work on after the crashes is the instance of the uninterrupted run (or is gone) -/
structure Rel (d : Dyn σ ρ) (s : Server σ) (u : UServer σ) : Prop where
  eff : ∀ id, eff d s id = none ∨ eff d s id = u.live id
  used : s.used = u.used

theorem restore_persist (d : Dyn σ ρ) (i : Inst σ) (h : SimOK d i) : restore d (persist i) = i := by
  cases i; simp only [SimOK] at h; simp [restore, persist, h]

theorem simOK_restore (d : Dyn σ ρ) (p : Persist) : SimOK d (restore d p) := rfl
theorem simOK_fresh (d : Dyn σ ρ) (spec : Spec) : SimOK d (fresh d spec) := rfl

theorem simOK_runStep (d : Dyn σ ρ) (i : Inst σ) (st : Settings) (h : SimOK d i) :
    SimOK d (runStep d i st).1 := by
  unfold runStep
  split
  · exact h
  · simp only [SimOK, replaySim] at h ⊢
    simp only [List.foldl_append, List.foldl_cons, List.foldl_nil, ← h]

theorem runStep_spec (d : Dyn σ ρ) (i : Inst σ) (st : Settings) : (runStep d i st).1.spec = i.spec := by
  unfold runStep; split <;> rfl

theorem inv_empty (d : Dyn σ ρ) : Inv d (Server.empty : Server σ) := by
  constructor <;> simp [Server.empty]

theorem rel_empty (d : Dyn σ ρ) : Rel d (Server.empty : Server σ) UServer.empty := by
  constructor
  · intro id; left; simp [eff, Server.empty, readable]
  · rfl

/-- every instance a request can work on has a simulation that equals the replay of its log -/
theorem simOK_eff (d : Dyn σ ρ) (s : Server σ) (hi : Inv d s) (id : Nat) (i : Inst σ)
    (h : eff d s id = some i) : SimOK d i := by
  unfold eff at h
  cases hl : s.live id with
  | some j =>
    rw [hl] at h
    have hji : j = i := by simpa using h
    subst hji
    exact hi.sim id j hl
  | none =>
    rw [hl] at h
    simp only [Option.map_eq_some_iff] at h
    obtain ⟨p, _, rfl⟩ := h
    exact simOK_restore d p

/-- a restart does not change the instance of any id whose file is readable -/
theorem eff_restart_of_readable (d : Dyn σ ρ) (s : Server σ) (hi : Inv d s) (id : Nat) (p : Persist)
    (hp : s.files id = some (.ok p)) : eff d (restart d s) id = eff d s id := by
  simp only [eff, restart, readable, hp, Option.map_some]
  cases hl : s.live id with
  | none => rfl
  | some i =>
    simp only
    have := hi.file id i p hl hp
    subst this
    rw [restore_persist d i (hi.sim id i hl)]

/-- after a restart the instances are exactly the readable files -/
theorem eff_restart (d : Dyn σ ρ) (s : Server σ) (id : Nat) :
    eff d (restart d s) id = (readable s.files id).map (restore d) := by
  simp only [eff, restart]
  cases h : (readable s.files id).map (restore d) <;> simp

theorem inv_restart (d : Dyn σ ρ) (s : Server σ) (hi : Inv d s) : Inv d (restart d s) := by
  constructor
  · intro id i h
    simp only [restart, Option.map_eq_some_iff] at h
    obtain ⟨p, _, rfl⟩ := h
    exact simOK_restore d p
  · intro id i p h hp
    simp only [restart, Option.map_eq_some_iff] at h hp
    obtain ⟨q, hq, rfl⟩ := h
    simp only [readable, hp] at hq
    cases hq; rfl
  · intro id h
    apply hi.used id
    right
    rcases h with h | h
    · simp only [restart, readable] at h
      cases hf : s.files id with
      | none => simp [hf] at h
      | some f => rfl
    · exact h

theorem rel_restart (d : Dyn σ ρ) (s : Server σ) (u : UServer σ) (hi : Inv d s) (hr : Rel d s u) :
    Rel d (restart d s) u := by
  constructor
  · intro id
    rw [eff_restart]
    cases hp : readable s.files id with
    | none => left; rfl
    | some p =>
      have hf : s.files id = some (.ok p) := by
        unfold readable at hp
        split at hp
        · rename_i q hq; cases hp; exact hq
        · cases hp
      have := eff_restart_of_readable d s hi id p hf
      rw [eff_restart, hp] at this
      rw [this]
      exact hr.eff id
  · exact hr.used

theorem eff_upd_live_same (d : Dyn σ ρ) (s : Server σ) (id : Nat) (i : Inst σ) (f : Nat → Option File) :
    eff d { s with live := upd s.live id (some i), files := f } id = some i := by
  simp [eff, upd]

theorem eff_upd_other (d : Dyn σ ρ) (s : Server σ) (id x : Nat) (v : Option (Inst σ)) (w : Option File)
    (h : x ≠ id) :
    eff d { s with live := upd s.live id v, files := upd s.files id w } x = eff d s x := by
  simp [eff, upd, h, readable]

/-- one request: invariant, relation and answers -/
theorem step_sim (d : Dyn σ ρ) (s : Server σ) (u : UServer σ) (hi : Inv d s) (hr : Rel d s u) (op : Op) :
    Inv d (stepC d s op).1 ∧ Rel d (stepC d s op).1 (stepU d u op).1 ∧
    ((stepC d s op).2 = (stepU d u op).2 ∨ (stepC d s op).2 = .invalid) := by
  cases op with
  | start id spec =>
    simp only [stepC, stepU, ← hr.used]
    cases hu : s.used id with
    | true => simp only [if_true]; exact ⟨hi, hr, (by simp)⟩
    | false =>
      simp only [Bool.false_eq_true, if_false]
      have hl : s.live id = none := by
        cases h : s.live id with
        | none => rfl
        | some i => have := hi.used id (Or.inl (by simp [h])); simp [hu] at this
      have hf : s.files id = none := by
        cases h : s.files id with
        | none => rfl
        | some i => have := hi.used id (Or.inr (by simp [h])); simp [hu] at this
      refine ⟨⟨?_, ?_, ?_⟩, ⟨?_, ?_⟩, (by simp)⟩
      · intro x i h
        simp only [upd] at h
        split at h
        · cases h; exact simOK_fresh d spec
        · exact hi.sim x i h
      · intro x i p h hp
        simp only [upd] at h
        split at h
        · rename_i hx; subst hx; simp [hf] at hp
        · exact hi.file x i p h hp
      · intro x h
        simp only [upd] at h
        by_cases hx : x = id
        · simp [hx]
        · simp only [hx, if_false] at h
          simp [hi.used x h]
      · intro x
        by_cases hx : x = id
        · subst hx; right; simp [eff, upd]
        · have : eff d { s with live := upd s.live id (some (fresh d spec)),
                                used := fun x => x = id || s.used x } x = eff d s x := by
            simp [eff, upd, hx]
          rw [this]
          simp only [upd, hx, if_false]
          exact hr.eff x
      · rfl
  | step id st =>
    simp only [stepC, stepU]
    cases he : eff d s id with
    | none => exact ⟨hi, by
        constructor
        · intro x
          rcases hr.eff x with h | h
          · left; exact h
          · cases hu : u.live id with
            | none => right; simpa [hu] using h
            | some j =>
              simp only [hu]
              by_cases hx : x = id
              · subst hx; left; exact he
              · right; simp [upd, hx, h]
        · cases hu : u.live id <;> exact hr.used, Or.inr rfl⟩
    | some i =>
      have hui : u.live id = some i := by
        rcases hr.eff id with h | h
        · rw [he] at h; cases h
        · rw [← h, he]
      have hsim := simOK_eff d s hi id i he
      simp only [hui]
      refine ⟨⟨?_, ?_, ?_⟩, ⟨?_, hr.used⟩, (by simp)⟩
      · intro x j h
        simp only [upd] at h
        split at h
        · cases h; exact simOK_runStep d i st hsim
        · exact hi.sim x j h
      · intro x j p h hp
        simp only [upd] at h hp
        split at h
        · rename_i hx; simp only [hx, if_true] at hp; cases h; cases hp; rfl
        · rename_i hx; simp only [hx, if_false] at hp; exact hi.file x j p h hp
      · intro x h
        by_cases hx : x = id
        · subst hx
          apply hi.used
          unfold eff at he
          split at he
          · rename_i j hj; left; simp [hj]
          · right
            simp only [Option.map_eq_some_iff, readable] at he
            obtain ⟨p, hp, _⟩ := he
            split at hp
            · rename_i q hq; simp [hq]
            · cases hp
        · simp only [upd, hx, if_false] at h
          exact hi.used x h
      · intro x
        by_cases hx : x = id
        · subst hx; right; simp [eff, upd]
        · rw [eff_upd_other d s id x _ _ hx]
          simp only [upd, hx, if_false]
          exact hr.eff x
  | crash =>
    simp only [stepC, stepU]
    exact ⟨inv_restart d s hi, rel_restart d s u hi hr, (by simp)⟩
  | crashInWrite id st =>
    simp only [stepC, stepU]
    cases he : eff d s id with
    | none =>
      simp only
      refine ⟨inv_restart d s hi, ?_, (by cases u.live id <;> simp)⟩
      have h1 := rel_restart d s u hi hr
      constructor
      · intro x
        rcases h1.eff x with h | h
        · left; exact h
        · cases hu : u.live id with
          | none => right; simpa [hu] using h
          | some j =>
            simp only [hu]
            by_cases hx : x = id
            · subst hx
              left
              rw [eff_restart]
              unfold eff at he
              split at he
              · cases he
              · exact he
            · right; simp [upd, hx, h]
      · cases hu : u.live id <;> exact hr.used
    | some i =>
      simp only
      -- the torn file: the instance is lost, every other instance is as before
      let s' : Server σ := { s with files := upd s.files id (some .torn) }
      have hi' : Inv d s' := by
        constructor
        · exact hi.sim
        · intro x j p h hp
          simp only [s', upd] at hp
          split at hp
          · cases hp
          · exact hi.file x j p h hp
        · intro x h
          simp only [s', upd] at h
          by_cases hx : x = id
          · subst hx
            apply hi.used
            unfold eff at he
            split at he
            · rename_i j hj; left; simp [hj]
            · right
              simp only [Option.map_eq_some_iff, readable] at he
              obtain ⟨p, hp, _⟩ := he
              split at hp
              · rename_i q hq; simp [hq]
              · cases hp
          · simp only [hx, if_false] at h; exact hi.used x h
      refine ⟨inv_restart d s' hi', ?_, (by cases u.live id <;> simp)⟩
      constructor
      · intro x
        rw [eff_restart]
        by_cases hx : x = id
        · subst hx; left; simp [s', readable, upd]
        · have hrd : readable s'.files x = readable s.files x := by simp [s', readable, upd, hx]
          rw [hrd]
          have h2 := (rel_restart d s u hi hr).eff x
          rw [eff_restart] at h2
          rcases h2 with h | h
          · left; exact h
          · right
            rw [h]
            cases hu : u.live id <;> simp [upd, hx]
      · cases hu : u.live id <;> exact hr.used

/-- the relation and the invariant hold along every history; answers agree request by request -/
theorem run_sim (d : Dyn σ ρ) (ops : List Op) : ∀ (s : Server σ) (u : UServer σ), Inv d s → Rel d s u →
    (∀ n : Nat, (runC d s ops)[n]? = (runU d u ops)[n]? ∨ (runC d s ops)[n]? = some Resp.invalid) ∧
    Inv d (finalC d s ops) ∧ Rel d (finalC d s ops) (finalU d u ops) := by
  induction ops with
  | nil => intro s u hi hr; exact ⟨fun n => Or.inl rfl, hi, hr⟩
  | cons op ops ih =>
    intro s u hi hr
    obtain ⟨hi', hr', hresp⟩ := step_sim d s u hi hr op
    obtain ⟨h1, h2, h3⟩ := ih _ _ hi' hr'
    refine ⟨?_, h2, h3⟩
    intro n
    cases n with
    | zero =>
      simp only [runC, runU, List.getElem?_cons_zero]
      rcases hresp with h | h
      · left; rw [h]
      · right; rw [h]
    | succ n => simpa [runC, runU] using h1 n

/-- continuation: at ANY crash points of ANY history, every request is answered exactly as in the
uninterrupted run, unless the instance is gone ("invalid instance"). -/
theorem C20_continuation (d : Dyn σ ρ) (ops : List Op) (n : Nat) :
    (runC d Server.empty ops)[n]? = (runU d UServer.empty ops)[n]? ∨
    (runC d Server.empty ops)[n]? = some Resp.invalid :=
  (run_sim d ops _ _ (inv_empty d) (rel_empty d)).1 n

/-- … and an instance is gone only if it has no readable state file: after any history, an instance with
a readable file answers the next step exactly as the uninterrupted session does (same values, hence
the effect of all earlier settings and every requested equation), never "invalid". -/
theorem C20_externalised_continues (d : Dyn σ ρ) (ops : List Op) (id : Nat) (st : Settings) (p : Persist)
    (hp : (finalC d Server.empty ops).files id = some (.ok p)) :
    (stepC d (finalC d Server.empty ops) (.step id st)).2 = (stepU d (finalU d UServer.empty ops) (.step id st)).2 ∧
    (stepC d (finalC d Server.empty ops) (.step id st)).2 ≠ Resp.invalid := by
  obtain ⟨_, hi, hr⟩ := run_sim d ops _ _ (inv_empty d) (rel_empty d)
  have hsome : ∃ i, eff d (finalC d Server.empty ops) id = some i := by
    unfold eff
    cases (finalC d Server.empty ops).live id with
    | some i => exact ⟨i, rfl⟩
    | none => exact ⟨restore d p, by simp [readable, hp]⟩
  obtain ⟨i, he⟩ := hsome
  have hu : (finalU d UServer.empty ops).live id = some i := by
    rcases hr.eff id with h | h
    · rw [he] at h; cases h
    · rw [← h, he]
  constructor
  · simp only [stepC, stepU, he, hu]
  · simp only [stepC, he]
    unfold runStep
    split <;> simp

/-- damage containment: a torn state file costs that one instance only — the restart succeeds (the
model's `restart` is total), every other file is untouched and every other externalised instance is
restored unchanged. -/
theorem C20_damage_contained (d : Dyn σ ρ) (s : Server σ) (hi : Inv d s) (id : Nat) (st : Settings)
    (x : Nat) (hx : x ≠ id) :
    (stepC d s (.crashInWrite id st)).1.files x = s.files x ∧
    ∀ p, s.files x = some (.ok p) → eff d (stepC d s (.crashInWrite id st)).1 x = eff d s x := by
  simp only [stepC]
  cases he : eff d s id with
  | none =>
    simp only
    exact ⟨rfl, fun p hp => eff_restart_of_readable d s hi x p hp⟩
  | some i =>
    simp only
    constructor
    · simp [restart, upd, hx]
    · intro p hp
      rw [eff_restart]
      have : readable (upd s.files id (some File.torn)) x = readable s.files x := by
        simp [readable, upd, hx]
      simp only [this]
      rw [← eff_restart]
      exact eff_restart_of_readable d s hi x p hp

/-- a crash between two requests loses nothing that had been externalised -/
theorem C20_crash_keeps_externalised (d : Dyn σ ρ) (ops : List Op) (id : Nat) (p : Persist)
    (hp : (finalC d Server.empty ops).files id = some (.ok p)) :
    eff d (stepC d (finalC d Server.empty ops) .crash).1 id = eff d (finalC d Server.empty ops) id := by
  obtain ⟨_, hi, _⟩ := run_sim d ops _ _ (inv_empty d) (rel_empty d)
  exact eff_restart_of_readable d _ hi id p hp

/-- C20 at full strength, for a simulation `d`. -/
def C20_full (d : Dyn σ ρ) : Prop :=
  ∀ ops : List Op,
    (∀ n : Nat, (runC d Server.empty ops)[n]? = (runU d UServer.empty ops)[n]? ∨
          (runC d Server.empty ops)[n]? = some Resp.invalid) ∧
    (∀ id st p, (finalC d Server.empty ops).files id = some (.ok p) →
      (stepC d (finalC d Server.empty ops) (.step id st)).2 = (stepU d (finalU d UServer.empty ops) (.step id st)).2 ∧
      (stepC d (finalC d Server.empty ops) (.step id st)).2 ≠ Resp.invalid) ∧
    (∀ id st x, x ≠ id →
      (stepC d (finalC d Server.empty ops) (.crashInWrite id st)).1.files x = (finalC d Server.empty ops).files x ∧
      ∀ p, (finalC d Server.empty ops).files x = some (.ok p) →
        eff d (stepC d (finalC d Server.empty ops) (.crashInWrite id st)).1 x = eff d (finalC d Server.empty ops) x)

theorem C20_full_holds (d : Dyn σ ρ) : C20_full d := by
  intro ops
  refine ⟨C20_continuation d ops, fun id st p hp => C20_externalised_continues d ops id st p hp, ?_⟩
  intro id st x hx
  obtain ⟨_, hi, _⟩ := run_sim d ops _ _ (inv_empty d) (rel_empty d)
  exact C20_damage_contained d _ hi id st x hx

/-! ### non-vacuity (on the symbolic simulation: a step result is the history applied so far) -/

def demoSpec : Spec := { start := 1024, dt := 1024, stop := 10240, tag := 0 }
def demoOps : List Op :=
  [.start 1 demoSpec, .start 2 demoSpec, .step 1 [(0, "c=5")], .step 2 [], .step 1 [], .crash,
   .step 1 [], .crashInWrite 2 [(0, "c=7")], .step 2 [], .step 1 [(0, "c=9")]]

/-- instance 1 continues with the effect of `c=5` after the crash and after the torn write of instance 2;
instance 2 is gone after its torn write (and only then). -/
example : runC histDyn Server.empty demoOps =
    [.none, .none, .ok [(1024, [(0, "c=5")])], .ok [(1024, [])], .ok [(1024, [(0, "c=5")]), (2048, [])], .none,
     .ok [(1024, [(0, "c=5")]), (2048, []), (3072, [])], .none, .invalid,
     .ok [(1024, [(0, "c=5")]), (2048, []), (3072, []), (4096, [(0, "c=9")])]] := by decide

example : runU histDyn UServer.empty demoOps =
    [.none, .none, .ok [(1024, [(0, "c=5")])], .ok [(1024, [])], .ok [(1024, [(0, "c=5")]), (2048, [])], .none,
     .ok [(1024, [(0, "c=5")]), (2048, []), (3072, [])], .none, .ok [(1024, []), (2048, [(0, "c=7")]), (3072, [])],
     .ok [(1024, [(0, "c=5")]), (2048, []), (3072, []), (4096, [(0, "c=9")])]] := by decide

#print axioms C20_full_holds
#print axioms C20_continuation
#print axioms C20_externalised_continues
#print axioms C20_damage_contained
#print axioms C20_crash_keeps_externalised
#print axioms run_sim

end Bptk.C20
