import Bptk.Core.C19
/-!
C19 — externalised instance state is restored losslessly.
Quantifiers: every run spec (start, dt, stop, requested paths), every list of steps (with settings, with
empty settings, without settings; any simulation values), both adapter modes, per-instance and
whole-server save/load, every lawful codec.  No bound anywhere.

Dictionary equality is Python's: two dictionaries are equal when they have the same keys with the same
values, whatever the insertion order — `RowEq` (same lookup function).  A log is restored losslessly
when it has the same step keys in the same order and an equal dictionary at every step (`LogEq`).
-/
namespace Bptk.C19

def RowEq (a b : Row) : Prop := ∀ p, lookup p a = lookup p b

def rowAt (l : Log) (i : Nat) (p : Path) : Option Val := (l[i]?).bind fun e => lookup p e.2

structure LogEq (a b : Log) : Prop where
  keys : a.map (·.1) = b.map (·.1)
  rows : ∀ i p, rowAt a i p = rowAt b i p

structure SessionEq (a b : Session) : Prop where
  spec : a.spec = b.spec
  step : a.step = b.step
  settings : LogEq a.settingsLog b.settingsLog
  results : LogEq a.resultsLog b.resultsLog

theorem LogEq.refl (a : Log) : LogEq a a := ⟨rfl, fun _ _ => rfl⟩
theorem SessionEq.refl (a : Session) : SessionEq a a := ⟨rfl, rfl, LogEq.refl _, LogEq.refl _⟩

/-! ### lookups -/

theorem lookup_some_mem {p : Path} {v : Val} : ∀ {r : Row}, lookup p r = some v → p ∈ r.map (·.1) := by
  intro r
  induction r with
  | nil => intro h; simp [lookup] at h
  | cons e r ih =>
    obtain ⟨q, w⟩ := e
    intro h
    simp only [lookup] at h
    split at h
    · subst_vars; simp
    · simp [ih h]

theorem lookup_isSome_of_mem {p : Path} : ∀ {r : Row}, p ∈ r.map (·.1) → (lookup p r).isSome := by
  intro r
  induction r with
  | nil => intro h; simp at h
  | cons e r ih =>
    obtain ⟨q, w⟩ := e
    intro h
    simp only [lookup]
    split
    · rfl
    · rename_i hne
      simp only [List.map_cons, List.mem_cons] at h
      rcases h with h | h
      · exact absurd h.symm hne
      · exact ih h

theorem mem_foldl_insertNew (p : Path) : ∀ (l acc : List Path),
    p ∈ l.foldl insertNew acc ↔ p ∈ acc ∨ p ∈ l := by
  intro l
  induction l with
  | nil => intro acc; simp
  | cons q l ih =>
    intro acc
    simp only [List.foldl_cons, ih, insertNew]
    split
    · rename_i hq
      constructor
      · rintro (h | h)
        · exact Or.inl h
        · exact Or.inr (by simp [h])
      · rintro (h | h)
        · exact Or.inl h
        · rcases List.mem_cons.mp h with rfl | h
          · exact Or.inl hq
          · exact Or.inr h
    · simp only [List.mem_append, List.mem_cons, List.not_mem_nil, or_false]
      constructor
      · rintro ((h | h) | h)
        · exact Or.inl h
        · exact Or.inr (Or.inl h)
        · exact Or.inr (Or.inr h)
      · rintro (h | h | h)
        · exact Or.inl (Or.inl h)
        · exact Or.inl (Or.inr h)
        · exact Or.inr h

theorem mem_allPaths (p : Path) (log : Log) :
    p ∈ allPaths log ↔ ∃ e ∈ log, p ∈ e.2.map (·.1) := by
  simp [allPaths, mem_foldl_insertNew, List.mem_flatMap]

theorem rowAt_none_of_not_mem_allPaths {p : Path} {log : Log} (h : p ∉ allPaths log) (i : Nat) :
    rowAt log i p = none := by
  unfold rowAt
  cases hi : log[i]? with
  | none => rfl
  | some e =>
    simp only [Option.bind_some]
    cases hl : lookup p e.2 with
    | none => rfl
    | some v =>
      exfalso; apply h
      exact (mem_allPaths p log).mpr ⟨e, List.mem_of_getElem? hi, lookup_some_mem hl⟩

/-! ### sparse (settings) columns -/

theorem lookupIdx_sparseCol_lt (p : Path) : ∀ (log : Log) (j i : Nat), i < j →
    lookupIdx i (sparseCol p j log) = none := by
  intro log
  induction log with
  | nil => intro j i _; simp [sparseCol, lookupIdx]
  | cons e rest ih =>
    obtain ⟨k, row⟩ := e
    intro j i hij
    simp only [sparseCol]
    split
    · simp only [lookupIdx]
      split
      · omega
      · exact ih (j + 1) i (by omega)
    · exact ih (j + 1) i (by omega)

theorem lookupIdx_sparseCol (p : Path) : ∀ (log : Log) (j n : Nat),
    lookupIdx (j + n) (sparseCol p j log) = rowAt log n p := by
  intro log
  induction log with
  | nil => intro j n; simp [sparseCol, lookupIdx, rowAt]
  | cons e rest ih =>
    obtain ⟨k, row⟩ := e
    intro j n
    cases n with
    | zero =>
      simp only [sparseCol, rowAt, Nat.add_zero, List.getElem?_cons_zero, Option.bind_some]
      split
      · rename_i v hv; simp [lookupIdx, hv]
      · rename_i hv; rw [hv]; exact lookupIdx_sparseCol_lt p rest (j + 1) j (by omega)
    | succ n =>
      have hr : rowAt ((k, row) :: rest) (n + 1) p = rowAt rest n p := by simp [rowAt]
      rw [hr, ← ih (j + 1) n]
      have hj : j + (n + 1) = j + 1 + n := by omega
      simp only [sparseCol]
      split
      · simp only [lookupIdx]
        split
        · omega
        · rw [hj]
      · rw [hj]

/-! ### dense (results) columns -/

/-- every step reports exactly the paths `P` -/
def Uniform (P : List Path) (log : Log) : Prop := ∀ e ∈ log, e.2.map (·.1) = P

theorem denseCol_get (p : Path) : ∀ (log : Log), (∀ e ∈ log, (lookup p e.2).isSome) → ∀ n,
    (denseCol p log)[n]? = rowAt log n p := by
  intro log
  induction log with
  | nil => intro _ n; simp [denseCol, rowAt]
  | cons e rest ih =>
    obtain ⟨k, row⟩ := e
    intro h n
    have h0 := h (k, row) (by simp)
    have hrest : ∀ e ∈ rest, (lookup p e.2).isSome := fun e he => h e (by simp [he])
    simp only [denseCol]
    cases hv : lookup p row with
    | none => simp [hv] at h0
    | some v =>
      cases n with
      | zero => simp [rowAt, hv]
      | succ n =>
        have hr : rowAt ((k, row) :: rest) (n + 1) p = rowAt rest n p := by simp [rowAt]
        simp only [List.getElem?_cons_succ, hr]
        exact ih hrest n

/-! ### rebuilding the rows -/

theorem lookup_filterMap_entry {γ : Type} (g : γ → Nat → Option Val) (col : Path → γ) (i : Nat) (p : Path) :
    ∀ (paths : List Path),
    lookup p ((paths.map fun q => (q, col q)).filterMap fun pc => (g pc.2 i).map fun v => (pc.1, v))
      = if p ∈ paths then g (col p) i else none := by
  intro paths
  induction paths with
  | nil => simp [lookup]
  | cons q paths ih =>
    simp only [List.map_cons, List.filterMap_cons]
    by_cases hqp : q = p
    · subst hqp
      cases hg : g (col q) i with
      | none =>
        simp only [Option.map_none, List.mem_cons, true_or, if_true]
        rw [ih]; split <;> simp_all
      | some v => simp [lookup]
    · have hpq : ¬ p = q := fun h => hqp h.symm
      cases hg : g (col q) i with
      | none => simp only [Option.map_none, List.mem_cons, hpq, false_or]; exact ih
      | some v => simp only [Option.map_some, lookup, hqp, if_false, List.mem_cons, hpq, false_or]; exact ih

theorem rebuild_get (rowOf : Nat → Row) : ∀ (ks : List Time) (j n : Nat),
    (rebuild rowOf j ks)[n]? = (ks[n]?).map fun k => (k, rowOf (j + n)) := by
  intro ks
  induction ks with
  | nil => intro j n; simp [rebuild]
  | cons k ks ih =>
    intro j n
    cases n with
    | zero => simp [rebuild]
    | succ n =>
      simp only [rebuild, List.getElem?_cons_succ, ih]
      have : j + 1 + n = j + (n + 1) := by omega
      rw [this]

theorem rebuild_keys (rowOf : Nat → Row) : ∀ (ks : List Time) (j : Nat),
    (rebuild rowOf j ks).map (·.1) = ks := by
  intro ks
  induction ks with
  | nil => intro j; rfl
  | cons k ks ih => intro j; simp [rebuild, ih]

theorem rowAt_rebuild (rowOf : Nat → Row) (ks : List Time) (n : Nat) (p : Path) :
    rowAt (rebuild rowOf 0 ks) n p = (ks[n]?).bind fun _ => lookup p (rowOf n) := by
  unfold rowAt
  rw [rebuild_get]
  cases ks[n]? <;> simp

/-! ### the two round trips of the compressed format -/

/-- `decompress_settings (compress_settings log) = log`, for EVERY log (no side condition). -/
theorem settings_roundtrip (log : Log) : LogEq (decompressSettings (compressSettings log)) log := by
  constructor
  · simp [decompressSettings, compressSettings, rebuild_keys]
  · intro i p
    simp only [decompressSettings, compressSettings, rowAt_rebuild]
    have := lookup_filterMap_entry (fun (c : List (Nat × Val)) i => lookupIdx i c)
      (fun q => sparseCol q 0 log) i p (allPaths log)
    have h1 : rowOfSparse ((allPaths log).map fun q => (q, sparseCol q 0 log)) i
        = ((allPaths log).map fun q => (q, sparseCol q 0 log)).filterMap
            (fun pc => (lookupIdx i pc.2).map fun v => (pc.1, v)) := rfl
    rw [h1, this]
    cases hk : (log.map (·.1))[i]? with
    | none =>
      simp only [Option.bind_none]
      have : log[i]? = none := by
        simp only [List.getElem?_map, Option.map_eq_none_iff] at hk; exact hk
      simp [rowAt, this]
    | some k =>
      simp only [Option.bind_some]
      split
      · have := lookupIdx_sparseCol p log 0 i
        simp only [Nat.zero_add] at this
        exact this
      · rename_i hp
        exact (rowAt_none_of_not_mem_allPaths hp i).symm

/-- `decompress_results (compress_results log) = log` for logs in which every step reports the same
paths — which every reachable results log does (`uniform_run`). -/
theorem results_roundtrip (P : List Path) (log : Log) (hu : Uniform P log) :
    LogEq (decompressResults (compressResults log)) log := by
  constructor
  · simp [decompressResults, compressResults, rebuild_keys]
  · intro i p
    simp only [decompressResults, compressResults, rowAt_rebuild]
    have := lookup_filterMap_entry (fun (c : List Val) i => c[i]?)
      (fun q => denseCol q log) i p (allPaths log)
    have h1 : rowOfDense ((allPaths log).map fun q => (q, denseCol q log)) i
        = ((allPaths log).map fun q => (q, denseCol q log)).filterMap
            (fun pc => (pc.2[i]?).map fun v => (pc.1, v)) := rfl
    rw [h1, this]
    cases hk : (log.map (·.1))[i]? with
    | none =>
      simp only [Option.bind_none]
      have : log[i]? = none := by
        simp only [List.getElem?_map, Option.map_eq_none_iff] at hk; exact hk
      simp [rowAt, this]
    | some k =>
      simp only [Option.bind_some]
      split
      · rename_i hp
        obtain ⟨e0, he0, hpe0⟩ := (mem_allPaths p log).mp hp
        have hpP : p ∈ P := by rw [← hu e0 he0]; exact hpe0
        exact denseCol_get p log (fun e he => lookup_isSome_of_mem (by rw [hu e he]; exact hpP)) i
      · rename_i hp
        exact (rowAt_none_of_not_mem_allPaths hp i).symm

/-! ### reachable sessions -/

theorem runStep_spec (s : Session) (op : StepOp) : (runStep s op).spec = s.spec := by
  unfold runStep; split <;> rfl

theorem uniform_runStep (s : Session) (op : StepOp) (h : Uniform s.spec.paths s.resultsLog) :
    Uniform (runStep s op).spec.paths (runStep s op).resultsLog := by
  rw [runStep_spec]
  unfold runStep
  split
  · exact h
  · intro e he
    simp only [List.mem_append, List.mem_singleton] at he
    rcases he with he | rfl
    · exact h e he
    · simp [Function.comp_def]

theorem uniform_foldl (ops : List StepOp) : ∀ s : Session, Uniform s.spec.paths s.resultsLog →
    Uniform (ops.foldl runStep s).spec.paths (ops.foldl runStep s).resultsLog := by
  induction ops with
  | nil => intro s h; exact h
  | cons op ops ih => intro s h; exact ih _ (uniform_runStep s op h)

/-- invariant of every reachable session: each logged step reports exactly the requested paths -/
theorem uniform_run (spec : RunSpec) (ops : List StepOp) :
    Uniform (run spec ops).spec.paths (run spec ops).resultsLog :=
  uniform_foldl ops (begin spec) (by intro e he; simp [begin] at he)

/-- the two logs always have the same step keys (one entry per step taken) -/
theorem keys_runStep (s : Session) (op : StepOp)
    (h : s.settingsLog.map (·.1) = s.resultsLog.map (·.1)) :
    (runStep s op).settingsLog.map (·.1) = (runStep s op).resultsLog.map (·.1) := by
  unfold runStep; split
  · exact h
  · simp [h]

theorem keys_run (spec : RunSpec) (ops : List StepOp) :
    (run spec ops).settingsLog.map (·.1) = (run spec ops).resultsLog.map (·.1) := by
  unfold run
  suffices ∀ s : Session, s.settingsLog.map (·.1) = s.resultsLog.map (·.1) →
      (ops.foldl runStep s).settingsLog.map (·.1) = (ops.foldl runStep s).resultsLog.map (·.1) from
    this _ rfl
  induction ops with
  | nil => intro s h; exact h
  | cons op ops ih => intro s h; exact ih _ (keys_runStep s op h)

/-! ### session results are a function of the log up to `LogEq` -/

theorem series_eq_of_logEq (p : Path) : ∀ (a b : Log), LogEq a b → series p a = series p b := by
  intro a
  induction a with
  | nil =>
    intro b h
    have : b = [] := by simpa using h.keys.symm
    subst this; rfl
  | cons e a ih =>
    intro b h
    cases b with
    | nil => exact absurd h.keys (by simp)
    | cons f b =>
      obtain ⟨k, row⟩ := e
      obtain ⟨k', row'⟩ := f
      have hk := h.keys
      simp only [List.map_cons, List.cons.injEq] at hk
      have h0 := h.rows 0 p
      simp only [rowAt, List.getElem?_cons_zero, Option.bind_some] at h0
      have hrest : LogEq a b := ⟨hk.2, fun i q => by
        have := h.rows (i + 1) q
        simpa [rowAt] using this⟩
      simp only [series, h0, hk.1, ih b hrest]

theorem sessionResults_eq (a b : Session) (h : SessionEq a b) : sessionResults a = sessionResults b := by
  simp only [sessionResults, h.spec]
  apply List.map_congr_left
  intro p _
  rw [series_eq_of_logEq p _ _ h.results]

/-! ### adapter round trips -/

def Codec.Lawful {σ : Type} (cd : Codec σ) : Prop := ∀ e, cd.dec (cd.enc e) = some e

/-- a session whose results log is uniform (all reachable sessions are) -/
def WellFormed (s : Session) : Prop := Uniform s.spec.paths s.resultsLog

theorem unstore_store (compress : Bool) (s : Session) (hw : WellFormed s) :
    SessionEq (unstore (store compress s)) s := by
  cases compress with
  | false => simp [store, unstore]; exact SessionEq.refl s
  | true =>
    simp only [store, unstore, if_true]
    exact ⟨rfl, rfl, settings_roundtrip _, results_roundtrip _ _ hw⟩

/-- plain mode: the round trip is the identity, for every session whatsoever -/
theorem C19_roundtrip_plain {σ : Type} (cd : Codec σ) (hc : cd.Lawful) (fs : Files σ) (st : InstanceState) :
    loadInstance cd (saveInstance cd false fs st) st.id = some st := by
  simp [loadInstance, saveInstance, hc _, store, unstore]

structure StateEq (a b : InstanceState) : Prop where
  id : a.id = b.id
  timeout : a.timeout = b.timeout
  step : a.step = b.step
  state : SessionEq a.state b.state

/-- per-instance save/load, either mode -/
theorem C19_roundtrip_instance {σ : Type} (cd : Codec σ) (hc : cd.Lawful) (compress : Bool) (fs : Files σ)
    (st : InstanceState) (hw : WellFormed st.state) :
    ∃ st', loadInstance cd (saveInstance cd compress fs st) st.id = some st' ∧ StateEq st' st := by
  refine ⟨{ id := st.id, timeout := st.timeout, step := st.step,
            state := unstore (store compress st.state) }, ?_, ⟨rfl, rfl, rfl, unstore_store compress _ hw⟩⟩
  simp [loadInstance, saveInstance, hc _]

theorem saveInstance_other {σ : Type} (cd : Codec σ) (compress : Bool) (fs : Files σ) (st : InstanceState) (i : Nat)
    (h : i ≠ st.id) : loadInstance cd (saveInstance cd compress fs st) i = loadInstance cd fs i := by
  simp [loadInstance, saveInstance, h]

theorem saveState_other {σ : Type} (cd : Codec σ) (compress : Bool) (i : Nat) : ∀ (sts : List InstanceState) (fs : Files σ),
    (∀ st ∈ sts, st.id ≠ i) →
    loadInstance cd (saveState cd compress fs sts) i = loadInstance cd fs i := by
  intro sts
  induction sts with
  | nil => intro fs _; rfl
  | cons st sts ih =>
    intro fs h
    simp only [saveState, List.foldl_cons]
    have := ih (saveInstance cd compress fs st) (fun s hs => h s (by simp [hs]))
    simp only [saveState] at this
    rw [this]
    exact saveInstance_other cd compress fs st i (fun hi => h st (by simp) hi.symm)

/-- whole-server save/load: every instance (distinct ids) comes back, either mode -/
theorem C19_roundtrip_server {σ : Type} (cd : Codec σ) (hc : cd.Lawful) (compress : Bool) :
    ∀ (sts : List InstanceState) (fs : Files σ),
    (sts.map (·.id)).Nodup → (∀ st ∈ sts, WellFormed st.state) →
    ∀ st ∈ sts, ∃ st', loadInstance cd (saveState cd compress fs sts) st.id = some st' ∧ StateEq st' st := by
  intro sts
  induction sts with
  | nil => intro _ _ _ st h; simp at h
  | cons s0 sts ih =>
    intro fs hn hw st hst
    simp only [List.map_cons, List.nodup_cons] at hn
    simp only [saveState, List.foldl_cons]
    rcases List.mem_cons.mp hst with rfl | hst'
    · have hoth := saveState_other cd compress st.id sts (saveInstance cd compress fs st)
        (fun s hs he => hn.1 (by rw [← he]; exact List.mem_map.mpr ⟨s, hs, rfl⟩))
      simp only [saveState] at hoth
      rw [hoth]
      exact C19_roundtrip_instance cd hc compress fs st (hw st (by simp))
    · have := ih (saveInstance cd compress fs s0) hn.2 (fun s hs => hw s (by simp [hs])) st hst'
      simpa [saveState] using this

/-- `load_state` over a listing returns the restored state of every listed readable instance -/
theorem loadState_mem {σ : Type} (cd : Codec σ) (fs : Files σ) (listing : List Nat) (i : Nat) (st : InstanceState)
    (hi : i ∈ listing) (h : loadInstance cd fs i = some st) : st ∈ loadState cd fs listing := by
  simp only [loadState, List.mem_filterMap]
  exact ⟨i, hi, h⟩

/-! ### the property -/

/-- C19 at full strength: for every lawful codec, both modes, every run spec and every list of steps,
(1) saving the instance and loading it back yields the same scenario managers / scenarios / equations /
run spec, the same session clock, and equal per-step settings and results logs; (2) the session results
served from the restored session are those served before; (3) the same through whole-server
save/load for any number of instances with distinct ids, each with its own history. -/
def C19_full : Prop :=
  ∀ (σ : Type) (cd : Codec σ), cd.Lawful → ∀ (compress : Bool),
    (∀ (spec : RunSpec) (ops : List StepOp) (id timeout : Nat) (fs : Files σ),
      let s := run spec ops
      ∃ st', loadInstance cd (saveInstance cd compress fs (instanceState id timeout s)) id = some st' ∧
        StateEq st' (instanceState id timeout s) ∧ sessionResults st'.state = sessionResults s) ∧
    (∀ (hist : List (Nat × Nat × RunSpec × List StepOp)) (fs : Files σ),
      (hist.map (·.1)).Nodup →
      let sts := hist.map fun h => instanceState h.1 h.2.1 (run h.2.2.1 h.2.2.2)
      ∀ st ∈ sts, ∃ st' ∈ loadState cd (saveState cd compress fs sts) (sts.map (·.id)),
        StateEq st' st ∧ sessionResults st'.state = sessionResults st.state)

theorem C19_full_holds : C19_full := by
  intro σ cd hc compress
  constructor
  · intro spec ops id timeout fs s
    obtain ⟨st', h1, h2⟩ := C19_roundtrip_instance cd hc compress fs (instanceState id timeout s)
      (uniform_run spec ops)
    exact ⟨st', h1, h2, sessionResults_eq _ _ h2.state⟩
  · intro hist fs hn sts st hst
    have hids : (sts.map (·.id)).Nodup := by
      have : sts.map (·.id) = hist.map (·.1) := by
        simp [sts, instanceState, Function.comp_def]
      rw [this]; exact hn
    have hwf : ∀ st ∈ sts, WellFormed st.state := by
      intro st hst
      simp only [sts, List.mem_map] at hst
      obtain ⟨h, _, rfl⟩ := hst
      exact uniform_run _ _
    obtain ⟨st', h1, h2⟩ := C19_roundtrip_server cd hc compress sts fs hids hwf st hst
    exact ⟨st', loadState_mem cd _ _ st.id st' (List.mem_map.mpr ⟨st, hst, rfl⟩) h1, h2,
      sessionResults_eq _ _ h2.state⟩

/-- What holds for ANY session state, reachable or not: the plain mode is the identity, and the
compressed mode restores the settings log and all scalar fields (only the results log needs uniformity). -/
theorem C19_partial {σ : Type} (cd : Codec σ) (hc : cd.Lawful) (fs : Files σ) (st : InstanceState) :
    loadInstance cd (saveInstance cd false fs st) st.id = some st ∧
    LogEq (unstore (store true st.state)).settingsLog st.state.settingsLog ∧
    (unstore (store true st.state)).step = st.state.step ∧
    (unstore (store true st.state)).spec = st.state.spec :=
  ⟨C19_roundtrip_plain cd hc fs st, by simp [store, unstore]; exact settings_roundtrip _,
   by simp [store, unstore], by simp [store, unstore]⟩

/-! ## Wave 2 — jsonpickle's object sharing (`py/id`) as a concrete codec -/

mutual
def agrees (h : Addr → Bool × Kids) : PV → Prop
  | .atom _ => True
  | .fresh _ k => agreesK h k
  | .obj a l k => h a = (l, k) ∧ agreesK h k
def agreesK (h : Addr → Bool × Kids) : Kids → Prop
  | .nil => True
  | .cons _ v r => agrees h v ∧ agreesK h r
end

mutual
def acyc : PV → List Addr → Prop
  | .atom _, _ => True
  | .fresh _ k, st => acycK k st
  | .obj a _ k, st => a ∉ st ∧ acycK k (a :: st)
def acycK : Kids → List Addr → Prop
  | .nil, _ => True
  | .cons _ v r, st => acyc v st ∧ acycK r st
end

def valJ (h : Addr → Bool × Kids) (a : Addr) : J := .obj (h a).1 (unfoldKids (h a).2)

structure R (h : Addr → Bool × Kids) (es : ES) (ds : DS) (st : List Addr) : Prop where
  next : ds.next = es.next
  lt : ∀ a n, lk a es.tab = some n → n < es.next
  inj : ∀ a a' n, lk a es.tab = some n → lk a' es.tab = some n → a = a'
  val : ∀ a n, lk a es.tab = some n → a ∈ st ∨ lkD n ds.done = some (valJ h a)

theorem lk_cons (a b : Addr) (n : Nat) (tab : List (Addr × Nat)) :
    lk a ((b, n) :: tab) = if b = a then some n else lk a tab := rfl

mutual
theorem enc_mono (t : PV) (es : ES) :
    es.next ≤ (enc t es).2.next ∧ (∀ a n, lk a es.tab = some n → lk a (enc t es).2.tab = some n) ∧
    (∀ a n, lk a (enc t es).2.tab = some n → lk a es.tab = some n ∨ es.next ≤ n) := by
  cases t with
  | atom s => exact ⟨Nat.le_refl _, fun _ _ h => h, fun _ _ h => Or.inl h⟩
  | fresh l k =>
    have ih := encKids_mono k { next := es.next + 1, tab := es.tab }
    simp only [enc]
    refine ⟨by have := ih.1; simp at this; omega, ih.2.1, ?_⟩
    intro a n hn
    rcases ih.2.2 a n hn with h | h
    · exact Or.inl h
    · right; simp at h; omega
  | obj a l k =>
    simp only [enc]
    split
    · exact ⟨Nat.le_refl _, fun _ _ h => h, fun _ _ h => Or.inl h⟩
    · rename_i hnone
      have ih := encKids_mono k { next := es.next + 1, tab := (a, es.next) :: es.tab }
      refine ⟨by have := ih.1; simp only at this ⊢; omega, ?_, ?_⟩
      · intro a' n hn
        apply ih.2.1
        simp only [lk_cons]
        split
        · rename_i heq; subst heq; rw [hnone] at hn; cases hn
        · exact hn
      · intro a' n hn
        rcases ih.2.2 a' n hn with h | h
        · simp only [lk_cons] at h
          split at h
          · right; cases h; omega
          · exact Or.inl h
        · right; simp at h; omega
theorem encKids_mono (k : Kids) (es : ES) :
    es.next ≤ (encKids k es).2.next ∧ (∀ a n, lk a es.tab = some n → lk a (encKids k es).2.tab = some n) ∧
    (∀ a n, lk a (encKids k es).2.tab = some n → lk a es.tab = some n ∨ es.next ≤ n) := by
  cases k with
  | nil => exact ⟨Nat.le_refl _, fun _ _ h => h, fun _ _ h => Or.inl h⟩
  | cons key v rest =>
    have h1 := enc_mono v es
    have h2 := encKids_mono rest (enc v es).2
    simp only [encKids]
    refine ⟨by omega, fun a n hn => h2.2.1 a n (h1.2.1 a n hn), ?_⟩
    intro a n hn
    rcases h2.2.2 a n hn with h | h
    · rcases h1.2.2 a n h with h' | h'
      · exact Or.inl h'
      · exact Or.inr h'
    · right; omega
end

mutual
theorem enc_dec (h : Addr → Bool × Kids) (t : PV) (es : ES) (ds : DS) (st : List Addr)
    (hr : R h es ds st) (ha : agrees h t) (hc : acyc t st) :
    ∃ ds', dec true (enc t es).1 ds = some (unfold t, ds') ∧ R h (enc t es).2 ds' st := by
  cases t with
  | atom s => exact ⟨ds, by simp [enc, dec, unfold], by simpa [enc] using hr⟩
  | fresh l k =>
    simp only [agrees] at ha
    simp only [acyc] at hc
    have hr1 : R h { next := es.next + 1, tab := es.tab } { next := ds.next + 1, done := ds.done } st :=
      ⟨by simp [hr.next], fun a n hn => by have := hr.lt a n hn; simp; omega, hr.inj, hr.val⟩
    obtain ⟨ds2, hd, hr2⟩ := encKids_dec h k _ _ st hr1 ha hc
    have hm := encKids_mono k { next := es.next + 1, tab := es.tab }
    refine ⟨{ next := ds2.next, done := (ds.next, .obj l (unfoldKids k)) :: ds2.done }, ?_, ?_⟩
    · simp only [enc, dec, hd, unfold]
    · simp only [enc]
      refine ⟨hr2.next, hr2.lt, hr2.inj, ?_⟩
      intro a n hn
      rcases hr2.val a n hn with hv | hv
      · exact Or.inl hv
      · right
        have hne : ds.next ≠ n := by
          rcases hm.2.2 a n hn with h' | h'
          · have := hr.lt a n h'; rw [hr.next]; omega
          · simp at h'; rw [hr.next]; omega
        simp only [lkD, hne, if_false]
        exact hv
  | obj a l k =>
    simp only [agrees] at ha
    simp only [acyc] at hc
    simp only [enc]
    split
    · rename_i n hn
      refine ⟨ds, ?_, hr⟩
      rcases hr.val a n hn with hv | hv
      · exact absurd hv hc.1
      · simp only [dec, if_true, hv, Option.map_some, unfold, valJ, ha.1]
    · rename_i hnone
      have hr1 : R h { next := es.next + 1, tab := (a, es.next) :: es.tab }
          { next := ds.next + 1, done := ds.done } (a :: st) := by
        refine ⟨by simp [hr.next], ?_, ?_, ?_⟩
        · intro a' n hn
          simp only [lk_cons] at hn
          split at hn
          · cases hn; simp
          · have := hr.lt a' n hn; simp; omega
        · intro a1 a2 n h1 h2
          simp only [lk_cons] at h1 h2
          split at h1 <;> split at h2
          · rename_i e1 e2; rw [← e1, ← e2]
          · cases h1; have := hr.lt a2 _ h2; omega
          · cases h2; have := hr.lt a1 _ h1; omega
          · exact hr.inj a1 a2 n h1 h2
        · intro a' n hn
          simp only [lk_cons] at hn
          split at hn
          · rename_i e; left; simp [e]
          · rcases hr.val a' n hn with hv | hv
            · left; simp [hv]
            · right; exact hv
      obtain ⟨ds2, hd, hr2⟩ := encKids_dec h k _ _ (a :: st) hr1 ha.2 hc.2
      have hm := encKids_mono k { next := es.next + 1, tab := (a, es.next) :: es.tab }
      have hla : lk a (encKids k { next := es.next + 1, tab := (a, es.next) :: es.tab }).2.tab = some es.next :=
        hm.2.1 a es.next (by simp [lk_cons])
      refine ⟨{ next := ds2.next, done := (ds.next, .obj l (unfoldKids k)) :: ds2.done }, ?_, ?_⟩
      · simp only [dec, hd, unfold]
      · refine ⟨hr2.next, hr2.lt, hr2.inj, ?_⟩
        intro a' n hn
        by_cases haa : a' = a
        · subst haa
          right
          rw [hla] at hn
          cases hn
          simp [lkD, hr.next, valJ, ha.1]
        · rcases hr2.val a' n hn with hv | hv
          · left
            rcases List.mem_cons.mp hv with e | e
            · exact absurd e haa
            · exact e
          · right
            have hne : ds.next ≠ n := by
              intro e
              apply haa
              apply hr2.inj a' a n hn
              rw [hla, ← hr.next, e]
            simp only [lkD, hne, if_false]
            exact hv
theorem encKids_dec (h : Addr → Bool × Kids) (k : Kids) (es : ES) (ds : DS) (st : List Addr)
    (hr : R h es ds st) (ha : agreesK h k) (hc : acycK k st) :
    ∃ ds', decKids true (encKids k es).1 ds = some (unfoldKids k, ds') ∧ R h (encKids k es).2 ds' st := by
  cases k with
  | nil => exact ⟨ds, by simp [encKids, decKids, unfoldKids], by simpa [encKids] using hr⟩
  | cons key v rest =>
    simp only [agreesK] at ha
    simp only [acycK] at hc
    obtain ⟨ds1, hd1, hr1⟩ := enc_dec h v es ds st hr ha.1 hc.1
    obtain ⟨ds2, hd2, hr2⟩ := encKids_dec h rest _ ds1 st hr1 ha.2 hc.2
    exact ⟨ds2, by simp only [encKids, decKids, hd1, hd2, unfoldKids], by simpa [encKids] using hr2⟩
end

/-- the pickler followed by the unpickler gives back the value, for every consistent acyclic object graph -/
theorem pickle_roundtrip (h : Addr → Bool × Kids) (t : PV) (ha : agrees h t) (hc : acyc t []) :
    decode true (encode t) = some (unfold t) := by
  obtain ⟨ds', hd, _⟩ := enc_dec h t { next := 0, tab := [] } { next := 0, done := [] } []
    ⟨rfl, by simp [lk], by simp [lk], by simp [lk]⟩ ha hc
  simp [decode, encode, hd]

mutual
theorem dec_noRef (j : J) (ds : DS) (hn : noRef j = true) : dec false j ds = dec true j ds := by
  cases j with
  | atom s => simp [dec]
  | ref n => simp [noRef] at hn
  | obj l k =>
    simp only [noRef] at hn
    simp only [dec, decKids_noRef k _ hn]
theorem decKids_noRef (k : JKids) (ds : DS) (hn : noRefKids k = true) : decKids false k ds = decKids true k ds := by
  cases k with
  | nil => simp [decKids]
  | cons key v rest =>
    simp only [noRefKids, Bool.and_eq_true] at hn
    simp only [decKids, dec_noRef v ds hn.1]
    cases hd : dec true v ds with
    | none => rfl
    | some r1 => simp only [decKids_noRef rest r1.2 hn.2]
end


/-! ### the settings part of a stored session is a consistent acyclic object graph -/

theorem canon_get {α : Type} [BEq α] [LawfulBEq α] (ident : Nat → Nat) (items : List α) (i : Nat) :
    items[canon ident items i]? = items[i]? := by
  unfold canon
  split
  · rename_i j hj
    have := List.find?_some hj
    simp only [Bool.and_eq_true, beq_iff_eq] at this
    exact this.2
  · rfl

theorem agrees_valPV (h : Addr → Bool × Kids) (v : Val) : agrees h (valPV v) := by
  unfold valPV; split <;> simp [agrees, agreesK]

theorem acyc_valPV (st : List Addr) (v : Val) : acyc (valPV v) st := by
  unfold valPV; split <;> simp [acyc, acycK]

theorem agreesK_rowKids (h : Addr → Bool × Kids) : ∀ r : Row, agreesK h (rowKids r)
  | [] => by simp [rowKids, agreesK]
  | (p, v) :: r => by simp [rowKids, agreesK, agrees_valPV, agreesK_rowKids h r]

theorem acycK_rowKids (st : List Addr) : ∀ r : Row, acycK (rowKids r) st
  | [] => by simp [rowKids, acycK]
  | (p, v) :: r => by simp [rowKids, acycK, acyc_valPV, acycK_rowKids st r]

/-- the heap of the plain settings log: object `(0, j)` is the row logged by step j -/
def logHeap (rows : List Row) : Addr → Bool × Kids := fun a => (false, rowKids ((rows[a.2]?).getD []))

theorem agreesK_logKids (ident : Nat → Nat) (rows : List Row) : ∀ (log : Log) (i : Nat),
    (∀ m, (log[m]?).map (·.2) = rows[i + m]?) → agreesK (logHeap rows) (logKids ident rows i log)
  | [], _, _ => by simp [logKids, agreesK]
  | (t, row) :: rest, i, hm => by
    simp only [logKids, agreesK, agrees]
    refine ⟨⟨?_, agreesK_rowKids _ row⟩, agreesK_logKids ident rows rest (i + 1) ?_⟩
    · have h0 := hm 0
      simp only [List.getElem?_cons_zero, Option.map_some, Nat.add_zero] at h0
      simp only [logHeap, canon_get, ← h0, Option.getD_some]
    · intro m
      have := hm (m + 1)
      simp only [List.getElem?_cons_succ] at this
      rw [this]; congr 1; omega

theorem acycK_logKids (ident : Nat → Nat) (rows : List Row) : ∀ (log : Log) (i : Nat),
    acycK (logKids ident rows i log) []
  | [], _ => by simp [logKids, acycK]
  | (t, row) :: rest, i => by
    simp only [logKids, acycK, acyc]
    exact ⟨⟨by simp, acycK_rowKids _ row⟩, acycK_logKids ident rows rest (i + 1)⟩

theorem valOfJ_valPV (v : Val) : valOfJ (unfold (valPV v)) = some v := by
  unfold valPV; split <;> simp [unfold, unfoldKids, valOfJ]

theorem rowOfJ_rowKids : ∀ r : Row, rowOfJ (unfoldKids (rowKids r)) = some r
  | [] => by simp [rowKids, unfoldKids, rowOfJ]
  | (p, v) :: r => by
    simp [rowKids, unfoldKids, rowOfJ, valOfJ_valPV, rowOfJ_rowKids r]

theorem logOfJK_logKids (ident : Nat → Nat) (rows : List Row) : ∀ (log : Log) (i : Nat),
    logOfJK (unfoldKids (logKids ident rows i log)) = some log
  | [], _ => by simp [logKids, unfoldKids, logOfJK]
  | (t, row) :: rest, i => by
    simp [logKids, unfoldKids, unfold, logOfJK, logOfJK_logKids ident rows rest (i + 1), rowOfJ_rowKids]

/-- plain mode: whatever the aliasing pattern between the logged settings objects, writing the settings
log with the pickler and reading it with the unpickler gives the log back -/
theorem settingsLog_pickle (ident : Nat → Nat) (log : Log) :
    (decode true (encode (logPV ident log))).bind logOfTree = some log := by
  have := pickle_roundtrip (logHeap (log.map (·.2))) (logPV ident log)
    (by simp only [logPV, agrees]
        exact agreesK_logKids ident _ log 0 (by intro m; simp))
    (by simp only [logPV, acyc]; exact acycK_logKids ident _ log 0)
  rw [this]
  simp [logPV, unfold, logOfTree, logOfJK_logKids]

/-- the heap of the compressed columns: object `(c+1, k)` is the value of entry k of column c -/
def colsHeap (cols : List (Path × List (Nat × Val))) : Addr → Bool × Kids := fun a =>
  (true, .cons (.num 0) (.atom (.str (((((cols[a.1 - 1]?).map (·.2)).getD []).map (·.2))[a.2]?.getD ""))) .nil)

theorem agreesK_colKids (cols : List (Path × List (Nat × Val))) (idAt : Nat → Nat) (c : Nat) (vals : List Val)
    (hv : (((cols[c]?).map (·.2)).getD []).map (·.2) = vals) : ∀ (col : List (Nat × Val)) (k : Nat),
    (∀ m, (col[m]?).map (·.2) = vals[k + m]?) → agreesK (colsHeap cols) (colKids idAt c vals k col)
  | [], _, _ => by simp [colKids, agreesK]
  | (i, v) :: rest, k, hm => by
    simp only [colKids, agreesK, agrees]
    refine ⟨⟨trivial, ?_, trivial⟩, agreesK_colKids cols idAt c vals hv rest (k + 1) ?_⟩
    · unfold cvalPV
      split
      · simp only [agrees, agreesK, and_true]
        have h0 := hm 0
        simp only [List.getElem?_cons_zero, Option.map_some, Nat.add_zero] at h0
        simp only [colsHeap, Nat.add_sub_cancel, hv, canon_get, ← h0, Option.getD_some]
      · simp [agrees]
    · intro m
      have := hm (m + 1)
      simp only [List.getElem?_cons_succ] at this
      rw [this]; congr 1; omega

theorem acycK_colKids (idAt : Nat → Nat) (c : Nat) (vals : List Val) : ∀ (col : List (Nat × Val)) (k : Nat),
    acycK (colKids idAt c vals k col) []
  | [], _ => by simp [colKids, acycK]
  | (i, v) :: rest, k => by
    simp only [colKids, acycK, acyc]
    refine ⟨⟨trivial, ?_, trivial⟩, acycK_colKids idAt c vals rest (k + 1)⟩
    unfold cvalPV; split <;> simp [acyc, acycK]

theorem agreesK_colsKids (ident : Nat → Nat) (cols : List (Path × List (Nat × Val))) :
    ∀ (suffix : List (Path × List (Nat × Val))) (c : Nat),
    (∀ m, suffix[m]? = cols[c + m]?) → agreesK (colsHeap cols) (colsKids ident c suffix)
  | [], _, _ => by simp [colsKids, agreesK]
  | (p, col) :: rest, c, hm => by
    simp only [colsKids, agreesK, agrees]
    refine ⟨agreesK_colKids cols _ c _ ?_ col 0 (by intro m; simp), agreesK_colsKids ident cols rest (c + 1) ?_⟩
    · have h0 := hm 0
      simp only [List.getElem?_cons_zero, Nat.add_zero] at h0
      simp [← h0]
    · intro m
      have := hm (m + 1)
      simp only [List.getElem?_cons_succ] at this
      rw [this]; congr 1; omega

theorem acycK_colsKids (ident : Nat → Nat) : ∀ (suffix : List (Path × List (Nat × Val))) (c : Nat),
    acycK (colsKids ident c suffix) []
  | [], _ => by simp [colsKids, acycK]
  | (p, col) :: rest, c => by
    simp only [colsKids, acycK, acyc]
    exact ⟨acycK_colKids _ c _ col 0, acycK_colsKids ident rest (c + 1)⟩

theorem valOfJ_cvalPV (c j : Nat) (v : Val) : valOfJ (unfold (cvalPV c j v)) = some v := by
  unfold cvalPV; split <;> simp [unfold, unfoldKids, valOfJ]

theorem colOfJK_colKids (idAt : Nat → Nat) (c : Nat) (vals : List Val) : ∀ (col : List (Nat × Val)) (k : Nat),
    colOfJK (unfoldKids (colKids idAt c vals k col)) = some col
  | [], _ => by simp [colKids, unfoldKids, colOfJK]
  | (i, v) :: rest, k => by
    simp [colKids, unfoldKids, unfold, colOfJK, entryOfJ, valOfJ_cvalPV, colOfJK_colKids idAt c vals rest (k + 1)]

theorem colsOfJK_colsKids (ident : Nat → Nat) : ∀ (suffix : List (Path × List (Nat × Val))) (c : Nat),
    colsOfJK (unfoldKids (colsKids ident c suffix)) = some suffix
  | [], _ => by simp [colsKids, unfoldKids, colsOfJK]
  | (p, col) :: rest, c => by
    simp [colsKids, unfoldKids, unfold, colsOfJK, colsOfJK_colsKids ident rest (c + 1), colOfJK_colKids]

/-- compressed mode: the same for the `[index, value]` columns, list-valued settings shared between entries included -/
theorem settingsCols_pickle (ident : Nat → Nat) (cols : List (Path × List (Nat × Val))) :
    (decode true (encode (colsPV ident cols))).bind colsOfTree = some cols := by
  have := pickle_roundtrip (colsHeap cols) (colsPV ident cols)
    (by simp only [colsPV, agrees]
        exact agreesK_colsKids ident cols cols 0 (by intro m; simp))
    (by simp only [colsPV, acyc]; exact acycK_colsKids ident cols 0)
  rw [this]
  simp [colsPV, unfold, colsOfTree, colsOfJK_colsKids]

/-- the FileAdapter with the concrete pickler is a lawful codec whenever its reader resolves `py/id` -/
theorem pickleCodec_lawful (c : Cfg) (hg : c.good = true) (ident : Nat → Nat) : (pickleCodec c ident).Lawful := by
  intro e
  have hres : c.decoderResolvesRefs = true := by
    simp only [Cfg.good, Bool.and_eq_true] at hg; exact hg.1.1.1.1
  obtain ⟨id, timeout, step, stored⟩ := e
  cases stored with
  | plain s =>
    have := settingsLog_pickle ident s.settingsLog
    simp only [Option.bind_eq_some_iff] at this
    obtain ⟨t, ht, hl⟩ := this
    simp [pickleCodec, settingsJ, blankS, hres, ht, fillS, hl]
  | compressed sp st cs cr =>
    have := settingsCols_pickle ident cs.cols
    simp only [Option.bind_eq_some_iff] at this
    obtain ⟨t, ht, hl⟩ := this
    simp [pickleCodec, settingsJ, blankS, hres, ht, fillS, hl]


/-! ### the property with the concrete pickler -/

/-- the two clauses of `C19_full` for one codec and one adapter mode -/
def C19_for {σ : Type} (cd : Codec σ) (compress : Bool) : Prop :=
    (∀ (spec : RunSpec) (ops : List StepOp) (id timeout : Nat) (fs : Files σ),
      let s := run spec ops
      ∃ st', loadInstance cd (saveInstance cd compress fs (instanceState id timeout s)) id = some st' ∧
        StateEq st' (instanceState id timeout s) ∧ sessionResults st'.state = sessionResults s) ∧
    (∀ (hist : List (Nat × Nat × RunSpec × List StepOp)) (fs : Files σ),
      (hist.map (·.1)).Nodup →
      let sts := hist.map fun h => instanceState h.1 h.2.1 (run h.2.2.1 h.2.2.2)
      ∀ st ∈ sts, ∃ st' ∈ loadState cd (saveState cd compress fs sts) (sts.map (·.id)),
        StateEq st' st ∧ sessionResults st'.state = sessionResults st.state)

theorem C19_full_iff : C19_full ↔ ∀ (σ : Type) (cd : Codec σ), cd.Lawful → ∀ compress, C19_for cd compress := Iff.rfl

/-- C19 with the mechanism fact: the old statement (every lawful codec) AND the same two clauses for the
FileAdapter with the concrete pickler, for EVERY aliasing pattern `ident` between the logged settings objects. -/
def C19_full_cfg (c : Cfg) : Prop :=
  C19_full ∧ (∀ (ident : Nat → Nat) (compress : Bool), C19_for (pickleCodec c ident) compress) ∧
  -- wave 3: whatever sessions the instance has had (begin-session / end-session / step requests in any order), after a
  -- step-advancing request the state file holds exactly the live session, and that session is a reachable one
  -- (so the clauses above say that loading the file restores it)
  (∀ (reqs : List Req) (ops : List StepOp) (s : Session), (runReqs c (reqs ++ [.steps ops])).session = some s →
    (runReqs c (reqs ++ [.steps ops])).file = some s ∧ ∃ spec ops', s = run spec ops') ∧
  -- wave 6: the restore installs the decoded session as it is — in particular the restored clock IS the saved clock, for
  -- every start time and dt (the codec side is the identity on `step`: `StateEq.step`, `SessionEq.step` above)
  (∀ s : Session, setState c s = s) ∧
  -- wave 8: whatever was compressed earlier in the process, every saved log is loaded and is the decompression of ITS
  -- compression (which `settings_roundtrip` shows equal to the log)
  (∀ saves : List (Log × List Nat), (∀ s ∈ saves, ∀ i ∈ s.2, i < s.1.length) →
    saveSeq c.compressIsPure [] saves = saves.map fun s => some (decompressSettings (compressSettings s.1))) ∧
  -- wave 9: after a whole-server load the session of an instance whose state is stored IS the stored state — whatever the instance
  -- held in memory (session ended, begun anew, untouched) after any request history
  (∀ (reqs : List Req) (f : Session), (runReqs c reqs).file = some f → (loadStateI c (runReqs c reqs)).session = some f)

theorem saveSeq_pure : ∀ (saves : List (Log × List Nat)) (acc : List Nat), (∀ s ∈ saves, ∀ i ∈ s.2, i < s.1.length) →
    saveSeq true acc saves = saves.map fun s => some (decompressSettings (compressSettings s.1))
  | [], _, _ => rfl
  | (log, own) :: r, acc, h => by
    have h0 : own.all (· < log.length) = true := by
      simp only [List.all_eq_true, decide_eq_true_eq]
      exact fun i hi => h (log, own) (by simp) i hi
    simp only [saveSeq, if_true, h0, List.map_cons]
    rw [saveSeq_pure r (acc ++ own) (fun s hs => h s (by simp [hs]))]

theorem stepReq_live_is_run (c : Cfg) (st : IState) (rq : Req)
    (h : ∀ s, st.session = some s → ∃ spec ops, s = run spec ops) :
    ∀ s, (stepReq c st rq).session = some s → ∃ spec ops, s = run spec ops := by
  intro s hs
  cases rq with
  | beginSession spec =>
    simp only [stepReq, Option.some.injEq] at hs
    exact ⟨spec, [], by rw [← hs]; rfl⟩
  | endSession => simp [stepReq] at hs
  | steps ops =>
    simp only [stepReq] at hs
    cases hl : st.session with
    | none => rw [hl] at hs; simp only at hs; rw [hl] at hs; cases hs
    | some s0 =>
      obtain ⟨spec, ops0, rfl⟩ := h s0 hl
      rw [hl] at hs
      simp only at hs
      have hs' : s = ops.foldl runStep (run spec ops0) := by
        split at hs <;> simp only [Option.some.injEq] at hs <;> exact hs.symm
      exact ⟨spec, ops0 ++ ops, by rw [hs', run, run, List.foldl_append]⟩

theorem runReqs_live_is_run (c : Cfg) (reqs : List Req) :
    ∀ s, (runReqs c reqs).session = some s → ∃ spec ops, s = run spec ops := by
  unfold runReqs
  suffices ∀ st : IState, (∀ s, st.session = some s → ∃ spec ops, s = run spec ops) →
      ∀ s, (reqs.foldl (stepReq c) st).session = some s → ∃ spec ops, s = run spec ops from
    this _ (by intro s h; simp [IState.init] at h)
  induction reqs with
  | nil => intro st h; exact h
  | cons rq reqs ih => intro st h; exact ih _ (stepReq_live_is_run c st rq h)

/-- with an unconditional save the file is the live session after every step-advancing request -/
theorem file_is_live (c : Cfg) (hs : c.saveAfterEveryStepRequest = true) (reqs : List Req) (ops : List StepOp) (s : Session)
    (h : (runReqs c (reqs ++ [.steps ops])).session = some s) : (runReqs c (reqs ++ [.steps ops])).file = some s := by
  simp only [runReqs, List.foldl_append, List.foldl_cons, List.foldl_nil] at h ⊢
  generalize reqs.foldl (stepReq c) IState.init = st at h ⊢
  simp only [stepReq, hs, Bool.true_or, if_true] at h ⊢
  cases hl : st.session with
  | none => simp only [hl] at h; cases h
  | some s0 => simp only [hl] at h ⊢; simpa using h

theorem C19_full_of_good (c : Cfg) (h : c.good = true) : C19_full_cfg c :=
  ⟨C19_full_holds, fun ident compress => C19_full_holds _ _ (pickleCodec_lawful c h ident) compress,
   fun reqs ops s hs => ⟨file_is_live c (by simp only [Cfg.good, Bool.and_eq_true] at h; exact h.1.1.1.2) reqs ops s hs,
     runReqs_live_is_run c _ s hs⟩,
   fun s => by
     have hk : c.restoreKeepsClock = true := by simp only [Cfg.good, Bool.and_eq_true] at h; exact h.1.1.2
     simp [setState, hk],
   fun saves hs => by
     have hq : c.compressIsPure = true := by simp only [Cfg.good, Bool.and_eq_true] at h; exact h.1.2
     rw [hq]; exact saveSeq_pure saves [] hs,
   fun reqs f hf => by
     have hw : c.loadInstallsStored = true := by simp only [Cfg.good, Bool.and_eq_true] at h; exact h.2
     simp [loadStateI, hf, hw]⟩

/-- A process-level accumulator in `compress_settings`: session A (two steps, a dictionary without a value at step 1) is saved,
then session B (one step): B's compressed state carries A's entry `[1, …]`, B has no step 1, B's load fails. -/
theorem C19_witness_compress_accumulates (c : Cfg) (h : c.compressIsPure = false) : ¬ C19_full_cfg c := by
  intro hf
  have h5 := hf.2.2.2.2.1 [([(2048, []), (2560, [])], [1]), ([(2048, [(7, "5.0")])], [])] (by decide)
  rw [h] at h5
  exact absurd h5 (by decide)

example : saveSeq false [] [([(2048, []), (2560, [])], [1]), ([(2048, [(7, "5.0")])], [])] =
    [some [(2048, []), (2560, [])], none] := by decide

/-- a session at dt 0.125 after three steps: clock 0.375 -/
def eighthSpec : RunSpec := { paths := [0], start := 0, dt := 80000, stop := 6400000 }
def threeSteps : List StepOp := [⟨some [], fun _ => "1.0"⟩, ⟨some [], fun _ => "2.0"⟩, ⟨some [], fun _ => "3.0"⟩]

/-- a restore that re-normalises the clock to two decimals moves 0.375 to 0.38 (logs untouched) -/
theorem C19_witness_rounding_restore (c : Cfg) (h : c.restoreKeepsClock = false) : ¬ C19_full_cfg c := by
  intro hf
  have h4 := hf.2.2.2.1 (run eighthSpec threeSteps)
  simp only [setState, h] at h4
  exact absurd (congrArg Session.step h4) (by decide)

example : (run eighthSpec threeSteps).step = 240000 := by decide
example : roundTo centi 240000 = 243200 := by decide                     -- 0.375 ↦ 0.38
example : roundTo centi (run eighthSpec (threeSteps ++ threeSteps.take 1)).step = 320000 := by decide   -- 0.5: even step counts hide it

def sessA : RunSpec := { paths := [0], start := 2048, dt := 512, stop := 10240 }
def sessB : RunSpec := { paths := [3, 4], start := 2048, dt := 512, stop := 10240 }
def twoSteps : List StepOp := [⟨some [], fun _ => "1.0"⟩, ⟨some [], fun _ => "2.0"⟩]

/-- "skip the write when the session clock has not moved since the last write": a second session (other scenario
managers / equations) taken by `run-steps` to the clock position written last is never written — the file keeps the
first session. -/
theorem C19_witness_skip_save (c : Cfg) (h : c.saveAfterEveryStepRequest = false) : ¬ C19_full_cfg c := by
  intro hf
  obtain ⟨r, sv, k, q, w⟩ := c
  simp only at h
  subst h
  have h3 := hf.2.2.1 [.beginSession sessA, .steps twoSteps, .beginSession sessB] twoSteps (run sessB twoSteps)
  cases r <;> cases k <;> cases q <;> cases w <;> exact absurd (h3 (by decide)).1 (by decide)

/-- what the file holds in that history, and that single steps never show it (the clock moves with every step) -/
example : (runReqs ⟨true, false, true, true, true⟩ [.beginSession sessA, .steps twoSteps, .beginSession sessB, .steps twoSteps]).file
    = some (run sessA twoSteps) := by decide
example : (runReqs ⟨true, false, true, true, true⟩ [.beginSession sessA, .steps twoSteps, .endSession, .beginSession sessB, .steps twoSteps]).file
    = some (run sessA twoSteps) := by decide
example : (runReqs ⟨true, false, true, true, true⟩ [.beginSession sessA, .steps (twoSteps.take 1), .steps (twoSteps.drop 1), .beginSession sessB,
      .steps (twoSteps.take 1), .steps (twoSteps.drop 1)]).file
    = some (run sessB twoSteps) := by decide

/-- A load that skips stored states whose instance is alive: the session was saved, then ended (no write) — `POST /load-state`
answers 200 and the instance still has no session. -/
theorem C19_witness_load_skips_live (c : Cfg) (h : c.loadInstallsStored = false) : ¬ C19_full_cfg c := by
  intro hf
  have h6 := hf.2.2.2.2.2 [.beginSession sessA, .steps twoSteps, .endSession] (run sessA twoSteps)
  obtain ⟨r, sv, k, q, w⟩ := c
  simp only at h
  subst h
  cases r <;> cases sv <;> cases k <;> cases q <;> exact absurd (h6 (by decide)) (by decide)

/-- the same with a session begun anew after the save: the load leaves the new, un-stepped session in place -/
example : (loadStateI ⟨true, true, true, true, false⟩ (runReqs ⟨true, true, true, true, false⟩
    [.beginSession sessA, .steps twoSteps, .beginSession sessB])).session = some (begin sessB) := by decide
example : (loadStateI ⟨true, true, true, true, true⟩ (runReqs ⟨true, true, true, true, true⟩
    [.beginSession sessA, .steps twoSteps, .beginSession sessB])).session = some (run sessA twoSteps) := by decide

def shareSpec : RunSpec := { paths := [0], start := 2048, dt := 512, stop := 10240 }
/-- `run-steps` with `numberSteps = 2`: one settings object logged for two steps -/
def shareOps : List StepOp := [⟨some [(7, "5.0")], fun _ => "0.0"⟩, ⟨some [(7, "5.0")], fun _ => "2.5"⟩]
/-- the same with a list-valued (`points`) setting -/
def sharePointsOps : List StepOp := [⟨some [(9, "5b5b302e30")], fun _ => "0.0"⟩, ⟨some [(9, "5b5b302e30")], fun _ => "2.5"⟩]

/-- a reader that does not resolve `py/id` (plain `json.loads`) does not restore a session in which one
settings object was logged for two steps: the second entry comes back as `{"py/id": n}` -/
theorem C19_witness_plain_reader (c : Cfg) (h : c.decoderResolvesRefs = false) : ¬ C19_full_cfg c := by
  intro hf
  obtain ⟨st', hl, _⟩ := (hf.2.1 (fun _ => 0) false).1 shareSpec shareOps 0 0 (fun _ => none)
  obtain ⟨r, sv, k, q, w⟩ := c
  simp only at h
  subst h
  have : loadInstance (pickleCodec ⟨false, sv, k, q, w⟩ (fun _ => 0))
      (saveInstance (pickleCodec ⟨false, sv, k, q, w⟩ (fun _ => 0)) false (fun _ => none) (instanceState 0 0 (run shareSpec shareOps))) 0
      = none := by cases sv <;> cases k <;> cases q <;> cases w <;> decide +kernel
  rw [this] at hl
  cases hl

/-- the same in compressed mode with a list-valued setting: the value of the second column entry is a back-reference -/
theorem C19_witness_plain_reader_compressed :
    loadInstance (pickleCodec ⟨false, true, true, true, true⟩ (fun _ => 0))
      (saveInstance (pickleCodec ⟨false, true, true, true, true⟩ (fun _ => 0)) true (fun _ => none) (instanceState 0 0 (run shareSpec sharePointsOps))) 0
      = none := by decide +kernel

theorem decode_noRef (r : Bool) (j : J) (hn : noRef j = true) : decode r j = decode true j := by
  cases r with
  | true => rfl
  | false => simp only [decode, dec_noRef j _ hn]

/-- What holds whatever the reader does with `py/id`: an envelope whose written settings part contains no
back-reference (no settings object logged twice, e.g. only `run-step` requests over HTTP) is read back. -/
theorem C19_partial_cfg (c : Cfg) (ident : Nat → Nat) (e : Envelope) (hn : noRef (settingsJ ident e.stored) = true) :
    (pickleCodec c ident).dec ((pickleCodec c ident).enc e) = some e := by
  have hgood := pickleCodec_lawful ⟨true, true, true, true, true⟩ rfl ident e
  simp only [pickleCodec] at hgood ⊢
  rw [decode_noRef _ _ hn]
  exact hgood

/-- non-vacuity: the back-reference really is in the written text, and the unpickler restores both modes -/
example : noRef (settingsJ (fun _ => 0) (store false (run shareSpec shareOps))) = false := by decide +kernel
example : noRef (settingsJ (fun _ => 0) (store true (run shareSpec sharePointsOps))) = false := by decide +kernel
example : loadInstance (pickleCodec ⟨true, true, true, true, true⟩ (fun _ => 0))
      (saveInstance (pickleCodec ⟨true, true, true, true, true⟩ (fun _ => 0)) true (fun _ => none) (instanceState 0 0 (run shareSpec sharePointsOps))) 0
      = some (instanceState 0 0 (unstore (store true (run shareSpec sharePointsOps)))) := by decide +kernel

/-! ### non-vacuity and the shapes named in the statement -/

/-- the identity codec is lawful, so the hypothesis `Codec.Lawful` is satisfiable -/
def idCodec : Codec Envelope := { enc := id, dec := some }
theorem idCodec_lawful : idCodec.Lawful := fun _ => rfl

def demoSpec : RunSpec := { paths := [0, 1], start := 2048, dt := 512, stop := 10240 }
def demoOps : List StepOp :=
  [⟨some [(7, "5.0")], fun p => if p = 0 then "0.0" else "5.0"⟩,
   ⟨some [], fun p => if p = 0 then "2.5" else "5.0"⟩,
   ⟨none, fun p => if p = 0 then "5.0" else "5.0"⟩,
   ⟨some [(7, "7.0"), (8, "1.0")], fun p => if p = 0 then "7.5" else "7.0"⟩]

/-- Non-vacuity: start 2.0, dt 0.5 (units of 1/1024), steps with settings / with `{}` / without
settings: the compressed round trip gives back the very same logs, keys 2.0, 2.5, 3.0, 3.5 included. -/
example : unstore (store true (run demoSpec demoOps)) = run demoSpec demoOps := by decide

example : (compressSettings (run demoSpec demoOps).settingsLog) =
    { steps := [2048, 2560, 3072, 3584], cols := [(7, [(0, "5.0"), (3, "7.0")]), (8, [(3, "1.0")])] } := by decide

#print axioms C19_full_holds
#print axioms C19_partial
#print axioms C19_roundtrip_plain
#print axioms C19_roundtrip_instance
#print axioms C19_roundtrip_server
#print axioms settings_roundtrip
#print axioms results_roundtrip
#print axioms uniform_run
#print axioms keys_run
#print axioms idCodec_lawful
#print axioms pickle_roundtrip
#print axioms dec_noRef
#print axioms settingsLog_pickle
#print axioms settingsCols_pickle
#print axioms pickleCodec_lawful
#print axioms C19_full_of_good
#print axioms C19_witness_plain_reader
#print axioms C19_witness_plain_reader_compressed
#print axioms C19_partial_cfg
#print axioms file_is_live
#print axioms runReqs_live_is_run
#print axioms C19_witness_skip_save
#print axioms C19_witness_rounding_restore
#print axioms C19_witness_compress_accumulates
#print axioms C19_witness_load_skips_live
#print axioms saveSeq_pure

end Bptk.C19
