import Bptk.Core.C19
/-!
C19 — externalised instance state is restored losslessly.
Quantifiers: every run spec (start, dt, stop, requested paths), every list of steps (with settings, with
empty settings, without settings; any simulation values), both adapter modes, per-instance and
whole-server save/load, every lawful codec.  No bound anywhere.

Dictionary equality is Python's: two dictionaries are equal when they have the same keys with the same
values, whatever the insertion order — `RowEq` (same lookup function).  A log is restored losslessly
when it has the same step keys in the same order and an equal dictionary at every step (`LogEq`).
-/
namespace Bptk.C19

def RowEq (a b : Row) : Prop := ∀ p, lookup p a = lookup p b

def rowAt (l : Log) (i : Nat) (p : Path) : Option Val := (l[i]?).bind fun e => lookup p e.2

structure LogEq (a b : Log) : Prop where
  keys : a.map (·.1) = b.map (·.1)
  rows : ∀ i p, rowAt a i p = rowAt b i p

structure SessionEq (a b : Session) : Prop where
  spec : a.spec = b.spec
  step : a.step = b.step
  settings : LogEq a.settingsLog b.settingsLog
  results : LogEq a.resultsLog b.resultsLog

theorem LogEq.refl (a : Log) : LogEq a a := ⟨rfl, fun _ _ => rfl⟩
theorem SessionEq.refl (a : Session) : SessionEq a a := ⟨rfl, rfl, LogEq.refl _, LogEq.refl _⟩

/-! ### lookups -/

theorem lookup_some_mem {p : Path} {v : Val} : ∀ {r : Row}, lookup p r = some v → p ∈ r.map (·.1) := by
  intro r
  induction r with
  | nil => intro h; simp [lookup] at h
  | cons e r ih =>
    obtain ⟨q, w⟩ := e
    intro h
    simp only [lookup] at h
    split at h
    · subst_vars; simp
    · simp [ih h]

theorem lookup_isSome_of_mem {p : Path} : ∀ {r : Row}, p ∈ r.map (·.1) → (lookup p r).isSome := by
  intro r
  induction r with
  | nil => intro h; simp at h
  | cons e r ih =>
    obtain ⟨q, w⟩ := e
    intro h
    simp only [lookup]
    split
    · rfl
    · rename_i hne
      simp only [List.map_cons, List.mem_cons] at h
      rcases h with h | h
      · exact absurd h.symm hne
      · exact ih h

theorem mem_foldl_insertNew (p : Path) : ∀ (l acc : List Path),
    p ∈ l.foldl insertNew acc ↔ p ∈ acc ∨ p ∈ l := by
  intro l
  induction l with
  | nil => intro acc; simp
  | cons q l ih =>
    intro acc
    simp only [List.foldl_cons, ih, insertNew]
    split
    · rename_i hq
      constructor
      · rintro (h | h)
        · exact Or.inl h
        · exact Or.inr (by simp [h])
      · rintro (h | h)
        · exact Or.inl h
        · rcases List.mem_cons.mp h with rfl | h
          · exact Or.inl hq
          · exact Or.inr h
    · simp only [List.mem_append, List.mem_cons, List.not_mem_nil, or_false]
      constructor
      · rintro ((h | h) | h)
        · exact Or.inl h
        · exact Or.inr (Or.inl h)
        · exact Or.inr (Or.inr h)
      · rintro (h | h | h)
        · exact Or.inl (Or.inl h)
        · exact Or.inl (Or.inr h)
        · exact Or.inr h

theorem mem_allPaths (p : Path) (log : Log) :
    p ∈ allPaths log ↔ ∃ e ∈ log, p ∈ e.2.map (·.1) := by
  simp [allPaths, mem_foldl_insertNew, List.mem_flatMap]

theorem rowAt_none_of_not_mem_allPaths {p : Path} {log : Log} (h : p ∉ allPaths log) (i : Nat) :
    rowAt log i p = none := by
  unfold rowAt
  cases hi : log[i]? with
  | none => rfl
  | some e =>
    simp only [Option.bind_some]
    cases hl : lookup p e.2 with
    | none => rfl
    | some v =>
      exfalso; apply h
      exact (mem_allPaths p log).mpr ⟨e, List.mem_of_getElem? hi, lookup_some_mem hl⟩

/-! ### sparse (settings) columns -/

theorem lookupIdx_sparseCol_lt (p : Path) : ∀ (log : Log) (j i : Nat), i < j →
    lookupIdx i (sparseCol p j log) = none := by
  intro log
  induction log with
  | nil => intro j i _; simp [sparseCol, lookupIdx]
  | cons e rest ih =>
    obtain ⟨k, row⟩ := e
    intro j i hij
    simp only [sparseCol]
    split
    · simp only [lookupIdx]
      split
      · omega
      · exact ih (j + 1) i (by omega)
    · exact ih (j + 1) i (by omega)

theorem lookupIdx_sparseCol (p : Path) : ∀ (log : Log) (j n : Nat),
    lookupIdx (j + n) (sparseCol p j log) = rowAt log n p := by
  intro log
  induction log with
  | nil => intro j n; simp [sparseCol, lookupIdx, rowAt]
  | cons e rest ih =>
    obtain ⟨k, row⟩ := e
    intro j n
    cases n with
    | zero =>
      simp only [sparseCol, rowAt, Nat.add_zero, List.getElem?_cons_zero, Option.bind_some]
      split
      · rename_i v hv; simp [lookupIdx, hv]
      · rename_i hv; rw [hv]; exact lookupIdx_sparseCol_lt p rest (j + 1) j (by omega)
    | succ n =>
      have hr : rowAt ((k, row) :: rest) (n + 1) p = rowAt rest n p := by simp [rowAt]
      rw [hr, ← ih (j + 1) n]
      have hj : j + (n + 1) = j + 1 + n := by omega
      simp only [sparseCol]
      split
      · simp only [lookupIdx]
        split
        · omega
        · rw [hj]
      · rw [hj]

/-! ### dense (results) columns -/

/-- every step reports exactly the paths `P` -/
def Uniform (P : List Path) (log : Log) : Prop := ∀ e ∈ log, e.2.map (·.1) = P

theorem denseCol_get (p : Path) : ∀ (log : Log), (∀ e ∈ log, (lookup p e.2).isSome) → ∀ n,
    (denseCol p log)[n]? = rowAt log n p := by
  intro log
  induction log with
  | nil => intro _ n; simp [denseCol, rowAt]
  | cons e rest ih =>
    obtain ⟨k, row⟩ := e
    intro h n
    have h0 := h (k, row) (by simp)
    have hrest : ∀ e ∈ rest, (lookup p e.2).isSome := fun e he => h e (by simp [he])
    simp only [denseCol]
    cases hv : lookup p row with
    | none => simp [hv] at h0
    | some v =>
      cases n with
      | zero => simp [rowAt, hv]
      | succ n =>
        have hr : rowAt ((k, row) :: rest) (n + 1) p = rowAt rest n p := by simp [rowAt]
        simp only [List.getElem?_cons_succ, hr]
        exact ih hrest n

/-! ### rebuilding the rows -/

theorem lookup_filterMap_entry {γ : Type} (g : γ → Nat → Option Val) (col : Path → γ) (i : Nat) (p : Path) :
    ∀ (paths : List Path),
    lookup p ((paths.map fun q => (q, col q)).filterMap fun pc => (g pc.2 i).map fun v => (pc.1, v))
      = if p ∈ paths then g (col p) i else none := by
  intro paths
  induction paths with
  | nil => simp [lookup]
  | cons q paths ih =>
    simp only [List.map_cons, List.filterMap_cons]
    by_cases hqp : q = p
    · subst hqp
      cases hg : g (col q) i with
      | none =>
        simp only [Option.map_none, List.mem_cons, true_or, if_true]
        rw [ih]; split <;> simp_all
      | some v => simp [lookup]
    · have hpq : ¬ p = q := fun h => hqp h.symm
      cases hg : g (col q) i with
      | none => simp only [Option.map_none, List.mem_cons, hpq, false_or]; exact ih
      | some v => simp only [Option.map_some, lookup, hqp, if_false, List.mem_cons, hpq, false_or]; exact ih

theorem rebuild_get (rowOf : Nat → Row) : ∀ (ks : List Time) (j n : Nat),
    (rebuild rowOf j ks)[n]? = (ks[n]?).map fun k => (k, rowOf (j + n)) := by
  intro ks
  induction ks with
  | nil => intro j n; simp [rebuild]
  | cons k ks ih =>
    intro j n
    cases n with
    | zero => simp [rebuild]
    | succ n =>
      simp only [rebuild, List.getElem?_cons_succ, ih]
      have : j + 1 + n = j + (n + 1) := by omega
      rw [this]

theorem rebuild_keys (rowOf : Nat → Row) : ∀ (ks : List Time) (j : Nat),
    (rebuild rowOf j ks).map (·.1) = ks := by
  intro ks
  induction ks with
  | nil => intro j; rfl
  | cons k ks ih => intro j; simp [rebuild, ih]

theorem rowAt_rebuild (rowOf : Nat → Row) (ks : List Time) (n : Nat) (p : Path) :
    rowAt (rebuild rowOf 0 ks) n p = (ks[n]?).bind fun _ => lookup p (rowOf n) := by
  unfold rowAt
  rw [rebuild_get]
  cases ks[n]? <;> simp

/-! ### the two round trips of the compressed format -/

/-- `decompress_settings (compress_settings log) = log`, for EVERY log (no side condition). -/
theorem settings_roundtrip (log : Log) : LogEq (decompressSettings (compressSettings log)) log := by
  constructor
  · simp [decompressSettings, compressSettings, rebuild_keys]
  · intro i p
    simp only [decompressSettings, compressSettings, rowAt_rebuild]
    have := lookup_filterMap_entry (fun (c : List (Nat × Val)) i => lookupIdx i c)
      (fun q => sparseCol q 0 log) i p (allPaths log)
    have h1 : rowOfSparse ((allPaths log).map fun q => (q, sparseCol q 0 log)) i
        = ((allPaths log).map fun q => (q, sparseCol q 0 log)).filterMap
            (fun pc => (lookupIdx i pc.2).map fun v => (pc.1, v)) := rfl
    rw [h1, this]
    cases hk : (log.map (·.1))[i]? with
    | none =>
      simp only [Option.bind_none]
      have : log[i]? = none := by
        simp only [List.getElem?_map, Option.map_eq_none_iff] at hk; exact hk
      simp [rowAt, this]
    | some k =>
      simp only [Option.bind_some]
      split
      · have := lookupIdx_sparseCol p log 0 i
        simp only [Nat.zero_add] at this
        exact this
      · rename_i hp
        exact (rowAt_none_of_not_mem_allPaths hp i).symm

/-- `decompress_results (compress_results log) = log` for logs in which every step reports the same
paths — which every reachable results log does (`uniform_run`). -/
theorem results_roundtrip (P : List Path) (log : Log) (hu : Uniform P log) :
    LogEq (decompressResults (compressResults log)) log := by
  constructor
  · simp [decompressResults, compressResults, rebuild_keys]
  · intro i p
    simp only [decompressResults, compressResults, rowAt_rebuild]
    have := lookup_filterMap_entry (fun (c : List Val) i => c[i]?)
      (fun q => denseCol q log) i p (allPaths log)
    have h1 : rowOfDense ((allPaths log).map fun q => (q, denseCol q log)) i
        = ((allPaths log).map fun q => (q, denseCol q log)).filterMap
            (fun pc => (pc.2[i]?).map fun v => (pc.1, v)) := rfl
    rw [h1, this]
    cases hk : (log.map (·.1))[i]? with
    | none =>
      simp only [Option.bind_none]
      have : log[i]? = none := by
        simp only [List.getElem?_map, Option.map_eq_none_iff] at hk; exact hk
      simp [rowAt, this]
    | some k =>
      simp only [Option.bind_some]
      split
      · rename_i hp
        obtain ⟨e0, he0, hpe0⟩ := (mem_allPaths p log).mp hp
        have hpP : p ∈ P := by rw [← hu e0 he0]; exact hpe0
        exact denseCol_get p log (fun e he => lookup_isSome_of_mem (by rw [hu e he]; exact hpP)) i
      · rename_i hp
        exact (rowAt_none_of_not_mem_allPaths hp i).symm

/-! ### reachable sessions -/

theorem runStep_spec (s : Session) (op : StepOp) : (runStep s op).spec = s.spec := by
  unfold runStep; split <;> rfl

theorem uniform_runStep (s : Session) (op : StepOp) (h : Uniform s.spec.paths s.resultsLog) :
    Uniform (runStep s op).spec.paths (runStep s op).resultsLog := by
  rw [runStep_spec]
  unfold runStep
  split
  · exact h
  · intro e he
    simp only [List.mem_append, List.mem_singleton] at he
    rcases he with he | rfl
    · exact h e he
    · simp [Function.comp_def]

theorem uniform_foldl (ops : List StepOp) : ∀ s : Session, Uniform s.spec.paths s.resultsLog →
    Uniform (ops.foldl runStep s).spec.paths (ops.foldl runStep s).resultsLog := by
  induction ops with
  | nil => intro s h; exact h
  | cons op ops ih => intro s h; exact ih _ (uniform_runStep s op h)

/-- invariant of every reachable session: each logged step reports exactly the requested paths -/
theorem uniform_run (spec : RunSpec) (ops : List StepOp) :
    Uniform (run spec ops).spec.paths (run spec ops).resultsLog :=
  uniform_foldl ops (begin spec) (by intro e he; simp [begin] at he)

/-- the two logs always have the same step keys (one entry per step taken) -/
theorem keys_runStep (s : Session) (op : StepOp)
    (h : s.settingsLog.map (·.1) = s.resultsLog.map (·.1)) :
    (runStep s op).settingsLog.map (·.1) = (runStep s op).resultsLog.map (·.1) := by
  unfold runStep; split
  · exact h
  · simp [h]

theorem keys_run (spec : RunSpec) (ops : List StepOp) :
    (run spec ops).settingsLog.map (·.1) = (run spec ops).resultsLog.map (·.1) := by
  unfold run
  suffices ∀ s : Session, s.settingsLog.map (·.1) = s.resultsLog.map (·.1) →
      (ops.foldl runStep s).settingsLog.map (·.1) = (ops.foldl runStep s).resultsLog.map (·.1) from
    this _ rfl
  induction ops with
  | nil => intro s h; exact h
  | cons op ops ih => intro s h; exact ih _ (keys_runStep s op h)

/-! ### session results are a function of the log up to `LogEq` -/

theorem series_eq_of_logEq (p : Path) : ∀ (a b : Log), LogEq a b → series p a = series p b := by
  intro a
  induction a with
  | nil =>
    intro b h
    have : b = [] := by simpa using h.keys.symm
    subst this; rfl
  | cons e a ih =>
    intro b h
    cases b with
    | nil => exact absurd h.keys (by simp)
    | cons f b =>
      obtain ⟨k, row⟩ := e
      obtain ⟨k', row'⟩ := f
      have hk := h.keys
      simp only [List.map_cons, List.cons.injEq] at hk
      have h0 := h.rows 0 p
      simp only [rowAt, List.getElem?_cons_zero, Option.bind_some] at h0
      have hrest : LogEq a b := ⟨hk.2, fun i q => by
        have := h.rows (i + 1) q
        simpa [rowAt] using this⟩
      simp only [series, h0, hk.1, ih b hrest]

theorem sessionResults_eq (a b : Session) (h : SessionEq a b) : sessionResults a = sessionResults b := by
  simp only [sessionResults, h.spec]
  apply List.map_congr_left
  intro p _
  rw [series_eq_of_logEq p _ _ h.results]

/-! ### adapter round trips -/

def Codec.Lawful {σ : Type} (cd : Codec σ) : Prop := ∀ e, cd.dec (cd.enc e) = some e

/-- a session whose results log is uniform (all reachable sessions are) -/
def WellFormed (s : Session) : Prop := Uniform s.spec.paths s.resultsLog

theorem unstore_store (compress : Bool) (s : Session) (hw : WellFormed s) :
    SessionEq (unstore (store compress s)) s := by
  cases compress with
  | false => simp [store, unstore]; exact SessionEq.refl s
  | true =>
    simp only [store, unstore, if_true]
    exact ⟨rfl, rfl, settings_roundtrip _, results_roundtrip _ _ hw⟩

/-- plain mode: the round trip is the identity, for every session whatsoever -/
theorem C19_roundtrip_plain {σ : Type} (cd : Codec σ) (hc : cd.Lawful) (fs : Files σ) (st : InstanceState) :
    loadInstance cd (saveInstance cd false fs st) st.id = some st := by
  simp [loadInstance, saveInstance, hc _, store, unstore]

structure StateEq (a b : InstanceState) : Prop where
  id : a.id = b.id
  timeout : a.timeout = b.timeout
  step : a.step = b.step
  state : SessionEq a.state b.state

/-- per-instance save/load, either mode -/
theorem C19_roundtrip_instance {σ : Type} (cd : Codec σ) (hc : cd.Lawful) (compress : Bool) (fs : Files σ)
    (st : InstanceState) (hw : WellFormed st.state) :
    ∃ st', loadInstance cd (saveInstance cd compress fs st) st.id = some st' ∧ StateEq st' st := by
  refine ⟨{ id := st.id, timeout := st.timeout, step := st.step,
            state := unstore (store compress st.state) }, ?_, ⟨rfl, rfl, rfl, unstore_store compress _ hw⟩⟩
  simp [loadInstance, saveInstance, hc _]

theorem saveInstance_other {σ : Type} (cd : Codec σ) (compress : Bool) (fs : Files σ) (st : InstanceState) (i : Nat)
    (h : i ≠ st.id) : loadInstance cd (saveInstance cd compress fs st) i = loadInstance cd fs i := by
  simp [loadInstance, saveInstance, h]

theorem saveState_other {σ : Type} (cd : Codec σ) (compress : Bool) (i : Nat) : ∀ (sts : List InstanceState) (fs : Files σ),
    (∀ st ∈ sts, st.id ≠ i) →
    loadInstance cd (saveState cd compress fs sts) i = loadInstance cd fs i := by
  intro sts
  induction sts with
  | nil => intro fs _; rfl
  | cons st sts ih =>
    intro fs h
    simp only [saveState, List.foldl_cons]
    have := ih (saveInstance cd compress fs st) (fun s hs => h s (by simp [hs]))
    simp only [saveState] at this
    rw [this]
    exact saveInstance_other cd compress fs st i (fun hi => h st (by simp) hi.symm)

/-- whole-server save/load: every instance (distinct ids) comes back, either mode -/
theorem C19_roundtrip_server {σ : Type} (cd : Codec σ) (hc : cd.Lawful) (compress : Bool) :
    ∀ (sts : List InstanceState) (fs : Files σ),
    (sts.map (·.id)).Nodup → (∀ st ∈ sts, WellFormed st.state) →
    ∀ st ∈ sts, ∃ st', loadInstance cd (saveState cd compress fs sts) st.id = some st' ∧ StateEq st' st := by
  intro sts
  induction sts with
  | nil => intro _ _ _ st h; simp at h
  | cons s0 sts ih =>
    intro fs hn hw st hst
    simp only [List.map_cons, List.nodup_cons] at hn
    simp only [saveState, List.foldl_cons]
    rcases List.mem_cons.mp hst with rfl | hst'
    · have hoth := saveState_other cd compress st.id sts (saveInstance cd compress fs st)
        (fun s hs he => hn.1 (by rw [← he]; exact List.mem_map.mpr ⟨s, hs, rfl⟩))
      simp only [saveState] at hoth
      rw [hoth]
      exact C19_roundtrip_instance cd hc compress fs st (hw st (by simp))
    · have := ih (saveInstance cd compress fs s0) hn.2 (fun s hs => hw s (by simp [hs])) st hst'
      simpa [saveState] using this

/-- `load_state` over a listing returns the restored state of every listed readable instance -/
theorem loadState_mem {σ : Type} (cd : Codec σ) (fs : Files σ) (listing : List Nat) (i : Nat) (st : InstanceState)
    (hi : i ∈ listing) (h : loadInstance cd fs i = some st) : st ∈ loadState cd fs listing := by
  simp only [loadState, List.mem_filterMap]
  exact ⟨i, hi, h⟩

/-! ### the property -/

/-- C19 at full strength: for every lawful codec, both modes, every run spec and every list of steps,
(1) saving the instance and loading it back yields the same scenario managers / scenarios / equations /
run spec, the same session clock, and equal per-step settings and results logs; (2) the session results
served from the restored session are those served before; (3) the same through whole-server
save/load for any number of instances with distinct ids, each with its own history. -/
def C19_full : Prop :=
  ∀ (σ : Type) (cd : Codec σ), cd.Lawful → ∀ (compress : Bool),
    (∀ (spec : RunSpec) (ops : List StepOp) (id timeout : Nat) (fs : Files σ),
      let s := run spec ops
      ∃ st', loadInstance cd (saveInstance cd compress fs (instanceState id timeout s)) id = some st' ∧
        StateEq st' (instanceState id timeout s) ∧ sessionResults st'.state = sessionResults s) ∧
    (∀ (hist : List (Nat × Nat × RunSpec × List StepOp)) (fs : Files σ),
      (hist.map (·.1)).Nodup →
      let sts := hist.map fun h => instanceState h.1 h.2.1 (run h.2.2.1 h.2.2.2)
      ∀ st ∈ sts, ∃ st' ∈ loadState cd (saveState cd compress fs sts) (sts.map (·.id)),
        StateEq st' st ∧ sessionResults st'.state = sessionResults st.state)

theorem C19_full_holds : C19_full := by
  intro σ cd hc compress
  constructor
  · intro spec ops id timeout fs s
    obtain ⟨st', h1, h2⟩ := C19_roundtrip_instance cd hc compress fs (instanceState id timeout s)
      (uniform_run spec ops)
    exact ⟨st', h1, h2, sessionResults_eq _ _ h2.state⟩
  · intro hist fs hn sts st hst
    have hids : (sts.map (·.id)).Nodup := by
      have : sts.map (·.id) = hist.map (·.1) := by
        simp [sts, instanceState, Function.comp_def]
      rw [this]; exact hn
    have hwf : ∀ st ∈ sts, WellFormed st.state := by
      intro st hst
      simp only [sts, List.mem_map] at hst
      obtain ⟨h, _, rfl⟩ := hst
      exact uniform_run _ _
    obtain ⟨st', h1, h2⟩ := C19_roundtrip_server cd hc compress sts fs hids hwf st hst
    exact ⟨st', loadState_mem cd _ _ st.id st' (List.mem_map.mpr ⟨st, hst, rfl⟩) h1, h2,
      sessionResults_eq _ _ h2.state⟩

/-- What holds for ANY session state, reachable or not: the plain mode is the identity, and the
compressed mode restores the settings log and all scalar fields (only the results log needs uniformity). -/
theorem C19_partial {σ : Type} (cd : Codec σ) (hc : cd.Lawful) (fs : Files σ) (st : InstanceState) :
    loadInstance cd (saveInstance cd false fs st) st.id = some st ∧
    LogEq (unstore (store true st.state)).settingsLog st.state.settingsLog ∧
    (unstore (store true st.state)).step = st.state.step ∧
    (unstore (store true st.state)).spec = st.state.spec :=
  ⟨C19_roundtrip_plain cd hc fs st, by simp [store, unstore]; exact settings_roundtrip _,
   by simp [store, unstore], by simp [store, unstore]⟩

/-! ### non-vacuity and the shapes named in the statement -/

/-- the identity codec is lawful, so the hypothesis `Codec.Lawful` is satisfiable -/
def idCodec : Codec Envelope := { enc := id, dec := some }
theorem idCodec_lawful : idCodec.Lawful := fun _ => rfl

def demoSpec : RunSpec := { paths := [0, 1], start := 2048, dt := 512, stop := 10240 }
def demoOps : List StepOp :=
  [⟨some [(7, "5.0")], fun p => if p = 0 then "0.0" else "5.0"⟩,
   ⟨some [], fun p => if p = 0 then "2.5" else "5.0"⟩,
   ⟨none, fun p => if p = 0 then "5.0" else "5.0"⟩,
   ⟨some [(7, "7.0"), (8, "1.0")], fun p => if p = 0 then "7.5" else "7.0"⟩]

/-- Non-vacuity: start 2.0, dt 0.5 (units of 1/1024), steps with settings / with `{}` / without
settings: the compressed round trip gives back the very same logs, keys 2.0, 2.5, 3.0, 3.5 included. -/
example : unstore (store true (run demoSpec demoOps)) = run demoSpec demoOps := by decide

example : (compressSettings (run demoSpec demoOps).settingsLog) =
    { steps := [2048, 2560, 3072, 3584], cols := [(7, [(0, "5.0"), (3, "7.0")]), (8, [(3, "1.0")])] } := by decide

#print axioms C19_full_holds
#print axioms C19_partial
#print axioms C19_roundtrip_plain
#print axioms C19_roundtrip_instance
#print axioms C19_roundtrip_server
#print axioms settings_roundtrip
#print axioms results_roundtrip
#print axioms uniform_run
#print axioms keys_run
#print axioms idCodec_lawful

end Bptk.C19
