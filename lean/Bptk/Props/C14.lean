import Bptk.Core.C14
/-!
C14 — property theorems.  Quantifier: every operation history (`List Op`), unbounded.
-/
namespace Bptk.C14

/-- Registry invariant. -/
structure Inv (r : Reg) : Prop where
  sorted : (r.agents.map (·.id)).Pairwise (· < ·)
  bound : ∀ a ∈ r.agents, a.id < r.next
  tmapOk : ∀ ty, r.tmap ty = idsOfType r.agents ty
  everSorted : r.ever.Pairwise (· < ·)
  everBound : ∀ i ∈ r.ever, i < r.next
  liveEver : ∀ a ∈ r.agents, a.id ∈ r.ever

theorem inv_init : Inv Reg.init := by
  constructor <;> simp [Reg.init, idsOfType]

theorem inv_create (r : Reg) (ty : Nat) (h : Inv r) : Inv (create r ty) := by
  constructor
  · simp only [create, List.map_append, List.map_cons, List.map_nil]
    rw [List.pairwise_append]
    refine ⟨h.sorted, by simp, ?_⟩
    intro a ha b hb
    simp at hb; subst hb
    simp at ha
    obtain ⟨x, hx, rfl⟩ := ha
    exact h.bound x hx
  · intro a ha
    simp [create] at ha ⊢
    rcases ha with ha | rfl
    · have := h.bound a ha; omega
    · simp
  · intro t
    simp only [create, idsOfType, List.filter_append, List.map_append]
    by_cases ht : t = ty
    · subst ht; simp [h.tmapOk, idsOfType]
    · have : (ty == t) = false := by simp; omega
      simp [ht, h.tmapOk, idsOfType, List.filter_cons, this]
  · simp only [create]
    rw [List.pairwise_append]
    refine ⟨h.everSorted, by simp, ?_⟩
    intro a ha b hb
    simp at hb; subst hb
    exact h.everBound a ha
  · intro i hi
    simp [create] at hi ⊢
    rcases hi with hi | rfl
    · have := h.everBound i hi; omega
    · omega
  · intro a ha
    simp [create] at ha ⊢
    rcases ha with ha | rfl
    · exact Or.inl (h.liveEver a ha)
    · simp

theorem inv_createN (n : Nat) : ∀ (r : Reg) (ty : Nat), Inv r → Inv (createN r ty n) := by
  induction n with
  | zero => intro r ty h; exact h
  | succ n ih => intro r ty h; exact ih _ _ (inv_create r ty h)

theorem inv_createSpec (spec : List (Nat × Nat)) : ∀ r, Inv r → Inv (createSpec r spec) := by
  induction spec with
  | nil => intro r h; exact h
  | cons p rest ih => intro r h; obtain ⟨ty, n⟩ := p; exact ih _ (inv_createN n r ty h)

theorem inv_clear (r : Reg) (h : Inv r) : Inv (clear r) := by
  constructor <;> simp [clear, idsOfType]
  · exact h.everSorted
  · exact h.everBound

theorem filter_filter_ty (as : List Agent) (p : Agent → Bool) (t : Nat) :
    idsOfType (as.filter p) t = ((as.filter (fun a => a.ty == t)).filter p).map (·.id) := by
  simp only [idsOfType, List.filter_filter]
  congr 1
  apply List.filter_congr
  intro a _
  exact Bool.and_comm _ _

theorem inv_delete (r : Reg) (ids : List Nat) (h : Inv r) : Inv (delete r ids) := by
  constructor
  · simp only [delete]
    exact List.Pairwise.sublist (List.Sublist.map _ List.filter_sublist) h.sorted
  · intro a ha
    simp only [delete] at ha ⊢
    exact h.bound a (List.mem_filter.mp ha).1
  · intro t
    simp only [delete]
    split
    · rfl
    · rename_i hg
      -- no agent of type `t` was removed, so filtering changes nothing for `t`
      rw [h.tmapOk, filter_filter_ty]
      simp only [idsOfType]
      congr 1
      symm
      apply List.filter_eq_self.mpr
      intro a ha
      have hat := (List.mem_filter.mp ha)
      simp only [Bool.not_eq_true']
      cases hc : ids.contains a.id
      · rfl
      exfalso
      apply hg
      simp only [List.contains_iff_mem, List.mem_map, List.mem_filter]
      refine ⟨a, ⟨hat.1, by simpa using hc⟩, ?_⟩
      simpa using hat.2
  · exact h.everSorted
  · exact h.everBound
  · intro a ha
    simp only [delete] at ha ⊢
    exact h.liveEver a (List.mem_filter.mp ha).1

theorem setState_map_id (as : List Agent) (id st : Nat) :
    (setState as id st).map (·.id) = as.map (·.id) := by
  induction as with
  | nil => rfl
  | cons a rest ih =>
    simp only [setState]; split <;> simp [ih]

theorem setState_idsOfType (as : List Agent) (id st t : Nat) :
    idsOfType (setState as id st) t = idsOfType as t := by
  induction as with
  | nil => rfl
  | cons a rest ih =>
    simp only [setState]
    split
    · simp [idsOfType, List.filter_cons]; split <;> simp
    · simp only [idsOfType, List.filter_cons] at ih ⊢; split <;> simp [ih]

theorem setState_mem (as : List Agent) (id st : Nat) (b : Agent) (hb : b ∈ setState as id st) :
    ∃ a ∈ as, a.id = b.id := by
  induction as with
  | nil => simp [setState] at hb
  | cons a rest ih =>
    simp only [setState] at hb
    split at hb
    · rcases List.mem_cons.mp hb with rfl | hb
      · exact ⟨a, by simp, rfl⟩
      · exact ⟨b, by simp [hb], rfl⟩
    · rcases List.mem_cons.mp hb with rfl | hb
      · exact ⟨b, by simp, rfl⟩
      · obtain ⟨x, hx, hxe⟩ := ih hb
        exact ⟨x, by simp [hx], hxe⟩

theorem inv_setState (r : Reg) (id st : Nat) (h : Inv r) :
    Inv { r with agents := setState r.agents id st } := by
  constructor
  · simp only [setState_map_id]; exact h.sorted
  · intro b hb
    obtain ⟨a, ha, hae⟩ := setState_mem _ _ _ _ hb
    have := h.bound a ha; simp only at *; omega
  · intro t; simp only [setState_idsOfType]; exact h.tmapOk t
  · exact h.everSorted
  · exact h.everBound
  · intro b hb
    obtain ⟨a, ha, hae⟩ := setState_mem _ _ _ _ hb
    have := h.liveEver a ha; simp only at *; rw [← hae]; exact this

theorem inv_step (r : Reg) (op : Op) (h : Inv r) : Inv (step r op) := by
  cases op with
  | create ty => exact inv_create r ty h
  | delete ids => exact inv_delete r ids h
  | configure spec => exact inv_createSpec spec _ (inv_clear r h)
  | reset => exact inv_clear r h
  | setState id st => exact inv_setState r id st h

/-- The invariant holds in every reachable state. -/
theorem inv_run (ops : List Op) : ∀ r, Inv r → Inv (run r ops) := by
  induction ops with
  | nil => intro r h; exact h
  | cons op rest ih => intro r h; exact ih _ (inv_step r op h)

theorem inv_reachable (ops : List Op) : Inv (run Reg.init ops) := inv_run ops _ inv_init

/-! ### Consequences: the queries agree with the live population -/

theorem pairwise_lt_nodup (l : List Nat) (h : l.Pairwise (· < ·)) : l.Nodup :=
  h.imp (fun hab => Nat.ne_of_lt hab)

/-- ids are unique among live agents. -/
theorem C14_ids_unique (ops : List Op) : ((run Reg.init ops).agents.map (·.id)).Nodup :=
  pairwise_lt_nodup _ (inv_reachable ops).sorted

/-- ids are never reused: the list of all ids ever handed out has no duplicates, and every future id
(`next`) is larger than all of them. -/
theorem C14_ids_never_reused (ops : List Op) :
    (run Reg.init ops).ever.Nodup ∧ ∀ i ∈ (run Reg.init ops).ever, i < (run Reg.init ops).next :=
  ⟨pairwise_lt_nodup _ (inv_reachable ops).everSorted, (inv_reachable ops).everBound⟩

theorem find_of_mem_nodup (as : List Agent) (hn : (as.map (·.id)).Nodup) (a : Agent) (ha : a ∈ as) :
    as.find? (fun b => b.id == a.id) = some a := by
  induction as with
  | nil => simp at ha
  | cons x rest ih =>
    simp only [List.map_cons, List.nodup_cons] at hn
    rcases List.mem_cons.mp ha with rfl | ha'
    · simp
    · have hne : x.id ≠ a.id := by
        intro he; apply hn.1; rw [he]; exact List.mem_map.mpr ⟨a, ha', rfl⟩
      simp [hne, ih hn.2 ha']

/-- lookup by id returns the agent with that id, or nothing when no live agent has it. -/
theorem C14_lookup (ops : List Op) (id : Nat) :
    let r := run Reg.init ops
    (∀ a, lookup r id = some a → a ∈ r.agents ∧ a.id = id) ∧
    (lookup r id = none ↔ ∀ a ∈ r.agents, a.id ≠ id) ∧
    (∀ a ∈ r.agents, lookup r a.id = some a) := by
  intro r
  refine ⟨?_, ?_, ?_⟩
  · intro a h
    have h1 := List.mem_of_find?_eq_some h
    have h2 := List.find?_some h
    exact ⟨h1, by simpa using h2⟩
  · simp [lookup, List.find?_eq_none]
  · intro a ha
    exact find_of_mem_nodup _ (C14_ids_unique ops) a ha

/-- per-type id lists contain exactly the ids of the live agents of that type (in creation order). -/
theorem C14_agent_ids (ops : List Op) (ty : Nat) :
    agentIds (run Reg.init ops) ty = (liveOfType (run Reg.init ops) ty).map (·.id) :=
  (inv_reachable ops).tmapOk ty

theorem C14_count (ops : List Op) (ty : Nat) :
    count (run Reg.init ops) ty = (liveOfType (run Reg.init ops) ty).length := by
  simp [count, (inv_reachable ops).tmapOk ty, idsOfType, liveOfType]

theorem fold_count (c : Cfg) (hc : c.countById = true) (r : Reg)
    (hn : (r.agents.map (·.id)).Nodup) (st : Nat) :
    ∀ (l : List Agent), (∀ a ∈ l, a ∈ r.agents) → ∀ n : Nat,
    (l.map (·.id)).foldl (cpsStep c r st) (some n) = some (n + (l.filter (fun a => a.state == st)).length) := by
  intro l
  induction l with
  | nil => intro _ n; simp
  | cons a rest ih =>
    intro hsub n
    have ha : a ∈ r.agents := hsub a (by simp)
    have hl : inspected c r a.id = some a.state := by
      simp [inspected, hc, lookup, find_of_mem_nodup _ hn a ha]
    simp only [List.map_cons, List.foldl_cons, cpsStep, hl]
    rw [ih (fun b hb => hsub b (by simp [hb]))]
    simp only [List.filter_cons]
    by_cases hs : a.state = st
    · simp [hs]; omega
    · simp [hs]

/-- counts per type-and-state equal the number of live agents of that type in that state, and the
query never fails — provided the per-state count looks agents up by id (`cfg.countById`). -/
theorem C14_count_per_state (c : Cfg) (hc : c.countById = true) (ops : List Op) (ty st : Nat) :
    countPerState c (run Reg.init ops) ty st
      = some (liveOfTypeState (run Reg.init ops) ty st).length := by
  have hinv := inv_reachable ops
  unfold countPerState
  rw [hinv.tmapOk ty]
  unfold idsOfType
  rw [fold_count c hc _ (C14_ids_unique ops) st _ (fun a ha => (List.mem_filter.mp ha).1) 0]
  simp [liveOfTypeState, List.filter_filter, Bool.and_comm]

/-- `next_agent` returns a live agent of the requested type and state, and none only if there is none. -/
theorem C14_next_agent (r : Reg) (ty st : Nat) :
    (∀ id, nextAgent r ty st = some id → ∃ a ∈ liveOfTypeState r ty st, a.id = id) ∧
    (nextAgent r ty st = none ↔ liveOfTypeState r ty st = []) := by
  constructor
  · intro id h
    simp only [nextAgent, Option.map_eq_some_iff] at h
    obtain ⟨a, ha, rfl⟩ := h
    exact ⟨a, List.mem_filter.mpr ⟨List.mem_of_find?_eq_some ha, List.find?_some (p := fun (a : Agent) => a.ty == ty && a.state == st) ha⟩, rfl⟩
  · simp [nextAgent, liveOfTypeState, List.find?_eq_none, List.filter_eq_nil_iff]

/-- The full property for configuration `c`. -/
def C14_full (c : Cfg) : Prop :=
  ∀ ops : List Op,
    let r := run Reg.init ops
    (r.agents.map (·.id)).Nodup ∧ r.ever.Nodup ∧ (∀ i ∈ r.ever, i < r.next) ∧
    (∀ a ∈ r.agents, lookup r a.id = some a) ∧
    (∀ id a, lookup r id = some a → a ∈ r.agents ∧ a.id = id) ∧
    (∀ ty, agentIds r ty = (liveOfType r ty).map (·.id)) ∧
    (∀ ty, count r ty = (liveOfType r ty).length) ∧
    (∀ ty st, countPerState c r ty st = some (liveOfTypeState r ty st).length)

theorem C14_full_of_good (c : Cfg) (hc : c.countById = true) : C14_full c := by
  intro ops r
  exact ⟨C14_ids_unique ops, (C14_ids_never_reused ops).1, (C14_ids_never_reused ops).2,
    (C14_lookup ops 0).2.2, fun id => (C14_lookup ops id).1, C14_agent_ids ops, C14_count ops,
    C14_count_per_state c hc ops⟩

/-- What holds whatever `agent_count_per_state` does (every query but that one). -/
theorem C14_partial (ops : List Op) :
    let r := run Reg.init ops
    (r.agents.map (·.id)).Nodup ∧ r.ever.Nodup ∧
    (∀ a ∈ r.agents, lookup r a.id = some a) ∧
    (∀ ty, agentIds r ty = (liveOfType r ty).map (·.id)) ∧
    (∀ ty, count r ty = (liveOfType r ty).length) :=
  ⟨C14_ids_unique ops, (C14_ids_never_reused ops).1, (C14_lookup ops 0).2.2, C14_agent_ids ops,
    C14_count ops⟩

/-- Negation witness for positional lookup (`agents[id]`): after deleting agent 1 of four, the
per-state count raises (IndexError on id 3) instead of answering 3. -/
theorem C14_witness_positional (c : Cfg) (hc : c.countById = false) : ¬ C14_full c := by
  intro h
  have := (h [.create 0, .create 0, .create 0, .create 0, .delete [1]]).2.2.2.2.2.2.2 0 0
  cases c; simp only at hc; subst hc
  revert this; decide

/-- Non-vacuity: a history with all five operation kinds; the per-state counts are the expected numbers. -/
example : countPerState ⟨true⟩ (run Reg.init
    [.create 0, .create 1, .create 0, .delete [0], .setState 2 5, .configure [(0, 2), (1, 1)],
     .setState 4 7, .create 1, .delete [3, 9]]) 0 7 = some 1 := by decide

#print axioms C14_full_of_good
#print axioms C14_partial
#print axioms C14_witness_positional
#print axioms C14_next_agent
#print axioms C14_lookup
#print axioms C14_ids_never_reused

end Bptk.C14
