import Bptk.Core.C14
/-!
C14 — property theorems.  Quantifier: every operation history (`List Op`), unbounded; every set of
registered factory keys; every factory (`Fac`), faithful (`attribute = key`) for the full statement,
arbitrary for `C14_partial_anyattr`.
-/
namespace Bptk.C14

/-! ### `reg` is fixed -/

theorem reg_create (f : Fac) (r : Reg) (k : Nat) : (create f r k).reg = r.reg := rfl

theorem reg_createN (f : Fac) (k : Nat) (n : Nat) : ∀ r : Reg, (createN f r k n).reg = r.reg := by
  induction n with
  | zero => intro r; rfl
  | succ n ih => intro r; simp only [createN]; rw [ih]; rfl

theorem reg_createSpec (f : Fac) (spec : List (Nat × Nat)) : ∀ r : Reg, (createSpec f r spec).reg = r.reg := by
  induction spec with
  | nil => intro r; rfl
  | cons p rest ih =>
    intro r; obtain ⟨k, n⟩ := p
    simp only [createSpec]; split
    · rw [ih, reg_createN]
    · rfl

theorem reg_step (f : Fac) (r : Reg) (op : Op) : (step f r op).reg = r.reg := by
  cases op with
  | create k => simp only [step, createOp]; split <;> rfl
  | delete ids => rfl
  | configure spec => simp only [step]; rw [reg_createSpec]; rfl
  | reset => rfl
  | setState id st => rfl
  | configureAll spec => simp only [step]; rw [reg_createSpec]; rfl

theorem reg_run (f : Fac) (ops : List Op) : ∀ r : Reg, (run f r ops).reg = r.reg := by
  induction ops with
  | nil => intro r; rfl
  | cons op rest ih => intro r; simp only [run, List.foldl_cons] at ih ⊢; rw [ih, reg_step]

/-! ### Invariants -/

/-- What holds for ARBITRARY factories. -/
structure InvU (r : Reg) : Prop where
  nodup : (r.agents.map (·.id)).Nodup
  bound : ∀ a ∈ r.agents, a.id < r.next
  everSorted : r.ever.Pairwise (· < ·)
  everBound : ∀ i ∈ r.ever, i < r.next
  liveEver : ∀ a ∈ r.agents, a.id ∈ r.ever
  tmapEver : ∀ t, ∀ i ∈ r.tmap t, i ∈ r.ever
  tmapNodup : ∀ t, (r.tmap t).Nodup
  regMapped : ∀ t, r.reg t = true → r.mapped t = true

/-- Registry invariant for faithful factories: additionally the type map is the per-type projection
of the live agents and every agent's attribute is its key. -/
structure Inv (r : Reg) : Prop extends InvU r where
  tmapOk : ∀ ty, r.tmap ty = idsOfType r.agents ty
  tyKey : ∀ a ∈ r.agents, a.ty = a.key

theorem invU_init (reg : Nat → Bool) : InvU (Reg.init reg) := by
  constructor <;> simp [Reg.init]

theorem inv_init (reg : Nat → Bool) : Inv (Reg.init reg) :=
  { toInvU := invU_init reg, tmapOk := by simp [Reg.init, idsOfType], tyKey := by simp [Reg.init] }

theorem invU_create (f : Fac) (r : Reg) (k : Nat) (h : InvU r) : InvU (create f r k) := by
  constructor
  · simp only [create, List.map_append, List.map_cons, List.map_nil]
    rw [List.nodup_append]
    refine ⟨h.nodup, by simp, ?_⟩
    intro a ha b hb
    simp at hb; subst hb
    simp at ha
    obtain ⟨x, hx, rfl⟩ := ha
    exact Nat.ne_of_lt (h.bound x hx)
  · intro a ha
    simp [create] at ha ⊢
    rcases ha with ha | rfl
    · have := h.bound a ha; omega
    · simp
  · simp only [create]
    rw [List.pairwise_append]
    refine ⟨h.everSorted, by simp, ?_⟩
    intro a ha b hb
    simp at hb; subst hb
    exact h.everBound a ha
  · intro i hi
    simp [create] at hi ⊢
    rcases hi with hi | rfl
    · have := h.everBound i hi; omega
    · omega
  · intro a ha
    simp [create] at ha ⊢
    rcases ha with ha | rfl
    · exact Or.inl (h.liveEver a ha)
    · simp
  · intro t i hi
    simp only [create] at hi ⊢
    split at hi
    · rcases List.mem_append.mp hi with hi | hi
      · exact List.mem_append.mpr (Or.inl (h.tmapEver t i hi))
      · exact List.mem_append.mpr (Or.inr hi)
    · exact List.mem_append.mpr (Or.inl (h.tmapEver t i hi))
  · intro t
    simp only [create]
    split
    · rw [List.nodup_append]
      refine ⟨h.tmapNodup t, by simp, ?_⟩
      intro a ha b hb
      simp at hb; subst hb
      exact Nat.ne_of_lt (h.everBound a (h.tmapEver t a ha))
    · exact h.tmapNodup t
  · exact h.regMapped

theorem inv_create (f : Fac) (hf : Faithful f) (r : Reg) (ty : Nat) (h : Inv r) : Inv (create f r ty) := by
  refine { toInvU := invU_create f r ty h.toInvU, tmapOk := ?_, tyKey := ?_ }
  · intro t
    simp only [create, idsOfType, List.filter_append, List.map_append, hf ty r.next]
    by_cases ht : t = ty
    · subst ht; simp [h.tmapOk, idsOfType]
    · have : (ty == t) = false := by simp; omega
      simp [ht, h.tmapOk, idsOfType, this]
  · intro a ha
    simp [create] at ha
    rcases ha with ha | rfl
    · exact h.tyKey a ha
    · exact hf ty r.next

theorem invU_createN (f : Fac) (n : Nat) : ∀ (r : Reg) (ty : Nat), InvU r → InvU (createN f r ty n) := by
  induction n with
  | zero => intro r ty h; exact h
  | succ n ih => intro r ty h; exact ih _ _ (invU_create f r ty h)

theorem inv_createN (f : Fac) (hf : Faithful f) (n : Nat) : ∀ (r : Reg) (ty : Nat), Inv r → Inv (createN f r ty n) := by
  induction n with
  | zero => intro r ty h; exact h
  | succ n ih => intro r ty h; exact ih _ _ (inv_create f hf r ty h)

theorem invU_createSpec (f : Fac) (spec : List (Nat × Nat)) : ∀ r, InvU r → InvU (createSpec f r spec) := by
  induction spec with
  | nil => intro r h; exact h
  | cons p rest ih =>
    intro r h; obtain ⟨ty, n⟩ := p
    simp only [createSpec]; split
    · exact ih _ (invU_createN f n r ty h)
    · exact h

theorem inv_createSpec (f : Fac) (hf : Faithful f) (spec : List (Nat × Nat)) : ∀ r, Inv r → Inv (createSpec f r spec) := by
  induction spec with
  | nil => intro r h; exact h
  | cons p rest ih =>
    intro r h; obtain ⟨ty, n⟩ := p
    simp only [createSpec]; split
    · exact ih _ (inv_createN f hf n r ty h)
    · exact h

theorem invU_clear (r : Reg) (h : InvU r) : InvU (clear r) := by
  constructor <;> simp [clear]
  · exact h.everSorted
  · exact h.everBound
  · exact h.regMapped

theorem inv_clear (r : Reg) (h : Inv r) : Inv (clear r) :=
  { toInvU := invU_clear r h.toInvU, tmapOk := by simp [clear, idsOfType], tyKey := by simp [clear] }

theorem filter_filter_ty (as : List Agent) (p : Agent → Bool) (t : Nat) :
    idsOfType (as.filter p) t = ((as.filter (fun a => a.ty == t)).filter p).map (·.id) := by
  simp only [idsOfType, List.filter_filter]
  congr 1
  apply List.filter_congr
  intro a _
  exact Bool.and_comm _ _

theorem idsOfType_sublist (as : List Agent) (p : Agent → Bool) (t : Nat) :
    (idsOfType (as.filter p) t).Sublist (as.map (·.id)) := by
  simp only [idsOfType]
  exact List.Sublist.map _ (List.Sublist.trans List.filter_sublist List.filter_sublist)

theorem invU_delete (r : Reg) (ids : List Nat) (h : InvU r) : InvU (delete r ids) := by
  constructor
  · simp only [delete]
    exact List.Nodup.sublist (List.Sublist.map _ List.filter_sublist) h.nodup
  · intro a ha
    simp only [delete] at ha ⊢
    exact h.bound a (List.mem_filter.mp ha).1
  · exact h.everSorted
  · exact h.everBound
  · intro a ha
    simp only [delete] at ha ⊢
    exact h.liveEver a (List.mem_filter.mp ha).1
  · intro t i hi
    simp only [delete] at hi ⊢
    split at hi
    · have hs := (idsOfType_sublist r.agents _ t).subset hi
      obtain ⟨a, ha, rfl⟩ := List.mem_map.mp hs
      exact h.liveEver a ha
    · exact h.tmapEver t i hi
  · intro t
    simp only [delete]
    split
    · exact List.Nodup.sublist (idsOfType_sublist r.agents _ t) h.nodup
    · exact h.tmapNodup t
  · intro t ht
    simp only [delete]
    simp [h.regMapped t ht]

theorem inv_delete (r : Reg) (ids : List Nat) (h : Inv r) : Inv (delete r ids) := by
  refine { toInvU := invU_delete r ids h.toInvU, tmapOk := ?_, tyKey := ?_ }
  · intro t
    simp only [delete]
    split
    · rfl
    · rename_i hg
      -- no agent of type `t` was removed, so filtering changes nothing for `t`
      rw [h.tmapOk, filter_filter_ty]
      simp only [idsOfType]
      congr 1
      symm
      apply List.filter_eq_self.mpr
      intro a ha
      have hat := (List.mem_filter.mp ha)
      simp only [Bool.not_eq_true']
      cases hc : ids.contains a.id
      · rfl
      exfalso
      apply hg
      simp only [List.contains_iff_mem, List.mem_map, List.mem_filter]
      refine ⟨a, ⟨hat.1, by simpa using hc⟩, ?_⟩
      simpa using hat.2
  · intro a ha
    simp only [delete] at ha
    exact h.tyKey a (List.mem_filter.mp ha).1

theorem setState_map_id (as : List Agent) (id st : Nat) :
    (setState as id st).map (·.id) = as.map (·.id) := by
  induction as with
  | nil => rfl
  | cons a rest ih =>
    simp only [setState]; split <;> simp [ih]

theorem setState_idsOfType (as : List Agent) (id st t : Nat) :
    idsOfType (setState as id st) t = idsOfType as t := by
  induction as with
  | nil => rfl
  | cons a rest ih =>
    simp only [setState]
    split
    · simp [idsOfType, List.filter_cons]; split <;> simp
    · simp only [idsOfType, List.filter_cons] at ih ⊢; split <;> simp [ih]

theorem setState_idsOfKey (as : List Agent) (id st t : Nat) :
    idsOfKey (setState as id st) t = idsOfKey as t := by
  induction as with
  | nil => rfl
  | cons a rest ih =>
    simp only [setState]
    split
    · simp [idsOfKey, List.filter_cons]; split <;> simp
    · simp only [idsOfKey, List.filter_cons] at ih ⊢; split <;> simp [ih]

theorem setState_mem (as : List Agent) (id st : Nat) (b : Agent) (hb : b ∈ setState as id st) :
    ∃ a ∈ as, a.id = b.id ∧ a.ty = b.ty ∧ a.key = b.key := by
  induction as with
  | nil => simp [setState] at hb
  | cons a rest ih =>
    simp only [setState] at hb
    split at hb
    · rcases List.mem_cons.mp hb with rfl | hb
      · exact ⟨a, by simp, rfl, rfl, rfl⟩
      · exact ⟨b, by simp [hb], rfl, rfl, rfl⟩
    · rcases List.mem_cons.mp hb with rfl | hb
      · exact ⟨b, by simp, rfl, rfl, rfl⟩
      · obtain ⟨x, hx, hxe⟩ := ih hb
        exact ⟨x, by simp [hx], hxe⟩

theorem invU_setState (r : Reg) (id st : Nat) (h : InvU r) :
    InvU { r with agents := setState r.agents id st } := by
  constructor
  · simp only [setState_map_id]; exact h.nodup
  · intro b hb
    obtain ⟨a, ha, hae, _⟩ := setState_mem _ _ _ _ hb
    have := h.bound a ha; simp only at *; omega
  · exact h.everSorted
  · exact h.everBound
  · intro b hb
    obtain ⟨a, ha, hae, _⟩ := setState_mem _ _ _ _ hb
    have := h.liveEver a ha; simp only at *; rw [← hae]; exact this
  · exact h.tmapEver
  · exact h.tmapNodup
  · exact h.regMapped

theorem inv_setState (r : Reg) (id st : Nat) (h : Inv r) :
    Inv { r with agents := setState r.agents id st } := by
  refine { toInvU := invU_setState r id st h.toInvU, tmapOk := ?_, tyKey := ?_ }
  · intro t; simp only [setState_idsOfType]; exact h.tmapOk t
  · intro b hb
    obtain ⟨a, ha, _, hty, hk⟩ := setState_mem _ _ _ _ hb
    rw [← hty, ← hk]; exact h.tyKey a ha

theorem invU_step (f : Fac) (r : Reg) (op : Op) (h : InvU r) : InvU (step f r op) := by
  cases op with
  | create ty => simp only [step, createOp]; split; exact invU_create f r ty h; exact h
  | delete ids => exact invU_delete r ids h
  | configure spec => exact invU_createSpec f spec _ (invU_clear r h)
  | reset => exact invU_clear r h
  | setState id st => exact invU_setState r id st h
  | configureAll spec => exact invU_createSpec f spec _ (invU_clear r h)

theorem inv_step (f : Fac) (hf : Faithful f) (r : Reg) (op : Op) (h : Inv r) : Inv (step f r op) := by
  cases op with
  | create ty => simp only [step, createOp]; split; exact inv_create f hf r ty h; exact h
  | delete ids => exact inv_delete r ids h
  | configure spec => exact inv_createSpec f hf spec _ (inv_clear r h)
  | reset => exact inv_clear r h
  | setState id st => exact inv_setState r id st h
  | configureAll spec => exact inv_createSpec f hf spec _ (inv_clear r h)

theorem invU_run (f : Fac) (ops : List Op) : ∀ r, InvU r → InvU (run f r ops) := by
  induction ops with
  | nil => intro r h; exact h
  | cons op rest ih => intro r h; exact ih _ (invU_step f r op h)

/-- The invariant holds in every reachable state. -/
theorem inv_run (f : Fac) (hf : Faithful f) (ops : List Op) : ∀ r, Inv r → Inv (run f r ops) := by
  induction ops with
  | nil => intro r h; exact h
  | cons op rest ih => intro r h; exact ih _ (inv_step f hf r op h)

theorem invU_reachable (reg : Nat → Bool) (f : Fac) (ops : List Op) : InvU (run f (Reg.init reg) ops) :=
  invU_run f ops _ (invU_init reg)

theorem inv_reachable (reg : Nat → Bool) (f : Fac) (hf : Faithful f) (ops : List Op) :
    Inv (run f (Reg.init reg) ops) := inv_run f hf ops _ (inv_init reg)

/-! ### Consequences: the queries agree with the live population -/

theorem pairwise_lt_nodup (l : List Nat) (h : l.Pairwise (· < ·)) : l.Nodup :=
  h.imp (fun hab => Nat.ne_of_lt hab)

/-- ids are unique among live agents (any factory). -/
theorem C14_ids_unique (reg : Nat → Bool) (f : Fac) (ops : List Op) :
    ((run f (Reg.init reg) ops).agents.map (·.id)).Nodup :=
  (invU_reachable reg f ops).nodup

/-- ids are never reused: the list of all ids ever handed out has no duplicates, and every future id
(`next`) is larger than all of them (any factory). -/
theorem C14_ids_never_reused (reg : Nat → Bool) (f : Fac) (ops : List Op) :
    (run f (Reg.init reg) ops).ever.Nodup ∧
      ∀ i ∈ (run f (Reg.init reg) ops).ever, i < (run f (Reg.init reg) ops).next :=
  ⟨pairwise_lt_nodup _ (invU_reachable reg f ops).everSorted, (invU_reachable reg f ops).everBound⟩

theorem find_of_mem_nodup (as : List Agent) (hn : (as.map (·.id)).Nodup) (a : Agent) (ha : a ∈ as) :
    as.find? (fun b => b.id == a.id) = some a := by
  induction as with
  | nil => simp at ha
  | cons x rest ih =>
    simp only [List.map_cons, List.nodup_cons] at hn
    rcases List.mem_cons.mp ha with rfl | ha'
    · simp
    · have hne : x.id ≠ a.id := by
        intro he; apply hn.1; rw [he]; exact List.mem_map.mpr ⟨a, ha', rfl⟩
      simp [hne, ih hn.2 ha']

/-- lookup by id returns the agent with that id, or nothing when no live agent has it (any factory). -/
theorem C14_lookup (reg : Nat → Bool) (f : Fac) (ops : List Op) (id : Nat) :
    let r := run f (Reg.init reg) ops
    (∀ a, lookup r id = some a → a ∈ r.agents ∧ a.id = id) ∧
    (lookup r id = none ↔ ∀ a ∈ r.agents, a.id ≠ id) ∧
    (∀ a ∈ r.agents, lookup r a.id = some a) := by
  intro r
  refine ⟨?_, ?_, ?_⟩
  · intro a h
    have h1 := List.mem_of_find?_eq_some h
    have h2 := List.find?_some h
    exact ⟨h1, by simpa using h2⟩
  · simp [lookup, List.find?_eq_none]
  · intro a ha
    exact find_of_mem_nodup _ (C14_ids_unique reg f ops) a ha

/-- per-type id lists contain exactly the ids of the live agents of that type (in creation order). -/
theorem C14_agent_ids (reg : Nat → Bool) (f : Fac) (hf : Faithful f) (ops : List Op) (ty : Nat) :
    agentIds (run f (Reg.init reg) ops) ty = (liveOfType (run f (Reg.init reg) ops) ty).map (·.id) :=
  (inv_reachable reg f hf ops).tmapOk ty

theorem C14_count (reg : Nat → Bool) (f : Fac) (hf : Faithful f) (ops : List Op) (ty : Nat) :
    count (run f (Reg.init reg) ops) ty = (liveOfType (run f (Reg.init reg) ops) ty).length := by
  simp [count, (inv_reachable reg f hf ops).tmapOk ty, idsOfType, liveOfType]

/-- for a registered type the queries do not raise KeyError. -/
theorem C14_mapped (reg : Nat → Bool) (f : Fac) (ops : List Op) (ty : Nat) (h : reg ty = true) :
    (run f (Reg.init reg) ops).mapped ty = true := by
  apply (invU_reachable reg f ops).regMapped
  rw [reg_run]; exact h

theorem C14_agent_ids_noerr (reg : Nat → Bool) (f : Fac) (hf : Faithful f) (ops : List Op) (ty : Nat)
    (h : reg ty = true) :
    agentIdsE (run f (Reg.init reg) ops) ty = some ((liveOfType (run f (Reg.init reg) ops) ty).map (·.id)) ∧
    countE (run f (Reg.init reg) ops) ty = some (liveOfType (run f (Reg.init reg) ops) ty).length := by
  have hm := C14_mapped reg f ops ty h
  have h1 := C14_agent_ids reg f hf ops ty
  have h2 := C14_count reg f hf ops ty
  simp only [agentIds, count] at h1 h2
  simp [agentIdsE, countE, hm, h1]

theorem fold_count (c : Cfg) (hc : c.countById = true) (r : Reg)
    (hn : (r.agents.map (·.id)).Nodup) (st : Nat) :
    ∀ (l : List Agent), (∀ a ∈ l, a ∈ r.agents) → ∀ n : Nat,
    (l.map (·.id)).foldl (cpsStep c r st) (some n) = some (n + (l.filter (fun a => a.state == st)).length) := by
  intro l
  induction l with
  | nil => intro _ n; simp
  | cons a rest ih =>
    intro hsub n
    have ha : a ∈ r.agents := hsub a (by simp)
    have hl : inspected c r a.id = some a.state := by
      simp [inspected, hc, lookup, find_of_mem_nodup _ hn a ha]
    simp only [List.map_cons, List.foldl_cons, cpsStep, hl]
    rw [ih (fun b hb => hsub b (by simp [hb]))]
    simp only [List.filter_cons]
    by_cases hs : a.state = st
    · simp [hs]; omega
    · simp [hs]

/-- counts per type-and-state equal the number of live agents of that type in that state, and the
query never fails — provided the per-state count looks agents up by id (`cfg.countById`). -/
theorem C14_count_per_state (c : Cfg) (hc : c.countById = true) (reg : Nat → Bool) (f : Fac)
    (hf : Faithful f) (ops : List Op) (ty st : Nat) (h : reg ty = true) :
    countPerState c (run f (Reg.init reg) ops) ty st
      = some (liveOfTypeState (run f (Reg.init reg) ops) ty st).length := by
  have hinv := inv_reachable reg f hf ops
  unfold countPerState
  rw [if_pos (C14_mapped reg f ops ty h), hinv.tmapOk ty]
  unfold idsOfType
  rw [fold_count c hc _ (C14_ids_unique reg f ops) st _ (fun a ha => (List.mem_filter.mp ha).1) 0]
  simp [liveOfTypeState, List.filter_filter, Bool.and_comm]

/-- `next_agent` returns a live agent whose attribute and state are the requested ones — the FIRST
such agent in list order — and none only if there is none (any state, any factory). -/
theorem C14_next_agent (r : Reg) (ty st : Nat) :
    (∀ id, nextAgent r ty st = some id → ∃ a ∈ liveOfTypeState r ty st, a.id = id) ∧
    (nextAgent r ty st = none ↔ liveOfTypeState r ty st = []) ∧
    nextAgent r ty st = (liveOfTypeState r ty st).head?.map (·.id) := by
  refine ⟨?_, ?_, ?_⟩
  · intro id h
    simp only [nextAgent, Option.map_eq_some_iff] at h
    obtain ⟨a, ha, rfl⟩ := h
    exact ⟨a, List.mem_filter.mpr ⟨List.mem_of_find?_eq_some ha, List.find?_some (p := fun (a : Agent) => a.ty == ty && a.state == st) ha⟩, rfl⟩
  · simp [nextAgent, liveOfTypeState, List.find?_eq_none, List.filter_eq_nil_iff]
  · simp [nextAgent, liveOfTypeState, List.head?_filter]

/-! ### `random_agents` -/

/-- `round(u * hi)` with `0 ≤ u = p/q ≤ 1` lies in `0..hi`: `get_random_integer(0, n-1)` is a valid
index into a list of length `n ≥ 1`. -/
theorem roundHE_le (p q m : Nat) (hq : 0 < q) (hp : p ≤ q) : roundHE (p * m) q ≤ m := by
  have h1 := Nat.div_add_mod (p * m) q
  have h2 := Nat.mod_lt (p * m) hq
  have h3 : p * m ≤ q * m := Nat.mul_le_mul_right m hp
  have hd : p * m / q ≤ m := Nat.div_le_of_le_mul h3
  unfold roundHE
  simp only
  by_cases he : p * m / q = m
  · rw [he] at h1 ⊢
    have h0 : p * m % q = 0 := by omega
    simp [h0, hq]
  · split
    · exact hd
    · split
      · omega
      · split <;> omega

theorem randInt_lt (u : Nat × Nat) (n : Nat) (hq : 0 < u.2) (hp : u.1 ≤ u.2) (hn : 0 < n) :
    randInt u (n - 1) < n := by
  have := roundHE_le u.1 u.2 (n - 1) hq hp
  simp only [randInt]; omega

theorem pick_spec (m : List Nat) (idx : Nat → Nat) :
    ∀ k, (∀ j, j < k → idx j < m.length) →
      ∃ l, pick m idx k = some l ∧ l.length = k ∧ ∀ x ∈ l, x ∈ m := by
  intro k
  induction k with
  | zero => intro _; exact ⟨[], rfl, rfl, by simp⟩
  | succ k ih =>
    intro h
    obtain ⟨l, hl, hlen, hmem⟩ := ih (fun j hj => h j (by omega))
    have hk := h k (by omega)
    refine ⟨l ++ [m[idx k]], ?_, by simp [hlen], ?_⟩
    · simp [pick, hl, List.getElem?_eq_getElem hk]
    · intro x hx
      rcases List.mem_append.mp hx with hx | hx
      · exact hmem x hx
      · simp at hx; subst hx; exact List.getElem_mem hk

/-- with in-range indices `random_agents` does not raise, returns `min(num, n)` ids, all from the
type's id list. -/
theorem randomAgentsIdx_spec (r : Reg) (ty num : Nat) (idx : Nat → Nat) (hm : r.mapped ty = true)
    (hidx : ∀ j, j < min num (r.tmap ty).length → idx j < (r.tmap ty).length) :
    ∃ l, randomAgentsIdx r ty num idx = some l ∧ l.length = min num (r.tmap ty).length ∧
      ∀ x ∈ l, x ∈ r.tmap ty := by
  simp only [randomAgentsIdx, hm, if_true]
  exact pick_spec _ idx _ hidx

/-- a well-formed random source: every `random()` value `p/q` lies in [0, 1]. -/
def UnitDraws (us : Nat → Nat × Nat) : Prop := ∀ j, 0 < (us j).2 ∧ (us j).1 ≤ (us j).2

theorem randomAgents_spec (r : Reg) (ty num : Nat) (us : Nat → Nat × Nat) (hm : r.mapped ty = true)
    (hu : UnitDraws us) :
    ∃ l, randomAgents r ty num us = some l ∧ l.length = min num (r.tmap ty).length ∧
      ∀ x ∈ l, x ∈ r.tmap ty := by
  apply randomAgentsIdx_spec r ty num _ hm
  intro j hj
  exact randInt_lt (us j) _ (hu j).1 (hu j).2 (by omega)

theorem randomAgents_unmapped (r : Reg) (ty num : Nat) (us : Nat → Nat × Nat) (hm : r.mapped ty = false) :
    randomAgents r ty num us = none := by
  simp [randomAgents, randomAgentsIdx, hm]

/-- `random_agents(type, num)` in every reachable state, for every random source: never raises for a
registered type, returns exactly `min(num, number of live agents of the type)` ids, each the id of a
live agent of that type (so `[]` when there are none). -/
theorem C14_random_agents (reg : Nat → Bool) (f : Fac) (hf : Faithful f) (ops : List Op) (ty num : Nat)
    (us : Nat → Nat × Nat) (h : reg ty = true) (hu : UnitDraws us) :
    let r := run f (Reg.init reg) ops
    ∃ l, randomAgents r ty num us = some l ∧ l.length = min num (liveOfType r ty).length ∧
      ∀ x ∈ l, ∃ a ∈ liveOfType r ty, a.id = x := by
  intro r
  obtain ⟨l, h1, h2, h3⟩ := randomAgents_spec r ty num us (C14_mapped reg f ops ty h) hu
  have ht : r.tmap ty = (liveOfType r ty).map (·.id) := C14_agent_ids reg f hf ops ty
  refine ⟨l, h1, ?_, ?_⟩
  · rw [h2, ht]; simp
  · intro x hx
    have := h3 x hx
    rw [ht] at this
    obtain ⟨a, ha, rfl⟩ := List.mem_map.mp this
    exact ⟨a, ha, rfl⟩

/-! ### The full property -/

/-- The full property for configuration `c`: every set of registered keys, every faithful factory,
every history. -/
def C14_full (c : Cfg) : Prop :=
  ∀ (reg : Nat → Bool) (f : Fac), Faithful f → ∀ ops : List Op,
    let r := run f (Reg.init reg) ops
    (r.agents.map (·.id)).Nodup ∧ r.ever.Nodup ∧ (∀ i ∈ r.ever, i < r.next) ∧
    (∀ a ∈ r.agents, lookup r a.id = some a) ∧
    (∀ id a, lookup r id = some a → a ∈ r.agents ∧ a.id = id) ∧
    (∀ ty, agentIds r ty = (liveOfType r ty).map (·.id)) ∧
    (∀ ty, count r ty = (liveOfType r ty).length) ∧
    (∀ ty st, reg ty = true → countPerState c r ty st = some (liveOfTypeState r ty st).length) ∧
    -- wave 2
    (∀ ty, reg ty = true → agentIdsE r ty = some ((liveOfType r ty).map (·.id)) ∧
                            countE r ty = some (liveOfType r ty).length) ∧
    (∀ ty st, nextAgent r ty st = (liveOfTypeState r ty st).head?.map (·.id)) ∧
    (∀ ty num us, reg ty = true → UnitDraws us →
        ∃ l, randomAgents r ty num us = some l ∧ l.length = min num (liveOfType r ty).length ∧
          ∀ x ∈ l, ∃ a ∈ liveOfType r ty, a.id = x)

theorem C14_full_of_good (c : Cfg) (hc : c.countById = true) : C14_full c := by
  intro reg f hf ops r
  exact ⟨C14_ids_unique reg f ops, (C14_ids_never_reused reg f ops).1, (C14_ids_never_reused reg f ops).2,
    (C14_lookup reg f ops 0).2.2, fun id => (C14_lookup reg f ops id).1, C14_agent_ids reg f hf ops,
    C14_count reg f hf ops, fun ty st h => C14_count_per_state c hc reg f hf ops ty st h,
    fun ty h => C14_agent_ids_noerr reg f hf ops ty h,
    fun ty st => (C14_next_agent _ ty st).2.2,
    fun ty num us h hu => C14_random_agents reg f hf ops ty num us h hu⟩

/-- What holds whatever `agent_count_per_state` does (every query but that one). -/
theorem C14_partial (reg : Nat → Bool) (f : Fac) (hf : Faithful f) (ops : List Op) :
    let r := run f (Reg.init reg) ops
    (r.agents.map (·.id)).Nodup ∧ r.ever.Nodup ∧
    (∀ a ∈ r.agents, lookup r a.id = some a) ∧
    (∀ ty, agentIds r ty = (liveOfType r ty).map (·.id)) ∧
    (∀ ty, count r ty = (liveOfType r ty).length) :=
  ⟨C14_ids_unique reg f ops, (C14_ids_never_reused reg f ops).1, (C14_lookup reg f ops 0).2.2,
    C14_agent_ids reg f hf ops, C14_count reg f hf ops⟩

theorem faithful_id : Faithful Fac.id := fun _ _ => rfl

/-- Negation witness for positional lookup (`agents[id]`): after deleting agent 1 of four, the
per-state count raises (IndexError on id 3) instead of answering 3. -/
theorem C14_witness_positional (c : Cfg) (hc : c.countById = false) : ¬ C14_full c := by
  intro h
  have := (h (fun _ => true) Fac.id faithful_id
    [.create 0, .create 0, .create 0, .create 0, .delete [1]]).2.2.2.2.2.2.2.1 0 0 rfl
  obtain ⟨a, b, d⟩ := c; simp only at hc; subst hc
  revert this; cases b <;> cases d <;> decide

/-! ### Arbitrary factories (attribute ≠ key allowed) -/

/-- What holds for EVERY factory, whatever `agent_type` its agents carry: ids unique and never
reused, lookup by id exact, every listed id was handed out earlier and no list has duplicates,
`next_agent` is the first live agent with the requested attribute and state, and `random_agents`
returns `min(num, len(list))` members of the type's id list without raising when the key is in the
map. -/
theorem C14_partial_anyattr (reg : Nat → Bool) (f : Fac) (ops : List Op) :
    let r := run f (Reg.init reg) ops
    (r.agents.map (·.id)).Nodup ∧ r.ever.Nodup ∧ (∀ i ∈ r.ever, i < r.next) ∧
    (∀ a ∈ r.agents, lookup r a.id = some a) ∧
    (∀ id a, lookup r id = some a → a ∈ r.agents ∧ a.id = id) ∧
    (∀ id, lookup r id = none ↔ ∀ a ∈ r.agents, a.id ≠ id) ∧
    (∀ ty, ∀ i ∈ agentIds r ty, i ∈ r.ever) ∧
    (∀ ty, (agentIds r ty).Nodup) ∧
    (∀ ty, reg ty = true → r.mapped ty = true) ∧
    (∀ ty st, nextAgent r ty st = (liveOfTypeState r ty st).head?.map (·.id)) ∧
    (∀ ty num us, r.mapped ty = true → UnitDraws us →
        ∃ l, randomAgents r ty num us = some l ∧ l.length = min num (count r ty) ∧
          ∀ x ∈ l, x ∈ agentIds r ty) := by
  intro r
  have hi := invU_reachable reg f ops
  exact ⟨C14_ids_unique reg f ops, (C14_ids_never_reused reg f ops).1, (C14_ids_never_reused reg f ops).2,
    (C14_lookup reg f ops 0).2.2, fun id => (C14_lookup reg f ops id).1,
    fun id => (C14_lookup reg f ops id).2.1, hi.tmapEver,
    fun ty => hi.tmapNodup ty, fun ty h => C14_mapped reg f ops ty h,
    fun ty st => (C14_next_agent _ ty st).2.2,
    fun ty num us hm hu => randomAgents_spec r ty num us hm hu⟩

def Op.isDelete : Op → Bool
  | .delete _ => true
  | _ => false

theorem key_create (f : Fac) (r : Reg) (k : Nat) (h : ∀ t, r.tmap t = idsOfKey r.agents t) :
    ∀ t, (create f r k).tmap t = idsOfKey (create f r k).agents t := by
  intro t
  simp only [create, idsOfKey, List.filter_append, List.map_append]
  by_cases ht : t = k
  · subst ht; simp [h, idsOfKey]
  · have : (k == t) = false := by simp; omega
    simp [ht, h, idsOfKey, this]

theorem key_createN (f : Fac) (k : Nat) (n : Nat) : ∀ r : Reg, (∀ t, r.tmap t = idsOfKey r.agents t) →
    ∀ t, (createN f r k n).tmap t = idsOfKey (createN f r k n).agents t := by
  induction n with
  | zero => intro r h; exact h
  | succ n ih => intro r h; exact ih _ (key_create f r k h)

theorem key_createSpec (f : Fac) (spec : List (Nat × Nat)) : ∀ r : Reg, (∀ t, r.tmap t = idsOfKey r.agents t) →
    ∀ t, (createSpec f r spec).tmap t = idsOfKey (createSpec f r spec).agents t := by
  induction spec with
  | nil => intro r h; exact h
  | cons p rest ih =>
    intro r h; obtain ⟨k, n⟩ := p
    simp only [createSpec]; split
    · exact ih _ (key_createN f k n r h)
    · exact h

theorem key_run (f : Fac) (ops : List Op) : ∀ r : Reg, (∀ t, r.tmap t = idsOfKey r.agents t) →
    ops.all (fun o => !o.isDelete) = true →
    ∀ t, (run f r ops).tmap t = idsOfKey (run f r ops).agents t := by
  induction ops with
  | nil => intro r h _; exact h
  | cons op rest ih =>
    intro r h hnd
    simp only [List.all_cons, Bool.and_eq_true] at hnd
    apply ih _ _ hnd.2
    cases op with
    | create k => simp only [step, createOp]; split; exact key_create f r k h; exact h
    | delete ids => simp [Op.isDelete] at hnd
    | configure spec => exact key_createSpec f spec _ (by simp [clear, idsOfKey])
    | reset => simp [step, clear, idsOfKey]
    | setState id st => intro t; simp only [step, setState_idsOfKey]; exact h t
    | configureAll spec => exact key_createSpec f spec _ (by simp [clear, idsOfKey])

/-- As long as nothing is deleted, the per-type lists are KEY-based for every factory:
`agent_ids(k)` = ids of the live agents created under key `k`, whatever their attribute. -/
theorem C14_anyattr_nodelete (reg : Nat → Bool) (f : Fac) (ops : List Op)
    (hnd : ops.all (fun o => !o.isDelete) = true) (k : Nat) :
    agentIds (run f (Reg.init reg) ops) k = (liveOfKey (run f (Reg.init reg) ops) k).map (·.id) :=
  key_run f ops _ (by simp [Reg.init, idsOfKey]) hnd k

/-- a factory registered under key 0 whose agents say `agent_type = 1`. -/
def facOther : Fac := fun k _ => if k = 0 then 1 else k
/-- a factory whose agents carry the unregistered attribute 7. -/
def facUnreg : Fac := fun k _ => if k = 0 then 7 else k
/-- under key 0: the agent with id 0 says 1, later ones are faithful. -/
def facFirst : Fac := fun k i => if k = 0 ∧ i = 0 then 1 else k

def reg2 : Nat → Bool := fun t => t < 2

/-- Witness 1 (stale id): key 0, attribute 1; deleting the only agent rebuilds the list of type 1 and
leaves id 0 in the list of type 0: the count is 1 with no live agent, and the per-state count raises
(`None.state`). -/
theorem C14_witness_anyattr_stale :
    let r := run facOther (Reg.init reg2) [.create 0, .delete [0]]
    r.agents = [] ∧ agentIdsE r 0 = some [0] ∧ countE r 0 = some 1 ∧
      countPerState ⟨true, true, true⟩ r 0 0 = none ∧ randomAgents r 0 1 (fun _ => (0, 1)) = some [0] := by
  decide

/-- Witness 2 (live agent in no list): agents 0 (attribute 1) and 1 (attribute 0) under key 0;
deleting agent 1 rebuilds type 0 from the attributes: agent 0 is alive but listed nowhere. -/
theorem C14_witness_anyattr_lost :
    let r := run facFirst (Reg.init reg2) [.create 0, .create 0, .delete [1]]
    r.agents.map (·.id) = [0] ∧ agentIdsE r 0 = some [] ∧ agentIdsE r 1 = some [] := by
  decide

/-- Witness 3 (new key): an unregistered attribute becomes a key of the map after a deletion
(`agent_ids(7)` raised KeyError before, answers `[]` afterwards); creating under it still raises. -/
theorem C14_witness_anyattr_newkey :
    agentIdsE (run facUnreg (Reg.init reg2) [.create 0]) 7 = none ∧
    agentIdsE (run facUnreg (Reg.init reg2) [.create 0, .delete [0]]) 7 = some [] ∧
    raises (run facUnreg (Reg.init reg2) [.create 0, .delete [0]]) (.create 7) = true := by
  decide

/-- Hence the hypothesis `Faithful f` of `C14_full` cannot be dropped: the count clause fails for an
unfaithful factory (and the count-per-state query raises). -/
theorem C14_full_needs_faithful :
    ¬ (∀ (reg : Nat → Bool) (f : Fac) (ops : List Op) (ty : Nat),
        count (run f (Reg.init reg) ops) ty = (liveOfType (run f (Reg.init reg) ops) ty).length) := by
  intro h
  have := h reg2 facOther [.create 0, .delete [0]] 0
  revert this; decide

/-! ### Caller mutation of the list returned by `agent_ids` (outside the property's operations) -/

theorem opsOf_all (ops : List OpX) (h : ops.all OpX.isOp = true) (c : Cfg) (f : Fac) :
    ∀ r, runX c f r ops = run f r (opsOf ops) := by
  induction ops with
  | nil => intro r; rfl
  | cons o rest ih =>
    intro r
    simp only [List.all_cons, Bool.and_eq_true] at h
    cases o with
    | op o => simp only [runX, List.foldl_cons, stepX, opsOf, run] at ih ⊢; exact ih h.2 _
    | callerAppend ty x => simp [OpX.isOp] at h

/-- When `agent_ids` returns a copy, caller mutations are invisible: any extended history reaches the
state of its proper operations, so the whole of `C14_full` applies to it. -/
def AliasSafe (c : Cfg) : Prop := ∀ (f : Fac) (ops : List OpX) (r : Reg), runX c f r ops = run f r (opsOf ops)

theorem C14_alias_safe (c : Cfg) (hc : c.idsAliased = false) : AliasSafe c := by
  intro f ops
  induction ops with
  | nil => intro r; rfl
  | cons o rest ih =>
    intro r
    cases o with
    | op o => simp only [runX, List.foldl_cons, stepX, opsOf, run] at ih ⊢; exact ih _
    | callerAppend ty x =>
      simp only [runX, List.foldl_cons, stepX, opsOf, hc, Bool.false_and] at ih ⊢
      exact ih _

/-- Histories made of the property's own operations never depend on the aliasing fact. -/
theorem C14_alias_irrelevant (c : Cfg) (f : Fac) (ops : List Op) (r : Reg) :
    runX c f r (ops.map OpX.op) = run f r ops := by
  induction ops generalizing r with
  | nil => rfl
  | cons o rest ih => simp only [List.map_cons, runX, List.foldl_cons, stepX, run] at ih ⊢; exact ih _

/-- With the internal list handed out, one caller append corrupts the registry: `agent_count` is 1
with no live agent, and the per-state count raises. -/
def AliasCorrupts (c : Cfg) : Prop :=
  let r := runX c Fac.id (Reg.init reg2) [.callerAppend 0 5]
  count r 0 = 1 ∧ (liveOfType r 0).length = 0 ∧ countPerState ⟨true, true, true⟩ r 0 0 = none

theorem C14_alias_witness (c : Cfg) (hc : c.idsAliased = true) : AliasCorrupts c := by
  unfold AliasCorrupts
  obtain ⟨a, b, d⟩ := c; simp only at hc; subst hc
  cases a <;> cases d <;> decide

/-! ### Aliased arguments (wave 4): `delete_agents(agent_ids(t))` -/

theorem runD_eq_run (c : Cfg) (hc : c.deleteArgSnapshot = true) (f : Fac) (ops : List OpD) :
    ∀ r, runD c f r ops = run f r (expandD f r ops) := by
  induction ops with
  | nil => intro r; rfl
  | cons o rest ih =>
    intro r
    cases o with
    | op o => simp only [runD, List.foldl_cons, stepD, expandD, run] at ih ⊢; exact ih _
    | deleteOwn ty =>
      simp only [runD, List.foldl_cons, stepD, expandD, hc, Bool.true_or, if_true] at ih ⊢
      split
      · simp only [run, List.foldl_cons, step] at ih ⊢; exact ih _
      · exact ih _

/-- The registry clauses for histories that may pass the registry's own id lists to `delete_agents`. -/
def C14_full_aliased (c : Cfg) : Prop :=
  ∀ (reg : Nat → Bool) (f : Fac), Faithful f → ∀ ops : List OpD,
    let r := runD c f (Reg.init reg) ops
    (r.agents.map (·.id)).Nodup ∧
    (∀ a ∈ r.agents, lookup r a.id = some a) ∧
    (∀ ty, agentIds r ty = (liveOfType r ty).map (·.id)) ∧
    (∀ ty, count r ty = (liveOfType r ty).length)

/-- When `delete_agents` is a function of the value of its argument, passing the registry's own list is the same
as passing a copy: every aliased history is a history of value operations (`runD_eq_run`), and all of `C14_full`
applies to it. -/
theorem C14_full_aliased_of_snapshot (c : Cfg) (hc : c.deleteArgSnapshot = true) : C14_full_aliased c := by
  intro reg f hf ops r
  have hr : r = run f (Reg.init reg) (expandD f (Reg.init reg) ops) := runD_eq_run c hc f ops _
  rw [hr]
  exact ⟨C14_ids_unique reg f _, (C14_lookup reg f _ 0).2.2, C14_agent_ids reg f hf _, C14_count reg f hf _⟩

/-- … and deleting a type through its own id list empties it: no live agent of the type, nothing listed. -/
theorem C14_delete_own_ids (c : Cfg) (hc : c.deleteArgSnapshot = true) (reg : Nat → Bool) (f : Fac) (hf : Faithful f)
    (ops : List OpD) (ty : Nat) (hty : reg ty = true) :
    let r := runD c f (Reg.init reg) (ops ++ [.deleteOwn ty])
    agentIds r ty = [] ∧ liveOfType r ty = [] := by
  intro r
  have hall := C14_full_aliased_of_snapshot c hc reg f hf
  have h0 := (hall ops).2.2.1 ty
  have h1 := (hall (ops ++ [.deleteOwn ty])).2.2.1 ty
  have hm : (runD c f (Reg.init reg) ops).mapped ty = true := by
    rw [runD_eq_run c hc]; exact C14_mapped reg f _ ty hty
  have hlive : liveOfType r ty = [] := by
    show liveOfType (runD c f (Reg.init reg) (ops ++ [.deleteOwn ty])) ty = []
    simp only [runD, List.foldl_append, List.foldl_cons, List.foldl_nil, stepD, hc, Bool.true_or, if_true]
    simp only [runD] at hm h0
    rw [hm]
    simp only [if_true, liveOfType, delete, List.filter_filter]
    rw [List.filter_eq_nil_iff]
    intro a ha
    simp only [Bool.and_eq_true, beq_iff_eq, Bool.not_eq_true', not_and]
    intro hty' 
    have : a.id ∈ (liveOfType (List.foldl (stepD c f) (Reg.init reg) ops) ty).map (·.id) :=
      List.mem_map.mpr ⟨a, List.mem_filter.mpr ⟨ha, by simpa using hty'⟩, rfl⟩
    rw [← h0] at this
    simp only [agentIds] at this
    simpa using this
  exact ⟨by rw [h1, hlive]; rfl, hlive⟩

/-- Kernel-checked witness of the mechanism "ids are removed in place while the argument is iterated": after
creating two agents of one type, `delete_agents(agent_ids(type))` leaves a dead id listed — the count is 1 with no
live agent, the lookup of the listed id finds nothing, the per-state count raises. -/
theorem C14_witness_delete_inplace (c : Cfg) (hs : c.deleteArgSnapshot = false) (ha : c.idsAliased = true) :
    ¬ C14_full_aliased c := by
  intro h
  have := (h reg2 Fac.id faithful_id [.op (.create 0), .op (.create 0), .deleteOwn 0]).2.2.2 0
  obtain ⟨a, b, d⟩ := c; simp only at hs ha; subst hs; subst ha
  revert this; cases a <;> decide

theorem C14_witness_delete_inplace_detail :
    let r := runD ⟨true, true, false⟩ Fac.id (Reg.init reg2) [.op (.create 0), .op (.create 0), .deleteOwn 0]
    agentIds r 0 = [1] ∧ r.agents = [] ∧ lookup r 1 = none ∧ countPerState ⟨true, true, false⟩ r 0 0 = none := by
  decide

/-! ### Flat histories keep the lists ordered by id (re-entrant creation does not: children are registered first) -/

structure SortedReg (r : Reg) : Prop where
  agents : (r.agents.map (·.id)).Pairwise (· < ·)
  tmap : ∀ t, (r.tmap t).Pairwise (· < ·)

theorem sorted_create (f : Fac) (r : Reg) (k : Nat) (h : InvU r) (hs : SortedReg r) : SortedReg (create f r k) := by
  constructor
  · simp only [create, List.map_append, List.map_cons, List.map_nil]
    rw [List.pairwise_append]
    refine ⟨hs.agents, by simp, ?_⟩
    intro a ha b hb
    simp at hb; subst hb
    simp at ha
    obtain ⟨x, hx, rfl⟩ := ha
    exact h.bound x hx
  · intro t
    simp only [create]
    split
    · rw [List.pairwise_append]
      refine ⟨hs.tmap t, by simp, ?_⟩
      intro a ha b hb
      simp at hb; subst hb
      exact h.everBound a (h.tmapEver t a ha)
    · exact hs.tmap t

theorem sorted_createN (f : Fac) (n : Nat) : ∀ (r : Reg) (ty : Nat), InvU r → SortedReg r → SortedReg (createN f r ty n) := by
  induction n with
  | zero => intro r ty _ hs; exact hs
  | succ n ih => intro r ty h hs; exact ih _ _ (invU_create f r ty h) (sorted_create f r ty h hs)

theorem sorted_createSpec (f : Fac) (spec : List (Nat × Nat)) :
    ∀ r, InvU r → SortedReg r → SortedReg (createSpec f r spec) := by
  induction spec with
  | nil => intro r _ hs; exact hs
  | cons p rest ih =>
    intro r h hs; obtain ⟨ty, n⟩ := p
    simp only [createSpec]; split
    · exact ih _ (invU_createN f n r ty h) (sorted_createN f n r ty h hs)
    · exact hs

theorem sorted_step (f : Fac) (r : Reg) (op : Op) (h : InvU r) (hs : SortedReg r) : SortedReg (step f r op) := by
  have hclear : SortedReg (clear r) := ⟨by simp [clear], by simp [clear]⟩
  cases op with
  | create ty => simp only [step, createOp]; split; exact sorted_create f r ty h hs; exact hs
  | delete ids =>
    constructor
    · exact List.Pairwise.sublist (List.Sublist.map _ List.filter_sublist) hs.agents
    · intro t
      simp only [step, delete]
      split
      · exact List.Pairwise.sublist (idsOfType_sublist r.agents _ t) hs.agents
      · exact hs.tmap t
  | configure spec => exact sorted_createSpec f spec _ (invU_clear r h) hclear
  | reset => exact hclear
  | setState id st => exact ⟨by simp only [step, setState_map_id]; exact hs.agents, hs.tmap⟩
  | configureAll spec => exact sorted_createSpec f spec _ (invU_clear r h) hclear

/-- without re-entrant creation, `model.agents` and every per-type id list are strictly increasing in the id -/
theorem C14_flat_sorted (reg : Nat → Bool) (f : Fac) (ops : List Op) : SortedReg (run f (Reg.init reg) ops) := by
  have : ∀ (ops : List Op) (r : Reg), InvU r → SortedReg r → SortedReg (run f r ops) := by
    intro ops
    induction ops with
    | nil => intro r _ hs; exact hs
    | cons op rest ih => intro r h hs; exact ih _ (invU_step f r op h) (sorted_step f r op h hs)
  exact this ops _ (invU_init reg) ⟨by simp [Reg.init], by simp [Reg.init]⟩

/-! ### The clauses of `C14_full` from the invariant of ONE state -/

def RegClauses (c : Cfg) (r : Reg) : Prop :=
    (r.agents.map (·.id)).Nodup ∧ r.ever.Nodup ∧ (∀ i ∈ r.ever, i < r.next) ∧
    (∀ a ∈ r.agents, lookup r a.id = some a) ∧
    (∀ id a, lookup r id = some a → a ∈ r.agents ∧ a.id = id) ∧
    (∀ ty, agentIds r ty = (liveOfType r ty).map (·.id)) ∧
    (∀ ty, count r ty = (liveOfType r ty).length) ∧
    (∀ ty st, r.reg ty = true → countPerState c r ty st = some (liveOfTypeState r ty st).length) ∧
    (∀ ty, r.reg ty = true → agentIdsE r ty = some ((liveOfType r ty).map (·.id)) ∧
                              countE r ty = some (liveOfType r ty).length) ∧
    (∀ ty st, nextAgent r ty st = (liveOfTypeState r ty st).head?.map (·.id)) ∧
    (∀ ty num us, r.reg ty = true → UnitDraws us →
        ∃ l, randomAgents r ty num us = some l ∧ l.length = min num (liveOfType r ty).length ∧
          ∀ x ∈ l, ∃ a ∈ liveOfType r ty, a.id = x)

theorem clauses_of_inv (c : Cfg) (hc : c.countById = true) (r : Reg) (h : Inv r) : RegClauses c r := by
  have hids : ∀ ty, r.tmap ty = (liveOfType r ty).map (·.id) := h.tmapOk
  have hcnt : ∀ ty, (r.tmap ty).length = (liveOfType r ty).length := by intro ty; rw [hids]; simp
  refine ⟨h.nodup, pairwise_lt_nodup _ h.everSorted, h.everBound,
    fun a ha => find_of_mem_nodup _ h.nodup a ha, ?_, hids, hcnt, ?_, ?_, fun ty st => (C14_next_agent r ty st).2.2, ?_⟩
  · intro id a hl
    have h1 := List.mem_of_find?_eq_some hl
    have h2 := List.find?_some hl
    exact ⟨h1, by simpa using h2⟩
  · intro ty st hreg
    unfold countPerState
    rw [if_pos (h.regMapped ty hreg), h.tmapOk ty]
    unfold idsOfType
    rw [fold_count c hc _ h.nodup st _ (fun a ha => (List.mem_filter.mp ha).1) 0]
    simp [liveOfTypeState, List.filter_filter, Bool.and_comm]
  · intro ty hreg
    have hm := h.regMapped ty hreg
    simp [agentIdsE, countE, hm, hids ty]
  · intro ty num us hreg hu
    obtain ⟨l, h1, h2, h3⟩ := randomAgents_spec r ty num us (h.regMapped ty hreg) hu
    refine ⟨l, h1, by rw [h2, hcnt], ?_⟩
    intro x hx
    have := h3 x hx
    rw [hids] at this
    obtain ⟨a, ha, rfl⟩ := List.mem_map.mp this
    exact ⟨a, ha, rfl⟩

/-! ### Re-entrant creation (wave 6) -/

/-- invariant of the creation machine: the registry invariant, plus — for every `create_agent` call that has not
returned — its id is reserved (below `next`, handed out, different from all other pending ids) and not yet
registered anywhere -/
structure NInv (s : NReg) : Prop where
  base : Inv s.r
  pendNodup : (s.stack.map (·.id)).Nodup
  pendBound : ∀ fr ∈ s.stack, fr.id < s.r.next
  pendEver : ∀ fr ∈ s.stack, fr.id ∈ s.r.ever
  pendFreshA : ∀ fr ∈ s.stack, ∀ a ∈ s.r.agents, a.id ≠ fr.id
  pendFreshT : ∀ fr ∈ s.stack, ∀ t, fr.id ∉ s.r.tmap t

theorem ninv_init (reg : Nat → Bool) : NInv (NReg.init reg) :=
  { base := inv_init reg, pendNodup := by simp [NReg.init], pendBound := by simp [NReg.init],
    pendEver := by simp [NReg.init], pendFreshA := by simp [NReg.init], pendFreshT := by simp [NReg.init] }

theorem ninv_enter (s : NReg) (k : Nat) (h : NInv s) :
    NInv { r := { s.r with ever := s.r.ever ++ [s.r.next], next := s.r.next + 1 }
           stack := { id := s.r.next, key := k, inFactory := true } :: s.stack } := by
  have hb := h.base
  refine { base := { toInvU := ?_, tmapOk := hb.tmapOk, tyKey := hb.tyKey }, pendNodup := ?_, pendBound := ?_,
           pendEver := ?_, pendFreshA := ?_, pendFreshT := ?_ }
  · constructor
    · exact hb.nodup
    · intro a ha; have := hb.bound a ha; simp only at this ⊢; omega
    · simp only
      rw [List.pairwise_append]
      refine ⟨hb.everSorted, by simp, ?_⟩
      intro a ha b hbb
      simp at hbb; subst hbb
      exact hb.everBound a ha
    · intro i hi
      simp only [List.mem_append, List.mem_singleton] at hi ⊢
      rcases hi with hi | rfl
      · have := hb.everBound i hi; omega
      · omega
    · intro a ha; exact List.mem_append_left _ (hb.liveEver a ha)
    · intro t i hi; exact List.mem_append_left _ (hb.tmapEver t i hi)
    · exact hb.tmapNodup
    · exact hb.regMapped
  · simp only [List.map_cons, List.nodup_cons]
    refine ⟨?_, h.pendNodup⟩
    intro hmem
    obtain ⟨fr, hfr, he⟩ := List.mem_map.mp hmem
    have := h.pendBound fr hfr
    omega
  · intro fr hfr
    simp only [List.mem_cons] at hfr
    rcases hfr with rfl | hfr
    · simp
    · have := h.pendBound fr hfr; simp only; omega
  · intro fr hfr
    simp only [List.mem_cons] at hfr
    rcases hfr with rfl | hfr
    · simp
    · exact List.mem_append_left _ (h.pendEver fr hfr)
  · intro fr hfr a ha
    simp only [List.mem_cons] at hfr
    rcases hfr with rfl | hfr
    · have := hb.bound a ha; simp only; omega
    · exact h.pendFreshA fr hfr a ha
  · intro fr hfr t
    simp only [List.mem_cons] at hfr
    rcases hfr with rfl | hfr
    · intro hmem
      have := hb.everBound _ (hb.tmapEver t _ hmem)
      simp only at this; omega
    · exact h.pendFreshT fr hfr t

theorem ninv_facDone (s : NReg) (fr : Frame) (rest : List Frame) (hst : s.stack = fr :: rest) (h : NInv s) :
    NInv { r := s.r, stack := { fr with inFactory := false } :: rest } := by
  have hmem : ∀ g, g ∈ ({ fr with inFactory := false } :: rest : List Frame) → ∃ g' ∈ s.stack, g'.id = g.id := by
    intro g hg
    simp only [List.mem_cons] at hg
    rcases hg with rfl | hg
    · exact ⟨fr, by rw [hst]; simp, rfl⟩
    · exact ⟨g, by rw [hst]; simp [hg], rfl⟩
  refine { base := h.base, pendNodup := ?_, pendBound := ?_, pendEver := ?_, pendFreshA := ?_, pendFreshT := ?_ }
  · have := h.pendNodup; rw [hst] at this; simpa using this
  · intro g hg; obtain ⟨g', hg', he⟩ := hmem g hg; rw [← he]; exact h.pendBound g' hg'
  · intro g hg; obtain ⟨g', hg', he⟩ := hmem g hg; rw [← he]; exact h.pendEver g' hg'
  · intro g hg; obtain ⟨g', hg', he⟩ := hmem g hg; rw [← he]; exact h.pendFreshA g' hg'
  · intro g hg; obtain ⟨g', hg', he⟩ := hmem g hg; rw [← he]; exact h.pendFreshT g' hg'

theorem ninv_leave (f : Fac) (hf : Faithful f) (s : NReg) (fr : Frame) (rest : List Frame) (hst : s.stack = fr :: rest)
    (h : NInv s) : NInv { r := register f s.r fr, stack := rest } := by
  have hb := h.base
  have hfr : fr ∈ s.stack := by rw [hst]; simp
  have hrest : ∀ g ∈ rest, g ∈ s.stack := fun g hg => by rw [hst]; simp [hg]
  have hnd := h.pendNodup
  rw [hst] at hnd
  simp only [List.map_cons, List.nodup_cons] at hnd
  refine { base := { toInvU := ?_, tmapOk := ?_, tyKey := ?_ }, pendNodup := hnd.2, pendBound := ?_,
           pendEver := ?_, pendFreshA := ?_, pendFreshT := ?_ }
  · constructor
    · simp only [register, List.map_append, List.map_cons, List.map_nil]
      rw [List.nodup_append]
      refine ⟨hb.nodup, by simp, ?_⟩
      intro a ha b hbb
      simp at hbb; subst hbb
      obtain ⟨x, hx, rfl⟩ := List.mem_map.mp ha
      exact h.pendFreshA fr hfr x hx
    · intro a ha
      simp only [register, List.mem_append, List.mem_singleton] at ha ⊢
      rcases ha with ha | rfl
      · exact hb.bound a ha
      · exact h.pendBound fr hfr
    · exact hb.everSorted
    · exact hb.everBound
    · intro a ha
      simp only [register, List.mem_append, List.mem_singleton] at ha ⊢
      rcases ha with ha | rfl
      · exact hb.liveEver a ha
      · exact h.pendEver fr hfr
    · intro t i hi
      simp only [register] at hi ⊢
      split at hi
      · rcases List.mem_append.mp hi with hi | hi
        · exact hb.tmapEver t i hi
        · simp at hi; subst hi; exact h.pendEver fr hfr
      · exact hb.tmapEver t i hi
    · intro t
      simp only [register]
      split
      · rw [List.nodup_append]
        refine ⟨hb.tmapNodup t, by simp, ?_⟩
        intro a ha b hbb
        simp at hbb; subst hbb
        intro he; subst he
        exact h.pendFreshT fr hfr t ha
      · exact hb.tmapNodup t
    · exact hb.regMapped
  · intro t
    simp only [register, idsOfType, List.filter_append, List.map_append, hf fr.key fr.id]
    by_cases ht : t = fr.key
    · subst ht; simp [hb.tmapOk, idsOfType]
    · have : (fr.key == t) = false := by simp; omega
      simp [ht, hb.tmapOk, idsOfType, this]
  · intro a ha
    simp only [register, List.mem_append, List.mem_singleton] at ha
    rcases ha with ha | rfl
    · exact hb.tyKey a ha
    · exact hf fr.key fr.id
  · intro g hg; exact h.pendBound g (hrest g hg)
  · intro g hg; exact h.pendEver g (hrest g hg)
  · intro g hg a ha
    simp only [register, List.mem_append, List.mem_singleton] at ha
    rcases ha with ha | rfl
    · exact h.pendFreshA g (hrest g hg) a ha
    · simp only
      intro he
      apply hnd.1
      rw [he]
      exact List.mem_map.mpr ⟨g, hg, rfl⟩
  · intro g hg t
    simp only [register]
    split
    · intro hmem
      rcases List.mem_append.mp hmem with hm | hm
      · exact h.pendFreshT g (hrest g hg) t hm
      · simp at hm
        apply hnd.1
        rw [← hm]
        exact List.mem_map.mpr ⟨g, hg, rfl⟩
    · exact h.pendFreshT g (hrest g hg) t

theorem ninv_step (n : CfgN) (hn : n.idReservedBeforeFactory = true) (f : Fac) (hf : Faithful f) (s : NReg) (t : Tok)
    (h : NInv s) : NInv (stepN n f s t) := by
  cases t with
  | op o =>
    simp only [stepN]
    split
    · rename_i he
      have hnil : s.stack = [] := by simpa using he
      exact { base := inv_step f hf s.r o h.base, pendNodup := by simp [hnil], pendBound := by simp [hnil],
              pendEver := by simp [hnil], pendFreshA := by simp [hnil], pendFreshT := by simp [hnil] }
    · exact h
  | enter k =>
    simp only [stepN]
    split
    · simp only [hn, bump, if_true]
      exact ninv_enter s k h
    · exact h
  | facDone =>
    simp only [stepN]
    split
    · rename_i fr rest hst
      split
      · simp only [hn, bump, Bool.not_true, Bool.false_and, Bool.false_eq_true, if_false]
        exact ninv_facDone s fr rest hst h
      · exact h
    · exact h
  | leave =>
    simp only [stepN]
    split
    · rename_i fr rest hst
      split
      · exact h
      · simp only [hn, bump, Bool.not_true, Bool.false_and, Bool.false_eq_true, if_false]
        exact ninv_leave f hf s fr rest hst h
    · exact h

theorem ninv_run (n : CfgN) (hn : n.idReservedBeforeFactory = true) (f : Fac) (hf : Faithful f) (toks : List Tok) :
    ∀ s, NInv s → NInv (runN n f s toks) := by
  induction toks with
  | nil => intro s h; exact h
  | cons t rest ih => intro s h; exact ih _ (ninv_step n hn f hf s t h)

theorem bump_reg (r : Reg) (b : Bool) : (bump r b).reg = r.reg := by unfold bump; split <;> rfl

theorem reg_stepN (n : CfgN) (f : Fac) (s : NReg) (t : Tok) : (stepN n f s t).r.reg = s.r.reg := by
  cases t with
  | op o => simp only [stepN]; split; exact reg_step f s.r o; rfl
  | enter k => simp only [stepN]; split; exact bump_reg _ _; rfl
  | facDone =>
    simp only [stepN]
    split
    · split
      · exact bump_reg _ _
      · rfl
    · rfl
  | leave =>
    simp only [stepN]
    split
    · split
      · rfl
      · rw [bump_reg]; rfl
    · rfl

theorem reg_runN (n : CfgN) (f : Fac) (toks : List Tok) : ∀ s, (runN n f s toks).r.reg = s.r.reg := by
  induction toks with
  | nil => intro s; rfl
  | cons t rest ih => intro s; simp only [runN, List.foldl_cons] at ih ⊢; rw [ih, reg_stepN]

/-- **C14 with re-entrant creation**: every clause of `C14_full`, in every state the creation machine reaches —
also in the middle of a nest of `create_agent` calls (an `initialize()` that queries the registry sees a consistent
registry in which its own agent is not yet listed) — for every token history: any nesting depth, creations from
factories and from `initialize()`, all other operations between them. -/
def C14_full_nested (c : Cfg) (n : CfgN) : Prop :=
  ∀ (reg : Nat → Bool) (f : Fac), Faithful f → ∀ toks : List Tok,
    RegClauses c (runN n f (NReg.init reg) toks).r ∧ (runN n f (NReg.init reg) toks).r.reg = reg

theorem C14_full_nested_of_good (c : Cfg) (hc : c.countById = true) (n : CfgN) (hn : n.idReservedBeforeFactory = true) :
    C14_full_nested c n := by
  intro reg f hf toks
  exact ⟨clauses_of_inv c hc _ (ninv_run n hn f hf toks _ (ninv_init reg)).base, reg_runN n f toks _⟩

/-! #### from `idReservedBeforeInitialize` alone: re-entrant creation from `initialize()` only

The tree as it is before `fixes/C14-reserve-id-before-factory` increments between the factory call and
`initialize()`.  As long as no factory creates agents, that machine and the good one run in lock step: they differ
only in `next_agent_id` while a factory is running (by one). -/

def midCfg : CfgN := { idReservedBeforeFactory := false, idReservedBeforeInitialize := true }
def goodCfg : CfgN := { idReservedBeforeFactory := true, idReservedBeforeInitialize := true }

structure Sim (sm sg : NReg) : Prop where
  stack : sm.stack = sg.stack
  reg : sg.r = { sm.r with next := sm.r.next + (if topInFactory sm then 1 else 0) }
  below : ∀ fr ∈ sm.stack.tail, fr.inFactory = false

theorem sim_step (f : Fac) (sm sg : NReg) (t : Tok) (h : Sim sm sg)
    (hfree : facNestFree midCfg f sm [t] = true) : Sim (stepN midCfg f sm t) (stepN goodCfg f sg t) := by
  obtain ⟨hst, hreg, hbelow⟩ := h
  cases t with
  | op o =>
    simp only [stepN, ← hst]
    cases hs : sm.stack with
    | nil =>
      have : sg.r = sm.r := by rw [hreg]; simp [topInFactory, hs]
      simp only [List.isEmpty_nil, if_true]
      exact ⟨by simp [hs, ← hst], by simp [this, topInFactory, hs], by simp [hs]⟩
    | cons fr rest =>
      simp only [List.isEmpty_cons, Bool.false_eq_true, if_false]
      exact ⟨hst, hreg, hbelow⟩
  | enter k =>
    have hrk : sg.r.reg = sm.r.reg := by rw [hreg]
    simp only [stepN, hrk]
    cases hk : sm.r.reg k with
    | false => simp only [Bool.false_eq_true, if_false]; exact ⟨hst, hreg, hbelow⟩
    | true =>
      simp only [if_true]
      have htop : topInFactory sm = false := by
        simp only [facNestFree, hk, Bool.not_true, Bool.false_or, Bool.and_true] at hfree
        unfold topInFactory
        cases hs : sm.stack with
        | nil => rfl
        | cons fr rest => rw [hs] at hfree; simpa using hfree
      have hr : sg.r = sm.r := by rw [hreg, htop]; simp
      refine ⟨by simp [hst, hr], ?_, ?_⟩
      · simp [hr, bump, midCfg, goodCfg, topInFactory]
      · intro fr hfr
        simp only [List.tail_cons] at hfr
        cases hs : sm.stack with
        | nil => rw [hs] at hfr; simp at hfr
        | cons g rest =>
          rw [hs] at hfr
          rcases List.mem_cons.mp hfr with rfl | hfr'
          · simpa [topInFactory, hs] using htop
          · exact hbelow fr (by rw [hs]; simpa using hfr')
  | facDone =>
    simp only [stepN, ← hst]
    cases hs : sm.stack with
    | nil => simp only; exact ⟨hst, hreg, hbelow⟩
    | cons fr rest =>
      simp only
      cases hin : fr.inFactory with
      | false => simp only [Bool.false_eq_true, if_false]; exact ⟨hst, hreg, hbelow⟩
      | true =>
        simp only [if_true]
        refine ⟨rfl, ?_, ?_⟩
        · rw [hreg]; simp [bump, midCfg, goodCfg, topInFactory, hs, hin]
        · intro g hg; exact hbelow g (by rw [hs]; simpa using hg)
  | leave =>
    simp only [stepN, ← hst]
    cases hs : sm.stack with
    | nil => simp only; exact ⟨hst, hreg, hbelow⟩
    | cons fr rest =>
      simp only
      cases hin : fr.inFactory with
      | true => simp only [if_true]; exact ⟨hst, hreg, hbelow⟩
      | false =>
        simp only [Bool.false_eq_true, if_false]
        have hr : sg.r = sm.r := by rw [hreg]; simp [topInFactory, hs, hin]
        have htop' : topInFactory { r := register f sm.r fr, stack := rest } = false := by
          unfold topInFactory
          cases hr' : rest with
          | nil => rfl
          | cons g rest' => exact hbelow g (by rw [hs, hr']; simp)
        refine ⟨rfl, ?_, ?_⟩
        · simp only [bump, midCfg, goodCfg, Bool.not_false, Bool.not_true, Bool.and_false, Bool.false_and,
            Bool.false_eq_true, if_false]
          rw [hr]
          have : topInFactory { r := register f sm.r fr, stack := rest } = false := htop'
          simp [this]
        · intro g hg
          apply hbelow g
          rw [hs]
          simp only [List.tail_cons]
          exact List.mem_of_mem_tail hg

theorem sim_run (f : Fac) (toks : List Tok) : ∀ sm sg, Sim sm sg → facNestFree midCfg f sm toks = true →
    Sim (runN midCfg f sm toks) (runN goodCfg f sg toks) := by
  induction toks with
  | nil => intro sm sg h _; exact h
  | cons t rest ih =>
    intro sm sg h hfree
    simp only [facNestFree, Bool.and_eq_true] at hfree
    apply ih _ _ (sim_step f sm sg t h (by simp only [facNestFree, Bool.and_eq_true]; exact ⟨hfree.1, trivial⟩)) hfree.2

/-- **From `idReservedBeforeInitialize` alone** (the increment sits between the factory call and `initialize()`):
for every token history in which no factory creates agents, whenever no factory is running the registry is the
one of the good machine — every clause of `C14_full` holds (re-entrant creation from `initialize()`, any depth). -/
theorem C14_full_nested_init_only (c : Cfg) (hc : c.countById = true) (reg : Nat → Bool) (f : Fac) (hf : Faithful f)
    (toks : List Tok) (hfree : facNestFree midCfg f (NReg.init reg) toks = true)
    (htop : topInFactory (runN midCfg f (NReg.init reg) toks) = false) :
    RegClauses c (runN midCfg f (NReg.init reg) toks).r := by
  have hs : Sim (NReg.init reg) (NReg.init reg) := ⟨rfl, by simp [NReg.init, topInFactory], by simp [NReg.init]⟩
  obtain ⟨_, hreg, _⟩ := sim_run f toks _ _ hs hfree
  rw [htop] at hreg
  have : (runN goodCfg f (NReg.init reg) toks).r = (runN midCfg f (NReg.init reg) toks).r := by rw [hreg]; simp
  rw [← this]
  exact (C14_full_nested_of_good c hc goodCfg rfl reg f hf toks).1

/-- a plain `create_agent` is the token sequence enter, facDone, leave -/
theorem create_as_tokens (n : CfgN) (hn : n.idReservedBeforeFactory = true) (f : Fac) (r : Reg) (k : Nat)
    (hk : r.reg k = true) :
    (runN n f { r := r, stack := [] } [.enter k, .facDone, .leave]).r = create f r k := by
  simp [runN, stepN, hk, hn, bump, register, create]

/-- `C14_full` is the special case without nesting -/
theorem runN_ops (n : CfgN) (f : Fac) (ops : List Op) :
    ∀ r, runN n f { r := r, stack := [] } (ops.map Tok.op) = { r := run f r ops, stack := [] } := by
  induction ops with
  | nil => intro r; rfl
  | cons o rest ih => intro r; simp only [List.map_cons, runN, List.foldl_cons, stepN, run] at ih ⊢; exact ih _

/-- Witness (kernel-checked): when `next_agent_id` is not incremented before the FACTORY is called, a factory that
creates an agent hands the same id out twice — whatever happens later (`idReservedBeforeInitialize` or not). -/
theorem C14_witness_nested_factory (c : Cfg) (n : CfgN) (hn : n.idReservedBeforeFactory = false) :
    ¬ C14_full_nested c n := by
  intro h
  have := (h reg2 Fac.id faithful_id [.enter 0, .enter 1, .facDone, .leave, .facDone, .leave]).1.1
  obtain ⟨a, b⟩ := n; simp only at hn; subst hn
  revert this; cases b <;> decide

/-- Witness (kernel-checked): when it is incremented only after the registration, an `initialize()` that creates an
agent hands the same id out twice: `agents` = [child 0, parent 0]. -/
theorem C14_witness_nested_late (c : Cfg) (n : CfgN) (h0 : n.idReservedBeforeFactory = false)
    (h1 : n.idReservedBeforeInitialize = false) : ¬ C14_full_nested c n := by
  intro h
  have := (h reg2 Fac.id faithful_id [.enter 0, .facDone, .enter 1, .facDone, .leave, .leave]).1.1
  obtain ⟨a, b⟩ := n; simp only at h0 h1; subst h0; subst h1
  revert this; decide

/-- registration order under nesting (good configuration): a firm (key 0) whose `initialize()` creates two workers
(key 1): ids firm 0, workers 1 and 2; `agents` lists the workers first; per-type lists `[0]` and `[1, 2]`. -/
example : let r := (runN ⟨true, true⟩ Fac.id (NReg.init reg2)
      [.enter 0, .facDone, .enter 1, .facDone, .leave, .enter 1, .facDone, .leave, .leave]).r
    r.agents.map (·.id) = [1, 2, 0] ∧ agentIds r 0 = [0] ∧ agentIds r 1 = [1, 2] ∧ r.next = 3 := by decide

/-! ### Two models alive at once (wave 7) -/

/-- With per-instance registries, interleaving the operations of two models changes nothing: each model ends in the
state of its own operations, so every theorem about one registry applies to each of them. -/
theorem two_isolated (f : Fac) (ops : List (Bool × Op)) :
    ∀ t : Two, (runTwo true f t ops).a = run f t.a (opsFor true ops) ∧ (runTwo true f t ops).b = run f t.b (opsFor false ops) := by
  induction ops with
  | nil => intro t; exact ⟨rfl, rfl⟩
  | cons x rest ih =>
    intro t
    obtain ⟨w, o⟩ := x
    cases w with
    | true =>
      have := ih (stepTwo true f t (true, o))
      simpa [runTwo, stepTwo, opsFor, run] using this
    | false =>
      have := ih (stepTwo true f t (false, o))
      simpa [runTwo, stepTwo, opsFor, run] using this

theorem C14_two_models (c : Cfg) (hc : c.countById = true) (reg : Nat → Bool) (f : Fac) (hf : Faithful f)
    (ops : List (Bool × Op)) :
    RegClauses c (runTwo true f ⟨Reg.init reg, Reg.init reg⟩ ops).a ∧
    RegClauses c (runTwo true f ⟨Reg.init reg, Reg.init reg⟩ ops).b := by
  obtain ⟨ha, hb⟩ := two_isolated f ops ⟨Reg.init reg, Reg.init reg⟩
  rw [ha, hb]
  exact ⟨clauses_of_inv c hc _ (inv_reachable reg f hf _), clauses_of_inv c hc _ (inv_reachable reg f hf _)⟩

/-- Witness (kernel-checked): with one type map for both models, creating an agent in model A makes model B list and
count an agent it does not have. -/
theorem C14_witness_shared_registry :
    let t := runTwo false Fac.id ⟨Reg.init reg2, Reg.init reg2⟩ [(true, .create 0)]
    count t.b 0 = 1 ∧ (liveOfType t.b 0).length = 0 ∧ countPerState ⟨true, true, true⟩ t.b 0 0 = none := by decide

/-- Non-vacuity: a history with all operation kinds; the per-state counts are the expected numbers. -/
example : countPerState ⟨true, true, true⟩ (run Fac.id (Reg.init reg2)
    [.create 0, .create 1, .create 0, .delete [0], .setState 2 5, .configure [(0, 2), (1, 1)],
     .setState 4 7, .create 1, .delete [3, 9], .configureAll [(0, 1), (1, 2)], .setState 7 7, .create 5]) 0 7 = some 1 := by decide

/-- Non-vacuity of the random-agents clause: three draws 0, 1/2, 63/64 on the list [3,4,6] of type 0. -/
example : randomAgents (run Fac.id (Reg.init reg2)
    [.create 1, .create 1, .create 1, .create 0, .create 0, .create 1, .create 0, .delete [0]]) 0 5
    (fun j => [(0, 64), (32, 64), (63, 64)].getD j (0, 1)) = some [3, 4, 6] := by decide

#print axioms C14_full_of_good
#print axioms C14_partial
#print axioms C14_witness_positional
#print axioms C14_next_agent
#print axioms C14_lookup
#print axioms C14_ids_never_reused
#print axioms C14_random_agents
#print axioms roundHE_le
#print axioms C14_partial_anyattr
#print axioms C14_anyattr_nodelete
#print axioms C14_witness_anyattr_stale
#print axioms C14_witness_anyattr_lost
#print axioms C14_witness_anyattr_newkey
#print axioms C14_full_needs_faithful
#print axioms C14_alias_safe
#print axioms C14_alias_irrelevant
#print axioms C14_alias_witness
#print axioms C14_full_aliased_of_snapshot
#print axioms C14_delete_own_ids
#print axioms C14_witness_delete_inplace
#print axioms C14_witness_delete_inplace_detail
#print axioms C14_flat_sorted
#print axioms clauses_of_inv
#print axioms C14_full_nested_of_good
#print axioms C14_full_nested_init_only
#print axioms create_as_tokens
#print axioms runN_ops
#print axioms C14_witness_nested_factory
#print axioms C14_witness_nested_late
#print axioms two_isolated
#print axioms C14_two_models
#print axioms C14_witness_shared_registry

end Bptk.C14
