import Bptk.Core.C15
/-!
C15 — property theorems.

Quantifiers: every header string (`List Char`), every token, every route table satisfying the decidable
side condition, every state type / state, every view behaviour `V`, every request (rule index, method,
header, payload).  Nothing is bounded.
-/
namespace Bptk.C15

/-! ### `split(" ")` characterised -/

theorem splitSp_ne_nil (h : List Char) : splitSp h ≠ [] := by
  induction h with
  | nil => simp [splitSp]
  | cons c cs ih =>
    simp only [splitSp]
    split
    · simp
    · cases hs : splitSp cs <;> simp [consHead]

theorem splitSp_nospace (a : List Char) (h : ' ' ∉ a) : splitSp a = [a] := by
  induction a with
  | nil => rfl
  | cons c cs ih =>
    have hc : c ≠ ' ' := fun e => h (by simp [e])
    have hcs : ' ' ∉ cs := fun e => h (by simp [e])
    simp [splitSp, hc, ih hcs, consHead]

theorem splitSp_append (a r : List Char) (h : ' ' ∉ a) :
    splitSp (a ++ ' ' :: r) = a :: splitSp r := by
  induction a with
  | nil => simp [splitSp]
  | cons c cs ih =>
    have hc : c ≠ ' ' := fun e => h (by simp [e])
    have hcs : ' ' ∉ cs := fun e => h (by simp [e])
    simp [splitSp, hc, ih hcs, consHead]

/-- every string either has no space or splits at its first space -/
theorem first_space (h : List Char) :
    ' ' ∉ h ∨ ∃ a r, ' ' ∉ a ∧ h = a ++ ' ' :: r := by
  induction h with
  | nil => left; simp
  | cons c cs ih =>
    by_cases hc : c = ' '
    · right; exact ⟨[], cs, by simp, by simp [hc]⟩
    · rcases ih with ih | ⟨a, r, ha, he⟩
      · left
        intro hm
        rcases List.mem_cons.mp hm with e | e
        · exact hc e.symm
        · exact ih e
      · right
        refine ⟨c :: a, r, ?_, by simp [he]⟩
        intro hm
        rcases List.mem_cons.mp hm with e | e
        · exact hc e.symm
        · exact ha e

/-- the words returned by `split(" ")` contain no space -/
theorem splitSp_words_nospace (h : List Char) : ∀ w ∈ splitSp h, ' ' ∉ w := by
  induction h with
  | nil => simp [splitSp]
  | cons c cs ih =>
    intro w hw
    simp only [splitSp] at hw
    split at hw
    · rcases List.mem_cons.mp hw with rfl | hw
      · simp
      · exact ih w hw
    · rename_i hc
      cases hs : splitSp cs with
      | nil => exact absurd hs (splitSp_ne_nil cs)
      | cons w0 ws =>
        rw [hs] at hw ih
        simp only [consHead] at hw
        rcases List.mem_cons.mp hw with rfl | hw
        · intro hm
          rcases List.mem_cons.mp hm with e | e
          · exact hc e.symm
          · exact ih w0 (by simp) e
        · exact ih w (by simp [hw])

/-- `word2 h = some w` exactly when `h` is `a ++ " " ++ w` or `a ++ " " ++ w ++ " " ++ rest` with `a`, `w`
free of spaces: `w` is the second space-separated word, the text of the header's credentials position. -/
theorem word2_spec (h w : List Char) :
    word2 h = some w ↔
      ∃ a rest, ' ' ∉ a ∧ ' ' ∉ w ∧ (h = a ++ ' ' :: w ∨ h = a ++ ' ' :: (w ++ ' ' :: rest)) := by
  constructor
  · intro hw
    rcases first_space h with hn | ⟨a, r, ha, rfl⟩
    · simp [word2, splitSp_nospace h hn] at hw
    · simp only [word2, splitSp_append a r ha] at hw
      rcases first_space r with hn | ⟨b, r', hb, rfl⟩
      · simp [splitSp_nospace r hn] at hw
        subst hw
        exact ⟨a, [], ha, hn, Or.inl rfl⟩
      · simp [splitSp_append b r' hb] at hw
        subst hw
        exact ⟨a, r', ha, hb, Or.inr rfl⟩
  · rintro ⟨a, rest, ha, hw, rfl | rfl⟩
    · simp [word2, splitSp_append a w ha, splitSp_nospace w hw]
    · simp [word2, splitSp_append a _ ha, splitSp_append w rest hw]

/-- a header without any space has no second word (`split(" ")[1]` raises IndexError -> 500) -/
theorem word2_none_iff (h : List Char) : word2 h = none ↔ ' ' ∉ h := by
  constructor
  · intro hw hm
    rcases first_space h with hn | ⟨a, r, ha, rfl⟩
    · exact hn hm
    · simp only [word2, splitSp_append a r ha] at hw
      cases hs : splitSp r with
      | nil => exact splitSp_ne_nil r hs
      | cons x xs => simp [hs] at hw
  · intro hn
    simp [word2, splitSp_nospace h hn]

/-! ### the decorator accepts exactly the requests that present the token -/

/-- `token_required` lets a request through iff the credentials word of its header equals the token —
over ALL header strings and tokens. -/
theorem auth_exact (h τ : List Char) : authOK (some h) τ = .accept ↔ word2 h = some τ := by
  cases hw : word2 h with
  | none => simp [authOK, hw]
  | some w => by_cases e : w = τ <;> simp [authOK, hw, e]

theorem auth_absent (τ : List Char) : authOK none τ = .reject := rfl

/-- one-word and empty headers (`"tok"`, `"Bearer"`, `""`) are refused (with a 500) -/
theorem auth_one_word (h τ : List Char) (hn : ' ' ∉ h) : authOK (some h) τ = .error := by
  simp [authOK, (word2_none_iff h).mpr hn]

/-- a header `scheme ++ " " ++ w` with any other word `w` in the credentials position — prefix, suffix,
case variant of the token, empty — is refused -/
theorem auth_other_word (a w τ : List Char) (ha : ' ' ∉ a) (hw : ' ' ∉ w) (hne : w ≠ τ) :
    authOK (some (a ++ ' ' :: w)) τ = .reject := by
  have : word2 (a ++ ' ' :: w) = some w := (word2_spec _ _).mpr ⟨a, [], ha, hw, Or.inl rfl⟩
  simp [authOK, this, hne]

/-- the token in any position other than the second word does not help: `tok ++ " " ++ w` -/
theorem auth_token_first (w τ : List Char) (hτ : ' ' ∉ τ) (hw : ' ' ∉ w) (hne : w ≠ τ) :
    authOK (some (τ ++ ' ' :: w)) τ = .reject := auth_other_word τ w τ hτ hw hne

/-- doubled separator (`"Bearer  tok"`): the second word is empty -/
theorem auth_double_space (a w τ : List Char) (ha : ' ' ∉ a) (hτ : τ ≠ []) :
    authOK (some (a ++ ' ' :: ' ' :: w)) τ = .reject := by
  have : word2 (a ++ ' ' :: ' ' :: w) = some [] :=
    (word2_spec _ _).mpr ⟨a, w, ha, by simp, Or.inr (by simp)⟩
  simp [authOK, this, Ne.symm hτ]

/-- a token containing a space can never be presented -/
theorem auth_token_with_space (h τ : List Char) (hτ : ' ' ∈ τ) : authOK (some h) τ ≠ .accept := by
  intro hacc
  obtain ⟨_, _, _, hn, _⟩ := (word2_spec h τ).mp ((auth_exact h τ).mp hacc)
  exact hn hτ

/-! ### requests -/

/-- A request presents token `τ` iff it carries an Authorization header whose credentials word is `τ`. -/
def presents {π : Type} (r : Request π) (τ : List Char) : Prop := ∃ h, r.auth = some h ∧ word2 h = some τ

theorem guarded_refuses {σ π : Type} (V : View σ π) (τ : List Char) (s : σ) (r : Request π)
    (hnp : ¬ presents r τ) :
    (guarded V (some τ) s r).2 ≥ 400 ∧ (guarded V (some τ) s r).1 = s := by
  unfold guarded
  simp only
  cases ho : authOK r.auth τ with
  | accept =>
    exfalso
    cases ha : r.auth with
    | none => rw [ha] at ho; simp [authOK] at ho
    | some h => rw [ha] at ho; exact hnp ⟨h, ha, (auth_exact h τ).mp ho⟩
  | reject => simp
  | error => simp

theorem routeOK_of_mem (t : Table) (h : allProtected t = true) (i : Nat) (rt : Route)
    (hi : t.routes[i]? = some rt) : routeOK t rt = true := by
  unfold allProtected at h
  rw [List.all_eq_true] at h
  exact h rt (List.mem_of_getElem? hi)

theorem serveRoute_refuses (t : Table) {σ π : Type} (V : View σ π) (τ : List Char) (s : σ) (r : Request π)
    (rt : Route) (hrok : routeOK t rt = true) (hp : isPublic rt = false) (hnp : ¬ presents r τ) :
    (serveRoute V t (some τ) s r rt).2 ≥ 400 ∧ (serveRoute V t (some τ) s r rt).1 = s := by
  simp only [routeOK, hp, Bool.false_or] at hrok
  unfold serveRoute
  cases hs : rt.static with
  | true =>
    simp only [hs, if_true] at hrok
    have hnil : t.staticFiles = [] := by simpa using hrok
    simp [hnil]
  | false =>
    simp only [hs, Bool.false_eq_true, if_false] at hrok
    simp only [hrok, if_true, Bool.false_eq_true, if_false]
    exact guarded_refuses V τ s r hnp

/-- state part: whatever the method (automatic OPTIONS included), a request without the token to a
non-public rule leaves the state as it was. -/
theorem C15_state_unchanged (t : Table) (hok : allProtected t = true)
    {σ π : Type} (V : View σ π) (τ : List Char) (s : σ) (r : Request π)
    (hnp : ¬ presents r τ)
    (hpub : ∀ rt, t.routes[r.route]? = some rt → isPublic rt = false) :
    (handle V t (some τ) s r).1 = s := by
  unfold handle
  cases hr : t.routes[r.route]? with
  | none => rfl
  | some rt =>
    simp only
    split
    · rfl
    · split
      · rfl
      · exact (serveRoute_refuses t V τ s r rt (routeOK_of_mem t hok _ rt hr) (hpub rt hr) hnp).2

/-- `C15_refuse`: with a table in which every non-public rule is protected, a request that does not
present the token, to a non-public rule, with a method other than OPTIONS, gets a status ≥ 400 and
leaves the state as it was — whatever the views do, whatever the state, header, method, payload. -/
theorem C15_refuse (t : Table) (hok : allProtected t = true)
    {σ π : Type} (V : View σ π) (τ : List Char) (s : σ) (r : Request π)
    (hnp : ¬ presents r τ)
    (hpub : ∀ rt, t.routes[r.route]? = some rt → isPublic rt = false)
    (hopt : r.method ≠ "OPTIONS") :
    (handle V t (some τ) s r).2 ≥ 400 ∧ (handle V t (some τ) s r).1 = s := by
  refine ⟨?_, C15_state_unchanged t hok V τ s r hnp hpub⟩
  unfold handle
  cases hr : t.routes[r.route]? with
  | none => simp
  | some rt =>
    simp only
    split
    · simp
    · split
      · rename_i ho
        simp only [Bool.and_eq_true, beq_iff_eq] at ho
        exact absurd ho.1 hopt
      · exact (serveRoute_refuses t V τ s r rt (routeOK_of_mem t hok _ rt hr) (hpub rt hr) hnp).1

/-- The property at full strength, by the letter of the statement (no exception for OPTIONS): for the
route table `t`, every request that does not present the configured token, to any non-public rule, with
any method, in any state, whatever the views would do, is answered with a non-success status and leaves
the state unchanged. -/
def C15_full (t : Table) : Prop :=
  ∀ (σ π : Type) (V : View σ π) (τ : List Char) (s : σ) (r : Request π),
    ¬ presents r τ →
    (∀ rt, t.routes[r.route]? = some rt → isPublic rt = false) →
    (handle V t (some τ) s r).2 ≥ 400 ∧ (handle V t (some τ) s r).1 = s

theorem C15_full_of_good (t : Table) (hok : allProtected t = true) (hno : noAutoOptions t = true) :
    C15_full t := by
  intro σ π V τ s r hnp hpub
  by_cases hopt : r.method = "OPTIONS"
  · refine ⟨?_, C15_state_unchanged t hok V τ s r hnp hpub⟩
    -- OPTIONS is not answered automatically on a non-public rule: it goes through the same checks
    unfold handle
    cases hr : t.routes[r.route]? with
    | none => simp
    | some rt =>
      have hp := hpub rt hr
      have hna : rt.autoOptions = false ∨ "OPTIONS" ∉ rt.methods := by
        unfold noAutoOptions at hno
        rw [List.all_eq_true] at hno
        have := hno rt (List.mem_of_getElem? hr)
        simpa [hp] using this
      simp only
      split
      · simp
      · rename_i hm
        split
        · rename_i ho
          exfalso
          simp only [Bool.and_eq_true, beq_iff_eq] at ho
          rw [hopt] at hm
          have hm' : "OPTIONS" ∈ rt.methods := by simpa using hm
          rcases hna with h1 | h2
          · rw [ho.2] at h1; cases h1
          · exact h2 hm'
        · exact (serveRoute_refuses t V τ s r rt (routeOK_of_mem t hok _ rt hr) hp hnp).1
  · exact C15_refuse t hok V τ s r hnp hpub hopt

/-- What holds when Flask's automatic OPTIONS is left on: everything except the status of OPTIONS
requests (which still change nothing). -/
def C15_but_options (t : Table) : Prop :=
  ∀ (σ π : Type) (V : View σ π) (τ : List Char) (s : σ) (r : Request π),
    ¬ presents r τ →
    (∀ rt, t.routes[r.route]? = some rt → isPublic rt = false) →
    (handle V t (some τ) s r).1 = s ∧ (r.method ≠ "OPTIONS" → (handle V t (some τ) s r).2 ≥ 400)

theorem C15_partial (t : Table) (hok : allProtected t = true) : C15_but_options t := by
  intro σ π V τ s r hnp hpub
  exact ⟨C15_state_unchanged t hok V τ s r hnp hpub,
    fun hopt => (C15_refuse t hok V τ s r hnp hpub hopt).1⟩

/-- Negation witness `auto-options-200`: a non-public rule for which Flask answers OPTIONS itself gives a
success status to a request without any Authorization header. -/
theorem C15_witness_auto_options (t : Table) (i : Nat) (h : autoOptionsAt t i = true) : ¬ C15_full t := by
  intro hf
  unfold autoOptionsAt at h
  cases hr : t.routes[i]? with
  | none => simp [hr] at h
  | some rt =>
    simp only [hr, Bool.and_eq_true, Bool.not_eq_true'] at h
    obtain ⟨⟨hp, ha⟩, hm⟩ := h
    have := (hf Unit Unit (fun _ _ s => (s, 200)) [] ()
      { route := i, method := "OPTIONS", auth := none, file := "", payload := () }
      (by rintro ⟨h, hh, _⟩; simp at hh)
      (by intro rt' hrt'; simp only [hr] at hrt'; cases hrt'; exact hp)).1
    have hm' : "OPTIONS" ∈ rt.methods := by simpa using hm
    simp [handle, hr, hm', ha] at this

/-- Negation witness `unprotected-view`: a non-public application rule whose view is reached without
the token check serves a request without any Authorization header (the view that answers 200). -/
theorem C15_witness_unprotected (t : Table) (i : Nat) (m : String) (h : unprotectedAt t i m = true) :
    ¬ C15_full t := by
  intro hf
  unfold unprotectedAt at h
  cases hr : t.routes[i]? with
  | none => simp [hr] at h
  | some rt =>
    simp only [hr, Bool.and_eq_true, Bool.not_eq_true'] at h
    obtain ⟨⟨⟨⟨hp, hs⟩, hpr⟩, hm⟩, hao⟩ := h
    have := (hf Unit Unit (fun _ _ s => (s, 200)) [] ()
      { route := i, method := m, auth := none, file := "", payload := () }
      (by rintro ⟨h, hh, _⟩; simp at hh)
      (by intro rt' hrt'; simp only [hr] at hrt'; cases hrt'; exact hp)).1
    have hm' : m ∈ rt.methods := by simpa using hm
    simp [handle, serveRoute, hr, hm', hao, hs, hpr] at this

/-- Serving direction (sanity): a request presenting the token to a protected rule reaches the view. -/
theorem C15_serves (t : Table) {σ π : Type} (V : View σ π) (τ : List Char) (s : σ) (r : Request π)
    (rt : Route) (hr : t.routes[r.route]? = some rt) (hm : rt.methods.contains r.method = true)
    (hopt : r.method ≠ "OPTIONS") (hs : rt.static = false) (hp : presents r τ) :
    handle V t (some τ) s r = V r.route r.payload s := by
  obtain ⟨h, hh, hw⟩ := hp
  have hacc : authOK r.auth τ = .accept := by rw [hh]; exact (auth_exact h τ).mpr hw
  have ho : (r.method == "OPTIONS") = false := by simpa using hopt
  unfold handle serveRoute
  simp only [hr, hm, ho, hs]
  cases hpr : rt.prot <;> simp [guarded, hacc]

/-! ### non-vacuity: concrete table, concrete requests -/

def exTable : Table :=
  { routes := [ { rule := "/", methods := ["GET", "HEAD", "OPTIONS"], prot := false, autoOptions := true, static := false },
                { rule := "/run", methods := ["OPTIONS", "POST", "PUT"], prot := true, autoOptions := false, static := false },
                { rule := "/static/<path:filename>", methods := ["GET", "HEAD", "OPTIONS"], prot := false, autoOptions := false, static := true } ],
    staticFiles := [] }

def exView : View Nat Unit := fun _ _ s => (s + 1, 200)

example : allProtected exTable = true ∧ noAutoOptions exTable = true := by decide
-- wrong suffix: refused, state untouched
example : handle exView exTable (some "tok".toList) 7
    { route := 1, method := "POST", auth := some "Bearer tokk".toList, file := "", payload := () } = (7, 401) := by decide
-- one-word header: 500, state untouched
example : handle exView exTable (some "tok".toList) 7
    { route := 1, method := "POST", auth := some "tok".toList, file := "", payload := () } = (7, 500) := by decide
-- the token in the credentials position: served (the view ran: state 8)
example : handle exView exTable (some "tok".toList) 7
    { route := 1, method := "POST", auth := some "Bearer tok".toList, file := "", payload := () } = (8, 200) := by decide
-- public rule: served without a header
example : handle exView exTable (some "tok".toList) 7
    { route := 0, method := "GET", auth := none, file := "", payload := () } = (8, 200) := by decide
example : word2 "Bearer tok x".toList = some "tok".toList := by decide

#print axioms auth_exact
#print axioms word2_spec
#print axioms C15_refuse
#print axioms C15_state_unchanged
#print axioms C15_full_of_good
#print axioms C15_partial
#print axioms C15_witness_auto_options
#print axioms C15_witness_unprotected
#print axioms C15_serves

/-! ## Wave 2 — the comparison as a parameter; raw header lines -/

theorem authOKW_eq (h : Option (List Char)) (τ : List Char) : authOKW eqCmp h τ = authOK h τ := by
  cases h with
  | none => rfl
  | some hs =>
    simp only [authOKW, authOK]
    cases word2 hs with
    | none => rfl
    | some w => simp [eqCmp]

theorem guardedW_eq {σ π : Type} (V : View σ π) (tok : Option (List Char)) (s : σ) (r : Request π) :
    guardedW eqCmp V tok s r = guarded V tok s r := by
  cases tok with
  | none => rfl
  | some τ => simp only [guardedW, guarded, authOKW_eq]

theorem handleW_eq {σ π : Type} (V : View σ π) (t : Table) (tok : Option (List Char)) (s : σ) (r : Request π) :
    handleW eqCmp V t tok s r = handle V t tok s r := by
  simp only [handleW, handle, serveRouteW, serveRoute, guardedW_eq]

theorem obsLookup_good (o : Obs) (h : compareIsEquality o = true) (w τ : List Char) (v : Bool)
    (hl : obsLookup o w τ = some v) : v = decide (w = τ) := by
  induction o with
  | nil => simp [obsLookup] at hl
  | cons x rest ih =>
    obtain ⟨p, e, b⟩ := x
    simp only [compareIsEquality, List.all_cons, Bool.and_eq_true, beq_iff_eq] at h
    simp only [obsLookup] at hl
    split at hl
    · rename_i hpe
      obtain ⟨rfl, rfl⟩ := hpe
      cases hl
      exact h.1
    · exact ih (by simpa [compareIsEquality] using h.2) hl

/-- if every observation is the verdict of string equality, the comparison of the run IS string equality -/
theorem cmpOf_good (o : Obs) (h : compareIsEquality o = true) : cmpOf o = eqCmp := by
  funext w τ
  simp only [cmpOf, eqCmp]
  cases hl : obsLookup o w τ with
  | none => rfl
  | some v => simp [obsLookup_good o h w τ v hl]

/-- `auth_exact` with the comparison as a parameter: it holds for a comparison that is string equality on
every possible credentials word … -/
theorem auth_exactW (cmp : Cmp) (hc : ∀ w τ, ' ' ∉ w → cmp w τ = decide (w = τ)) (h τ : List Char) :
    authOKW cmp (some h) τ = .accept ↔ word2 h = some τ := by
  cases hw : word2 h with
  | none => simp [authOKW, hw]
  | some w =>
    have hns : ' ' ∉ w := by
      obtain ⟨_, _, _, hn, _⟩ := (word2_spec h w).mp hw
      exact hn
    by_cases e : w = τ
    · subst e; simp [authOKW, hw, hc w w hns]
    · simp [authOKW, hw, hc w τ hns, e]

/-- … and ONLY for such a comparison: `auth_exact` requires exactly string equality (every space-free `w`
is the credentials word of the header `"Bearer " ++ w`). -/
theorem auth_exactW_requires (cmp : Cmp)
    (hex : ∀ h τ, authOKW cmp (some h) τ = .accept ↔ word2 h = some τ) :
    ∀ w τ, ' ' ∉ w → cmp w τ = decide (w = τ) := by
  intro w τ hw
  have h2 : word2 ("Bearer".toList ++ ' ' :: w) = some w :=
    (word2_spec _ _).mpr ⟨"Bearer".toList, [], by decide, hw, Or.inl rfl⟩
  have := hex ("Bearer".toList ++ ' ' :: w) τ
  simp only [authOKW, h2] at this
  by_cases e : w = τ
  · have h3 := this.mpr (by rw [e])
    simp only [e, decide_true]
    cases hcv : cmp τ τ with
    | true => rfl
    | false => rw [e] at h3; simp [hcv] at h3
  · simp only [e, decide_false]
    cases hcv : cmp w τ with
    | false => rfl
    | true =>
      have h3 := this.mp (by simp [hcv])
      exact absurd (Option.some.inj h3) e

theorem auth_exact_iff_equality (cmp : Cmp) :
    (∀ h τ, authOKW cmp (some h) τ = .accept ↔ word2 h = some τ) ↔
      (∀ w τ, ' ' ∉ w → cmp w τ = decide (w = τ)) :=
  ⟨auth_exactW_requires cmp, fun hc h τ => auth_exactW cmp hc h τ⟩

/-- the decorator of the run (comparison = equality patched by the observations) accepts exactly the
requests presenting the token, when the probed fact holds -/
theorem auth_exact_obs (o : Obs) (hgood : compareIsEquality o = true) (h τ : List Char) :
    authOKW (cmpOf o) (some h) τ = .accept ↔ word2 h = some τ := by
  rw [cmpOf_good o hgood, authOKW_eq]; exact auth_exact h τ

/-- every proper prefix of the token (the empty word included), every extension, every same-length
variant is refused by the decorator of the run -/
theorem auth_obs_other_word (o : Obs) (hgood : compareIsEquality o = true) (a w τ : List Char)
    (ha : ' ' ∉ a) (hw : ' ' ∉ w) (hne : w ≠ τ) : authOKW (cmpOf o) (some (a ++ ' ' :: w)) τ = .reject := by
  rw [cmpOf_good o hgood, authOKW_eq]; exact auth_other_word a w τ ha hw hne

/-- the full statement with the comparison as a parameter -/
def C15_fullW (t : Table) (cmp : Cmp) : Prop :=
  ∀ (σ π : Type) (V : View σ π) (τ : List Char) (s : σ) (r : Request π),
    ¬ presents r τ →
    (∀ rt, t.routes[r.route]? = some rt → isPublic rt = false) →
    (handleW cmp V t (some τ) s r).2 ≥ 400 ∧ (handleW cmp V t (some τ) s r).1 = s

def C15_but_optionsW (t : Table) (cmp : Cmp) : Prop :=
  ∀ (σ π : Type) (V : View σ π) (τ : List Char) (s : σ) (r : Request π),
    ¬ presents r τ →
    (∀ rt, t.routes[r.route]? = some rt → isPublic rt = false) →
    (handleW cmp V t (some τ) s r).1 = s ∧ (r.method ≠ "OPTIONS" → (handleW cmp V t (some τ) s r).2 ≥ 400)

/-- The property for what was probed in a run: the route table AND the comparison observed on the real
decorator. -/
def C15_fullC (c : Cfg) : Prop := C15_fullW c.table (cmpOf c.obs)

theorem C15_fullW_eq (t : Table) : C15_fullW t eqCmp ↔ C15_full t := by
  simp only [C15_fullW, C15_full, handleW_eq]

/-- with the probed fact, the statement about the run's comparison is the statement `C15_full` (nothing
was weakened by introducing the parameter) -/
theorem C15_fullC_iff (c : Cfg) (hcmp : compareIsEquality c.obs = true) : C15_fullC c ↔ C15_full c.table := by
  unfold C15_fullC; rw [cmpOf_good c.obs hcmp]; exact C15_fullW_eq c.table

theorem C15_fullC_of_good (c : Cfg) (hok : allProtected c.table = true) (hno : noAutoOptions c.table = true)
    (hcmp : compareIsEquality c.obs = true) : C15_fullC c :=
  (C15_fullC_iff c hcmp).mpr (C15_full_of_good c.table hok hno)

theorem C15_partialC (c : Cfg) (hok : allProtected c.table = true) (hcmp : compareIsEquality c.obs = true) :
    C15_but_optionsW c.table (cmpOf c.obs) := by
  rw [cmpOf_good c.obs hcmp]
  intro σ π V τ s r hnp hpub
  simp only [handleW_eq]
  exact C15_partial c.table hok σ π V τ s r hnp hpub

/-- Negation witness `wrong-credential-accepted`: the real decorator was observed to accept a credentials
word `p ≠ e` for the configured token `e` (e.g. a proper prefix of it): the request `Authorization:
"Bearer " ++ p` to a protected rule is served. -/
theorem C15_witness_compare (c : Cfg) (i : Nat) (m : String) (p e : List Char)
    (h : wrongAcceptAt c i m p e = true) : ¬ C15_fullC c := by
  intro hf
  unfold wrongAcceptAt at h
  cases hr : c.table.routes[i]? with
  | none => simp [hr] at h
  | some rt =>
    simp only [hr, Bool.and_eq_true, Bool.not_eq_true', decide_eq_false_iff_not] at h
    obtain ⟨⟨⟨hacc, hne⟩, hsp⟩, ⟨⟨⟨⟨hp, hs⟩, hpr⟩, hm⟩, hao⟩⟩ := h
    have hsp' : ' ' ∉ p := by simpa using hsp
    have h2 : word2 ('B' :: 'e' :: 'a' :: 'r' :: 'e' :: 'r' :: ' ' :: p) = some p :=
      (word2_spec _ _).mpr ⟨['B', 'e', 'a', 'r', 'e', 'r'], [], by decide, hsp', Or.inl rfl⟩
    have := (hf Unit Unit (fun _ _ s => (s, 200)) e ()
      { route := i, method := m, auth := some ('B' :: 'e' :: 'a' :: 'r' :: 'e' :: 'r' :: ' ' :: p), file := "", payload := () }
      (by rintro ⟨h, hh, hw⟩
          simp only [Option.some.injEq] at hh
          subst hh
          rw [h2] at hw
          exact hne (Option.some.inj hw))
      (by intro rt' hrt'; simp only [hr] at hrt'; cases hrt'; exact hp)).1
    have hm' : m ∈ rt.methods := by simpa using hm
    simp [handleW, serveRouteW, guardedW, authOKW, hr, hm', hao, hs, hpr, h2, hacc] at this

/-- the seeded comparison accepts every prefix and every extension of the token -/
theorem zipCmp_prefix (p τ : List Char) (h : p <+: τ) : zipCmp p τ = true := by
  induction p generalizing τ with
  | nil => cases τ <;> rfl
  | cons a as ih =>
    cases τ with
    | nil => rfl
    | cons b bs =>
      rw [List.cons_prefix_cons] at h
      simp [zipCmp, h.1, ih bs h.2]

theorem zipCmp_extension (p τ : List Char) (h : τ <+: p) : zipCmp p τ = true := by
  induction τ generalizing p with
  | nil => cases p <;> rfl
  | cons b bs ih =>
    cases p with
    | nil => rfl
    | cons a as =>
      rw [List.cons_prefix_cons] at h
      simp [zipCmp, h.1, ih as h.2]

/-- hence it does not satisfy `auth_exact`: the empty credentials word is accepted for every token -/
theorem zipCmp_not_exact : ¬ (∀ h τ, authOKW zipCmp (some h) τ = .accept ↔ word2 h = some τ) := by
  intro hex
  have := auth_exactW_requires zipCmp hex [] ['a'] (by simp)
  simp [zipCmp] at this

/-! ### raw header lines -/

theorem headerValue_none_iff (tr : Transport) (raw : List (List Char × List Char)) :
    headerValue tr raw = none ↔ ∀ nv ∈ raw, isAuthName nv.1 = false := by
  unfold headerValue authValues
  cases hf : raw.filter (fun nv => isAuthName nv.1) with
  | nil =>
    simp only [List.map_nil, true_iff]
    intro nv hnv
    have := List.filter_eq_nil_iff.mp hf nv hnv
    simpa using this
  | cons x xs =>
    simp only [List.map_cons, reduceCtorEq, false_iff]
    intro hall
    have hx : x ∈ raw.filter (fun nv => isAuthName nv.1) := by rw [hf]; simp
    have := (List.mem_filter.mp hx)
    rw [hall x this.1] at this
    exact absurd this.2 (by simp)

/-- the field name is matched without regard to ASCII case -/
example : isAuthName "Authorization".toList = true ∧ isAuthName "authorization".toList = true ∧
    isAuthName "AUTHORIZATION".toList = true ∧ isAuthName "aUtHoRiZaTiOn".toList = true ∧
    isAuthName "Authorization_".toList = false ∧ isAuthName "Authorization ".toList = false := by decide

/-- The statement for requests given as header LINES through any gateway: whatever lines are sent, if the
value the decorator sees does not present the token, the request is refused and changes nothing. -/
theorem C15_refuse_raw (t : Table) (hok : allProtected t = true)
    {σ π : Type} (V : View σ π) (τ : List Char) (s : σ) (tr : Transport) (raw : List (List Char × List Char))
    (i : Nat) (m f : String) (p : π)
    (hnp : ∀ h, headerValue tr raw = some h → word2 h ≠ some τ)
    (hpub : ∀ rt, t.routes[i]? = some rt → isPublic rt = false)
    (hopt : m ≠ "OPTIONS") :
    let r : Request π := { route := i, method := m, auth := headerValue tr raw, file := f, payload := p }
    (handle V t (some τ) s r).2 ≥ 400 ∧ (handle V t (some τ) s r).1 = s := by
  intro r
  exact C15_refuse t hok V τ s r (by rintro ⟨h, hh, hw⟩; exact hnp h hh hw) hpub hopt

/-- second word of `a ++ " " ++ w ++ "," ++ r` (`w` space-free) contains the comma -/
theorem word2_comma (a w r x : List Char) (ha : ' ' ∉ a) (hw : ' ' ∉ w)
    (hx : word2 (a ++ ' ' :: (w ++ ',' :: r)) = some x) : ',' ∈ x := by
  rcases first_space r with hn | ⟨b, r', hb, rfl⟩
  · have hs : ' ' ∉ w ++ ',' :: r := by simp [hw, hn]
    have : word2 (a ++ ' ' :: (w ++ ',' :: r)) = some (w ++ ',' :: r) :=
      (word2_spec _ _).mpr ⟨a, [], ha, hs, Or.inl rfl⟩
    rw [this] at hx; cases hx; simp
  · have hs : ' ' ∉ w ++ ',' :: b := by simp [hw, hb]
    have : word2 (a ++ ' ' :: (w ++ ',' :: (b ++ ' ' :: r'))) = some (w ++ ',' :: b) :=
      (word2_spec _ _).mpr ⟨a, r', ha, hs, Or.inr (by simp)⟩
    rw [this] at hx; cases hx; simp

/-- Duplicate Authorization lines: when the first line has the two-word form `scheme SP word` and the
gateway joins repeated lines with a separator starting with a comma (both werkzeug gateways), a
comma-free token is never presented — sending the right token twice, or a wrong one followed by the right
one, is refused. -/
theorem auth_duplicate_refused (sep' a w τ v2 : List Char) (vs : List (List Char))
    (ha : ' ' ∉ a) (hw : ' ' ∉ w) (hτ : ',' ∉ τ) :
    authOK (some (joinVals (',' :: sep') ((a ++ ' ' :: w) :: v2 :: vs))) τ ≠ .accept := by
  intro hacc
  have h2 := (auth_exact _ τ).mp hacc
  have hj : joinVals (',' :: sep') ((a ++ ' ' :: w) :: v2 :: vs)
      = a ++ ' ' :: (w ++ ',' :: (sep' ++ joinVals (',' :: sep') (v2 :: vs))) := by
    simp [joinVals]
  rw [hj] at h2
  exact hτ (word2_comma a w _ τ ha hw h2)

example : headerValue testClient [("Authorization".toList, "Bearer tok".toList), ("authorization".toList, "Bearer tok".toList)]
    = some "Bearer tok, Bearer tok".toList := by decide
example : headerValue wsgiServer [("X".toList, "y".toList), ("AUTHORIZATION".toList, "  \tBearer tok ".toList)]
    = some "Bearer tok ".toList := by decide
example : headerValue wsgiServer [("Authorization_".toList, "Bearer tok".toList)] = none := by decide

#print axioms auth_exactW
#print axioms auth_exactW_requires
#print axioms auth_exact_iff_equality
#print axioms auth_exact_obs
#print axioms cmpOf_good
#print axioms C15_fullC_iff
#print axioms C15_fullC_of_good
#print axioms C15_partialC
#print axioms C15_witness_compare
#print axioms zipCmp_prefix
#print axioms zipCmp_extension
#print axioms zipCmp_not_exact
#print axioms C15_refuse_raw
#print axioms auth_duplicate_refused
#print axioms headerValue_none_iff

/-! ## Wave 5 — every state-touching call of a request runs after the token check of that request -/

/-- a program whose first step is the check leaves the state alone when the credential is refused — whatever
the calls behind the check would do -/
theorem runProg_refused {σ : Type} (eff : String → σ → σ) (p : List CallEv) (h : orderOK p = true) (s : σ) :
    (runProg eff false p s).1 = s ∧ (p ≠ [] → (runProg eff false p s).2 = 401) := by
  cases p with
  | nil => exact ⟨rfl, fun h => absurd rfl h⟩
  | cons e rest =>
    cases e with
    | check => simp [runProg]
    | touch f => simp [orderOK] at h

/-- with the right token the whole program runs (sanity: the check does not stand in the way) -/
theorem runProg_accepted_nil {σ : Type} (eff : String → σ → σ) (s : σ) : runProg eff true [] s = (s, 200) := rfl

/-- the refused run executes exactly the calls of `refusedTrace` -/
theorem runProg_refusedTrace {σ : Type} (eff : String → σ → σ) (p : List CallEv) (s : σ) :
    (runProg eff false p s).1 = (runProg eff false (refusedTrace p) s).1 := by
  induction p generalizing s with
  | nil => rfl
  | cons e rest ih =>
    cases e with
    | check => simp [runProg, refusedTrace]
    | touch f => simp only [runProg, refusedTrace]; exact ih _

theorem refusedTrace_of_ok (p : List CallEv) (h : orderOK p = true) : (refusedTrace p).all isCheck = true := by
  cases p with
  | nil => rfl
  | cons e rest =>
    cases e with
    | check => rfl
    | touch f => simp [orderOK] at h

theorem runProg_counter_ge (ok : Bool) (p : List CallEv) (n : Nat) : n ≤ (runProg (fun _ m => m + 1) ok p n).1 := by
  induction p generalizing n with
  | nil => exact Nat.le_refl _
  | cons e rest ih =>
    cases e with
    | check => simp only [runProg]; split
               · exact ih n
               · exact Nat.le_refl _
    | touch f => simp only [runProg]; have := ih (n + 1); omega

/-- a program that touches state before its first check changes state for a refused credential (the call
counter as state) -/
theorem runProg_witness (p : List CallEv) (h : orderOK p = false) :
    (runProg (fun _ m => m + 1) false p 0).1 ≠ 0 := by
  cases p with
  | nil => simp [orderOK] at h
  | cons e rest =>
    cases e with
    | check => simp [orderOK] at h
    | touch f =>
      simp only [runProg]
      have := runProg_counter_ge false rest (0 + 1)
      omega

/-- the statement for the probed call table: on every non-public rule a refused credential changes nothing,
whatever the traced functions do -/
def CallsRefuse (rows : List CallRow) : Prop :=
  ∀ r ∈ rows, publicRules.contains r.rule = false →
    ∀ (σ : Type) (eff : String → σ → σ) (s : σ), (runProg eff false r.accepted s).1 = s

theorem C15_calls_refuse (rows : List CallRow) (h : callsOK rows = true) : CallsRefuse rows := by
  intro r hr hp σ eff s
  unfold callsOK at h
  rw [List.all_eq_true] at h
  have := h r hr
  simp only [rowOK, hp, Bool.false_or, Bool.and_eq_true] at this
  exact (runProg_refused eff r.accepted this.1.1 s).1

/-- Negation witness `state-call-before-token-check`: a non-public rule whose program enters a state-touching
function before the token check. -/
theorem C15_witness_call_order (rows : List CallRow) (i : Nat) (h : badRowAt rows i = true) : ¬ CallsRefuse rows := by
  intro hf
  unfold badRowAt at h
  cases hr : rows[i]? with
  | none => simp [hr] at h
  | some r =>
    simp only [hr, Bool.and_eq_true, Bool.not_eq_true'] at h
    exact runProg_witness r.accepted h.2 (hf r (List.mem_of_getElem? hr) h.1 Nat (fun _ m => m + 1) 0)

example : orderOK [.check, .touch "BptkServer._ensure_instance_exists", .check, .touch "InstanceManager.get_instance"] = true := by decide
example : orderOK [.touch "InstanceManager._update_instance_timestamp", .check] = false := by decide
example : refusedTrace [.touch "BptkServer._ensure_instance_exists", .touch "FileAdapter.load_instance", .check, .touch "x"]
    = [.touch "BptkServer._ensure_instance_exists", .touch "FileAdapter.load_instance", .check] := by decide

#print axioms runProg_refused
#print axioms runProg_refusedTrace
#print axioms runProg_witness
#print axioms C15_calls_refuse
#print axioms C15_witness_call_order

/-! ## Wave 6 — the method axis: the refusal holds for EVERY method dispatched to a protected view -/

theorem lookup_mem (o : MethodObs) (m : String) (b : Bool) (h : o.lookup m = some b) : (m, b) ∈ o := by
  induction o with
  | nil => simp [List.lookup] at h
  | cons x rest ih =>
    obtain ⟨a, c⟩ := x
    simp only [List.lookup] at h
    split at h
    · rename_i e
      have : m = a := by simpa using e
      cases h; simp [this]
    · exact List.mem_cons_of_mem _ (ih h)

theorem skipOf_good (o : MethodObs) (h : checkIgnoresMethod o = true) (m : String) : skipOf o m = false := by
  unfold skipOf
  cases hl : o.lookup m with
  | none => rfl
  | some b =>
    have hm := lookup_mem o m b hl
    unfold checkIgnoresMethod at h
    rw [List.all_eq_true] at h
    have := h (m, b) hm
    simpa using this

/-- a wrapper that does not consult the method: the method-aware dispatch IS the dispatch of the model -/
theorem handleM_good {σ π : Type} (o : MethodObs) (h : checkIgnoresMethod o = true) (V : View σ π) (t : Table)
    (tok : Option (List Char)) (s : σ) (r : Request π) : handleM o V t tok s r = handle V t tok s r := by
  simp only [handleM, handle, serveRouteM, serveRoute, guardedM, skipOf_good o h, Bool.false_eq_true, if_false]

def C15_fullM (t : Table) (o : MethodObs) : Prop :=
  ∀ (σ π : Type) (V : View σ π) (τ : List Char) (s : σ) (r : Request π),
    ¬ presents r τ →
    (∀ rt, t.routes[r.route]? = some rt → isPublic rt = false) →
    (handleM o V t (some τ) s r).2 ≥ 400 ∧ (handleM o V t (some τ) s r).1 = s

theorem C15_fullM_iff (t : Table) (o : MethodObs) (h : checkIgnoresMethod o = true) : C15_fullM t o ↔ C15_full t := by
  simp only [C15_fullM, C15_full, handleM_good o h]

/-- **Every rule, every method.**  With all non-public rules protected and a wrapper that ignores the method:
for every rule `i`, EVERY method string `m` — dispatched to the view (GET, POST, PUT, the HEAD Flask adds to GET
rules, a non-automatic OPTIONS), or not (405) — every header not presenting the token, every state and every view
behaviour: the state is unchanged, and the status is ≥ 400 unless it is Flask's own automatic OPTIONS answer
(known finding `auto-options-200`). -/
theorem C15_every_method (t : Table) (o : MethodObs) (hok : allProtected t = true) (hm : checkIgnoresMethod o = true)
    {σ π : Type} (V : View σ π) (τ : List Char) (s : σ) (i : Nat) (rt : Route) (hr : t.routes[i]? = some rt)
    (hp : isPublic rt = false) (m : String) (a : Option (List Char)) (f : String) (p : π)
    (hnp : ¬ presents ({ route := i, method := m, auth := a, file := f, payload := p } : Request π) τ) :
    (handleM o V t (some τ) s { route := i, method := m, auth := a, file := f, payload := p }).1 = s ∧
    (¬ (m = "OPTIONS" ∧ rt.autoOptions = true) →
      (handleM o V t (some τ) s { route := i, method := m, auth := a, file := f, payload := p }).2 ≥ 400) := by
  rw [handleM_good o hm]
  have hpub : ∀ rt', t.routes[i]? = some rt' → isPublic rt' = false := by
    intro rt' h'; rw [hr] at h'; cases h'; exact hp
  refine ⟨C15_state_unchanged t hok V τ s _ hnp hpub, ?_⟩
  intro hno
  unfold handle
  simp only [hr]
  split
  · simp
  · split
    · rename_i ho
      simp only [Bool.and_eq_true, beq_iff_eq] at ho
      exact absurd ho hno
    · exact (serveRoute_refuses t V τ s _ rt (routeOK_of_mem t hok _ rt hr) hp hnp).1

/-- Negation witness `method-unchecked`: the wrapper lets method `m` through without the check and a protected
non-public rule dispatches `m` (e.g. the automatically added HEAD): a request without header is served. -/
theorem C15_witness_method (t : Table) (o : MethodObs) (i : Nat) (m : String) (h : methodSkippedAt t o i m = true) :
    ¬ C15_fullM t o := by
  intro hf
  unfold methodSkippedAt at h
  simp only [Bool.and_eq_true] at h
  obtain ⟨hsk, h⟩ := h
  cases hr : t.routes[i]? with
  | none => simp [hr] at h
  | some rt =>
    simp only [hr, Bool.and_eq_true, Bool.not_eq_true'] at h
    obtain ⟨⟨⟨⟨hp, hs⟩, hpr⟩, hmm⟩, hao⟩ := h
    have := (hf Unit Unit (fun _ _ s => (s, 200)) [] ()
      { route := i, method := m, auth := none, file := "", payload := () }
      (by rintro ⟨h, hh, _⟩; simp at hh)
      (by intro rt' hrt'; simp only [hr] at hrt'; cases hrt'; exact hp)).1
    have hm' : m ∈ rt.methods := by simpa using hmm
    simp [handleM, serveRouteM, guardedM, hr, hm', hao, hs, hpr, hsk] at this

example : checkIgnoresMethod [("GET", false), ("HEAD", false), ("POST", false)] = true := by decide
example : methodSkippedAt exTable [("GET", false), ("PUT", true)] 1 "PUT" = true := by decide

#print axioms handleM_good
#print axioms C15_fullM_iff
#print axioms C15_every_method
#print axioms C15_witness_method

/-! ## Wave 8 — refusal holds after ANY history of requests (authorised, refused, raising handlers) -/

/-- a wrapper that keeps nothing between requests: one request of a history is the request of the model, whatever
came before -/
theorem stepH_stateless {σ π : Type} (V : View σ π) (t : Table) (τ : List Char) (s : Srv σ) (r : Request π) (raised : Bool) :
    (stepH false V t τ s r raised).1.st = (handle V t (some τ) s.st r).1 ∧
    (stepH false V t τ s r raised).2 = (handle V t (some τ) s.st r).2 ∧
    (stepH false V t τ s r raised).1.residue = s.residue := by
  simp [stepH]

/-- the statement over histories: after ANY sequence of earlier requests — with the right token or without, served,
refused, or ending in a raising handler — a request that does not present the token is refused and changes nothing -/
def C15_fullH (sticky : Bool) (t : Table) : Prop :=
  ∀ (σ π : Type) (V : View σ π) (τ : List Char) (s0 : σ) (hist : List (Request π × Bool)) (r : Request π) (raised : Bool),
    ¬ presents r τ →
    (∀ rt, t.routes[r.route]? = some rt → isPublic rt = false) →
    (stepH sticky V t τ (runH sticky V t τ ⟨s0, false⟩ hist) r raised).2 ≥ 400 ∧
    (stepH sticky V t τ (runH sticky V t τ ⟨s0, false⟩ hist) r raised).1.st = (runH sticky V t τ ⟨s0, false⟩ hist).st

theorem C15_fullH_iff (t : Table) : C15_fullH false t ↔ C15_full t := by
  constructor
  · intro h σ π V τ s r hnp hpub
    have := h σ π V τ s [] r false hnp hpub
    simpa [runH, stepH] using this
  · intro h σ π V τ s0 hist r raised hnp hpub
    obtain ⟨a, b, _⟩ := stepH_stateless V t τ (runH false V t τ ⟨s0, false⟩ hist) r raised
    rw [a, b]
    exact h σ π V τ _ r hnp hpub

/-- **`C15_refuse_after_history`**: all non-public rules protected and a stateless wrapper ⇒ after any history, from
any initial state, for any views (raising ones included), a request not presenting the token, to a non-public rule,
with a method other than OPTIONS, gets a status ≥ 400 and leaves the state as the history left it. -/
theorem C15_refuse_after_history (t : Table) (hok : allProtected t = true)
    {σ π : Type} (V : View σ π) (τ : List Char) (s0 : σ) (hist : List (Request π × Bool)) (r : Request π) (raised : Bool)
    (hnp : ¬ presents r τ) (hpub : ∀ rt, t.routes[r.route]? = some rt → isPublic rt = false) (hopt : r.method ≠ "OPTIONS") :
    (stepH false V t τ (runH false V t τ ⟨s0, false⟩ hist) r raised).2 ≥ 400 ∧
    (stepH false V t τ (runH false V t τ ⟨s0, false⟩ hist) r raised).1.st = (runH false V t τ ⟨s0, false⟩ hist).st := by
  obtain ⟨a, b, _⟩ := stepH_stateless V t τ (runH false V t τ ⟨s0, false⟩ hist) r raised
  rw [a, b]
  exact C15_refuse t hok V τ _ r hnp hpub hopt

theorem C15_state_unchanged_after_history (t : Table) (hok : allProtected t = true)
    {σ π : Type} (V : View σ π) (τ : List Char) (s0 : σ) (hist : List (Request π × Bool)) (r : Request π) (raised : Bool)
    (hnp : ¬ presents r τ) (hpub : ∀ rt, t.routes[r.route]? = some rt → isPublic rt = false) :
    (stepH false V t τ (runH false V t τ ⟨s0, false⟩ hist) r raised).1.st = (runH false V t τ ⟨s0, false⟩ hist).st := by
  rw [(stepH_stateless V t τ _ r raised).1]
  exact C15_state_unchanged t hok V τ _ r hnp hpub

/-- Negation witness `served-after-history`: a marker that survives a raising authorised request (`sticky`) — one
authorised request whose handler raises, then a request without any header to the same protected rule is served. -/
theorem C15_witness_sticky (t : Table) (i : Nat) (m : String) (h : protectedAt t i m = true) : ¬ C15_fullH true t := by
  intro hf
  unfold protectedAt at h
  cases hr : t.routes[i]? with
  | none => simp [hr] at h
  | some rt =>
    simp only [hr, Bool.and_eq_true, Bool.not_eq_true'] at h
    obtain ⟨⟨⟨⟨hp, hs⟩, hpr⟩, hmm⟩, hao⟩ := h
    have hm' : m ∈ rt.methods := by simpa using hmm
    -- the view answers with the status the request carries: 500 for the raising authorised one, 200 afterwards
    have hw2 : word2 ['B', ' ', 'k'] = some ['k'] := by decide
    have := (hf Unit Nat (fun _ p s => (s, p)) ['k'] ()
      [({ route := i, method := m, auth := some ['B', ' ', 'k'], file := "", payload := 500 }, true)]
      { route := i, method := m, auth := none, file := "", payload := 200 } false
      (by rintro ⟨h, hh, _⟩; simp at hh)
      (by intro rt' hrt'; simp only [hr] at hrt'; cases hrt'; exact hp)).1
    simp [runH, stepH, reachesWrapper, acceptsB, authOK, hw2, handle, handleM, serveRoute, serveRouteM, guarded, guardedM,
      skipOf, List.lookup, hr, hm', hao, hs, hpr] at this

example : checkIsStateless [("raising /equations", false), ("in flight", false)] = true := by decide
-- the sticky machine on the example table: refused before the raising request, served after it
example : ((stepH true (fun _ p s => (s, p)) exTable "tok".toList ⟨(), false⟩
      { route := 1, method := "POST", auth := none, file := "", payload := 200 } false).2,
    (stepH true (fun _ p s => (s, p)) exTable "tok".toList
      (runH true (fun _ p s => (s, p)) exTable "tok".toList ⟨(), false⟩
        [({ route := 1, method := "POST", auth := some "Bearer tok".toList, file := "", payload := 500 }, true)])
      { route := 1, method := "POST", auth := none, file := "", payload := 200 } false).2) = (401, 200) := by decide

#print axioms stepH_stateless
#print axioms C15_fullH_iff
#print axioms C15_refuse_after_history
#print axioms C15_state_unchanged_after_history
#print axioms C15_witness_sticky

/-! ## Wave 9 — protection is decided per matched rule -/

theorem overlap_of_matches (p q : List Seg) (path : List String) (hp : segMatches p path = true) (hq : segMatches q path = true) :
    patOverlap p q = true := by
  induction p generalizing q path with
  | nil =>
    cases path with
    | nil => cases q with
      | nil => rfl
      | cons b qs => cases b <;> simp [segMatches] at hq
    | cons x xs => simp [segMatches] at hp
  | cons a ps ih =>
    cases path with
    | nil => cases a <;> simp [segMatches] at hp
    | cons x xs =>
      cases q with
      | nil => simp [segMatches] at hq
      | cons b qs =>
        cases a <;> cases b <;> simp only [segMatches, patOverlap, Bool.and_eq_true, beq_iff_eq, bne_iff_ne, ne_eq] at hp hq ⊢
        · exact ⟨hp.1.trans hq.1.symm, ih qs xs hp.2 hq.2⟩
        · exact ⟨by rw [hp.1]; exact hq.1, ih qs xs hp.2 hq.2⟩
        · exact ⟨by rw [hq.1]; exact hp.1, ih qs xs hp.2 hq.2⟩
        · exact ih qs xs hp.2 hq.2

/-- the statement for a server whose check sits in front of the dispatch and exempts by a predicate on the path -/
def C15_fullP (ex : Exempt) (t : Table) (pats : List (List Seg)) : Prop :=
  ∀ (σ π : Type) (V : View σ π) (τ : List Char) (s : σ) (path : List String) (r : Request π),
    (∀ p, pats[r.route]? = some p → segMatches p path = true) →
    ¬ presents r τ →
    (∀ rt, t.routes[r.route]? = some rt → isPublic rt = false) →
    r.method ≠ "OPTIONS" →
    (handleP ex V t (some τ) s path r).2 ≥ 400 ∧ (handleP ex V t (some τ) s path r).1 = s

/-- **`C15_protection_by_rule`**: an exemption that never exempts a path dispatched to a non-public rule — i.e. that is
decided by the matched rule, whatever the variable segments are spelled like — keeps the refusal for every path. -/
theorem C15_protection_by_rule (ex : Exempt) (t : Table) (pats : List (List Seg)) (hst : t.staticFiles = [])
    (hagree : ∀ (path : List String) (i : Nat) (rt : Route) (p : List Seg), t.routes[i]? = some rt → pats[i]? = some p →
      segMatches p path = true → isPublic rt = false → ex path = false)
    (hlen : ∀ (i : Nat) (rt : Route), t.routes[i]? = some rt → ∃ p : List Seg, pats[i]? = some p) : C15_fullP ex t pats := by
  intro σ π V τ s path r hm hnp hpub hopt
  unfold handleP
  cases hr : t.routes[r.route]? with
  | none => simp
  | some rt =>
    obtain ⟨p, hp⟩ := hlen r.route rt hr
    have hex := hagree path r.route rt p hr hp (hm p hp) (hpub rt hr)
    simp only
    split
    · simp
    · split
      · rename_i ho
        simp only [Bool.and_eq_true, beq_iff_eq] at ho
        exact absurd ho.1 hopt
      · split
        · simp [hst]
        · simp only [hex, Bool.false_eq_true, if_false]
          exact guarded_refuses V τ s r hnp

/-- exemption by the matched rule agrees with itself when public and non-public patterns cannot match the same path -/
theorem ruleExempt_agrees (t : Table) (pats : List (List Seg)) (hsep : tableSeparated t pats = true)
    (path : List String) (i : Nat) (rt : Route) (p : List Seg) (hr : t.routes[i]? = some rt) (hp : pats[i]? = some p)
    (hm : segMatches p path = true) (hpub : isPublic rt = false) : ruleExempt t pats path = false := by
  unfold ruleExempt
  rw [Bool.eq_false_iff]
  intro hany
  rw [List.any_eq_true] at hany
  obtain ⟨⟨rt', p'⟩, hmem, hx⟩ := hany
  simp only [Bool.and_eq_true] at hx
  have hmem2 : (rt, p) ∈ t.routes.zip pats := by
    rw [List.mem_iff_getElem?]
    exact ⟨i, by simp [List.getElem?_zip_eq_some, hr, hp]⟩
  unfold tableSeparated at hsep
  rw [List.all_eq_true] at hsep
  have h1 := hsep (rt', p') hmem
  rw [List.all_eq_true] at h1
  have h2 := h1 (rt, p) hmem2
  have hov := overlap_of_matches p' p path hx.2 hm
  simp [hx.1, hpub, hov] at h2

theorem C15_by_rule_of_separated (t : Table) (pats : List (List Seg)) (hst : t.staticFiles = [])
    (hsep : tableSeparated t pats = true) (hlen : ∀ (i : Nat) (rt : Route), t.routes[i]? = some rt → ∃ p : List Seg, pats[i]? = some p) :
    C15_fullP (ruleExempt t pats) t pats :=
  C15_protection_by_rule (ruleExempt t pats) t pats hst
    (fun path i rt p hr hp hm hpub => ruleExempt_agrees t pats hsep path i rt p hr hp hm hpub) hlen

theorem pats_total (t : Table) (pats : List (List Seg)) (h : t.routes.length = pats.length) :
    ∀ (i : Nat) (rt : Route), t.routes[i]? = some rt → ∃ p : List Seg, pats[i]? = some p := by
  intro i rt hr
  have hi : i < t.routes.length := (List.getElem?_eq_some_iff.mp hr).1
  exact ⟨pats[i]'(h ▸ hi), List.getElem?_eq_getElem (h ▸ hi)⟩

/-- Negation witness `exemption by first path segment`: a non-public rule `/<var>/x` and an exempt first segment `n`:
the request `/n/x` without any header is dispatched to that rule and served. -/
theorem C15_witness_first_segment (t : Table) (pats : List (List Seg)) (names : List String) (i : Nat) (m n x : String)
    (h : firstSegCollision t pats names i m n x = true) : ¬ C15_fullP (firstSegExempt names) t pats := by
  intro hf
  unfold firstSegCollision at h
  simp only [Bool.and_eq_true, bne_iff_ne, ne_eq] at h
  obtain ⟨⟨hn, hne⟩, h⟩ := h
  cases hr : t.routes[i]? with
  | none => simp [hr] at h
  | some rt =>
    cases hp : pats[i]? with
    | none => simp [hr, hp] at h
    | some p =>
      simp only [hr, hp, Bool.and_eq_true, Bool.not_eq_true', beq_iff_eq, bne_iff_ne, ne_eq] at h
      obtain ⟨⟨⟨⟨hpub, hs⟩, hmm⟩, hopt⟩, hpat⟩ := h
      have hm' : m ∈ rt.methods := by simpa using hmm
      have := (hf Unit Unit (fun _ _ s => (s, 200)) [] () [n, x]
        { route := i, method := m, auth := none, file := "", payload := () }
        (by intro p' hp'; rw [hp] at hp'; cases hp'; rw [hpat]; simp [segMatches, hne])
        (by rintro ⟨h, hh, _⟩; simp at hh)
        (by intro rt' hrt'; simp only [hr] at hrt'; cases hrt'; exact hpub)
        hopt).1
      have hmo : (m == "OPTIONS") = false := by simpa using hopt
      have hn' : n ∈ names := by simpa using hn
      simp [handleP, hr, hm', hmo, hs, firstSegExempt, hn'] at this

example : segMatches [.var, .lit "run-step"] ["metrics", "run-step"] = true := by decide
example : firstSegExempt ["", "healthy", "metrics", "full-metrics"] ["metrics", "run-step"] = true := by decide
example : patOverlap [.lit "metrics"] [.var, .lit "run-step"] = false := by decide

#print axioms overlap_of_matches
#print axioms C15_protection_by_rule
#print axioms ruleExempt_agrees
#print axioms C15_by_rule_of_separated
#print axioms C15_witness_first_segment

end Bptk.C15
