import Bptk.Core.C15
/-!
C15 — property theorems.

Quantifiers: every header string (`List Char`), every token, every route table satisfying the decidable
side condition, every state type / state, every view behaviour `V`, every request (rule index, method,
header, payload).  Nothing is bounded.
-/
namespace Bptk.C15

/-! ### `split(" ")` characterised -/

theorem splitSp_ne_nil (h : List Char) : splitSp h ≠ [] := by
  induction h with
  | nil => simp [splitSp]
  | cons c cs ih =>
    simp only [splitSp]
    split
    · simp
    · cases hs : splitSp cs <;> simp [consHead]

theorem splitSp_nospace (a : List Char) (h : ' ' ∉ a) : splitSp a = [a] := by
  induction a with
  | nil => rfl
  | cons c cs ih =>
    have hc : c ≠ ' ' := fun e => h (by simp [e])
    have hcs : ' ' ∉ cs := fun e => h (by simp [e])
    simp [splitSp, hc, ih hcs, consHead]

theorem splitSp_append (a r : List Char) (h : ' ' ∉ a) :
    splitSp (a ++ ' ' :: r) = a :: splitSp r := by
  induction a with
  | nil => simp [splitSp]
  | cons c cs ih =>
    have hc : c ≠ ' ' := fun e => h (by simp [e])
    have hcs : ' ' ∉ cs := fun e => h (by simp [e])
    simp [splitSp, hc, ih hcs, consHead]

/-- every string either has no space or splits at its first space -/
theorem first_space (h : List Char) :
    ' ' ∉ h ∨ ∃ a r, ' ' ∉ a ∧ h = a ++ ' ' :: r := by
  induction h with
  | nil => left; simp
  | cons c cs ih =>
    by_cases hc : c = ' '
    · right; exact ⟨[], cs, by simp, by simp [hc]⟩
    · rcases ih with ih | ⟨a, r, ha, he⟩
      · left
        intro hm
        rcases List.mem_cons.mp hm with e | e
        · exact hc e.symm
        · exact ih e
      · right
        refine ⟨c :: a, r, ?_, by simp [he]⟩
        intro hm
        rcases List.mem_cons.mp hm with e | e
        · exact hc e.symm
        · exact ha e

/-- the words returned by `split(" ")` contain no space -/
theorem splitSp_words_nospace (h : List Char) : ∀ w ∈ splitSp h, ' ' ∉ w := by
  induction h with
  | nil => simp [splitSp]
  | cons c cs ih =>
    intro w hw
    simp only [splitSp] at hw
    split at hw
    · rcases List.mem_cons.mp hw with rfl | hw
      · simp
      · exact ih w hw
    · rename_i hc
      cases hs : splitSp cs with
      | nil => exact absurd hs (splitSp_ne_nil cs)
      | cons w0 ws =>
        rw [hs] at hw ih
        simp only [consHead] at hw
        rcases List.mem_cons.mp hw with rfl | hw
        · intro hm
          rcases List.mem_cons.mp hm with e | e
          · exact hc e.symm
          · exact ih w0 (by simp) e
        · exact ih w (by simp [hw])

/-- `word2 h = some w` exactly when `h` is `a ++ " " ++ w` or `a ++ " " ++ w ++ " " ++ rest` with `a`, `w`
free of spaces: `w` is the second space-separated word, the text of the header's credentials position. -/
theorem word2_spec (h w : List Char) :
    word2 h = some w ↔
      ∃ a rest, ' ' ∉ a ∧ ' ' ∉ w ∧ (h = a ++ ' ' :: w ∨ h = a ++ ' ' :: (w ++ ' ' :: rest)) := by
  constructor
  · intro hw
    rcases first_space h with hn | ⟨a, r, ha, rfl⟩
    · simp [word2, splitSp_nospace h hn] at hw
    · simp only [word2, splitSp_append a r ha] at hw
      rcases first_space r with hn | ⟨b, r', hb, rfl⟩
      · simp [splitSp_nospace r hn] at hw
        subst hw
        exact ⟨a, [], ha, hn, Or.inl rfl⟩
      · simp [splitSp_append b r' hb] at hw
        subst hw
        exact ⟨a, r', ha, hb, Or.inr rfl⟩
  · rintro ⟨a, rest, ha, hw, rfl | rfl⟩
    · simp [word2, splitSp_append a w ha, splitSp_nospace w hw]
    · simp [word2, splitSp_append a _ ha, splitSp_append w rest hw]

/-- a header without any space has no second word (`split(" ")[1]` raises IndexError -> 500) -/
theorem word2_none_iff (h : List Char) : word2 h = none ↔ ' ' ∉ h := by
  constructor
  · intro hw hm
    rcases first_space h with hn | ⟨a, r, ha, rfl⟩
    · exact hn hm
    · simp only [word2, splitSp_append a r ha] at hw
      cases hs : splitSp r with
      | nil => exact splitSp_ne_nil r hs
      | cons x xs => simp [hs] at hw
  · intro hn
    simp [word2, splitSp_nospace h hn]

/-! ### the decorator accepts exactly the requests that present the token -/

/-- `token_required` lets a request through iff the credentials word of its header equals the token —
over ALL header strings and tokens. -/
theorem auth_exact (h τ : List Char) : authOK (some h) τ = .accept ↔ word2 h = some τ := by
  cases hw : word2 h with
  | none => simp [authOK, hw]
  | some w => by_cases e : w = τ <;> simp [authOK, hw, e]

theorem auth_absent (τ : List Char) : authOK none τ = .reject := rfl

/-- one-word and empty headers (`"tok"`, `"Bearer"`, `""`) are refused (with a 500) -/
theorem auth_one_word (h τ : List Char) (hn : ' ' ∉ h) : authOK (some h) τ = .error := by
  simp [authOK, (word2_none_iff h).mpr hn]

/-- a header `scheme ++ " " ++ w` with any other word `w` in the credentials position — prefix, suffix,
case variant of the token, empty — is refused -/
theorem auth_other_word (a w τ : List Char) (ha : ' ' ∉ a) (hw : ' ' ∉ w) (hne : w ≠ τ) :
    authOK (some (a ++ ' ' :: w)) τ = .reject := by
  have : word2 (a ++ ' ' :: w) = some w := (word2_spec _ _).mpr ⟨a, [], ha, hw, Or.inl rfl⟩
  simp [authOK, this, hne]

/-- the token in any position other than the second word does not help: `tok ++ " " ++ w` -/
theorem auth_token_first (w τ : List Char) (hτ : ' ' ∉ τ) (hw : ' ' ∉ w) (hne : w ≠ τ) :
    authOK (some (τ ++ ' ' :: w)) τ = .reject := auth_other_word τ w τ hτ hw hne

/-- doubled separator (`"Bearer  tok"`): the second word is empty -/
theorem auth_double_space (a w τ : List Char) (ha : ' ' ∉ a) (hτ : τ ≠ []) :
    authOK (some (a ++ ' ' :: ' ' :: w)) τ = .reject := by
  have : word2 (a ++ ' ' :: ' ' :: w) = some [] :=
    (word2_spec _ _).mpr ⟨a, w, ha, by simp, Or.inr (by simp)⟩
  simp [authOK, this, Ne.symm hτ]

/-- a token containing a space can never be presented -/
theorem auth_token_with_space (h τ : List Char) (hτ : ' ' ∈ τ) : authOK (some h) τ ≠ .accept := by
  intro hacc
  obtain ⟨_, _, _, hn, _⟩ := (word2_spec h τ).mp ((auth_exact h τ).mp hacc)
  exact hn hτ

/-! ### requests -/

/-- A request presents token `τ` iff it carries an Authorization header whose credentials word is `τ`. -/
def presents {π : Type} (r : Request π) (τ : List Char) : Prop := ∃ h, r.auth = some h ∧ word2 h = some τ

theorem guarded_refuses {σ π : Type} (V : View σ π) (τ : List Char) (s : σ) (r : Request π)
    (hnp : ¬ presents r τ) :
    (guarded V (some τ) s r).2 ≥ 400 ∧ (guarded V (some τ) s r).1 = s := by
  unfold guarded
  simp only
  cases ho : authOK r.auth τ with
  | accept =>
    exfalso
    cases ha : r.auth with
    | none => rw [ha] at ho; simp [authOK] at ho
    | some h => rw [ha] at ho; exact hnp ⟨h, ha, (auth_exact h τ).mp ho⟩
  | reject => simp
  | error => simp

theorem routeOK_of_mem (t : Table) (h : allProtected t = true) (i : Nat) (rt : Route)
    (hi : t.routes[i]? = some rt) : routeOK t rt = true := by
  unfold allProtected at h
  rw [List.all_eq_true] at h
  exact h rt (List.mem_of_getElem? hi)

theorem serveRoute_refuses (t : Table) {σ π : Type} (V : View σ π) (τ : List Char) (s : σ) (r : Request π)
    (rt : Route) (hrok : routeOK t rt = true) (hp : isPublic rt = false) (hnp : ¬ presents r τ) :
    (serveRoute V t (some τ) s r rt).2 ≥ 400 ∧ (serveRoute V t (some τ) s r rt).1 = s := by
  simp only [routeOK, hp, Bool.false_or] at hrok
  unfold serveRoute
  cases hs : rt.static with
  | true =>
    simp only [hs, if_true] at hrok
    have hnil : t.staticFiles = [] := by simpa using hrok
    simp [hnil]
  | false =>
    simp only [hs, Bool.false_eq_true, if_false] at hrok
    simp only [hrok, if_true, Bool.false_eq_true, if_false]
    exact guarded_refuses V τ s r hnp

/-- state part: whatever the method (automatic OPTIONS included), a request without the token to a
non-public rule leaves the state as it was. -/
theorem C15_state_unchanged (t : Table) (hok : allProtected t = true)
    {σ π : Type} (V : View σ π) (τ : List Char) (s : σ) (r : Request π)
    (hnp : ¬ presents r τ)
    (hpub : ∀ rt, t.routes[r.route]? = some rt → isPublic rt = false) :
    (handle V t (some τ) s r).1 = s := by
  unfold handle
  cases hr : t.routes[r.route]? with
  | none => rfl
  | some rt =>
    simp only
    split
    · rfl
    · split
      · rfl
      · exact (serveRoute_refuses t V τ s r rt (routeOK_of_mem t hok _ rt hr) (hpub rt hr) hnp).2

/-- `C15_refuse`: with a table in which every non-public rule is protected, a request that does not
present the token, to a non-public rule, with a method other than OPTIONS, gets a status ≥ 400 and
leaves the state as it was — whatever the views do, whatever the state, header, method, payload. -/
theorem C15_refuse (t : Table) (hok : allProtected t = true)
    {σ π : Type} (V : View σ π) (τ : List Char) (s : σ) (r : Request π)
    (hnp : ¬ presents r τ)
    (hpub : ∀ rt, t.routes[r.route]? = some rt → isPublic rt = false)
    (hopt : r.method ≠ "OPTIONS") :
    (handle V t (some τ) s r).2 ≥ 400 ∧ (handle V t (some τ) s r).1 = s := by
  refine ⟨?_, C15_state_unchanged t hok V τ s r hnp hpub⟩
  unfold handle
  cases hr : t.routes[r.route]? with
  | none => simp
  | some rt =>
    simp only
    split
    · simp
    · split
      · rename_i ho
        simp only [Bool.and_eq_true, beq_iff_eq] at ho
        exact absurd ho.1 hopt
      · exact (serveRoute_refuses t V τ s r rt (routeOK_of_mem t hok _ rt hr) (hpub rt hr) hnp).1

/-- The property at full strength, by the letter of the statement (no exception for OPTIONS): for the
route table `t`, every request that does not present the configured token, to any non-public rule, with
any method, in any state, whatever the views would do, is answered with a non-success status and leaves
the state unchanged. -/
def C15_full (t : Table) : Prop :=
  ∀ (σ π : Type) (V : View σ π) (τ : List Char) (s : σ) (r : Request π),
    ¬ presents r τ →
    (∀ rt, t.routes[r.route]? = some rt → isPublic rt = false) →
    (handle V t (some τ) s r).2 ≥ 400 ∧ (handle V t (some τ) s r).1 = s

theorem C15_full_of_good (t : Table) (hok : allProtected t = true) (hno : noAutoOptions t = true) :
    C15_full t := by
  intro σ π V τ s r hnp hpub
  by_cases hopt : r.method = "OPTIONS"
  · refine ⟨?_, C15_state_unchanged t hok V τ s r hnp hpub⟩
    -- OPTIONS is not answered automatically on a non-public rule: it goes through the same checks
    unfold handle
    cases hr : t.routes[r.route]? with
    | none => simp
    | some rt =>
      have hp := hpub rt hr
      have hna : rt.autoOptions = false ∨ "OPTIONS" ∉ rt.methods := by
        unfold noAutoOptions at hno
        rw [List.all_eq_true] at hno
        have := hno rt (List.mem_of_getElem? hr)
        simpa [hp] using this
      simp only
      split
      · simp
      · rename_i hm
        split
        · rename_i ho
          exfalso
          simp only [Bool.and_eq_true, beq_iff_eq] at ho
          rw [hopt] at hm
          have hm' : "OPTIONS" ∈ rt.methods := by simpa using hm
          rcases hna with h1 | h2
          · rw [ho.2] at h1; cases h1
          · exact h2 hm'
        · exact (serveRoute_refuses t V τ s r rt (routeOK_of_mem t hok _ rt hr) hp hnp).1
  · exact C15_refuse t hok V τ s r hnp hpub hopt

/-- What holds when Flask's automatic OPTIONS is left on: everything except the status of OPTIONS
requests (which still change nothing). -/
def C15_but_options (t : Table) : Prop :=
  ∀ (σ π : Type) (V : View σ π) (τ : List Char) (s : σ) (r : Request π),
    ¬ presents r τ →
    (∀ rt, t.routes[r.route]? = some rt → isPublic rt = false) →
    (handle V t (some τ) s r).1 = s ∧ (r.method ≠ "OPTIONS" → (handle V t (some τ) s r).2 ≥ 400)

theorem C15_partial (t : Table) (hok : allProtected t = true) : C15_but_options t := by
  intro σ π V τ s r hnp hpub
  exact ⟨C15_state_unchanged t hok V τ s r hnp hpub,
    fun hopt => (C15_refuse t hok V τ s r hnp hpub hopt).1⟩

/-- Negation witness `auto-options-200`: a non-public rule for which Flask answers OPTIONS itself gives a
success status to a request without any Authorization header. -/
theorem C15_witness_auto_options (t : Table) (i : Nat) (h : autoOptionsAt t i = true) : ¬ C15_full t := by
  intro hf
  unfold autoOptionsAt at h
  cases hr : t.routes[i]? with
  | none => simp [hr] at h
  | some rt =>
    simp only [hr, Bool.and_eq_true, Bool.not_eq_true'] at h
    obtain ⟨⟨hp, ha⟩, hm⟩ := h
    have := (hf Unit Unit (fun _ _ s => (s, 200)) [] ()
      { route := i, method := "OPTIONS", auth := none, file := "", payload := () }
      (by rintro ⟨h, hh, _⟩; simp at hh)
      (by intro rt' hrt'; simp only [hr] at hrt'; cases hrt'; exact hp)).1
    have hm' : "OPTIONS" ∈ rt.methods := by simpa using hm
    simp [handle, hr, hm', ha] at this

/-- Negation witness `unprotected-view`: a non-public application rule whose view is reached without
the token check serves a request without any Authorization header (the view that answers 200). -/
theorem C15_witness_unprotected (t : Table) (i : Nat) (m : String) (h : unprotectedAt t i m = true) :
    ¬ C15_full t := by
  intro hf
  unfold unprotectedAt at h
  cases hr : t.routes[i]? with
  | none => simp [hr] at h
  | some rt =>
    simp only [hr, Bool.and_eq_true, Bool.not_eq_true'] at h
    obtain ⟨⟨⟨⟨hp, hs⟩, hpr⟩, hm⟩, hao⟩ := h
    have := (hf Unit Unit (fun _ _ s => (s, 200)) [] ()
      { route := i, method := m, auth := none, file := "", payload := () }
      (by rintro ⟨h, hh, _⟩; simp at hh)
      (by intro rt' hrt'; simp only [hr] at hrt'; cases hrt'; exact hp)).1
    have hm' : m ∈ rt.methods := by simpa using hm
    simp [handle, serveRoute, hr, hm', hao, hs, hpr] at this

/-- Serving direction (sanity): a request presenting the token to a protected rule reaches the view. -/
theorem C15_serves (t : Table) {σ π : Type} (V : View σ π) (τ : List Char) (s : σ) (r : Request π)
    (rt : Route) (hr : t.routes[r.route]? = some rt) (hm : rt.methods.contains r.method = true)
    (hopt : r.method ≠ "OPTIONS") (hs : rt.static = false) (hp : presents r τ) :
    handle V t (some τ) s r = V r.route r.payload s := by
  obtain ⟨h, hh, hw⟩ := hp
  have hacc : authOK r.auth τ = .accept := by rw [hh]; exact (auth_exact h τ).mpr hw
  have ho : (r.method == "OPTIONS") = false := by simpa using hopt
  unfold handle serveRoute
  simp only [hr, hm, ho, hs]
  cases hpr : rt.prot <;> simp [guarded, hacc]

/-! ### non-vacuity: concrete table, concrete requests -/

def exTable : Table :=
  { routes := [ { rule := "/", methods := ["GET", "HEAD", "OPTIONS"], prot := false, autoOptions := true, static := false },
                { rule := "/run", methods := ["OPTIONS", "POST", "PUT"], prot := true, autoOptions := false, static := false },
                { rule := "/static/<path:filename>", methods := ["GET", "HEAD", "OPTIONS"], prot := false, autoOptions := false, static := true } ],
    staticFiles := [] }

def exView : View Nat Unit := fun _ _ s => (s + 1, 200)

example : allProtected exTable = true ∧ noAutoOptions exTable = true := by decide
-- wrong suffix: refused, state untouched
example : handle exView exTable (some "tok".toList) 7
    { route := 1, method := "POST", auth := some "Bearer tokk".toList, file := "", payload := () } = (7, 401) := by decide
-- one-word header: 500, state untouched
example : handle exView exTable (some "tok".toList) 7
    { route := 1, method := "POST", auth := some "tok".toList, file := "", payload := () } = (7, 500) := by decide
-- the token in the credentials position: served (the view ran: state 8)
example : handle exView exTable (some "tok".toList) 7
    { route := 1, method := "POST", auth := some "Bearer tok".toList, file := "", payload := () } = (8, 200) := by decide
-- public rule: served without a header
example : handle exView exTable (some "tok".toList) 7
    { route := 0, method := "GET", auth := none, file := "", payload := () } = (8, 200) := by decide
example : word2 "Bearer tok x".toList = some "tok".toList := by decide

#print axioms auth_exact
#print axioms word2_spec
#print axioms C15_refuse
#print axioms C15_state_unchanged
#print axioms C15_full_of_good
#print axioms C15_partial
#print axioms C15_witness_auto_options
#print axioms C15_witness_unprotected
#print axioms C15_serves

end Bptk.C15
