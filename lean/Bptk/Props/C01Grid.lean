import Bptk.Props.C01
import Bptk.Props.C05
/-!
C01 × C05 — the exact-grid hypothesis of C01's theorems, discharged for every decimal dt (wave 5).

`Props/C01` proves the Euler recurrence "in the property's own words" (`stock_euler_exact`, `evalM_shift`) under
`hx : C.bin .sub (C.time (k+1)) C.dt = C.time k` — the raw float `t - model.dt` IS the previous label — which holds
for binary dt only (0.4 - 0.1 = 0.30000000000000004).  What the generated code needs is weaker: equations consume
`t` as the time argument of `model.memoize(…, t)`, and `Model.memoize` normalises.  This file proves, from C05's
development (ℚ/`Fl` model under `Budget`):
* the times at which equations are evaluated during a batch run or a stepwise session — clock values produced by
  `timerange`/`normalize`, and `t - model.dt` chains normalised by memoize — are exactly the C05 labels (`evalTime_label`);
* for every term in which `t` occurs only as memoize time argument (`memoOnly`), the text shifted to `t - model.dt`
  at index k+1 is the text at index k, given only the two index facts of `GridOKN` (`evalM_shift_memo`) — which
  `gridOKN_of_C05` derives from `Budget`;
* hence `stock_euler_decimal` / `C01_full_decimal_dt`: no exact-grid hypothesis for any decimal dt within C05's budget.
Terms that use the raw value of `t` (TIME in a stock's equation) keep needing `hx`: there the float value of
`t - model.dt` itself enters the result.
-/
namespace Bptk.C01
open Bptk.Py

variable {α : Type}

/-- the argument list `['<name>', t]` -/
def isMemoT : List Py → Bool
  | [.str _, .name s] => s == "t"
  | _ => false

mutual
/-- `t` occurs in the term only as the time argument of `model.memoize('<name>', t)` -/
def memoOnly : Py → Bool
  | .num _ => true
  | .name s => s != "t"
  | .str _ => true
  | .hole _ => true
  | .paren e => memoOnly e
  | .neg e => memoOnly e
  | .not e => memoOnly e
  | .bin _ l r => memoOnly l && memoOnly r
  | .ite x c y => memoOnly x && memoOnly c && memoOnly y
  | .attr e _ => memoOnly e
  | .call f args => (isMemoize f && isMemoT args) || (memoOnly f && memoOnlyL args)
  | .index e i => memoOnly e && memoOnly i
  | .list es => memoOnlyL es
  | .kw _ e => memoOnly e
def memoOnlyL : List Py → Bool
  | [] => true
  | e :: es => memoOnly e && memoOnlyL es
end

theorem isMemoT_eq (args : List Py) (h : isMemoT args = true) : ∃ n, args = [.str n, .name "t"] := by
  match args with
  | [.str n, .name s] => simp [isMemoT] at h; subst h; exact ⟨n, rfl⟩
  | [] => simp [isMemoT] at h
  | [_] => simp [isMemoT] at h
  | _ :: _ :: _ :: _ => simp [isMemoT] at h
  | [.num _, _] | [.name _, _] | [.hole _, _] | [.paren _, _] | [.neg _, _] | [.not _, _] | [.bin _ _ _, _]
  | [.ite _ _ _, _] | [.attr _ _, _] | [.call _ _, _] | [.index _ _, _] | [.list _, _] | [.kw _ _, _] =>
    simp [isMemoT] at h
  | [.str _, .num _] | [.str _, .str _] | [.str _, .hole _] | [.str _, .paren _] | [.str _, .neg _]
  | [.str _, .not _] | [.str _, .bin _ _ _] | [.str _, .ite _ _ _] | [.str _, .attr _ _] | [.str _, .call _ _]
  | [.str _, .index _ _] | [.str _, .list _] | [.str _, .kw _ _] => simp [isMemoT] at h

mutual
/-- **evalM_shift without the exact-grid hypothesis**: for a term that consumes `t` only through `model.memoize`,
the text shifted to `t - model.dt`, evaluated at index k+1, is the original text at index k — given only that
memoize's normalisation sends `t - model.dt` at k+1 and `t` at k to index k. -/
theorem evalM_shift_memo (C : TC α) (W : String → Nat → α) (ρ : Nat → α) (k : Nat)
    (hP : C.idx (C.bin .sub (C.time (k + 1)) C.dt) = some k) (hN : C.idx (C.time k) = some k) (s : Py)
    (hs : memoOnly s = true) : evalM C W ρ (k + 1) (substT s) = evalM C W ρ k s := by
  match s with
  | .num _ => simp [substT, evalM]
  | .str _ => simp [substT, evalM]
  | .hole _ => simp [substT, evalM]
  | .name n =>
    have h : n ≠ "t" := by simpa [memoOnly] using hs
    simp [substT, h, evalM]
  | .paren e => simp [substT, evalM, evalM_shift_memo C W ρ k hP hN e (by simpa [memoOnly] using hs)]
  | .neg e => simp [substT, evalM, evalM_shift_memo C W ρ k hP hN e (by simpa [memoOnly] using hs)]
  | .not e => simp [substT, evalM, evalM_shift_memo C W ρ k hP hN e (by simpa [memoOnly] using hs)]
  | .bin op l r =>
    simp only [memoOnly, Bool.and_eq_true] at hs
    simp [substT, evalM, evalM_shift_memo C W ρ k hP hN l hs.1, evalM_shift_memo C W ρ k hP hN r hs.2]
  | .ite x c y =>
    simp only [memoOnly, Bool.and_eq_true] at hs
    simp [substT, evalM, evalM_shift_memo C W ρ k hP hN x hs.1.1, evalM_shift_memo C W ρ k hP hN c hs.1.2,
      evalM_shift_memo C W ρ k hP hN y hs.2]
  | .attr e a =>
    simp [substT, evalM, isModel_substT, evalM_shift_memo C W ρ k hP hN e (by simpa [memoOnly] using hs)]
  | .call f args =>
    simp only [memoOnly, Bool.or_eq_true, Bool.and_eq_true] at hs
    by_cases hm : isMemoize f = true ∧ isMemoT args = true
    · obtain ⟨n, rfl⟩ := isMemoT_eq args hm.2
      simp [substT, substTL, evalM, evalML, isMemoize_substT, hm.1, strArg, tMinusDt, isModel, modelAttr, hP, hN]
    · have hs' : memoOnly f = true ∧ memoOnlyL args = true := by
        rcases hs with h | h
        · exact absurd h hm
        · exact h
      simp only [substT, evalM, isMemoize_substT, strArg_substTL, evalML_shift_memo C W ρ k hP hN args hs'.2,
        evalM_shift_memo C W ρ k hP hN f hs'.1]
  | .index e i =>
    simp only [memoOnly, Bool.and_eq_true] at hs
    simp [substT, evalM, evalM_shift_memo C W ρ k hP hN e hs.1, evalM_shift_memo C W ρ k hP hN i hs.2]
  | .list es => simp [substT, evalM, evalML_shift_memo C W ρ k hP hN es (by simpa [memoOnly] using hs)]
  | .kw n e => simp [substT, evalM, evalM_shift_memo C W ρ k hP hN e (by simpa [memoOnly] using hs)]
theorem evalML_shift_memo (C : TC α) (W : String → Nat → α) (ρ : Nat → α) (k : Nat)
    (hP : C.idx (C.bin .sub (C.time (k + 1)) C.dt) = some k) (hN : C.idx (C.time k) = some k) (es : List Py)
    (hs : memoOnlyL es = true) : evalML C W ρ (k + 1) (substTL es) = evalML C W ρ k es := by
  match es with
  | [] => simp [substTL, evalML]
  | e :: es =>
    simp only [memoOnlyL, Bool.and_eq_true] at hs
    simp [substTL, evalML, evalM_shift_memo C W ρ k hP hN e hs.1, evalML_shift_memo C W ρ k hP hN es hs.2]
end

/-- **Explicit Euler in the property's own words, without exact-grid hypothesis** (horizon `N`): a stock whose
equation consumes `t` only through memoize satisfies `stock(k+1) = stock(k) + dt · eq(k)`. -/
theorem stock_euler_memo (C : TC α) (N : Nat) (hG : GridOKN C N) (W : String → Nat → α) (ρ : Nat → α)
    (n : String) (init eq : Py) (hm : memoOnly eq = true)
    (hW : ∀ k, k ≤ N → W n k = evalM C W ρ k (stockSkel n init (substT eq))) :
    W n 0 = evalM C W ρ 0 init ∧
    ∀ k, k + 1 ≤ N → W n (k + 1) = C.bin .add (W n k) (C.bin .mul C.dt (evalM C W ρ k eq)) := by
  have h := stock_eulerN C N hG W ρ n init (substT eq) _ rfl hW
  refine ⟨h.1, fun k hk => ?_⟩
  rw [h.2 k hk, evalM_shift_memo C W ρ k (hG.idxPred k hk) (hG.idxNow k (by omega)) eq hm]

section c05
open Bptk.C05

/-- … on every decimal grid within C05's budget (`gridOKN_of_C05`). -/
theorem stock_euler_decimal (C : TC α) (F : Fl) (G : Grid) (N : ℕ) (r : ℚ) (num : ℚ → α)
    (FT : FloatTime C F G N num) (B : Budget F G N r) (W : String → Nat → α) (ρ : Nat → α)
    (n : String) (init eq : Py) (hm : memoOnly eq = true)
    (hW : ∀ k, k ≤ N → W n k = evalM C W ρ k (stockSkel n init (substT eq))) :
    W n 0 = evalM C W ρ 0 init ∧
    ∀ k, k + 1 ≤ N → W n (k + 1) = C.bin .add (W n k) (C.bin .mul C.dt (evalM C W ρ k eq)) :=
  stock_euler_memo C N (gridOKN_of_C05 C F G N r num FT B) W ρ n init eq hm hW

/-- The time values at which an equation is evaluated while the code runs over the grid `G` with `n` steps:
`SdSimulation.__simulate` hands every element of its `timerange` to `model.memoize`, a session every clock value;
`memoize` evaluates the equation AT THE KEY; an equation evaluated at `t` asks memoize for `t` (same-time reference)
and — beyond the start time — for the bare float `t - model.dt` (stocks, delays). -/
inductive EvalTime (c : Cfg) (F : Fl) (G : Grid) (n fuel : ℕ) : ℚ → Prop where
  | run (ts : List ℚ) (t : ℚ) : simTimes c F.fl fuel (G.s F) (label F G n) (G.h F) G.p = some ts → t ∈ ts →
      EvalTime c F G n fuel (memoKey F.fl (G.s F) (G.h F) G.p t)
  | session (calls : ℕ) (t : ℚ) : t ∈ sessionClocks c F.fl (G.s F) (label F G n) (G.h F) G.p calls (G.s F) →
      EvalTime c F G n fuel (memoKey F.fl (G.s F) (G.h F) G.p t)
  | now (t : ℚ) : EvalTime c F G n fuel t → EvalTime c F G n fuel (memoKey F.fl (G.s F) (G.h F) G.p t)
  | prev (t : ℚ) : EvalTime c F G n fuel t → G.s F < t →
      EvalTime c F G n fuel (memoKey F.fl (G.s F) (G.h F) G.p (F.fl (t - G.h F)))

theorem key_label (F : Fl) (G : Grid) (N : ℕ) (r : ℚ) (B : Budget F G N r) (k : ℕ) (hk : k ≤ N) :
    memoKey F.fl (G.s F) (G.h F) G.p (label F G (k : ℤ)) = label F G (k : ℤ) :=
  (route_independent F G N r B k hk _ _ (label_near F G N r B k hk) (label_near F G N r B k hk)).1

/-- **every evaluation time is a C05 label**: on the repaired code variant, under `Budget`, the time arguments that
reach the equations during a batch run or a session are exactly grid labels `label k`, `k ≤ n` — for every
decimal grid, not only binary dt. -/
theorem evalTime_label (c : Cfg) (hc : c.good = true) (F : Fl) (G : Grid) (n : ℕ) (r : ℚ)
    (B : Budget F G (n + 1) r) (fuel : ℕ) (hf : n + 2 ≤ fuel) (t : ℚ) (h : EvalTime c F G n fuel t) :
    ∃ k : ℕ, k ≤ n ∧ t = label F G (k : ℤ) := by
  have hfull := (C05_full_of_good c hc).1 F G n r B fuel hf
  induction h with
  | run ts t hts ht =>
      rw [hfull.1] at hts
      cases hts
      simp only [List.mem_map, List.mem_range] at ht
      obtain ⟨k, hk, rfl⟩ := ht
      exact ⟨k, by omega, key_label F G (n + 1) r B k (by omega)⟩
  | session calls t ht =>
      rw [hfull.2.2.1 calls] at ht
      simp only [List.mem_map, List.mem_range] at ht
      obtain ⟨k, hk, rfl⟩ := ht
      exact ⟨k, by omega, key_label F G (n + 1) r B k (by omega)⟩
  | now t _ ih =>
      obtain ⟨k, hk, rfl⟩ := ih
      exact ⟨k, hk, key_label F G (n + 1) r B k (by omega)⟩
  | prev t _ hlt ih =>
      obtain ⟨k, hk, rfl⟩ := ih
      cases k with
      | zero =>
          have h0 : label F G ((0 : ℕ) : ℤ) = G.s F := by simpa using label_zero F G
          rw [h0] at hlt; exact absurd hlt (lt_irrefl _)
      | succ k => exact ⟨k, by omega, back_label F G (n + 1) r B k (by omega)⟩

end c05

/-- **C01 for every decimal dt**: `C01_full` (all equation trees, all element kinds, existence and uniqueness of
the solution) together with — for float time on any WRITTEN decimal grid within C05's budget, with the precision
the code computes itself — the grid facts, the Euler recurrence in the property's own words and the time shift for
every term that consumes `t` through `model.memoize`, with NO exact-grid hypothesis. -/
theorem C01_full_decimal_dt (Tt Tdt : Table) (h1 : tableOK L Tt = true) (h2 : tableOK L Tdt = true)
    (h3 : shiftOK Tt Tdt = true) :
    C01_full Tt Tdt ∧
    ∀ (α : Type) (C : TC α) (F : Bptk.C05.Fl) (D : Bptk.C05.DGrid) (N : ℕ) (r : ℚ) (num : ℚ → α),
      F.u * 10 ^ 14 ≤ 1 / 4 → FloatTime C F D.toGrid N num → Bptk.C05.Budget F D.toGrid N r →
      Bptk.C05.precOf (D.toGrid.s F) (D.toGrid.h F) = D.toGrid.p ∧
      GridOKN C N ∧
      ∀ (W : String → Nat → α) (ρ : Nat → α),
        (∀ n init eq, memoOnly eq = true →
          (∀ k, k ≤ N → W n k = evalM C W ρ k (stockSkel n init (substT eq))) →
          W n 0 = evalM C W ρ 0 init ∧
          ∀ k, k + 1 ≤ N → W n (k + 1) = C.bin .add (W n k) (C.bin .mul C.dt (evalM C W ρ k eq))) ∧
        (∀ k s, k + 1 ≤ N → memoOnly s = true → evalM C W ρ (k + 1) (substT s) = evalM C W ρ k s) := by
  refine ⟨C01_full_of_tables Tt Tdt h1 h2 h3, ?_⟩
  intro α C F D N r num hu FT B
  have hG := gridOKN_of_C05 C F D.toGrid N r num FT B
  refine ⟨Bptk.C05.precOf_float F hu D, hG, fun W ρ => ⟨?_, ?_⟩⟩
  · intro n init eq hm hW
    exact stock_euler_memo C N hG W ρ n init eq hm hW
  · intro k s hk hm
    exact evalM_shift_memo C W ρ k (hG.idxPred k hk) (hG.idxNow k (by omega)) s hm

/-- non-vacuity: float time on the written grid 0.3, 0.4, … (start not a binary fraction) is an instance, and a
stock equation `model.memoize('x', t) * 2` is `memoOnly`. -/
example : FloatTime (ftCarrier Bptk.C05.Fl.exact Bptk.C05.D03.toGrid 4) Bptk.C05.Fl.exact Bptk.C05.D03.toGrid 4 id :=
  ftCarrier_floatTime _ _ _

example : memoOnly (.bin .mul (memoCall "x" (.name "t")) (.num "2")) = true := by decide

#print axioms evalM_shift_memo
#print axioms stock_euler_memo
#print axioms stock_euler_decimal
#print axioms evalTime_label
#print axioms C01_full_decimal_dt

end Bptk.C01
