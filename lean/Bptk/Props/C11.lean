import Bptk.Core.C11
import Bptk.Props.C05
import Mathlib.Algebra.Order.Floor.Ring
import Mathlib.Data.Rat.Floor
import Mathlib.Tactic.Linarith
import Mathlib.Tactic.Ring
import Mathlib.Tactic.Positivity
import Mathlib.Tactic.FieldSimp
import Mathlib.Tactic.NormNum
/-!
C11 — property theorems.  Quantifier: every operation history (`List Op`), unbounded: any population
history (create / delete / configure / reset), any send script (receiver alive, deleted or never created;
any delay; `broadcast_event`, `random_events` with arbitrary random indices), any number of steps.
Wave 2 (second half of the file): `C11_midstep` — the same statement for histories whose steps carry arbitrary
user code that changes the population and sends during the step (`midStep_linear`); `C11_x_partial`,
`xstepFn_tabled_empty`, `xrun_base`/`C11_full_x` and the `X_witness_*` — the extended machine with handler
tables, states without a table, names without handler and raising handlers; `ceilRound9_exact`,
`keptBack_eq_ceil`, `delay_float_steps` — the float conversion `ceil(round(delay/dt, 9))` in ℚ with bounded
rounding error (Mathlib is imported for that part only).
-/
namespace Bptk.C11

/-- Mechanism facts probed on the real code on every run (one per repaired mechanism); the model below is
the model of the code for which all three are true. -/
structure Facts where
  routesById : Bool
  delayStepsExact : Bool
  requeueFifo : Bool
  /-- wave 7: an event addressed to a negative id reaches nobody (positional routing counts from the end) -/
  negativeIdDropped : Bool := true
  /-- wave 7: two models alive in one process have separate event queues -/
  queuePerModel : Bool := true
deriving DecidableEq, Repr

def Facts.good (f : Facts) : Bool :=
  f.routesById && f.delayStepsExact && f.requeueFifo && f.negativeIdDropped && f.queuePerModel

/-! ### The distribution loop in closed form -/

def addTo (e : Ev) (a : Agent) : Agent :=
  if a.id = e.msg.rid then { a with inbox := a.inbox ++ [e] } else a

def dueFor (i : Nat) (e : Ev) : Bool := e.remaining == 0 && e.msg.rid == i
def addAll (L : List Ev) (a : Agent) : Agent := { a with inbox := a.inbox ++ L.filter (dueFor a.id) }
def isDelayed (e : Ev) : Bool := decide (0 < e.remaining)
def isDropped (ids : List Nat) (e : Ev) : Bool := e.remaining == 0 && !ids.contains e.msg.rid
def mkDrop (now : Nat) (live : List Nat) (e : Ev) : Dropped := { step := now, msg := e.msg, live := live }

theorem hasId_eq (as : List Agent) (i : Nat) : hasId as i = (as.map (·.id)).contains i := rfl

theorem addTo_id (e : Ev) (a : Agent) : (addTo e a).id = a.id := by
  unfold addTo; split <;> rfl

theorem map_addTo_ids (e : Ev) (as : List Agent) : (as.map (addTo e)).map (·.id) = as.map (·.id) := by
  simp [List.map_map, Function.comp_def, addTo_id]

theorem deliver_eq_map (as : List Agent) (e : Ev) (hn : (as.map (·.id)).Nodup) :
    deliver as e = as.map (addTo e) := by
  induction as with
  | nil => rfl
  | cons a rest ih =>
    simp only [List.map_cons, List.nodup_cons] at hn
    simp only [deliver, List.map_cons]
    by_cases h : a.id = e.msg.rid
    · have hrest : ∀ b ∈ rest, addTo e b = b := by
        intro b hb
        have hne : b.id ≠ e.msg.rid := by
          intro hb'
          apply hn.1
          rw [h, ← hb']
          exact List.mem_map.mpr ⟨b, hb, rfl⟩
        simp [addTo, hne]
      rw [if_pos h, List.map_congr_left hrest]
      simp [addTo, h]
    · rw [if_neg h, ih hn.2]
      simp [addTo, h]

theorem addAll_nil (a : Agent) : addAll [] a = a := by
  cases a; simp [addAll]

theorem dist_fold (now : Nat) (L : List Ev) :
    ∀ (as : List Agent) (dl : List Ev) (dr : List Dropped), (as.map (·.id)).Nodup →
      L.foldl (distOne now) { agents := as, delayed := dl, dropped := dr } =
        { agents := as.map (addAll L)
          delayed := dl ++ (L.filter isDelayed).map dec
          dropped := dr ++ (L.filter (isDropped (as.map (·.id)))).map (mkDrop now (as.map (·.id))) } := by
  induction L with
  | nil =>
    intro as dl dr _
    have : as.map (addAll []) = as := by
      rw [List.map_congr_left (fun a _ => addAll_nil a)]; simp
    simp [this]
  | cons e L ih =>
    intro as dl dr hn
    simp only [List.foldl_cons, distOne]
    by_cases hrem : 0 < e.remaining
    · have hne : (e.remaining == 0) = false := by simp; omega
      rw [if_pos hrem, ih as _ dr hn]
      have h1 : as.map (addAll (e :: L)) = as.map (addAll L) := by
        apply List.map_congr_left
        intro a _
        simp [addAll, dueFor, hne]
      have h2 : isDelayed e = true := by simp [isDelayed, hrem]
      have h3 : isDropped (as.map (·.id)) e = false := by simp [isDropped, hne]
      simp [h1, h2, h3]
    · have hz : e.remaining = 0 := by omega
      rw [if_neg hrem]
      have h2 : isDelayed e = false := by simp [isDelayed, hz]
      by_cases hid : hasId as e.msg.rid = true
      · simp only [hid, if_true]
        rw [deliver_eq_map as e hn, ih _ dl dr (by rw [map_addTo_ids]; exact hn), map_addTo_ids]
        have h3 : isDropped (as.map (·.id)) e = false := by
          rw [hasId_eq] at hid
          unfold isDropped; rw [hid]; simp
        have h1 : (as.map (addTo e)).map (addAll L) = as.map (addAll (e :: L)) := by
          rw [List.map_map]
          apply List.map_congr_left
          intro a _
          simp only [Function.comp, addAll, addTo_id, List.filter_cons, dueFor, hz]
          unfold addTo
          by_cases ha : a.id = e.msg.rid
          · simp [ha]
          · have : (e.msg.rid == a.id) = false := by simp; omega
            simp [ha, this]
        simp [h1, h2, h3]
      · have hid' : hasId as e.msg.rid = false := by simpa using hid
        simp only [hid', Bool.false_eq_true, if_false]
        rw [ih as dl _ hn]
        have h3 : isDropped (as.map (·.id)) e = true := by
          rw [hasId_eq] at hid'
          unfold isDropped; rw [hid', hz]; simp
        have h1 : as.map (addAll (e :: L)) = as.map (addAll L) := by
          apply List.map_congr_left
          intro a ha
          have hne : (e.msg.rid == a.id) = false := by
            rw [hasId_eq] at hid'
            have : ¬ e.msg.rid ∈ as.map (·.id) := by simpa using hid'
            have hmem : a.id ∈ as.map (·.id) := List.mem_map.mpr ⟨a, ha, rfl⟩
            simp
            intro h; rw [h] at this; exact this hmem
          simp [addAll, dueFor, hne]
        simp [h1, h2, h3, mkDrop]


/-! ### One scheduler step in closed form -/

/-- the handler invocations of agent `a` in step `now`: its due events in the order of `model.events` -/
def blockOf (now : Nat) (live : List Nat) (evs : List Ev) (a : Agent) : List Handled :=
  (evs.filter (dueFor a.id)).map (fun e => { step := now, agent := a.id, msg := e.msg, live := live })

theorem flatMap_congr_mem {α β : Type} {f g : α → List β} (l : List α) (h : ∀ a ∈ l, f a = g a) :
    l.flatMap f = l.flatMap g := by
  induction l with
  | nil => rfl
  | cons a rest ih =>
    simp only [List.flatMap_cons]
    rw [h a (by simp), ih (fun b hb => h b (by simp [hb]))]

theorem pairwise_lt_nodup (l : List Nat) (h : l.Pairwise (· < ·)) : l.Nodup :=
  h.imp (fun hab => Nat.ne_of_lt hab)

/-- The two `pop()` reversals cancel: every agent handles its due events in the order of `model.events`;
the delayed events go back to the queue in their original order. -/
theorem stepFn_spec (s : State) (hn : (s.agents.map (·.id)).Nodup) (hin : ∀ a ∈ s.agents, a.inbox = []) :
    stepFn s =
      { s with now := s.now + 1
               agents := s.agents
               log := s.log ++ s.agents.flatMap (blockOf (s.now + 1) (s.agents.map (·.id)) s.events)
               dropped := s.dropped ++ (s.events.reverse.filter (isDropped (s.agents.map (·.id)))).map
                            (mkDrop (s.now + 1) (s.agents.map (·.id)))
               events := (s.events.filter isDelayed).map dec } := by
  unfold stepFn
  simp only [dist_fold (s.now + 1) s.events.reverse s.agents [] [] hn]
  have hag : (s.agents.map (addAll s.events.reverse)).map clearInbox = s.agents := by
    rw [List.map_map]
    have : ∀ a ∈ s.agents, (clearInbox ∘ addAll s.events.reverse) a = a := by
      intro a ha
      have := hin a ha
      cases a
      simp only [Function.comp, clearInbox, addAll] at this ⊢
      simp [this]
    rw [List.map_congr_left this]; simp
  have hlog : (s.agents.map (addAll s.events.reverse)).flatMap (handleAgent (s.now + 1) (s.agents.map (·.id)))
      = s.agents.flatMap (blockOf (s.now + 1) (s.agents.map (·.id)) s.events) := by
    rw [List.flatMap_map]
    apply flatMap_congr_mem
    intro a ha
    simp [handleAgent, addAll, blockOf, hin a ha, List.filter_reverse]
  have hev : ([] ++ (s.events.reverse.filter isDelayed).map dec).reverse = (s.events.filter isDelayed).map dec := by
    simp [List.filter_reverse, List.map_reverse]
  rw [hag, hlog, hev]
  simp

/-! ### Invariant -/

/-- order relation on the log: chronological, and within one step and one agent by send number -/
def LogRel (a b : Handled) : Prop :=
  a.step ≤ b.step ∧ (a.step = b.step → a.agent = b.agent → a.msg.seq < b.msg.seq)

structure Inv (s : State) : Prop where
  idsSorted : (s.agents.map (·.id)).Pairwise (· < ·)
  idBound : ∀ a ∈ s.agents, a.id < s.next
  inboxEmpty : ∀ a ∈ s.agents, a.inbox = []
  evSorted : (s.events.map (·.msg.seq)).Pairwise (· < ·)
  evOk : ∀ e ∈ s.events, e.msg ∈ s.sent ∧ e.msg.sentAt + e.msg.delay = s.now + e.remaining
  sentLen : s.sent.length = s.nextSeq
  sentIdx : ∀ m ∈ s.sent, s.sent[m.seq]? = some m
  logOk : ∀ h ∈ s.log, h.msg ∈ s.sent ∧ h.agent = h.msg.rid ∧ h.agent ∈ h.live ∧
            h.step = h.msg.sentAt + 1 + h.msg.delay ∧ h.step ≤ s.now
  dropOk : ∀ d ∈ s.dropped, d.msg ∈ s.sent ∧ d.msg.rid ∉ d.live ∧
            d.step = d.msg.sentAt + 1 + d.msg.delay ∧ d.step ≤ s.now
  logOrder : s.log.Pairwise LogRel
  hdDisj : ∀ h ∈ s.log, ∀ d ∈ s.dropped, h.msg.seq ≠ d.msg.seq
  dropNodup : (s.dropped.map (·.msg.seq)).Nodup
  cover : ∀ m ∈ s.sent, (∃ e ∈ s.events, e.msg = m) ∨ (∃ h ∈ s.log, h.msg = m) ∨ (∃ d ∈ s.dropped, d.msg = m)

theorem inv_init : Inv State.init := by
  constructor <;> simp [State.init]

/-- the send number identifies the event -/
theorem Inv.seq_inj {s : State} (h : Inv s) {m₁ m₂ : Msg} (h₁ : m₁ ∈ s.sent) (h₂ : m₂ ∈ s.sent)
    (hs : m₁.seq = m₂.seq) : m₁ = m₂ := by
  have a := h.sentIdx m₁ h₁
  have b := h.sentIdx m₂ h₂
  rw [hs, b] at a
  exact (Option.some.inj a).symm

theorem Inv.seq_lt {s : State} (h : Inv s) {m : Msg} (hm : m ∈ s.sent) : m.seq < s.nextSeq := by
  have a := h.sentIdx m hm
  rw [List.getElem?_eq_some_iff] at a
  obtain ⟨hlt, _⟩ := a
  rw [← h.sentLen]; exact hlt

/-! population operations touch neither queue nor log -/

theorem inv_create (s : State) (ty : Nat) (h : Inv s) : Inv (create s ty) := by
  refine { h with idsSorted := ?_, idBound := ?_, inboxEmpty := ?_ }
  · simp only [create, List.map_append, List.map_cons, List.map_nil]
    rw [List.pairwise_append]
    refine ⟨h.idsSorted, by simp, ?_⟩
    intro a ha b hb
    simp at hb; subst hb
    simp at ha
    obtain ⟨x, hx, rfl⟩ := ha
    exact h.idBound x hx
  · intro a ha
    simp [create] at ha ⊢
    rcases ha with ha | rfl
    · have := h.idBound a ha; omega
    · simp
  · intro a ha
    simp [create] at ha
    rcases ha with ha | rfl
    · exact h.inboxEmpty a ha
    · rfl

theorem inv_createN (n : Nat) : ∀ (s : State) (ty : Nat), Inv s → Inv (createN s ty n) := by
  induction n with
  | zero => intro s ty h; exact h
  | succ n ih => intro s ty h; exact ih _ _ (inv_create s ty h)

theorem inv_createSpec (spec : List (Nat × Nat)) : ∀ s, Inv s → Inv (createSpec s spec) := by
  induction spec with
  | nil => intro s h; exact h
  | cons p rest ih => intro s h; obtain ⟨ty, n⟩ := p; exact ih _ (inv_createN n s ty h)

theorem inv_clear (s : State) (h : Inv s) : Inv (clear s) := by
  refine { h with idsSorted := ?_, idBound := ?_, inboxEmpty := ?_ } <;> simp [clear]

theorem inv_delete (s : State) (ids : List Nat) (h : Inv s) : Inv (delete s ids) := by
  refine { h with idsSorted := ?_, idBound := ?_, inboxEmpty := ?_ }
  · exact List.Pairwise.sublist (List.Sublist.map _ List.filter_sublist) h.idsSorted
  · intro a ha; exact h.idBound a (List.mem_filter.mp ha).1
  · intro a ha; exact h.inboxEmpty a (List.mem_filter.mp ha).1


/-! sending -/

theorem inv_send (s : State) (rid delay : Nat) (h : Inv s) : Inv (send s rid delay) := by
  have hmem : ∀ m, m ∈ s.sent → m ∈ s.sent ++ [{ seq := s.nextSeq, rid := rid, sentAt := s.now, delay := delay }] :=
    fun m hm => List.mem_append_left _ hm
  refine { h with evSorted := ?_, evOk := ?_, sentLen := ?_, sentIdx := ?_, logOk := ?_, dropOk := ?_, cover := ?_ }
  · simp only [send, List.map_append, List.map_cons, List.map_nil]
    rw [List.pairwise_append]
    refine ⟨h.evSorted, by simp, ?_⟩
    intro a ha b hb
    simp at hb; subst hb
    simp at ha
    obtain ⟨e, he, rfl⟩ := ha
    exact h.seq_lt (h.evOk e he).1
  · intro e he
    simp only [send, List.mem_append, List.mem_singleton] at he ⊢
    rcases he with he | rfl
    · exact ⟨Or.inl (h.evOk e he).1, (h.evOk e he).2⟩
    · exact ⟨Or.inr rfl, rfl⟩
  · simp [send, h.sentLen]
  · intro m hm
    simp only [send, List.mem_append, List.mem_singleton] at hm ⊢
    rcases hm with hm | rfl
    · rw [List.getElem?_append_left (by rw [h.sentLen]; exact h.seq_lt hm)]
      exact h.sentIdx m hm
    · simp only
      rw [← h.sentLen]
      exact List.getElem?_concat_length
  · intro x hx
    obtain ⟨a, b⟩ := h.logOk x hx
    exact ⟨hmem _ a, b⟩
  · intro x hx
    obtain ⟨a, b⟩ := h.dropOk x hx
    exact ⟨hmem _ a, b⟩
  · intro m hm
    simp only [send, List.mem_append, List.mem_singleton] at hm ⊢
    rcases hm with hm | rfl
    · rcases h.cover m hm with ⟨e, he, rfl⟩ | r
      · exact Or.inl ⟨e, Or.inl he, rfl⟩
      · exact Or.inr r
    · exact Or.inl ⟨_, Or.inr rfl, rfl⟩

theorem inv_sendAll (delay : Nat) (ids : List Nat) : ∀ s, Inv s → Inv (sendAll s delay ids) := by
  induction ids with
  | nil => intro s h; exact h
  | cons i rest ih => intro s h; exact ih _ (inv_send s i delay h)

/-! one step -/

theorem mem_blocks {now : Nat} {live : List Nat} {evs : List Ev} {as : List Agent} {x : Handled} :
    x ∈ as.flatMap (blockOf now live evs) ↔
      ∃ a ∈ as, ∃ e ∈ evs, e.remaining = 0 ∧ e.msg.rid = a.id ∧
        x = { step := now, agent := a.id, msg := e.msg, live := live } := by
  simp only [List.mem_flatMap, blockOf, List.mem_map, List.mem_filter, dueFor, Bool.and_eq_true, beq_iff_eq]
  constructor
  · rintro ⟨a, ha, e, ⟨he, h0, hr⟩, rfl⟩
    exact ⟨a, ha, e, he, h0, hr, rfl⟩
  · rintro ⟨a, ha, e, he, h0, hr, rfl⟩
    exact ⟨a, ha, e, ⟨he, h0, hr⟩, rfl⟩

theorem mem_drops {now : Nat} {ids : List Nat} {evs : List Ev} {d : Dropped} :
    d ∈ (evs.reverse.filter (isDropped ids)).map (mkDrop now ids) ↔
      ∃ e ∈ evs, e.remaining = 0 ∧ e.msg.rid ∉ ids ∧ d = { step := now, msg := e.msg, live := ids } := by
  have hc : ∀ x, ids.contains x = false ↔ x ∉ ids := by simp
  simp only [List.mem_map, List.mem_filter, List.mem_reverse, isDropped, mkDrop, Bool.and_eq_true, beq_iff_eq,
    Bool.not_eq_true', hc]
  constructor
  · rintro ⟨e, ⟨he, h0, hr⟩, rfl⟩
    exact ⟨e, he, h0, hr, rfl⟩
  · rintro ⟨e, he, h0, hr, rfl⟩
    exact ⟨e, ⟨he, h0, hr⟩, rfl⟩

theorem inv_stepFn (s : State) (h : Inv s) : Inv (stepFn s) := by
  have hn : (s.agents.map (·.id)).Nodup := pairwise_lt_nodup _ h.idsSorted
  rw [stepFn_spec s hn h.inboxEmpty]
  -- two queued events with the same send number are the same message
  have evInj : ∀ e₁ ∈ s.events, ∀ e₂ ∈ s.events, e₁.msg.seq = e₂.msg.seq → e₁.msg = e₂.msg :=
    fun e₁ h₁ e₂ h₂ hs => h.seq_inj (h.evOk e₁ h₁).1 (h.evOk e₂ h₂).1 hs
  have evPair : s.events.Pairwise (fun a b => a.msg.seq < b.msg.seq) := List.pairwise_map.mp h.evSorted
  constructor
  · exact h.idsSorted
  · exact h.idBound
  · exact h.inboxEmpty
  · -- evSorted
    show (((s.events.filter isDelayed).map dec).map (·.msg.seq)).Pairwise (· < ·)
    rw [List.map_map]
    exact List.Pairwise.sublist (List.Sublist.map _ List.filter_sublist) h.evSorted
  · -- evOk
    intro e he
    simp only [List.mem_map, List.mem_filter, isDelayed, decide_eq_true_eq] at he
    obtain ⟨e0, ⟨he0, hpos⟩, rfl⟩ := he
    obtain ⟨a, b⟩ := h.evOk e0 he0
    refine ⟨a, ?_⟩
    simp only [dec]
    omega
  · exact h.sentLen
  · exact h.sentIdx
  · -- logOk
    intro x hx
    simp only [List.mem_append] at hx
    rcases hx with hx | hx
    · obtain ⟨a, b, c, d, e⟩ := h.logOk x hx
      exact ⟨a, b, c, d, by simp only; omega⟩
    · obtain ⟨a, ha, e, he, h0, hr, rfl⟩ := mem_blocks.mp hx
      obtain ⟨p, q⟩ := h.evOk e he
      refine ⟨p, hr.symm, List.mem_map.mpr ⟨a, ha, rfl⟩, ?_, ?_⟩ <;> simp only <;> omega
  · -- dropOk
    intro x hx
    simp only [List.mem_append] at hx
    rcases hx with hx | hx
    · obtain ⟨a, b, c, d⟩ := h.dropOk x hx
      exact ⟨a, b, c, by simp only; omega⟩
    · obtain ⟨e, he, h0, hr, rfl⟩ := mem_drops.mp hx
      obtain ⟨p, q⟩ := h.evOk e he
      refine ⟨p, hr, ?_, ?_⟩ <;> simp only <;> omega
  · -- logOrder
    show (s.log ++ _).Pairwise LogRel
    rw [List.pairwise_append]
    refine ⟨h.logOrder, ?_, ?_⟩
    · rw [List.pairwise_flatMap]
      constructor
      · intro a _
        simp only [blockOf]
        rw [List.pairwise_map]
        apply List.Pairwise.sublist List.filter_sublist
        apply evPair.imp
        intro e₁ e₂ hlt
        exact ⟨Nat.le_refl _, fun _ _ => hlt⟩
      · have hag : s.agents.Pairwise (fun a b => a.id < b.id) := List.pairwise_map.mp h.idsSorted
        apply hag.imp
        intro a b hlt x hx y hy
        simp only [blockOf, List.mem_map] at hx hy
        obtain ⟨_, _, rfl⟩ := hx
        obtain ⟨_, _, rfl⟩ := hy
        refine ⟨Nat.le_refl _, fun _ hab => ?_⟩
        simp only at hab
        omega
    · intro x hx y hy
      obtain ⟨_, _, _, _, hle⟩ := h.logOk x hx
      obtain ⟨a, _, e, _, _, _, rfl⟩ := mem_blocks.mp hy
      exact ⟨by simp only; omega, fun heq => by simp only at heq; omega⟩
  · -- hdDisj
    intro x hx d hd
    simp only [List.mem_append] at hx hd
    rcases hx with hx | hx <;> rcases hd with hd | hd
    · exact h.hdDisj x hx d hd
    · obtain ⟨e, he, h0, _, rfl⟩ := mem_drops.mp hd
      obtain ⟨p, _, _, q, r⟩ := h.logOk x hx
      obtain ⟨p', q'⟩ := h.evOk e he
      intro hs
      have := h.seq_inj p p' hs
      rw [this] at q
      omega
    · obtain ⟨a, _, e, he, h0, _, rfl⟩ := mem_blocks.mp hx
      obtain ⟨p, _, q, r⟩ := h.dropOk d hd
      obtain ⟨p', q'⟩ := h.evOk e he
      intro hs
      have := h.seq_inj p' p hs
      rw [← this] at q
      omega
    · obtain ⟨a, ha, e, he, h0, hr, rfl⟩ := mem_blocks.mp hx
      obtain ⟨e', he', h0', hr', rfl⟩ := mem_drops.mp hd
      intro hs
      have := evInj e he e' he' hs
      apply hr'
      rw [← this, hr]
      exact List.mem_map.mpr ⟨a, ha, rfl⟩
  · -- dropNodup
    show ((s.dropped ++ _).map (·.msg.seq)).Nodup
    rw [List.map_append, List.nodup_append]
    refine ⟨h.dropNodup, ?_, ?_⟩
    · rw [List.map_map]
      have : (s.events.reverse.filter (isDropped (s.agents.map (·.id)))).map
          ((·.msg.seq) ∘ mkDrop (s.now + 1) (s.agents.map (·.id)))
          = (s.events.reverse.filter (isDropped (s.agents.map (·.id)))).map (·.msg.seq) := by
        apply List.map_congr_left; intro e _; rfl
      rw [this]
      apply List.Nodup.sublist (List.Sublist.map _ List.filter_sublist)
      rw [List.map_reverse]
      show List.Pairwise (· ≠ ·) _
      apply List.pairwise_reverse.mpr
      exact h.evSorted.imp (fun hab => (Nat.ne_of_lt hab).symm)
    · intro a ha b hb hab
      obtain ⟨d, hd, rfl⟩ := List.mem_map.mp ha
      obtain ⟨d', hd', rfl⟩ := List.mem_map.mp hb
      obtain ⟨e, he, h0, _, rfl⟩ := mem_drops.mp hd'
      obtain ⟨p, _, q, r⟩ := h.dropOk d hd
      obtain ⟨p', q'⟩ := h.evOk e he
      have := h.seq_inj p p' hab
      rw [this] at q
      omega
  · -- cover
    intro m hm
    rcases h.cover m hm with ⟨e, he, rfl⟩ | ⟨x, hx, rfl⟩ | ⟨d, hd, rfl⟩
    · by_cases hpos : 0 < e.remaining
      · refine Or.inl ⟨dec e, ?_, rfl⟩
        exact List.mem_map.mpr ⟨e, List.mem_filter.mpr ⟨he, by simp [isDelayed, hpos]⟩, rfl⟩
      · have h0 : e.remaining = 0 := by omega
        by_cases hid : e.msg.rid ∈ s.agents.map (·.id)
        · obtain ⟨a, ha, hai⟩ := List.mem_map.mp hid
          refine Or.inr (Or.inl ⟨_, List.mem_append_right _ (mem_blocks.mpr ⟨a, ha, e, he, h0, hai.symm, rfl⟩), rfl⟩)
        · refine Or.inr (Or.inr ⟨_, List.mem_append_right _ (mem_drops.mpr ⟨e, he, h0, hid, rfl⟩), rfl⟩)
    · exact Or.inr (Or.inl ⟨x, List.mem_append_left _ hx, rfl⟩)
    · exact Or.inr (Or.inr ⟨d, List.mem_append_left _ hd, rfl⟩)

theorem inv_step (s : State) (op : Op) (h : Inv s) : Inv (step s op) := by
  cases op with
  | create ty => exact inv_create s ty h
  | delete ids => exact inv_delete s ids h
  | configure spec => exact inv_createSpec spec _ (inv_clear s h)
  | reset => exact inv_clear s h
  | send rid delay => exact inv_send s rid delay h
  | broadcast ty delay => exact inv_sendAll delay _ s h
  | randomEvents ty num delay draws => exact inv_sendAll delay _ s h
  | step => exact inv_stepFn s h

/-- The invariant holds in every reachable state. -/
theorem inv_run (ops : List Op) : ∀ s, Inv s → Inv (run s ops) := by
  induction ops with
  | nil => intro s h; exact h
  | cons op rest ih => intro s h; exact ih _ (inv_step s op h)

theorem inv_reachable (ops : List Op) : Inv (run State.init ops) := inv_run ops _ inv_init


/-! ### The property -/

/-- The step in which the statement wants `m` handled: sent in step `sentAt` ⇒ an undelayed event in step
`sentAt + 1`, a delayed one `delay` (= ⌈delay/dt⌉, see `stepsOf_least`) steps later. -/
def dueStep (m : Msg) : Nat := m.sentAt + 1 + m.delay

/-- **C11 at full strength**, for every operation history:
1. routing — a handler runs only in the agent whose id is the event's receiver id (an agent alive in that
   step), for an event that was really sent;
2. an event is discarded only in a step in which no agent has the receiver id (so it never reaches a
   different agent), and only when it is due;
3. timing — handled (or discarded) exactly in step `dueStep`;
4. exactly once — a sent event is handled-or-discarded exactly once as soon as `dueStep` has been run, and
   not at all before;  an event is never both handled and discarded;
5. order — the log is chronological and within one step one agent handles its events in send order
   (`seq` is the position in the send order: 6.). -/
def C11_full : Prop :=
  ∀ ops : List Op,
    let s := run State.init ops
    (∀ h ∈ s.log, h.msg ∈ s.sent ∧ h.agent = h.msg.rid ∧ h.agent ∈ h.live) ∧
    (∀ d ∈ s.dropped, d.msg ∈ s.sent ∧ d.msg.rid ∉ d.live) ∧
    ((∀ h ∈ s.log, h.step = dueStep h.msg) ∧ (∀ d ∈ s.dropped, d.step = dueStep d.msg)) ∧
    (∀ m ∈ s.sent, (s.log.map (·.msg)).count m + (s.dropped.map (·.msg)).count m
        = if dueStep m ≤ s.now then 1 else 0) ∧
    s.log.Pairwise (fun a b => a.step ≤ b.step ∧ (a.step = b.step → a.agent = b.agent → a.msg.seq < b.msg.seq)) ∧
    (s.sent.length = s.nextSeq ∧ ∀ m ∈ s.sent, s.sent[m.seq]? = some m)

theorem C11_routing (ops : List Op) :
    ∀ h ∈ (run State.init ops).log, h.msg ∈ (run State.init ops).sent ∧ h.agent = h.msg.rid ∧ h.agent ∈ h.live :=
  fun h hh => let ⟨a, b, c, _⟩ := (inv_reachable ops).logOk h hh; ⟨a, b, c⟩

theorem C11_dropped_only_when_absent (ops : List Op) :
    ∀ d ∈ (run State.init ops).dropped, d.msg ∈ (run State.init ops).sent ∧ d.msg.rid ∉ d.live :=
  fun d hd => let ⟨a, b, _⟩ := (inv_reachable ops).dropOk d hd; ⟨a, b⟩

/-- undelayed: the step after the one it was sent in; delayed: `delay` steps later than that -/
theorem C11_timing (ops : List Op) :
    (∀ h ∈ (run State.init ops).log, h.step = dueStep h.msg) ∧
    (∀ d ∈ (run State.init ops).dropped, d.step = dueStep d.msg) :=
  ⟨fun h hh => ((inv_reachable ops).logOk h hh).2.2.2.1, fun d hd => ((inv_reachable ops).dropOk d hd).2.2.1⟩

theorem C11_next_step (ops : List Op) :
    ∀ h ∈ (run State.init ops).log, h.msg.delay = 0 → h.step = h.msg.sentAt + 1 := by
  intro h hh h0
  have := (C11_timing ops).1 h hh
  simp only [dueStep] at this
  omega

theorem C11_order (ops : List Op) : (run State.init ops).log.Pairwise LogRel := (inv_reachable ops).logOrder

/-- events sent to the same agent in the same step are handled in the order sent -/
theorem C11_order_same_send_step (ops : List Op) :
    (run State.init ops).log.Pairwise
      (fun a b => a.agent = b.agent → a.msg.sentAt = b.msg.sentAt → a.step = b.step → a.msg.seq < b.msg.seq) :=
  (C11_order ops).imp (fun hab hag _ hst => hab.2 hst hag)

theorem log_msgs_nodup {s : State} (h : Inv s) : (s.log.map (·.msg)).Nodup := by
  show List.Pairwise (· ≠ ·) _
  rw [List.pairwise_map]
  apply List.Pairwise.imp_of_mem _ h.logOrder
  intro a b ha hb hab heq
  obtain ⟨_, a2, _, a4, _⟩ := h.logOk a ha
  obtain ⟨_, b2, _, b4, _⟩ := h.logOk b hb
  have := hab.2 (by rw [a4, b4, heq]) (by rw [a2, b2, heq])
  rw [heq] at this
  omega

theorem dropped_msgs_nodup {s : State} (h : Inv s) : (s.dropped.map (·.msg)).Nodup := by
  show List.Pairwise (· ≠ ·) _
  rw [List.pairwise_map]
  have : s.dropped.Pairwise (fun a b => a.msg.seq ≠ b.msg.seq) := List.pairwise_map.mp h.dropNodup
  exact this.imp (fun hne heq => hne (by rw [heq]))

theorem C11_once (ops : List Op) :
    ∀ m ∈ (run State.init ops).sent,
      ((run State.init ops).log.map (·.msg)).count m + ((run State.init ops).dropped.map (·.msg)).count m
        = if dueStep m ≤ (run State.init ops).now then 1 else 0 := by
  intro m hm
  have h := inv_reachable ops
  generalize run State.init ops = s at *
  rw [← List.count_append]
  have hnd : (s.log.map (·.msg) ++ s.dropped.map (·.msg)).Nodup := by
    rw [List.nodup_append]
    refine ⟨log_msgs_nodup h, dropped_msgs_nodup h, ?_⟩
    intro a ha b hb hab
    obtain ⟨x, hx, rfl⟩ := List.mem_map.mp ha
    obtain ⟨d, hd, rfl⟩ := List.mem_map.mp hb
    exact h.hdDisj x hx d hd (by rw [hab])
  have hle := List.nodup_iff_count.mp hnd m
  split
  · rename_i hdue
    have hmem : m ∈ s.log.map (·.msg) ++ s.dropped.map (·.msg) := by
      rcases h.cover m hm with ⟨e, he, rfl⟩ | ⟨x, hx, rfl⟩ | ⟨d, hd, rfl⟩
      · have := (h.evOk e he).2
        simp only [dueStep] at hdue
        omega
      · exact List.mem_append_left _ (List.mem_map.mpr ⟨x, hx, rfl⟩)
      · exact List.mem_append_right _ (List.mem_map.mpr ⟨d, hd, rfl⟩)
    have := List.count_pos_iff.mpr hmem
    omega
  · rename_i hdue
    apply List.count_eq_zero_of_not_mem
    intro hmem
    rcases List.mem_append.mp hmem with hmem | hmem
    · obtain ⟨x, hx, rfl⟩ := List.mem_map.mp hmem
      obtain ⟨_, _, _, a, b⟩ := h.logOk x hx
      simp only [dueStep] at hdue
      omega
    · obtain ⟨d, hd, rfl⟩ := List.mem_map.mp hmem
      obtain ⟨_, _, a, b⟩ := h.dropOk d hd
      simp only [dueStep] at hdue
      omega

/-- an event that is not yet due is still queued, with the number of steps it still has to wait -/
theorem C11_pending (ops : List Op) :
    ∀ m ∈ (run State.init ops).sent, (run State.init ops).now < dueStep m →
      ∃ e ∈ (run State.init ops).events, e.msg = m ∧ e.remaining + (run State.init ops).now + 1 = dueStep m := by
  intro m hm hlt
  have h := inv_reachable ops
  generalize run State.init ops = s at *
  simp only [dueStep] at hlt ⊢
  rcases h.cover m hm with ⟨e, he, rfl⟩ | ⟨x, hx, rfl⟩ | ⟨d, hd, rfl⟩
  · exact ⟨e, he, rfl, by have := (h.evOk e he).2; omega⟩
  · obtain ⟨_, _, _, a, b⟩ := h.logOk x hx; omega
  · obtain ⟨_, _, a, b⟩ := h.dropOk d hd; omega

/-- ids of live agents are unique, so "the agent that has that id" is well defined (as C14) -/
theorem C11_ids_unique (ops : List Op) : ((run State.init ops).agents.map (·.id)).Nodup :=
  pairwise_lt_nodup _ (inv_reachable ops).idsSorted

theorem C11_full_proved : C11_full := by
  intro ops s
  exact ⟨C11_routing ops, C11_dropped_only_when_absent ops, C11_timing ops, C11_once ops, C11_order ops,
    (inv_reachable ops).sentLen, (inv_reachable ops).sentIdx⟩

/-! ### delay in time units → delay in steps -/

/-- `stepsOf dn dd tn td` is ⌈(dn/dd)/(tn/td)⌉: the least number `k` of steps with `k·dt ≥ delay`
(`k·(tn/td) ≥ dn/dd ⇔ dn·td ≤ k·(dd·tn)`). -/
theorem stepsOf_least (dn dd tn td : Nat) (hdd : 0 < dd) (htn : 0 < tn) :
    dn * td ≤ stepsOf dn dd tn td * (dd * tn) ∧
    ∀ k, dn * td ≤ k * (dd * tn) → stepsOf dn dd tn td ≤ k := by
  have hb : 0 < dd * tn := Nat.mul_pos hdd htn
  unfold stepsOf
  generalize dn * td = a at *
  generalize dd * tn = b at *
  constructor
  · have h1 : (a + b - 1) / b < (a + b - 1) / b + 1 := Nat.lt_succ_self _
    rw [Nat.div_lt_iff_lt_mul hb, Nat.succ_mul] at h1
    omega
  · intro k hk
    have : (a + b - 1) / b < k + 1 := by
      rw [Nat.div_lt_iff_lt_mul hb, Nat.succ_mul]
      omega
    omega

/-- the countdown of the pinned tree, `while delay > 0: delay -= dt`, on IEEE doubles (fuel-bounded) -/
def floatCountdown (delay dt : Float) : Nat → Nat
  | 0 => 0
  | n + 1 => if delay > 0 then 1 + floatCountdown (delay - dt) dt n else 0

/-- kernel-checked witness of the repaired defect: repeated subtraction keeps an event with delay 1.0 back
for 11 steps of dt = 0.1, the statement wants ⌈1.0/0.1⌉ = 10 (0.3 and 0.1: 3 and 3 — no drift yet). -/
theorem C11_witness_float_countdown :
    floatCountdown 1.0 0.1 50 = 11 ∧ stepsOf 1 1 1 10 = 10 ∧ floatCountdown 0.3 0.1 50 = 3 ∧ stepsOf 3 10 1 10 = 3 := by
  decide +kernel

/-- the lookup of the pinned tree: `model.agents[receiver_id]` (position, not id) -/
def positional (as : List Agent) (rid : Nat) : Option Nat := (as[rid]?).map (·.id)

/-- kernel-checked witness of the repaired routing defect: after `delete_agent(1)` on ids 0..3 the positional
lookup hands an event for id 2 to the agent with id 3 and finds nobody (IndexError) for the live id 3. -/
theorem C11_witness_positional :
    positional (run State.init [.create 0, .create 0, .create 0, .create 0, .delete [1]]).agents 2 = some 3 ∧
    positional (run State.init [.create 0, .create 0, .create 0, .create 0, .delete [1]]).agents 3 = none ∧
    hasId (run State.init [.create 0, .create 0, .create 0, .create 0, .delete [1]]).agents 3 = true := by decide

/-- the re-queueing of the pinned tree: `model.events += delayed_events`, `delayed_events` in `pop()` order -/
def requeuePinned (evs : List Ev) : List Ev := (evs.reverse.filter isDelayed).map dec

/-- kernel-checked witness of the repaired order defect: one re-queue swaps two events sent in this order (odd
number of re-queues ⇒ handled in swapped order), two re-queues restore it. -/
theorem C11_witness_requeue_reversal :
    (requeuePinned [⟨⟨0, 0, 0, 1, 0, false⟩, 1⟩, ⟨⟨1, 0, 0, 1, 0, false⟩, 1⟩]).map (·.msg.seq) = [1, 0] ∧
    (requeuePinned (requeuePinned [⟨⟨0, 0, 0, 2, 0, false⟩, 2⟩, ⟨⟨1, 0, 0, 2, 0, false⟩, 2⟩])).map (·.msg.seq) = [0, 1] := by decide

/-! ### Non-vacuity: a history with deletion, an absent receiver, delayed events and a broadcast -/

def demo : State := run State.init
  [.create 0, .create 1, .create 0, .delete [1], .send 2 0, .send 2 2, .send 1 0, .send 2 2, .step,
   .configure [(0, 1), (1, 2)], .broadcast 1 1, .send 2 0, .step, .step, .step]

example : demo.log.map (fun h => (h.step, h.agent, h.msg.seq)) = [(1, 2, 0), (3, 4, 4), (3, 5, 5)] := by decide
example : demo.dropped.map (fun d => (d.step, d.msg.seq, d.live)) = [(1, 2, [0, 2]), (2, 6, [3, 4, 5]), (3, 3, [3, 4, 5]), (3, 1, [3, 4, 5])] := by decide
example : (run State.init [.create 0, .send 0 2, .send 0 0, .send 0 2, .step, .step, .step]).log.map
    (fun h => (h.step, h.agent, h.msg.seq)) = [(1, 0, 1), (3, 0, 0), (3, 0, 2)] := by decide
example : stepsOf 1 4 1 10 = 3 ∧ stepsOf 0 1 1 10 = 0 ∧ stepsOf 7 10 1 20 = 14 := by decide

/-! ## Wave 2 — `random_events` / `broadcast_event` through the type map

`Op.randomEvents` is part of the base alphabet, so `C11_full` covers it. In addition: whatever the random numbers
are, every event `random_events` creates is addressed to a live agent of the requested type, there are
`min(num, count of that type)` of them; `broadcast_event` addresses every live agent of the type exactly once. -/

theorem pick_length (ids : List Nat) (num : Nat) (draws : List Nat) : (pick ids num draws).length = min num ids.length := by
  simp [pick]

theorem pick_mem (ids : List Nat) (num : Nat) (draws : List Nat) : ∀ i ∈ pick ids num draws, i ∈ ids := by
  intro i hi
  simp only [pick, List.mem_map, List.mem_range] at hi
  obtain ⟨j, hj, rfl⟩ := hi
  have hpos : 0 < ids.length := by omega
  have hlt : draws.getD j 0 % ids.length < ids.length := Nat.mod_lt _ hpos
  rw [List.getD_eq_getElem?_getD, List.getElem?_eq_getElem hlt]
  exact List.getElem_mem hlt

theorem idsOfType_live (as : List Agent) (ty : Nat) : ∀ i ∈ idsOfType as ty, ∃ a ∈ as, a.id = i ∧ a.ty = ty := by
  intro i hi
  simp only [idsOfType, List.mem_map, List.mem_filter, beq_iff_eq] at hi
  obtain ⟨a, ⟨ha, hty⟩, rfl⟩ := hi
  exact ⟨a, ha, rfl, hty⟩

theorem sendAll_sent (delay : Nat) (ids : List Nat) : ∀ s, (sendAll s delay ids).sent.map (·.rid) = s.sent.map (·.rid) ++ ids := by
  induction ids with
  | nil => intro s; simp [sendAll]
  | cons i rest ih => intro s; simp only [sendAll]; rw [ih]; simp [send]

/-- the receivers of the events created by `random_events` are live agents of the type, `min(num, count)` many -/
theorem randomEvents_receivers (s : State) (ty num delay : Nat) (draws : List Nat) :
    ∃ rs, (randomEvents s ty num delay draws).sent.map (·.rid) = s.sent.map (·.rid) ++ rs ∧
      rs.length = min num (idsOfType s.agents ty).length ∧ ∀ i ∈ rs, ∃ a ∈ s.agents, a.id = i ∧ a.ty = ty :=
  ⟨_, sendAll_sent delay _ s, pick_length _ _ _, fun i hi => idsOfType_live _ _ i (pick_mem _ _ _ i hi)⟩

/-- the receivers of the events created by `broadcast_event` are exactly the live agents of the type, in list order -/
theorem broadcast_receivers (s : State) (ty delay : Nat) :
    (broadcast s ty delay).sent.map (·.rid) = s.sent.map (·.rid) ++ idsOfType s.agents ty :=
  sendAll_sent delay _ s

/-! ## Wave 2a — population changes and sends during a step

`midStep P fuel s` runs the step with user code `P` interleaved (C12's iteration semantics of
`for agent in model.agents`); `midStep_linear` proves that, whenever the loop ends, the result is the atomic
step followed by the very same effects as operations. Hence every clause of `C11_full` holds for histories with
mid-step creation / deletion / reconfiguration / reset / sends / broadcasts (`C11_midstep`): the `live` ids of a
log record are the ids at the START of the step (when `agents_by_id` is built), an agent deleted during the step
still handles what was distributed to it, an agent created during the step has an empty inbox. -/

/-- the statement of `C11_full` about one state -/
def Clauses (s : State) : Prop :=
    (∀ h ∈ s.log, h.msg ∈ s.sent ∧ h.agent = h.msg.rid ∧ h.agent ∈ h.live) ∧
    (∀ d ∈ s.dropped, d.msg ∈ s.sent ∧ d.msg.rid ∉ d.live) ∧
    ((∀ h ∈ s.log, h.step = dueStep h.msg) ∧ (∀ d ∈ s.dropped, d.step = dueStep d.msg)) ∧
    (∀ m ∈ s.sent, (s.log.map (·.msg)).count m + (s.dropped.map (·.msg)).count m
        = if dueStep m ≤ s.now then 1 else 0) ∧
    s.log.Pairwise (fun a b => a.step ≤ b.step ∧ (a.step = b.step → a.agent = b.agent → a.msg.seq < b.msg.seq)) ∧
    (s.sent.length = s.nextSeq ∧ ∀ m ∈ s.sent, s.sent[m.seq]? = some m)

theorem C11_full_iff_clauses : C11_full ↔ ∀ ops : List Op, Clauses (run State.init ops) := Iff.rfl

/-- user code leaves what the step already did alone: it neither reads `model.events` nor the log -/
def frame (X : List Ev) (L : List Handled) (s : State) : State :=
  { s with events := X ++ s.events, log := s.log ++ L }

theorem frame_create (X L) (s : State) (ty : Nat) : create (frame X L s) ty = frame X L (create s ty) := rfl

theorem frame_createN (X L) (ty : Nat) (n : Nat) : ∀ s, createN (frame X L s) ty n = frame X L (createN s ty n) := by
  induction n with
  | zero => intro s; rfl
  | succ n ih => intro s; simp only [createN]; rw [frame_create, ih]

theorem frame_createSpec (X L) (spec : List (Nat × Nat)) :
    ∀ s, createSpec (frame X L s) spec = frame X L (createSpec s spec) := by
  induction spec with
  | nil => intro s; rfl
  | cons p rest ih => intro s; obtain ⟨ty, n⟩ := p; simp only [createSpec]; rw [frame_createN, ih]

theorem frame_send (X L) (s : State) (rid delay : Nat) : send (frame X L s) rid delay = frame X L (send s rid delay) := by
  simp [send, frame, List.append_assoc]

theorem frame_sendAll (X L) (delay : Nat) (ids : List Nat) :
    ∀ s, sendAll (frame X L s) delay ids = frame X L (sendAll s delay ids) := by
  induction ids with
  | nil => intro s; rfl
  | cons i rest ih => intro s; simp only [sendAll]; rw [frame_send, ih]

theorem frame_eff (X L) (s : State) (e : Eff) : step (frame X L s) e.toOp = frame X L (step s e.toOp) := by
  cases e with
  | create ty => rfl
  | delete ids => rfl
  | configure spec => exact frame_createSpec X L spec (clear s)
  | reset => rfl
  | send r d => exact frame_send X L s r d
  | broadcast t d => exact frame_sendAll X L d _ s

theorem frame_run (X L) (E : List Eff) : ∀ s, run (frame X L s) (E.map Eff.toOp) = frame X L (run s (E.map Eff.toOp)) := by
  induction E with
  | nil => intro s; rfl
  | cons e rest ih =>
    intro s
    simp only [List.map_cons, run, List.foldl_cons] at ih ⊢
    rw [frame_eff, ih]

theorem addLog_eq_frame (s : State) (L : List Handled) : addLog s L = frame [] L s := by
  simp [addLog, frame]

theorem run_append (s : State) (a b : List Op) : run s (a ++ b) = run (run s a) b := by
  simp [run, List.foldl_append]

/-- loop invariant: the model state is the state after distribution (`st0`) with the effects executed so far
applied as operations, plus the handler invocations logged so far -/
def Good (st0 : State) (l : Loop) (Ld : List Handled) : Prop :=
  l.st = addLog (run st0 (l.done.map Eff.toOp)) Ld

def pend (now : Nat) (live : List Nat) (T : List Agent) : List Handled := T.flatMap (handleAgent now live)

theorem effStep_st (l : Loop) (e : Eff) : (effStep l e).st = step l.st e.toOp := by cases e <;> rfl
theorem effStep_done (l : Loop) (e : Eff) : (effStep l e).done = l.done ++ [e] := by cases e <;> rfl

theorem effStep_pend (now : Nat) (live : List Nat) (l : Loop) (e : Eff) :
    pend now live (effStep l e).todo = pend now live l.todo := by
  cases e with
  | create ty =>
    simp only [effStep]
    split
    · simp [pend, handleAgent]
    · rfl
  | delete ids => rfl
  | configure spec => rfl
  | reset => rfl
  | send r d => rfl
  | broadcast t d => rfl

theorem good_eff {st0 : State} {l : Loop} {Ld : List Handled} (e : Eff) (h : Good st0 l Ld) :
    Good st0 (effStep l e) Ld := by
  unfold Good at *
  rw [effStep_st, effStep_done, h, addLog_eq_frame, frame_eff, List.map_append, run_append]
  rfl

theorem effs_spec (now : Nat) (live : List Nat) {st0 : State} (E : List Eff) :
    ∀ (l : Loop) (Ld : List Handled), Good st0 l Ld →
      Good st0 (E.foldl effStep l) Ld ∧ pend now live (E.foldl effStep l).todo = pend now live l.todo := by
  induction E with
  | nil => intro l Ld h; exact ⟨h, rfl⟩
  | cons e rest ih =>
    intro l Ld h
    obtain ⟨a, b⟩ := ih (effStep l e) Ld (good_eff e h)
    exact ⟨a, by rw [List.foldl_cons, b, effStep_pend]⟩

theorem handleOne_spec (P : Prog) (now : Nat) (live : List Nat) (aid : Nat) {st0 : State} (l : Loop) (Ld : List Handled)
    (e : Ev) (h : Good st0 l Ld) :
    Good st0 (handleOne P now live aid l e) (Ld ++ [{ step := now, agent := aid, msg := e.msg, live := live }]) ∧
    pend now live (handleOne P now live aid l e).todo = pend now live l.todo := by
  unfold handleOne
  apply effs_spec now live
  unfold Good at *
  simp only
  rw [h]
  simp [addLog]

theorem inbox_spec (P : Prog) (now : Nat) (live : List Nat) (aid : Nat) {st0 : State} (evs : List Ev) :
    ∀ (l : Loop) (Ld : List Handled), Good st0 l Ld →
      Good st0 (evs.foldl (handleOne P now live aid) l)
        (Ld ++ evs.map (fun e => { step := now, agent := aid, msg := e.msg, live := live })) ∧
      pend now live (evs.foldl (handleOne P now live aid) l).todo = pend now live l.todo := by
  induction evs with
  | nil => intro l Ld h; simpa using h
  | cons e rest ih =>
    intro l Ld h
    obtain ⟨a, b⟩ := handleOne_spec P now live aid l Ld e h
    obtain ⟨c, d⟩ := ih _ _ a
    refine ⟨?_, by rw [List.foldl_cons, d, b]⟩
    simpa [List.append_assoc] using c

theorem agentTurn_spec (P : Prog) (now : Nat) (live : List Nat) {st0 : State} (l : Loop) (Ld : List Handled) (a : Agent)
    (h : Good st0 l Ld) :
    Good st0 (agentTurn P now live l a) (Ld ++ handleAgent now live a) ∧
    pend now live (agentTurn P now live l a).todo = pend now live l.todo := by
  unfold agentTurn
  obtain ⟨c, d⟩ := inbox_spec P now live a.id a.inbox.reverse l Ld h
  obtain ⟨c', d'⟩ := effs_spec now live (P.onAct now a.id) _ _ c
  exact ⟨c', by rw [d', d]⟩

theorem midLoop_spec (P : Prog) (now : Nat) (live : List Nat) {st0 : State} (f : Nat) :
    ∀ (l : Loop) (Ld : List Handled), Good st0 l Ld → (midLoop P now live f l).2 = false →
      Good st0 (midLoop P now live f l).1 (Ld ++ pend now live l.todo) := by
  induction f with
  | zero =>
    intro l Ld h hs
    simp only [midLoop, Bool.not_eq_false', List.isEmpty_iff] at hs ⊢
    simpa [hs, pend] using h
  | succ f ih =>
    intro l Ld h hs
    unfold midLoop at hs ⊢
    cases htodo : l.todo with
    | nil => simp only [htodo] at hs ⊢; simpa [pend] using h
    | cons a rest =>
      simp only [htodo] at hs ⊢
      have hg : Good st0 { l with todo := rest } Ld := h
      obtain ⟨c, d⟩ := agentTurn_spec P now live { l with todo := rest } Ld a hg
      have := ih _ _ c hs
      rw [d] at this
      simpa [pend, List.append_assoc] using this

/-- **Linearisation.** If the agent loop of the step ends, the step with user code interleaved equals the atomic
step followed by the executed effects as operations, in execution order. -/
theorem midStep_linear (P : Prog) (fuel : Nat) (s : State) (h : (midStep P fuel s).stuck = false) :
    (midStep P fuel s).st = run (stepFn s) ((midStep P fuel s).done.map Eff.toOp) := by
  unfold midStep at h ⊢
  simp only at h ⊢
  have hg : Good (afterDist s (distOf s)) { st := afterDist s (distOf s), todo := (distOf s).agents, aliased := true, done := [] } [] := by
    simp [Good, addLog, run]
  have := midLoop_spec P (s.now + 1) (s.agents.map (·.id)) fuel _ _ hg h
  unfold Good at this
  rw [this]
  have hstep : stepFn s = frame (distOf s).delayed.reverse (pend (s.now + 1) (s.agents.map (·.id)) (distOf s).agents)
      (afterDist s (distOf s)) := by
    unfold stepFn
    simp [frame, pend, afterDist, distOf]
  rw [hstep, frame_run]
  simp [frame, addLog]

theorem mrun_stuck_mono (ops : List MOp) : ∀ m : MState, m.stuck = true → (mrun m ops).stuck = true := by
  induction ops with
  | nil => intro m h; exact h
  | cons o rest ih =>
    intro m h
    simp only [mrun, List.foldl_cons] at ih ⊢
    apply ih
    cases o with
    | op o => exact h
    | stepWith P fuel => simp [mstep, h]

/-- a whole history with user code in the steps = the linearised history on the base machine -/
theorem mrun_linear (ops : List MOp) : ∀ m : MState, (mrun m ops).stuck = false →
    (mrun m ops).st = run m.st (linearise m.st ops) := by
  induction ops with
  | nil => intro m _; rfl
  | cons o rest ih =>
    intro m h
    cases o with
    | op o =>
      have := ih { m with st := step m.st o } h
      simpa [mrun, mstep, linearise, run] using this
    | stepWith P fuel =>
      have h' : (mrun (mstep m (.stepWith P fuel)) rest).stuck = false := h
      have hm : (mstep m (.stepWith P fuel)).stuck = false := by
        cases hc : (mstep m (.stepWith P fuel)).stuck with
        | false => rfl
        | true => rw [mrun_stuck_mono rest _ hc] at h'; exact absurd h' (by decide)
      have hr : (midStep P fuel m.st).stuck = false := by
        simp only [mstep, Bool.or_eq_false_iff] at hm; exact hm.2
      have := ih _ h'
      show (mrun (mstep m (.stepWith P fuel)) rest).st = _
      rw [this]
      simp only [mstep, linearise]
      rw [run_append, midStep_linear P fuel m.st hr]
      rfl

/-- **C11 under mid-step population changes**: every clause of `C11_full`, for every history whose steps carry
arbitrary user code (handlers and `act()` creating, deleting, reconfiguring, resetting, sending, broadcasting),
provided every agent loop ends. -/
theorem C11_midstep (ops : List MOp) (h : (mrun ⟨State.init, false⟩ ops).stuck = false) :
    Clauses (mrun ⟨State.init, false⟩ ops).st := by
  rw [mrun_linear ops _ h]
  exact C11_full_proved _

/-- non-vacuity (kernel-checked): in one step agent 0's `act()` creates an agent and deletes agent 1; agent 1
still handles the event distributed to it, the new agent 2 gets its turn (its `act()` sends to the deleted id 1,
which is dropped in the next step); agent 0's handler sends to the new id 2, handled in the next step. -/
def demoProg : Prog :=
  { onEvent := fun m => if m.seq = 0 then [.send 2 0] else []
    onAct := fun _ i => if i = 0 then [.create 0, .delete [1]] else if i = 2 then [.send 1 0] else [] }

def demoMid : MState := mrun ⟨State.init, false⟩
  [.op (.create 0), .op (.create 1), .op (.send 0 0), .op (.send 1 0), .stepWith demoProg 10, .op .step]

example : demoMid.stuck = false ∧
    demoMid.st.log.map (fun h => (h.step, h.agent, h.msg.seq, h.live)) =
      [(1, 0, 0, [0, 1]), (1, 1, 1, [0, 1]), (2, 2, 2, [0, 2])] ∧
    demoMid.st.dropped.map (fun d => (d.step, d.msg.seq, d.live)) = [(2, 3, [0, 2])] ∧
    demoMid.st.agents.map (·.id) = [0, 2] := by decide

/-! ## Wave 2b — handler tables, states without a table, names without handler, handlers that raise

What the property still guarantees on the extended machine `XState`/`xstep`, for EVERY history (`xinv_run`):
routing (a handler runs only in the agent whose id is the receiver id, alive at the start of that step), never
early (never before `dueStep`), at most once, and conservation: every sent event is in exactly one place — queued,
stashed by an aborted step, held in its receiver's inbox, handled, ignored (no handler of that name), dropped (no
such id) or lost with its deleted receiver.  Exact timing, exactly-once-when-due and order need the assumption
"every receiver is in a state with a handler table whenever it holds an event, and no handler raises"; the
witnesses below show each failing without it, and `xrun_base` shows that on base histories the extended
machine IS the base machine, so `C11_full` carries over (`C11_full_x`). -/

def msgsOf (l : List Ev) : List Msg := l.map (·.msg)

theorem msgsOf_append (a b : List Ev) : msgsOf (a ++ b) = msgsOf a ++ msgsOf b := by simp [msgsOf]

theorem inboxesOf_cons (a : Agent) (as : List Agent) : inboxesOf (a :: as) = a.inbox ++ inboxesOf as := by
  simp [inboxesOf]

theorem inboxesOf_append (as bs : List Agent) : inboxesOf (as ++ bs) = inboxesOf as ++ inboxesOf bs := by
  simp [inboxesOf]

theorem inboxesOf_nil : inboxesOf [] = [] := rfl

/-- where a sent event can be -/
def places (x : XState) : List Msg :=
  msgsOf x.s.events ++ msgsOf x.stash ++ msgsOf (inboxesOf x.s.agents) ++ x.s.log.map (·.msg) ++
    x.ignored.map (·.msg) ++ x.s.dropped.map (·.msg) ++ msgsOf x.lost

theorem deliver_ids (as : List Agent) (e : Ev) : (deliver as e).map (·.id) = as.map (·.id) := by
  induction as with
  | nil => rfl
  | cons a rest ih =>
    simp only [deliver]
    split
    · rfl
    · simp [ih]

/-! counting occurrences: `one a m` = 1 if `a = m` else 0, an atom for `omega` -/
def one (a m : Msg) : Nat := List.count m [a]

theorem count_cons_one (m a : Msg) (l : List Msg) : List.count m (a :: l) = one a m + List.count m l := by
  unfold one
  rw [List.count_cons, List.count_cons]
  simp only [List.count_nil]
  omega

@[simp] theorem msgsOf_nil : msgsOf [] = [] := rfl
@[simp] theorem msgsOf_cons (e : Ev) (l : List Ev) : msgsOf (e :: l) = e.msg :: msgsOf l := rfl
theorem msgsOf_reverse (l : List Ev) : msgsOf l.reverse = (msgsOf l).reverse := by simp [msgsOf]

/-- normal form for counting goals -/
macro "count_nf" : tactic => `(tactic|
  simp only [List.count_append, count_cons_one, List.count_nil, msgsOf_nil, msgsOf_cons, msgsOf_append, msgsOf_reverse,
    List.count_reverse, inboxesOf_cons, inboxesOf_append, List.map_append, List.map_cons, List.map_nil,
    inboxesOf_nil, List.append_assoc, List.nil_append, List.append_nil, Nat.add_zero, Nat.zero_add] at *)

theorem deliver_count (as : List Agent) (e : Ev) (h : hasId as e.msg.rid = true) (m : Msg) :
    List.count m (msgsOf (inboxesOf (deliver as e))) = one e.msg m + List.count m (msgsOf (inboxesOf as)) := by
  induction as with
  | nil => simp [hasId] at h
  | cons a rest ih =>
    simp only [deliver]
    split
    · count_nf; omega
    · rename_i hne
      have h' : hasId rest e.msg.rid = true := by
        simp only [hasId, List.map_cons, List.contains_cons, Bool.or_eq_true, beq_iff_eq] at h ⊢
        rcases h with h | h
        · exact absurd h.symm hne
        · exact h
      have := ih h'
      count_nf; omega

/-- the places of the distribution loop's accumulator -/
def dmsgs (d : Dist) : List Msg := msgsOf d.delayed ++ msgsOf (inboxesOf d.agents) ++ d.dropped.map (·.msg)

theorem distOne_count (now : Nat) (d : Dist) (e : Ev) (m : Msg) :
    List.count m (dmsgs (distOne now d e)) = one e.msg m + List.count m (dmsgs d) := by
  unfold distOne
  split
  · simp only [dmsgs, dec]; count_nf; omega
  · split
    · rename_i hid
      have := deliver_count d.agents e hid m
      simp only [dmsgs]; count_nf; omega
    · simp only [dmsgs]; count_nf; omega

theorem dist_count (now : Nat) (L : List Ev) (m : Msg) :
    ∀ d : Dist, List.count m (dmsgs (L.foldl (distOne now) d)) = List.count m (msgsOf L) + List.count m (dmsgs d) := by
  induction L with
  | nil => intro d; simp
  | cons e L ih =>
    intro d
    simp only [List.foldl_cons]
    rw [ih, distOne_count]
    count_nf; omega

theorem drain_rest_nil (names : List Nat) (mk : Ev → Handled) (evs : List Ev) :
    (drain names mk evs).raised = false → (drain names mk evs).rest = [] := by
  induction evs with
  | nil => intro _; rfl
  | cons e rest ih =>
    simp only [drain]
    split
    · split
      · intro h; simp at h
      · exact ih
    · exact ih

theorem drain_count (names : List Nat) (mk : Ev → Handled) (hmk : ∀ e, (mk e).msg = e.msg) (evs : List Ev) (m : Msg) :
    List.count m ((drain names mk evs).log.map (·.msg)) + List.count m ((drain names mk evs).ign.map (·.msg)) +
      List.count m (msgsOf (drain names mk evs).rest) = List.count m (msgsOf evs) := by
  induction evs with
  | nil => simp [drain]
  | cons e rest ih =>
    simp only [drain]
    split
    · split
      · count_nf; rw [hmk]
      · count_nf; rw [hmk]; omega
    · count_nf; rw [hmk]; omega

theorem drain_mem (names : List Nat) (mk : Ev → Handled) (evs : List Ev) :
    (∀ h ∈ (drain names mk evs).log ++ (drain names mk evs).ign, ∃ e ∈ evs, h = mk e) ∧
    (∀ e ∈ (drain names mk evs).rest, e ∈ evs) := by
  induction evs with
  | nil => simp [drain]
  | cons e rest ih =>
    simp only [drain]
    split
    · split
      · constructor
        · intro h hh; simp at hh; exact ⟨e, by simp, hh⟩
        · intro e' he'; exact List.mem_cons_of_mem _ he'
      · constructor
        · intro h hh
          simp only [List.mem_append, List.mem_cons] at hh
          rcases hh with (rfl | hh) | hh
          · exact ⟨e, by simp, rfl⟩
          · obtain ⟨e', he', rfl⟩ := ih.1 h (List.mem_append_left _ hh); exact ⟨e', by simp [he'], rfl⟩
          · obtain ⟨e', he', rfl⟩ := ih.1 h (List.mem_append_right _ hh); exact ⟨e', by simp [he'], rfl⟩
        · intro e' he'; exact List.mem_cons_of_mem _ (ih.2 e' he')
    · constructor
      · intro h hh
        simp only [List.mem_append, List.mem_cons] at hh
        rcases hh with hh | rfl | hh
        · obtain ⟨e', he', rfl⟩ := ih.1 h (List.mem_append_left _ hh); exact ⟨e', by simp [he'], rfl⟩
        · exact ⟨e, by simp, rfl⟩
        · obtain ⟨e', he', rfl⟩ := ih.1 h (List.mem_append_right _ hh); exact ⟨e', by simp [he'], rfl⟩
      · intro e' he'; exact List.mem_cons_of_mem _ (ih.2 e' he')

theorem phase_count (now : Nat) (live : List Nat) (mo : Nat → Meta) (as : List Agent) (m : Msg) :
    List.count m ((phase now live mo as).log.map (·.msg)) + List.count m ((phase now live mo as).ign.map (·.msg)) +
        List.count m (msgsOf (inboxesOf (phase now live mo as).agents)) = List.count m (msgsOf (inboxesOf as)) := by
  induction as with
  | nil => simp [phase, inboxesOf_nil]
  | cons a rest ih =>
    simp only [phase]
    split
    · count_nf; omega
    · rename_i names _
      have hd := drain_count names (mkHandled now live a.id) (fun _ => rfl) a.inbox.reverse m
      split
      · count_nf; omega
      · rename_i hr
        have hnil := drain_rest_nil names (mkHandled now live a.id) a.inbox.reverse (by simpa using hr)
        rw [hnil] at hd
        count_nf; omega

theorem phase_ids (now : Nat) (live : List Nat) (mo : Nat → Meta) (as : List Agent) :
    (phase now live mo as).agents.map (·.id) = as.map (·.id) := by
  induction as with
  | nil => rfl
  | cons a rest ih =>
    simp only [phase]
    split
    · simp [ih]
    · split
      · simp
      · simp [ih]

theorem phase_mem (now : Nat) (live : List Nat) (mo : Nat → Meta) (as : List Agent) :
    ∀ h ∈ (phase now live mo as).log ++ (phase now live mo as).ign,
      ∃ a ∈ as, ∃ e ∈ a.inbox, h = mkHandled now live a.id e := by
  induction as with
  | nil => simp [phase]
  | cons a rest ih =>
    simp only [phase]
    split
    · intro h hh
      obtain ⟨a', ha', r⟩ := ih h hh
      exact ⟨a', List.mem_cons_of_mem _ ha', r⟩
    · rename_i names _
      have hd := (drain_mem names (mkHandled now live a.id) a.inbox.reverse).1
      split
      · intro h hh
        obtain ⟨e, he, rfl⟩ := hd h hh
        exact ⟨a, by simp, e, by simpa using he, rfl⟩
      · intro h hh
        simp only [List.mem_append] at hh
        have : h ∈ (drain names (mkHandled now live a.id) a.inbox.reverse).log ++
            (drain names (mkHandled now live a.id) a.inbox.reverse).ign ∨
            h ∈ (phase now live mo rest).log ++ (phase now live mo rest).ign := by
          simp only [List.mem_append]; tauto
        rcases this with h1 | h1
        · obtain ⟨e, he, rfl⟩ := hd h h1
          exact ⟨a, by simp, e, by simpa using he, rfl⟩
        · obtain ⟨a', ha', r⟩ := ih h h1
          exact ⟨a', List.mem_cons_of_mem _ ha', r⟩

theorem phase_agents (now : Nat) (live : List Nat) (mo : Nat → Meta) (as : List Agent) :
    ∀ a' ∈ (phase now live mo as).agents, ∃ a ∈ as, a'.id = a.id ∧ ∀ e ∈ a'.inbox, e ∈ a.inbox := by
  induction as with
  | nil => simp [phase]
  | cons a rest ih =>
    simp only [phase]
    split
    · intro a' ha'
      simp only [List.mem_cons] at ha'
      rcases ha' with rfl | ha'
      · exact ⟨a', by simp, rfl, fun _ h => h⟩
      · obtain ⟨b, hb, r⟩ := ih a' ha'; exact ⟨b, List.mem_cons_of_mem _ hb, r⟩
    · rename_i names _
      have hd := (drain_mem names (mkHandled now live a.id) a.inbox.reverse).2
      split
      · intro a' ha'
        simp only [List.mem_cons] at ha'
        rcases ha' with rfl | ha'
        · refine ⟨a, by simp, rfl, ?_⟩
          intro e he
          simp only [List.mem_reverse] at he
          simpa using hd e he
        · exact ⟨a', List.mem_cons_of_mem _ ha', rfl, fun _ h => h⟩
      · intro a' ha'
        simp only [List.mem_cons] at ha'
        rcases ha' with rfl | ha'
        · exact ⟨a, by simp, rfl, by simp⟩
        · obtain ⟨b, hb, r⟩ := ih a' ha'; exact ⟨b, List.mem_cons_of_mem _ hb, r⟩

/-- **What holds on the extended machine in every reachable state.** -/
structure XInv (x : XState) : Prop where
  idsSorted : (x.s.agents.map (·.id)).Pairwise (· < ·)
  idBound : ∀ a ∈ x.s.agents, a.id < x.s.next
  sentLen : x.s.sent.length = x.s.nextSeq
  sentIdx : ∀ m ∈ x.s.sent, x.s.sent[m.seq]? = some m
  sentNodup : x.s.sent.Nodup
  conserve : ∀ m, List.count m (places x) = List.count m x.s.sent
  evOk : ∀ e ∈ x.s.events ++ x.stash, e.msg.sentAt + e.msg.delay ≤ x.s.now + e.remaining
  inboxOk : ∀ a ∈ x.s.agents, ∀ e ∈ a.inbox, e.msg.rid = a.id ∧ dueStep e.msg ≤ x.s.now
  logOk : ∀ h ∈ x.s.log ++ x.ignored,
    h.agent = h.msg.rid ∧ h.agent ∈ h.live ∧ dueStep h.msg ≤ h.step ∧ h.step ≤ x.s.now
  dropOk : ∀ d ∈ x.s.dropped, d.msg.rid ∉ d.live ∧ dueStep d.msg ≤ d.step ∧ d.step ≤ x.s.now

theorem xinv_init : XInv XState.init := by
  constructor <;> simp [XState.init, State.init, places, inboxesOf_nil]

/-- apply a base-state function that leaves the side data alone -/
def xmap (f : State → State) (x : XState) : XState := { x with s := f x.s }

theorem xinv_create (x : XState) (ty : Nat) (h : XInv x) : XInv (xmap (fun s => create s ty) x) := by
  refine { h with idsSorted := ?_, idBound := ?_, conserve := ?_, inboxOk := ?_ }
  · simp only [xmap, create, List.map_append, List.map_cons, List.map_nil]
    rw [List.pairwise_append]
    refine ⟨h.idsSorted, by simp, ?_⟩
    intro a ha b hb
    simp at hb; subst hb
    simp at ha
    obtain ⟨y, hy, rfl⟩ := ha
    exact h.idBound y hy
  · intro a ha
    simp [xmap, create] at ha ⊢
    rcases ha with ha | rfl
    · have := h.idBound a ha; omega
    · simp
  · intro m
    have := h.conserve m
    simp only [places, xmap, create] at this ⊢
    count_nf; omega
  · intro a ha
    simp [xmap, create] at ha
    rcases ha with ha | rfl
    · exact h.inboxOk a ha
    · simp

theorem xinv_createN (ty : Nat) (n : Nat) : ∀ x, XInv x → XInv (xmap (fun s => createN s ty n) x) := by
  induction n with
  | zero => intro x h; exact h
  | succ n ih => intro x h; exact ih _ (xinv_create x ty h)

theorem xinv_createSpec (spec : List (Nat × Nat)) : ∀ x, XInv x → XInv (xmap (fun s => createSpec s spec) x) := by
  induction spec with
  | nil => intro x h; exact h
  | cons p rest ih => intro x h; obtain ⟨ty, n⟩ := p; exact ih _ (xinv_createN ty n x h)

theorem filter_inboxes_count (p : Agent → Bool) (as : List Agent) (m : Msg) :
    List.count m (msgsOf (inboxesOf (as.filter (fun a => !p a)))) + List.count m (msgsOf (inboxesOf (as.filter p))) =
      List.count m (msgsOf (inboxesOf as)) := by
  induction as with
  | nil => simp [inboxesOf_nil]
  | cons a rest ih =>
    simp only [List.filter_cons]
    cases p a <;> simp only [Bool.not_true, Bool.not_false, if_true, if_false, Bool.false_eq_true] <;>
      (count_nf; omega)

theorem xinv_delete (x : XState) (ids : List Nat) (h : XInv x) :
    XInv { x with s := delete x.s ids, lost := x.lost ++ inboxesOf (x.s.agents.filter (fun a => ids.contains a.id)) } := by
  refine { h with idsSorted := ?_, idBound := ?_, conserve := ?_, inboxOk := ?_ }
  · exact List.Pairwise.sublist (List.Sublist.map _ List.filter_sublist) h.idsSorted
  · intro a ha; exact h.idBound a (List.mem_filter.mp ha).1
  · intro m
    have := h.conserve m
    have hf := filter_inboxes_count (fun a => ids.contains a.id) x.s.agents m
    simp only [places, delete] at this ⊢
    count_nf; omega
  · intro a ha; exact h.inboxOk a (List.mem_filter.mp ha).1

theorem xinv_clear (x : XState) (h : XInv x) :
    XInv { x with s := clear x.s, lost := x.lost ++ inboxesOf x.s.agents } := by
  refine { h with idsSorted := ?_, idBound := ?_, conserve := ?_, inboxOk := ?_ }
  · simp [clear]
  · simp [clear]
  · intro m
    have := h.conserve m
    simp only [places, clear] at this ⊢
    count_nf; omega
  · simp [clear]

theorem XInv.seq_lt {x : XState} (h : XInv x) {m : Msg} (hm : m ∈ x.s.sent) : m.seq < x.s.nextSeq := by
  have a := h.sentIdx m hm
  rw [List.getElem?_eq_some_iff] at a
  obtain ⟨hlt, _⟩ := a
  rw [← h.sentLen]; exact hlt

theorem xinv_sendX (x : XState) (rid delay name : Nat) (r : Bool) (h : XInv x) :
    XInv (xmap (fun s => sendX s rid delay name r) x) := by
  refine { h with sentLen := ?_, sentIdx := ?_, sentNodup := ?_, conserve := ?_, evOk := ?_ }
  · simp [xmap, sendX, h.sentLen]
  · intro m hm
    simp only [xmap, sendX, List.mem_append, List.mem_singleton] at hm ⊢
    rcases hm with hm | rfl
    · rw [List.getElem?_append_left (by rw [h.sentLen]; exact h.seq_lt hm)]
      exact h.sentIdx m hm
    · simp only
      rw [← h.sentLen]
      exact List.getElem?_concat_length
  · simp only [xmap, sendX]
    rw [List.nodup_append]
    refine ⟨h.sentNodup, by simp, ?_⟩
    intro a ha b hb
    simp only [List.mem_singleton] at hb
    subst hb
    intro hab
    have := h.seq_lt ha
    rw [hab] at this
    simp at this
  · intro m
    have := h.conserve m
    simp only [places, xmap, sendX] at this ⊢
    count_nf; omega
  · intro e he
    simp only [xmap, sendX, List.mem_append, List.mem_singleton] at he ⊢
    rcases he with (he | rfl) | he
    · exact h.evOk e (by simp [he])
    · simp
    · exact h.evOk e (by simp [he])

theorem send_eq_sendX (s : State) (rid delay : Nat) : send s rid delay = sendX s rid delay 0 false := rfl

theorem xinv_sendAll (delay : Nat) (ids : List Nat) : ∀ x, XInv x → XInv (xmap (fun s => sendAll s delay ids) x) := by
  induction ids with
  | nil => intro x h; exact h
  | cons i rest ih => intro x h; exact ih _ (xinv_sendX x i delay 0 false h)

theorem xinv_stepFn (x : XState) (h : XInv x) : XInv (xstepFn x) := by
  have hn : (x.s.agents.map (·.id)).Nodup := pairwise_lt_nodup _ h.idsSorted
  have hd := dist_fold (x.s.now + 1) x.s.events.reverse x.s.agents [] [] hn
  have hcount := fun m => dist_count (x.s.now + 1) x.s.events.reverse m
    { agents := x.s.agents, delayed := [], dropped := [] }
  unfold xstepFn xafter distOf
  simp only
  generalize x.s.events.reverse.foldl (distOne (x.s.now + 1)) { agents := x.s.agents, delayed := [], dropped := [] } = d
    at hd hcount ⊢
  have hda : d.agents = x.s.agents.map (addAll x.s.events.reverse) := by rw [hd]
  have hdl : d.delayed = (x.s.events.reverse.filter isDelayed).map dec := by rw [hd]; simp
  have hdr : d.dropped = (x.s.events.reverse.filter (isDropped (x.s.agents.map (·.id)))).map
      (mkDrop (x.s.now + 1) (x.s.agents.map (·.id))) := by rw [hd]; simp
  have hdids : d.agents.map (·.id) = x.s.agents.map (·.id) := by
    rw [hda, List.map_map]; apply List.map_congr_left; intro a _; rfl
  have hdinbox : ∀ a ∈ d.agents, ∀ e ∈ a.inbox, e.msg.rid = a.id ∧ dueStep e.msg ≤ x.s.now + 1 := by
    intro a ha e he
    rw [hda] at ha
    obtain ⟨a0, ha0, rfl⟩ := List.mem_map.mp ha
    simp only [addAll, List.mem_append, List.mem_filter, List.mem_reverse, dueFor, Bool.and_eq_true, beq_iff_eq] at he
    rcases he with he | ⟨he, h0, hr⟩
    · obtain ⟨a1, a2⟩ := h.inboxOk a0 ha0 e he
      exact ⟨a1, by omega⟩
    · have := h.evOk e (List.mem_append_left _ he)
      exact ⟨hr, by simp only [dueStep]; omega⟩
  have hpc := fun m => phase_count (x.s.now + 1) (x.s.agents.map (·.id)) x.metaOf d.agents m
  have hpm := phase_mem (x.s.now + 1) (x.s.agents.map (·.id)) x.metaOf d.agents
  have hpa := phase_agents (x.s.now + 1) (x.s.agents.map (·.id)) x.metaOf d.agents
  have hpi := phase_ids (x.s.now + 1) (x.s.agents.map (·.id)) x.metaOf d.agents
  generalize phase (x.s.now + 1) (x.s.agents.map (·.id)) x.metaOf d.agents = p at hpc hpm hpa hpi ⊢
  constructor
  · -- idsSorted
    show (p.agents.map (·.id)).Pairwise (· < ·)
    rw [hpi, hdids]; exact h.idsSorted
  · -- idBound
    intro a ha
    have : a.id ∈ p.agents.map (·.id) := List.mem_map.mpr ⟨a, ha, rfl⟩
    rw [hpi, hdids] at this
    obtain ⟨a0, ha0, he⟩ := List.mem_map.mp this
    have := h.idBound a0 ha0
    simp only at he ⊢
    omega
  · exact h.sentLen
  · exact h.sentIdx
  · exact h.sentNodup
  · -- conserve
    intro m
    have h1 := h.conserve m
    have h2 := hcount m
    have h3 := hpc m
    simp only [places, dmsgs] at h1 h2 ⊢
    cases p.raised <;> simp only [if_true, if_false, Bool.false_eq_true] <;> (count_nf; omega)
  · -- evOk (never early)
    intro e he
    have hmem : e ∈ x.stash ∨ e ∈ d.delayed := by
      cases hr : p.raised <;> simp [hr] at he <;> tauto
    rcases hmem with he | he
    · have := h.evOk e (List.mem_append_right _ he)
      simp only; omega
    · rw [hdl] at he
      simp only [List.mem_map, List.mem_filter, List.mem_reverse, isDelayed, decide_eq_true_eq] at he
      obtain ⟨e0, ⟨he0, hpos⟩, rfl⟩ := he
      have := h.evOk e0 (List.mem_append_left _ he0)
      simp only [dec]; omega
  · -- inboxOk
    intro a ha e he
    obtain ⟨a0, ha0, hid, hsub⟩ := hpa a ha
    obtain ⟨r1, r2⟩ := hdinbox a0 ha0 e (hsub e he)
    exact ⟨by rw [hid]; exact r1, r2⟩
  · -- logOk
    intro hh hmem
    have hmem' : hh ∈ x.s.log ++ x.ignored ∨ hh ∈ p.log ++ p.ign := by
      simp only [List.mem_append] at hmem ⊢; tauto
    rcases hmem' with hold | hnew
    · obtain ⟨a, b, c, dd⟩ := h.logOk hh hold
      exact ⟨a, b, c, by simp only; omega⟩
    · obtain ⟨a, ha, e, he, rfl⟩ := hpm hh hnew
      obtain ⟨r1, r2⟩ := hdinbox a ha e he
      refine ⟨r1.symm, ?_, r2, Nat.le_refl _⟩
      simp only [mkHandled]
      rw [← hdids]
      exact List.mem_map.mpr ⟨a, ha, rfl⟩
  · -- dropOk
    intro dd hmem
    simp only [List.mem_append] at hmem
    rcases hmem with hold | hnew
    · obtain ⟨a, b, c⟩ := h.dropOk dd hold
      exact ⟨a, b, by simp only; omega⟩
    · rw [hdr] at hnew
      obtain ⟨e, he, h0, hr, rfl⟩ := mem_drops.mp hnew
      have := h.evOk e (List.mem_append_left _ he)
      exact ⟨hr, by simp only [dueStep]; omega, Nat.le_refl _⟩

theorem xinv_step (x : XState) (op : XOp) (h : XInv x) : XInv (xstep x op) := by
  cases op with
  | base o =>
    cases o with
    | create ty => exact xinv_create x ty h
    | delete ids => exact xinv_delete x ids h
    | configure spec => exact xinv_createSpec spec _ (xinv_clear x h)
    | reset => exact xinv_clear x h
    | send rid delay => exact xinv_sendX x rid delay 0 false h
    | broadcast ty delay => exact xinv_sendAll delay _ x h
    | randomEvents ty num delay draws => exact xinv_sendAll delay _ x h
    | step => exact xinv_stepFn x h
  | createT ty m => exact { xinv_create x ty h with }
  | setState i st => exact { h with }
  | sendX rid delay name r => exact xinv_sendX x rid delay name r h

theorem xinv_run (ops : List XOp) : ∀ x, XInv x → XInv (xrun x ops) := by
  induction ops with
  | nil => intro x h; exact h
  | cons op rest ih => intro x h; exact ih _ (xinv_step x op h)

theorem xinv_reachable (ops : List XOp) : XInv (xrun XState.init ops) := xinv_run ops _ xinv_init

/-! ### what the property still guarantees on the extended machine -/

theorem XInv.mem_sent {x : XState} (h : XInv x) {m : Msg} (hm : m ∈ places x) : m ∈ x.s.sent := by
  have := List.count_pos_iff.mpr hm
  rw [h.conserve m] at this
  exact List.count_pos_iff.mp this

/-- The guarantees that survive states without handler table, unknown event names and raising handlers. -/
def XClauses (x : XState) : Prop :=
  -- routing + never early: an event is popped (handler run, or no handler of that name) only by the agent whose id
  -- is its receiver id, alive at the start of that step, for an event that was really sent, not before it is due
  (∀ h ∈ x.s.log ++ x.ignored, h.msg ∈ x.s.sent ∧ h.agent = h.msg.rid ∧ h.agent ∈ h.live ∧ dueStep h.msg ≤ h.step) ∧
  -- an event is discarded by the scheduler only when no agent has the receiver id, not before it is due
  (∀ d ∈ x.s.dropped, d.msg ∈ x.s.sent ∧ d.msg.rid ∉ d.live ∧ dueStep d.msg ≤ d.step) ∧
  -- an event waiting in an inbox is in the inbox of its receiver
  (∀ a ∈ x.s.agents, ∀ e ∈ a.inbox, e.msg ∈ x.s.sent ∧ e.msg.rid = a.id) ∧
  -- conservation / at most once: every sent event is in exactly one place, exactly once
  (∀ m ∈ x.s.sent, List.count m (places x) = 1) ∧
  -- ids are unique
  (x.s.agents.map (·.id)).Nodup

theorem XInv.clauses {x : XState} (h : XInv x) : XClauses x := by
  refine ⟨?_, ?_, ?_, ?_, pairwise_lt_nodup _ h.idsSorted⟩
  · intro hh hmem
    obtain ⟨a, b, c, _⟩ := h.logOk hh hmem
    refine ⟨h.mem_sent ?_, a, b, c⟩
    simp only [List.mem_append] at hmem
    simp only [places, List.mem_append, List.mem_map]
    rcases hmem with hm | hm
    · exact Or.inl (Or.inl (Or.inl (Or.inr ⟨hh, hm, rfl⟩)))
    · exact Or.inl (Or.inl (Or.inr ⟨hh, hm, rfl⟩))
  · intro d hd
    obtain ⟨a, b, _⟩ := h.dropOk d hd
    refine ⟨h.mem_sent ?_, a, b⟩
    simp only [places, List.mem_append, List.mem_map]
    exact Or.inl (Or.inr ⟨d, hd, rfl⟩)
  · intro a ha e he
    refine ⟨h.mem_sent ?_, (h.inboxOk a ha e he).1⟩
    simp only [places, List.mem_append, msgsOf, List.mem_map, inboxesOf, List.mem_flatMap]
    exact Or.inl (Or.inl (Or.inl (Or.inl (Or.inr ⟨e, ⟨a, ha, he⟩, rfl⟩))))
  · intro m hm
    rw [h.conserve m]
    exact List.count_eq_one_of_mem h.sentNodup hm

/-- **C11 on the extended machine, every history** (`XOp`: handler tables, state changes, named events, raising
handlers, plus all base operations). -/
theorem C11_x_partial (ops : List XOp) : XClauses (xrun XState.init ops) := (xinv_reachable ops).clauses

/-- a handler runs at most once per event, and an event is never both handled and discarded / ignored / lost -/
theorem C11_x_at_most_once (ops : List XOp) (m : Msg) (hm : m ∈ (xrun XState.init ops).s.sent) :
    List.count m ((xrun XState.init ops).s.log.map (·.msg)) ≤ 1 ∧
    (m ∈ (xrun XState.init ops).s.log.map (·.msg) →
      m ∉ (xrun XState.init ops).s.dropped.map (·.msg) ∧ m ∉ (xrun XState.init ops).ignored.map (·.msg) ∧
      m ∉ msgsOf (xrun XState.init ops).lost ∧ m ∉ msgsOf (xrun XState.init ops).s.events) := by
  have h1 := (C11_x_partial ops).2.2.2.1 m hm
  generalize xrun XState.init ops = x at *
  simp only [places] at h1
  count_nf
  refine ⟨by omega, ?_⟩
  intro hmem
  have := List.count_pos_iff.mpr hmem
  refine ⟨?_, ?_, ?_, ?_⟩ <;> (intro hc; have := List.count_pos_iff.mpr hc; omega)

/-! ### on base histories the extended machine is the base machine -/

def PlainEv (e : Ev) : Prop := e.msg.name = 0 ∧ e.msg.raises = false

theorem drain_plain (mk : Ev → Handled) (evs : List Ev) (h : ∀ e ∈ evs, PlainEv e) :
    drain [0] mk evs = { log := evs.map mk, ign := [], rest := [], raised := false } := by
  induction evs with
  | nil => rfl
  | cons e rest ih =>
    have he := h e (by simp)
    have := ih (fun e' he' => h e' (List.mem_cons_of_mem _ he'))
    simp only [drain, he.1, he.2, this]
    simp

theorem phase_plain (now : Nat) (live : List Nat) (as : List Agent) (h : ∀ a ∈ as, ∀ e ∈ a.inbox, PlainEv e) :
    phase now live (fun _ => stdMeta) as =
      { agents := as.map clearInbox, log := as.flatMap (handleAgent now live), ign := [], raised := false } := by
  induction as with
  | nil => rfl
  | cons a rest ih =>
    have hr := ih (fun a' ha' => h a' (List.mem_cons_of_mem _ ha'))
    have hd := drain_plain (mkHandled now live a.id) a.inbox.reverse
      (fun e he => h a (by simp) e (by simpa using he))
    have hh : stdMeta.handlers = some [0] := rfl
    simp only [phase, hh, hd, hr]
    simp [clearInbox, handleAgent, mkHandled]

theorem inboxesOf_empty (as : List Agent) (h : ∀ a ∈ as, a.inbox = []) : inboxesOf as = [] := by
  induction as with
  | nil => rfl
  | cons a rest ih =>
    rw [inboxesOf_cons, h a (by simp), ih (fun b hb => h b (List.mem_cons_of_mem _ hb))]; rfl

/-- the embedding of a base state -/
def ofBase (s : State) : XState := { XState.init with s := s }

theorem ofBase_metaOf (s : State) : (ofBase s).metaOf = fun _ => stdMeta := by
  funext i; simp [ofBase, XState.metaOf, XState.init]

theorem xstepFn_base (s : State) (h : Inv s) (hp : ∀ e ∈ s.events, PlainEv e) : xstepFn (ofBase s) = ofBase (stepFn s) := by
  have hn : (s.agents.map (·.id)).Nodup := pairwise_lt_nodup _ h.idsSorted
  have hd := dist_fold (s.now + 1) s.events.reverse s.agents [] [] hn
  have hst : stepFn s = { s with now := s.now + 1
                                 agents := (distOf s).agents.map clearInbox
                                 log := s.log ++ (distOf s).agents.flatMap (handleAgent (s.now + 1) (s.agents.map (·.id)))
                                 dropped := s.dropped ++ (distOf s).dropped
                                 events := (distOf s).delayed.reverse } := rfl
  have hd' : distOf s = _ := hd
  have hpl : ∀ a ∈ (distOf s).agents, ∀ e ∈ a.inbox, PlainEv e := by
    intro a ha e he
    rw [hd'] at ha
    obtain ⟨a0, ha0, rfl⟩ := List.mem_map.mp ha
    simp only [addAll, h.inboxEmpty a0 ha0, List.nil_append, List.mem_filter, List.mem_reverse] at he
    exact hp e he.1
  rw [hst]
  unfold xstepFn xafter
  simp only [ofBase_metaOf]
  have hs : (ofBase s).s = s := rfl
  simp only [hs]
  rw [phase_plain _ _ _ hpl]
  simp [ofBase, XState.init]

theorem createN_events (ty n : Nat) : ∀ s, (createN s ty n).events = s.events := by
  induction n with
  | zero => intro s; rfl
  | succ n ih => intro s; simp only [createN]; rw [ih]; rfl

theorem createSpec_events (spec : List (Nat × Nat)) : ∀ s, (createSpec s spec).events = s.events := by
  induction spec with
  | nil => intro s; rfl
  | cons p rest ih => intro s; obtain ⟨ty, n⟩ := p; simp only [createSpec]; rw [ih, createN_events]

theorem sendAll_plain (delay : Nat) (ids : List Nat) :
    ∀ s, (∀ e ∈ s.events, PlainEv e) → ∀ e ∈ (sendAll s delay ids).events, PlainEv e := by
  induction ids with
  | nil => intro s h; exact h
  | cons i rest ih =>
    intro s h
    apply ih
    intro e he
    simp only [send, List.mem_append, List.mem_singleton] at he
    rcases he with he | rfl
    · exact h e he
    · exact ⟨rfl, rfl⟩

theorem plain_step (s : State) (o : Op) (h : Inv s) (hp : ∀ e ∈ s.events, PlainEv e) :
    ∀ e ∈ (step s o).events, PlainEv e := by
  cases o with
  | create ty => exact hp
  | delete ids => exact hp
  | configure spec => intro e he; simp only [step] at he; rw [createSpec_events] at he; exact hp e he
  | reset => exact hp
  | send rid delay => exact sendAll_plain delay [rid] s hp
  | broadcast ty delay => exact sendAll_plain delay _ s hp
  | randomEvents ty num delay draws => exact sendAll_plain delay _ s hp
  | step =>
    intro e he
    simp only [step] at he
    rw [stepFn_spec s (pairwise_lt_nodup _ h.idsSorted) h.inboxEmpty] at he
    simp only [List.mem_map, List.mem_filter] at he
    obtain ⟨e0, ⟨he0, _⟩, rfl⟩ := he
    exact hp e0 he0

theorem xstep_base (s : State) (o : Op) (h : Inv s) (hp : ∀ e ∈ s.events, PlainEv e) :
    xstep (ofBase s) (.base o) = ofBase (step s o) := by
  have hemp := inboxesOf_empty s.agents h.inboxEmpty
  have hemp' : ∀ p : Agent → Bool, inboxesOf (s.agents.filter p) = [] := fun p =>
    inboxesOf_empty _ (fun a ha => h.inboxEmpty a (List.mem_filter.mp ha).1)
  cases o with
  | create ty => rfl
  | delete ids => simp [xstep, ofBase, XState.init, hemp', step]
  | configure spec => simp [xstep, ofBase, XState.init, hemp, step]
  | reset => simp [xstep, ofBase, XState.init, hemp, step]
  | send rid delay => rfl
  | broadcast ty delay => rfl
  | randomEvents ty num delay draws => rfl
  | step => exact xstepFn_base s h hp

theorem xrun_base_aux (ops : List Op) : ∀ s, Inv s → (∀ e ∈ s.events, PlainEv e) →
    xrun (ofBase s) (ops.map .base) = ofBase (run s ops) := by
  induction ops with
  | nil => intro s _ _; rfl
  | cons o rest ih =>
    intro s h hp
    simp only [List.map_cons, xrun, List.foldl_cons, run] at ih ⊢
    rw [xstep_base s o h hp]
    exact ih _ (inv_step s o h) (plain_step s o h hp)

/-- **Refinement.** On a history of base operations the extended machine is the base machine (nothing is ever
stashed, ignored, lost or aborted there). -/
theorem xrun_base (ops : List Op) : xrun XState.init (ops.map .base) = ofBase (run State.init ops) :=
  xrun_base_aux ops State.init inv_init (by simp [State.init])

/-- hence the full statement holds on the extended machine for every base history -/
theorem C11_full_x (ops : List Op) :
    Clauses (xrun XState.init (ops.map .base)).s ∧ (xrun XState.init (ops.map .base)).stash = [] ∧
    (xrun XState.init (ops.map .base)).ignored = [] ∧ (xrun XState.init (ops.map .base)).lost = [] ∧
    (xrun XState.init (ops.map .base)).aborted = [] := by
  rw [xrun_base]
  exact ⟨C11_full_proved ops, rfl, rfl, rfl, rfl⟩

/-! ### what the assumption buys, step by step -/

theorem phase_tabled_empty (now : Nat) (live : List Nat) (mo : Nat → Meta) (as : List Agent)
    (hr : (phase now live mo as).raised = false) :
    ∀ a ∈ (phase now live mo as).agents, (mo a.id).handlers ≠ none → a.inbox = [] := by
  induction as with
  | nil => simp [phase]
  | cons a rest ih =>
    cases hm : (mo a.id).handlers with
    | none =>
      simp only [phase, hm] at hr ⊢
      intro a' ha' hh
      simp only [List.mem_cons] at ha'
      rcases ha' with rfl | ha'
      · exact absurd hm hh
      · exact ih hr a' ha' hh
    | some names =>
      simp only [phase, hm] at hr ⊢
      cases hd : (drain names (mkHandled now live a.id) a.inbox.reverse).raised with
      | true => simp [hd] at hr
      | false =>
        simp only [hd, Bool.false_eq_true, if_false] at hr ⊢
        intro a' ha' hh
        simp only [List.mem_cons] at ha'
        rcases ha' with rfl | ha'
        · rfl
        · exact ih hr a' ha' hh

/-- In a step that no handler aborts, every agent whose state has a handler table pops its whole inbox: what was
held from earlier steps and everything distributed to it in this step (each such event is then in the log or, when
its name has no handler, among the ignored ones — `C11_x_partial`'s conservation clause). -/
theorem xstepFn_tabled_empty (x : XState) (h : (xstepFn x).aborted = x.aborted) :
    ∀ a ∈ (xstepFn x).s.agents, (x.metaOf a.id).handlers ≠ none → a.inbox = [] := by
  unfold xstepFn xafter at h ⊢
  simp only at h ⊢
  have hr : (phase (x.s.now + 1) (x.s.agents.map (·.id)) x.metaOf (distOf x.s).agents).raised = false := by
    cases hc : (phase (x.s.now + 1) (x.s.agents.map (·.id)) x.metaOf (distOf x.s).agents).raised with
    | false => rfl
    | true =>
      rw [hc] at h
      simp only [if_true] at h
      have := congrArg List.length h
      simp at this
  exact phase_tabled_empty _ _ _ _ hr

/-! ### witnesses: exact timing, exactly-once-when-due and order NEED the assumption (kernel-checked; the
harness replays the same four histories on the real `Agent.handle_events`) -/

def xview (x : XState) : List (Nat × Nat × Nat) := x.s.log.map (fun h => (h.step, h.agent, h.msg.seq))

/-- an agent in a state without handler table keeps the event in its inbox (steps 1, 2: not handled although due in
step 1); once it is back in a state with a table the event is handled — in step 3 -/
theorem X_witness_no_table :
    xview (xrun XState.init [.base (.create 0), .setState 0 1, .base (.send 0 0), .base .step, .base .step]) = [] ∧
    (xrun XState.init [.base (.create 0), .setState 0 1, .base (.send 0 0), .base .step, .base .step]).s.agents.map
      (fun a => (a.id, a.inbox.map (·.msg.seq))) = [(0, [0])] ∧
    xview (xrun XState.init [.base (.create 0), .setState 0 1, .base (.send 0 0), .base .step, .base .step,
      .setState 0 0, .base .step]) = [(3, 0, 0)] := by decide

/-- … and two events sent to it in the same step (delays 0 and 1) are then handled in the order [1, 0]: the inbox is
drained newest delivery first -/
theorem X_witness_order :
    xview (xrun XState.init [.base (.create 0), .setState 0 1, .base (.send 0 0), .base (.send 0 1), .base .step,
      .base .step, .setState 0 0, .base .step]) = [(3, 0, 1), (3, 0, 0)] := by decide

/-- a handler that raises (not `KeyError`) ends the step: agent 1's event stays in its inbox (handled in step 2, due
in step 1), the delayed event stays in `scheduler.delayed_events` and is handled in step 3 (due in step 2) -/
theorem X_witness_raise :
    xview (xrun XState.init [.base (.create 0), .base (.create 0), .sendX 0 0 0 true, .base (.send 1 0),
      .base (.send 1 1), .base .step, .base .step, .base .step]) = [(1, 0, 0), (2, 1, 1), (3, 1, 2)] ∧
    (xrun XState.init [.base (.create 0), .base (.create 0), .sendX 0 0 0 true, .base (.send 1 0),
      .base (.send 1 1), .base .step]).aborted = [1] ∧
    (xrun XState.init [.base (.create 0), .base (.create 0), .sendX 0 0 0 true, .base (.send 1 0),
      .base (.send 1 1), .base .step]).stash.map (·.msg.seq) = [2] := by decide

/-- an event whose name has no handler in the receiver's state is popped and discarded by the receiver; an event in
the inbox of an agent that is deleted is lost with it -/
theorem X_witness_ignored_lost :
    (xrun XState.init [.base (.create 0), .sendX 0 0 1 false, .base .step]).ignored.map
      (fun h => (h.step, h.agent, h.msg.seq)) = [(1, 0, 0)] ∧
    xview (xrun XState.init [.base (.create 0), .sendX 0 0 1 false, .base .step]) = [] ∧
    (xrun XState.init [.base (.create 0), .setState 0 1, .base (.send 0 0), .base .step, .base (.delete [0]),
      .base .step]).lost.map (·.msg.seq) = [0] := by decide

/-! ## Wave 2c — the float conversion `math.ceil(round(delay / dt, 9))` of the repaired `handle_delayed_event`

In ℚ, with the floating-point pipeline as an adversary bounded by hypotheses (as C05's `Fl`), never axioms:
`qf` — the double `delay / dt` (both operands are the doubles nearest to the decimals, one division: relative error
≤ 2⁻⁵¹, i.e. `|qf − q| ≤ e1` for quotients below the bound); `m / 10⁹` — `round(qf, 9)` is correctly rounded to the
nearest multiple of 10⁻⁹ (any tie rule); `r` — the double that `round` returns: the decimal itself when it is an
integer (integers below 2⁵³ are doubles), else within `e2` (half an ulp); `k = ⌈r⌉` (`math.ceil` is exact).
`ceilRound9_exact`: for a quotient `a / b` with `b·(e1 + ½·10⁻⁹ + e2) < 1` the result is exactly `⌈a / b⌉`.
`keptBack_eq_ceil`: hence `handle_delayed_event`, which stores `(k − 1)·dt` and re-evaluates next step, keeps the
event back exactly `max 0 ⌈delay/dt⌉` times. `delay_float_steps`: the instance for decimal `delay`, `dt` with a
common number of digits, `dt`-numerator ≤ 9·10⁸ and quotient ≤ 10⁶ — it equals the model's `stepsOf`. -/

/-- one evaluation of `math.ceil(round(x / dt, 9))` when the exact value of `x / dt` is `q` -/
def CeilRound9 (e1 e2 : ℚ) (q : ℚ) (k : ℤ) : Prop :=
  ∃ (qf : ℚ) (m : ℤ) (r : ℚ), |qf - q| ≤ e1 ∧ |(m : ℚ) / 10 ^ 9 - qf| ≤ 1 / (2 * 10 ^ 9) ∧
    ((∃ z : ℤ, (m : ℚ) / 10 ^ 9 = z) → r = (m : ℚ) / 10 ^ 9) ∧ |r - (m : ℚ) / 10 ^ 9| ≤ e2 ∧ k = ⌈r⌉

theorem ceilRound9_exact (e1 e2 : ℚ) (a : ℤ) (b : ℕ) (hb : 0 < b) (k : ℤ)
    (he1 : 2 * e1 * 10 ^ 9 < 1) (hb2 : (b : ℚ) * (e1 + 1 / (2 * 10 ^ 9) + e2) < 1)
    (h : CeilRound9 e1 e2 ((a : ℚ) / b) k) : k = ⌈(a : ℚ) / b⌉ := by
  obtain ⟨qf, m, r, h1, h2, h3, h4, rfl⟩ := h
  have hbq : (0 : ℚ) < b := by exact_mod_cast hb
  have hN : (0 : ℚ) < 10 ^ 9 := by positivity
  have h1' := abs_le.mp h1
  have h2' := abs_le.mp h2
  have h4' := abs_le.mp h4
  by_cases hq : ∃ z : ℤ, (a : ℚ) / b = z
  · obtain ⟨z, hz⟩ := hq
    rw [hz] at h1' ⊢
    -- m / 10^9 is within less than one grid unit of the integer z, hence equal to it
    have hlt : (m : ℚ) / 10 ^ 9 - z < 1 / 10 ^ 9 := by
      have : e1 < 1 / (2 * 10 ^ 9) := by
        rw [lt_div_iff₀ (by positivity)]; linarith
      have e : (1 : ℚ) / 10 ^ 9 = 1 / (2 * 10 ^ 9) + 1 / (2 * 10 ^ 9) := by norm_num
      linarith [h1'.1, h1'.2, h2'.1, h2'.2]
    have hgt : -(1 / 10 ^ 9 : ℚ) < (m : ℚ) / 10 ^ 9 - z := by
      have : e1 < 1 / (2 * 10 ^ 9) := by
        rw [lt_div_iff₀ (by positivity)]; linarith
      have e : (1 : ℚ) / 10 ^ 9 = 1 / (2 * 10 ^ 9) + 1 / (2 * 10 ^ 9) := by norm_num
      linarith [h1'.1, h1'.2, h2'.1, h2'.2]
    have hm1 : (m : ℚ) - z * 10 ^ 9 < 1 := by
      have := mul_lt_mul_of_pos_right hlt hN
      rw [sub_mul, div_mul_cancel₀ _ (ne_of_gt hN), div_mul_cancel₀ _ (ne_of_gt hN)] at this
      exact this
    have hm2 : -1 < (m : ℚ) - z * 10 ^ 9 := by
      have := mul_lt_mul_of_pos_right hgt hN
      rw [sub_mul, div_mul_cancel₀ _ (ne_of_gt hN), neg_mul, div_mul_cancel₀ _ (ne_of_gt hN)] at this
      exact this
    have hmz : m - z * 10 ^ 9 = 0 := by
      have a1 : (m - z * 10 ^ 9 : ℤ) < 1 := by exact_mod_cast hm1
      have a2 : (-1 : ℤ) < m - z * 10 ^ 9 := by exact_mod_cast hm2
      omega
    have hmq : (m : ℚ) / 10 ^ 9 = z := by
      rw [div_eq_iff (ne_of_gt hN)]
      have : (m : ℚ) - z * 10 ^ 9 = 0 := by exact_mod_cast hmz
      linarith
    rw [h3 ⟨z, hmq⟩, hmq, Int.ceil_intCast]
  · -- not an integer: at least 1/b away from the integers on both sides
    have hE : e1 + 1 / (2 * 10 ^ 9) + e2 < 1 / b := by
      rw [lt_div_iff₀ hbq]; linarith
    have hk0 := Int.le_ceil ((a : ℚ) / b)
    have hk1 := Int.ceil_lt_add_one ((a : ℚ) / b)
    have hne : (a : ℚ) / b ≠ ⌈(a : ℚ) / b⌉ := fun hc => hq ⟨_, hc⟩
    have hlt : (a : ℚ) / b < ⌈(a : ℚ) / b⌉ := lt_of_le_of_ne hk0 hne
    set k0 := ⌈(a : ℚ) / b⌉ with hk0def
    -- a < k0 * b  and  (k0 - 1) * b < a  as integers
    have ha1 : a < k0 * b := by
      have : (a : ℚ) < k0 * b := by rwa [div_lt_iff₀ hbq] at hlt
      exact_mod_cast this
    have ha2 : (k0 - 1) * b < a := by
      have : (k0 : ℚ) - 1 < a / b := by linarith
      have : ((k0 : ℚ) - 1) * b < a := by rwa [lt_div_iff₀ hbq] at this
      exact_mod_cast this
    have hub : (a : ℚ) / b ≤ k0 - 1 / b := by
      rw [div_le_iff₀ hbq, sub_mul, div_mul_cancel₀ _ (ne_of_gt hbq)]
      have : a + 1 ≤ k0 * b := by omega
      have : ((a + 1 : ℤ) : ℚ) ≤ ((k0 * b : ℤ) : ℚ) := by exact_mod_cast this
      push_cast at this
      linarith
    have hlb : (k0 : ℚ) - 1 + 1 / b ≤ a / b := by
      rw [le_div_iff₀ hbq, add_mul, div_mul_cancel₀ _ (ne_of_gt hbq)]
      have : (k0 - 1) * b + 1 ≤ a := by omega
      have : (((k0 - 1) * b + 1 : ℤ) : ℚ) ≤ (a : ℚ) := by exact_mod_cast this
      push_cast at this
      linarith
    rw [Int.ceil_eq_iff]
    constructor
    · linarith [h1'.1, h2'.1, h4'.1]
    · linarith [h1'.2, h2'.2, h4'.2]

/-- `handle_delayed_event` called once per step on the same event: it is kept back `n` times. `P q k` = "evaluating
`ceil(round(x/dt, 9))` when the exact value of `x/dt` is `q` may give `k`"; after a keep-back the stored delay is
`(k − 1)·dt`, whose exact quotient by `dt` is `k − 1`. -/
inductive KeptBack (P : ℚ → ℤ → Prop) : ℚ → ℕ → Prop
  | deliver {q : ℚ} {k : ℤ} : P q k → k ≤ 0 → KeptBack P q 0
  | keep {q : ℚ} {k : ℤ} {n : ℕ} : P q k → 0 < k → KeptBack P ((k : ℚ) - 1) n → KeptBack P q (n + 1)

theorem keptBack_eq_ceil (e1 e2 Q : ℚ) (B : ℕ) (hB1 : 1 ≤ B)
    (he1 : 2 * e1 * 10 ^ 9 < 1) (he : 0 ≤ e1 + 1 / (2 * 10 ^ 9) + e2) (hB : (B : ℚ) * (e1 + 1 / (2 * 10 ^ 9) + e2) < 1)
    (P : ℚ → ℤ → Prop) (hP : ∀ q k, q ≤ Q → P q k → CeilRound9 e1 e2 q k)
    (q : ℚ) (n : ℕ) (h : KeptBack P q n) :
    ∀ (a : ℤ) (b : ℕ), 0 < b → b ≤ B → q = (a : ℚ) / b → q ≤ Q → (n : ℤ) = max 0 ⌈q⌉ := by
  have hbb : ∀ b : ℕ, b ≤ B → (b : ℚ) * (e1 + 1 / (2 * 10 ^ 9) + e2) < 1 := by
    intro b hb
    have : (b : ℚ) ≤ B := by exact_mod_cast hb
    nlinarith
  induction h with
  | deliver hp hk =>
    intro a b hb0 hbB hq hQ
    subst hq
    have := ceilRound9_exact e1 e2 a b hb0 _ he1 (hbb b hbB) (hP _ _ hQ hp)
    rw [← this]; simp [hk]
  | @keep q k n hp hk _ ih =>
    intro a b hb0 hbB hq hQ
    subst hq
    have hkc := ceilRound9_exact e1 e2 a b hb0 _ he1 (hbb b hbB) (hP _ _ hQ hp)
    have hlt := Int.ceil_lt_add_one ((a : ℚ) / b)
    have hq' : (k : ℚ) - 1 = ((k - 1 : ℤ) : ℚ) / ((1 : ℕ) : ℚ) := by push_cast; ring
    have := ih (k - 1) 1 (by norm_num) hB1 hq' (by rw [hkc]; linarith)
    have hc : ⌈(k : ℚ) - 1⌉ = k - 1 := by
      have : (k : ℚ) - 1 = ((k - 1 : ℤ) : ℚ) := by push_cast; ring
      rw [this, Int.ceil_intCast]
    rw [hc] at this
    rw [← hkc]
    push_cast
    omega

theorem stepsOf_eq_ceil (dn dd tn td : ℕ) (hdd : 0 < dd) (htn : 0 < tn) (htd : 0 < td) :
    (stepsOf dn dd tn td : ℤ) = ⌈((dn : ℚ) / dd) / ((tn : ℚ) / td)⌉ := by
  obtain ⟨h1, h2⟩ := stepsOf_least dn dd tn td hdd htn
  have hddq : (0 : ℚ) < dd := by exact_mod_cast hdd
  have htnq : (0 : ℚ) < tn := by exact_mod_cast htn
  have htdq : (0 : ℚ) < td := by exact_mod_cast htd
  have hx : ((dn : ℚ) / dd) / ((tn : ℚ) / td) = (dn * td : ℚ) / (dd * tn) := by
    field_simp
  rw [hx]
  have hbq : (0 : ℚ) < dd * tn := by positivity
  symm
  rw [Int.ceil_eq_iff]
  constructor
  · by_cases hz : stepsOf dn dd tn td = 0
    · rw [hz]; simp
      have : (0 : ℚ) ≤ (dn * td : ℚ) / (dd * tn) := by positivity
      linarith
    · have hk := h2 (stepsOf dn dd tn td - 1)
      have : ¬ dn * td ≤ (stepsOf dn dd tn td - 1) * (dd * tn) := by
        intro hc; have := hk hc; omega
      have hlt : (stepsOf dn dd tn td - 1) * (dd * tn) < dn * td := by omega
      rw [lt_div_iff₀ hbq]
      have hc : (((stepsOf dn dd tn td - 1) * (dd * tn) : ℕ) : ℚ) < ((dn * td : ℕ) : ℚ) := by exact_mod_cast hlt
      have h1le : 1 ≤ stepsOf dn dd tn td := by omega
      push_cast [Nat.cast_sub h1le] at hc
      push_cast
      linarith
  · rw [div_le_iff₀ hbq]
    have hc : ((dn * td : ℕ) : ℚ) ≤ ((stepsOf dn dd tn td * (dd * tn) : ℕ) : ℚ) := by exact_mod_cast h1
    push_cast at hc ⊢
    linarith


/-- the instance the manifest quotes: decimal `delay = dn/10^p`, `dt = tn/10^p` (same number `p` of digits),
`tn ≤ 9·10⁸`, `delay/dt ≤ 10⁶`, double-precision error bounds `e1 = 10⁶·2⁻⁵¹`, `e2 = 10⁶·2⁻⁵³` -/
theorem delay_float_steps (P : ℚ → ℤ → Prop)
    (hP : ∀ q k, q ≤ 10 ^ 6 → P q k → CeilRound9 (10 ^ 6 / 2 ^ 51) (10 ^ 6 / 2 ^ 53) q k)
    (dn tn p n : ℕ) (htn : 0 < tn) (hB : tn ≤ 9 * 10 ^ 8) (hQ : (dn : ℚ) / tn ≤ 10 ^ 6)
    (h : KeptBack P ((dn : ℚ) / tn) n) : n = stepsOf dn (10 ^ p) tn (10 ^ p) := by
  have h1 := keptBack_eq_ceil (10 ^ 6 / 2 ^ 51) (10 ^ 6 / 2 ^ 53) (10 ^ 6) (9 * 10 ^ 8) (by norm_num) (by norm_num)
    (by norm_num) (by norm_num) P hP _ n h (dn : ℤ) tn htn hB (by push_cast; rfl) hQ
  have hp : 0 < 10 ^ p := by positivity
  have h2 := stepsOf_eq_ceil dn (10 ^ p) tn (10 ^ p) hp htn hp
  have hx : ((dn : ℚ) / ((10 ^ p : ℕ) : ℚ)) / ((tn : ℚ) / ((10 ^ p : ℕ) : ℚ)) = (dn : ℚ) / tn := by
    have : ((10 ^ p : ℕ) : ℚ) ≠ 0 := by positivity
    have htq : (tn : ℚ) ≠ 0 := by exact_mod_cast (Nat.pos_iff_ne_zero.mp htn)
    field_simp
  rw [hx] at h2
  have hnn : (0 : ℤ) ≤ ⌈(dn : ℚ) / tn⌉ := by
    apply Int.ceil_nonneg; positivity
  have : (n : ℤ) = (stepsOf dn (10 ^ p) tn (10 ^ p) : ℤ) := by rw [h1, h2]; exact max_eq_right hnn
  exact_mod_cast this

/-- non-vacuity: an exact pipeline (no error at all) satisfies the hypotheses, and the bounds are met by
`delay = 1.0`, `dt = 0.1` (10 steps) -/
example : CeilRound9 (10 ^ 6 / 2 ^ 51) (10 ^ 6 / 2 ^ 53) ((10 : ℚ) / 1) 10 :=
  ⟨10, 10 ^ 10, 10, by norm_num, by norm_num, fun _ => by norm_num, by norm_num, by
    rw [show (10 : ℚ) = ((10 : ℤ) : ℚ) by norm_num, Int.ceil_intCast]⟩

/-! ## Wave 6 — the float conversion over C05's `Fl` (any rounding function with relative error ≤ `u`)

`ceilRound9_exact` above takes the three error bounds as hypotheses.  Here they are DERIVED from C05's float
adversary `Fl` (`|fl x − x| ≤ u·|x|`, monotone, idempotent) and C05's `roundDec` (Python's `round(x, p)` on the exact
value): `quot_float_err` bounds `fl(fl(delay)/fl(dt))` against `delay/dt` by the relative error `relQ u =
(3u + u²)/(1 − u)`; `roundDec9_close` is the half-unit bound of the 9-decimal rounding; the returned double is
`fl` of that decimal.  Under `StepBudget F Q B` (`stepBudget_double_arith`: met by IEEE doubles with `Q = 10⁶`,
`B = 10⁹`): `floatSteps_first` — the first evaluation gives exactly `⌈delay/dt⌉`, also when the float quotient lands
just above or below an integer (the 9-decimal rounding snaps it back); `floatSteps_reentry` — the stored
`(k − 1)·dt` re-enters with exactly `k − 1`; `floatKeep_exact` — the countdown keeps the event back `⌈delay/dt⌉` times.
`C11_witness_no_rounding`: without the rounding the quotient is wrong in both directions. -/

section FloatC05
open Bptk.C05

/-- the float expression of `handle_delayed_event`: `math.ceil(round(x / h, 9))` for floats `x`, `h` -/
def floatStepsRaw (F : Fl) (x h : ℚ) : ℤ := ⌈F.fl (roundDec 9 (F.fl (x / h)))⌉

theorem rndHE_close (y : ℚ) : |((rndHE y : ℤ) : ℚ) - y| ≤ 1 / 2 := by
  have h1 := Int.floor_le y
  have h2 := Int.lt_floor_add_one y
  have hf : y.floor = ⌊y⌋ := rfl
  unfold rndHE
  simp only [hf]
  rw [abs_le]
  split_ifs <;> push_cast <;> constructor <;> linarith

theorem roundDec9_close (x : ℚ) :
    ∃ m : ℤ, roundDec 9 x = (m : ℚ) / 10 ^ 9 ∧ |(m : ℚ) / 10 ^ 9 - x| ≤ 1 / (2 * 10 ^ 9) := by
  refine ⟨rndHE (x * pow10 9), ?_, ?_⟩
  · unfold roundDec; rw [pow10_eq]
  · have h := rndHE_close (x * pow10 9)
    rw [pow10_eq] at h
    have hN : (0 : ℚ) < 10 ^ 9 := by positivity
    have e : ((rndHE (x * 10 ^ 9) : ℤ) : ℚ) / 10 ^ 9 - x = (((rndHE (x * 10 ^ 9) : ℤ) : ℚ) - x * 10 ^ 9) / 10 ^ 9 := by
      field_simp
    rw [pow10_eq, e, abs_div, abs_of_pos hN, div_le_div_iff₀ hN (by positivity)]
    have h3 := mul_le_mul_of_nonneg_right h (show (0 : ℚ) ≤ 2 * 10 ^ 9 by positivity)
    norm_num at h3 ⊢
    linarith


/-- the float quotient `fl(fl(delay) / fl(dt))` against the exact one: relative error `(3u + u²)/(1 − u)` -/
theorem quot_float_err (F : Fl) (hu : F.u < 1) (t d : ℚ) (ht : 0 ≤ t) (hd : 0 < d) :
    |F.fl (F.fl t / F.fl d) - t / d| ≤ (3 * F.u + F.u ^ 2) / (1 - F.u) * (t / d) := by
  have e0 := F.u_nonneg
  have h1u : 0 < 1 - F.u := by linarith
  have hde := abs_le.mp (F.err d)
  rw [abs_of_pos hd] at hde
  have hlo : (1 - F.u) * d ≤ F.fl d := by linarith [hde.1]
  have hhi : F.fl d ≤ (1 + F.u) * d := by linarith [hde.2]
  have hh : 0 < F.fl d := lt_of_lt_of_le (by positivity) hlo
  have hq : 0 ≤ t / d := div_nonneg ht hd.le
  have ha : 0 ≤ t / F.fl d := div_nonneg ht hh.le
  have hah : t / F.fl d * F.fl d = t := div_mul_cancel₀ _ (ne_of_gt hh)
  have hqd : t / d * d = t := div_mul_cancel₀ _ (ne_of_gt hd)
  -- t / fl d lies between q/(1+u) and q/(1-u)
  have hup : t / F.fl d * (1 - F.u) ≤ t / d := by
    have : t / F.fl d * ((1 - F.u) * d) ≤ t / F.fl d * F.fl d := mul_le_mul_of_nonneg_left hlo ha
    rw [hah] at this
    have h2 : t / F.fl d * (1 - F.u) * d ≤ t / d * d := by rw [hqd]; linarith
    exact le_of_mul_le_mul_right h2 hd
  have hdn : t / d ≤ t / F.fl d * (1 + F.u) := by
    have : t / F.fl d * F.fl d ≤ t / F.fl d * ((1 + F.u) * d) := mul_le_mul_of_nonneg_left hhi ha
    rw [hah] at this
    have h2 : t / d * d ≤ t / F.fl d * (1 + F.u) * d := by rw [hqd]; linarith
    exact le_of_mul_le_mul_right h2 hd
  have hq1 := F.quot_err t (F.fl d) hh
  rw [abs_of_nonneg ha] at hq1
  have hq1' := abs_le.mp hq1
  have hP2 : t / d * (1 - F.u) ≤ t / F.fl d * (1 - F.u) * (1 + F.u) := by
    have := mul_le_mul_of_nonneg_right hdn h1u.le
    linarith [this, mul_comm (t / F.fl d * (1 + F.u)) (1 - F.u), mul_assoc (t / F.fl d) (1 + F.u) (1 - F.u),
      mul_assoc (t / F.fl d) (1 - F.u) (1 + F.u), mul_comm (1 + F.u) (1 - F.u)]
  have e : (3 * F.u + F.u ^ 2) / (1 - F.u) * (t / d) = (3 * F.u + F.u ^ 2) * (t / d) / (1 - F.u) := by ring
  rw [e, abs_le]
  generalize t / F.fl d = A at *
  generalize t / d = q at *
  generalize F.fl (F.fl t / F.fl d) = X at *
  have hs1 : 0 ≤ 1 + 2 * F.u + F.u ^ 2 := by positivity
  have hs2 : 0 ≤ 2 * F.u + F.u ^ 2 := by positivity
  have k1 := mul_le_mul_of_nonneg_right hup hs1
  have k2 := mul_le_mul_of_nonneg_right hup hs2
  have k3 := mul_le_mul_of_nonneg_right hup e0
  constructor
  · rw [neg_le, le_div_iff₀ h1u]
    nlinarith [hq1'.1, hq1'.2]
  · rw [le_div_iff₀ h1u]
    nlinarith [hq1'.1, hq1'.2]


/-- relative error of the float quotient of two rounded operands -/
def relQ (u : ℚ) : ℚ := (3 * u + u ^ 2) / (1 - u)

/-- **Budget** under which the float step count is exact: quotients `delay/dt ≤ Q`, denominators of the exact
quotient `≤ B` (for decimals `delay = dn/10^p`, `dt = tn/10^p`: `B ≥ tn`); `Q·relQ u` is the error of the float
quotient, `½·10⁻⁹` the rounding to 9 decimals, `u·(Q+1)` the representation of the rounded decimal; integers up to
`Q + 1` are floats (doubles: up to 2⁵³). For IEEE doubles (`u = 2⁻⁵³`): `Q = 10⁶`, `B = 10⁹` satisfy it
(`stepBudget_double_arith`). -/
structure StepBudget (F : Fl) (Q : ℚ) (B : ℕ) : Prop where
  u_lt : F.u < 1
  Q_nonneg : 0 ≤ Q
  B_pos : 1 ≤ B
  snap : 2 * (Q * relQ F.u) * 10 ^ 9 < 1
  sep : (B : ℚ) * (Q * relQ F.u + 1 / (2 * 10 ^ 9) + F.u * (Q + 1)) < 1
  ints : ∀ z : ℤ, |(z : ℚ)| ≤ Q + 1 → F.fl z = z

theorem relQ_nonneg (u : ℚ) (h0 : 0 ≤ u) (h1 : u < 1) : 0 ≤ relQ u := by
  unfold relQ; apply div_nonneg <;> nlinarith

theorem relQ_ge (u : ℚ) (h0 : 0 ≤ u) (h1 : u < 1) : 2 * u + u ^ 2 ≤ relQ u := by
  unfold relQ
  rw [le_div_iff₀ (by linarith)]
  nlinarith [mul_nonneg h0 h0, mul_nonneg (mul_nonneg h0 h0) h0]

/-- the arithmetic of the budget for IEEE doubles: `u = 2⁻⁵³`, `Q = 10⁶`, `B = 10⁹` -/
theorem stepBudget_double_arith :
    2 * ((10 : ℚ) ^ 6 * relQ (1 / 2 ^ 53)) * 10 ^ 9 < 1 ∧
    ((10 ^ 9 : ℕ) : ℚ) * (10 ^ 6 * relQ (1 / 2 ^ 53) + 1 / (2 * 10 ^ 9) + 1 / 2 ^ 53 * (10 ^ 6 + 1)) < 1 := by
  unfold relQ; constructor <;> norm_num

/-- one evaluation of `ceil(round(x / h, 9))` whose float quotient is within `Q·relQ u` of the exact quotient `a/b` -/
theorem floatStepsRaw_exact (F : Fl) (Q : ℚ) (B : ℕ) (bud : StepBudget F Q B) (x h : ℚ) (a : ℤ) (b : ℕ)
    (hb : 0 < b) (hbB : b ≤ B) (hq0 : 0 ≤ (a : ℚ) / b) (hqQ : (a : ℚ) / b ≤ Q)
    (herr : |F.fl (x / h) - (a : ℚ) / b| ≤ Q * relQ F.u) : floatStepsRaw F x h = ⌈(a : ℚ) / b⌉ := by
  have e0 := F.u_nonneg
  have hr := relQ_nonneg F.u e0 bud.u_lt
  have he1 : 0 ≤ Q * relQ F.u := mul_nonneg bud.Q_nonneg hr
  obtain ⟨m, hm, hmc⟩ := roundDec9_close (F.fl (x / h))
  have hbq : (b : ℚ) ≤ B := by exact_mod_cast hbB
  have hb0 : (0 : ℚ) ≤ b := by positivity
  have hsum : 0 ≤ Q * relQ F.u + 1 / (2 * 10 ^ 9) + F.u * (Q + 1) := by
    have := bud.Q_nonneg; positivity
  have hsep : (b : ℚ) * (Q * relQ F.u + 1 / (2 * 10 ^ 9) + F.u * (Q + 1)) < 1 :=
    lt_of_le_of_lt (mul_le_mul_of_nonneg_right hbq hsum) bud.sep
  -- |m / 10^9| ≤ Q + 1
  have hmabs : |(m : ℚ) / 10 ^ 9| ≤ Q + 1 := by
    have h1 := abs_le.mp herr
    have h2 := abs_le.mp hmc
    have hsnap := bud.snap
    have : Q * relQ F.u < 1 / 2 := by nlinarith
    rw [abs_le]; constructor <;> norm_num at h2 ⊢ <;> linarith [h1.1, h1.2, h2.1, h2.2]
  apply ceilRound9_exact (Q * relQ F.u) (F.u * (Q + 1)) a b hb _ bud.snap hsep
  refine ⟨F.fl (x / h), m, F.fl ((m : ℚ) / 10 ^ 9), herr, hmc, ?_, ?_, ?_⟩
  · rintro ⟨z, hz⟩
    rw [hz]
    apply bud.ints
    rw [← hz]; exact hmabs
  · have := F.err ((m : ℚ) / 10 ^ 9)
    exact le_trans this (mul_le_mul_of_nonneg_left hmabs e0)
  · unfold floatStepsRaw; rw [hm]

/-- the first evaluation: `delay`, `dt` exact decimals, the code holds their floats -/
theorem floatSteps_first (F : Fl) (Q : ℚ) (B : ℕ) (bud : StepBudget F Q B) (delay dt : ℚ) (a : ℤ) (b : ℕ)
    (hdelay : 0 ≤ delay) (hdt : 0 < dt) (hab : delay / dt = (a : ℚ) / b) (hb : 0 < b) (hbB : b ≤ B) (hQ : delay / dt ≤ Q) :
    floatStepsRaw F (F.fl delay) (F.fl dt) = ⌈delay / dt⌉ := by
  have hq0 : 0 ≤ delay / dt := div_nonneg hdelay hdt.le
  have herr := quot_float_err F bud.u_lt delay dt hdelay hdt
  have hr := relQ_nonneg F.u F.u_nonneg bud.u_lt
  have : |F.fl (F.fl delay / F.fl dt) - (a : ℚ) / b| ≤ Q * relQ F.u := by
    rw [← hab]
    refine le_trans herr ?_
    unfold relQ at *
    rw [mul_comm]
    exact mul_le_mul_of_nonneg_right hQ hr
  rw [hab] at hq0 hQ ⊢
  exact floatStepsRaw_exact F Q B bud _ _ a b hb hbB hq0 hQ this

/-- the re-entry: after keeping the event back the code stores `fl((k − 1)·h)` (`h` = the float `dt`); evaluated
against the same `h` it gives exactly `k − 1` -/
theorem floatSteps_reentry (F : Fl) (Q : ℚ) (B : ℕ) (bud : StepBudget F Q B) (h : ℚ) (hh : 0 < h) (n : ℕ)
    (hn : (n : ℚ) ≤ Q) : floatStepsRaw F (F.fl ((n : ℚ) * h)) h = n := by
  have e0 := F.u_nonneg
  have hq := F.quot_err ((n : ℚ) * h) h hh
  have hnh : (n : ℚ) * h / h = n := by field_simp
  rw [hnh] at hq
  have hn0 : (0 : ℚ) ≤ n := by positivity
  rw [abs_of_nonneg hn0] at hq
  have hge := relQ_ge F.u e0 bud.u_lt
  have herr : |F.fl (F.fl ((n : ℚ) * h) / h) - ((n : ℤ) : ℚ) / ((1 : ℕ) : ℚ)| ≤ Q * relQ F.u := by
    have : ((n : ℤ) : ℚ) / ((1 : ℕ) : ℚ) = n := by norm_num
    rw [this]
    refine le_trans hq ?_
    have := relQ_nonneg F.u e0 bud.u_lt
    nlinarith
  have := floatStepsRaw_exact F Q B bud (F.fl ((n : ℚ) * h)) h (n : ℤ) 1 (by norm_num) bud.B_pos
    (by norm_num) (by norm_num; exact hn) herr
  rw [this]
  norm_num

/-- `handle_delayed_event` called once per step on the same event (`h` the float `dt`, `x` the stored float delay):
how often it keeps the event back -/
def floatKeep (F : Fl) (h : ℚ) : ℕ → ℚ → ℕ
  | 0, _ => 0
  | fuel + 1, x =>
    if floatStepsRaw F x h ≤ 0 then 0
    else 1 + floatKeep F h fuel (F.fl (((floatStepsRaw F x h - 1 : ℤ) : ℚ) * h))

theorem floatKeep_reentry (F : Fl) (Q : ℚ) (B : ℕ) (bud : StepBudget F Q B) (h : ℚ) (hh : 0 < h) :
    ∀ (n : ℕ) (fuel : ℕ), (n : ℚ) ≤ Q → n < fuel → floatKeep F h fuel (F.fl ((n : ℚ) * h)) = n := by
  intro n
  induction n with
  | zero =>
    intro fuel hQ hf
    obtain ⟨f, rfl⟩ : ∃ f, fuel = f + 1 := ⟨fuel - 1, by omega⟩
    have := floatSteps_reentry F Q B bud h hh 0 hQ
    simp only [floatKeep, this]
    simp
  | succ n ih =>
    intro fuel hQ hf
    obtain ⟨f, rfl⟩ : ∃ f, fuel = f + 1 := ⟨fuel - 1, by omega⟩
    have hk := floatSteps_reentry F Q B bud h hh (n + 1) hQ
    have hnQ : (n : ℚ) ≤ Q := by push_cast at hQ; linarith
    simp only [floatKeep, hk]
    have h1 : ¬ (((n + 1 : ℕ) : ℤ) ≤ 0) := by push_cast; omega
    rw [if_neg h1]
    have h2 : ((((n + 1 : ℕ) : ℤ) - 1 : ℤ) : ℚ) = (n : ℚ) := by push_cast; ring
    rw [h2, ih f hnQ (by omega)]
    omega

/-- **The float conversion is exact.** Within the budget, for `delay ≥ 0`, `dt > 0` whose exact quotient is `a/b`
with `b ≤ B` and at most `Q`, the real countdown (`ceil(round(delay/dt, 9))`, store `(k−1)·dt`, re-evaluate)
keeps the event back exactly `⌈delay/dt⌉` times. -/
theorem floatKeep_exact (F : Fl) (Q : ℚ) (B : ℕ) (bud : StepBudget F Q B) (delay dt : ℚ) (a : ℤ) (b : ℕ)
    (hdelay : 0 ≤ delay) (hdt : 0 < dt) (hab : delay / dt = (a : ℚ) / b) (hb : 0 < b) (hbB : b ≤ B) (hQ : delay / dt ≤ Q)
    (fuel : ℕ) (hf : ⌈delay / dt⌉.toNat < fuel) :
    floatKeep F (F.fl dt) fuel (F.fl delay) = ⌈delay / dt⌉.toNat := by
  have e0 := F.u_nonneg
  have hde := abs_le.mp (F.err dt)
  rw [abs_of_pos hdt] at hde
  have hh : 0 < F.fl dt := by
    have : 0 < (1 - F.u) * dt := mul_pos (by linarith [bud.u_lt]) hdt
    linarith [hde.1]
  have hk := floatSteps_first F Q B bud delay dt a b hdelay hdt hab hb hbB hQ
  have hq0 : 0 ≤ delay / dt := div_nonneg hdelay hdt.le
  have hc0 : 0 ≤ ⌈delay / dt⌉ := Int.ceil_nonneg hq0
  obtain ⟨f, rfl⟩ : ∃ f, fuel = f + 1 := ⟨fuel - 1, by omega⟩
  simp only [floatKeep, hk]
  by_cases hz : ⌈delay / dt⌉ ≤ 0
  · rw [if_pos hz]; omega
  · rw [if_neg hz]
    obtain ⟨n, hn⟩ : ∃ n : ℕ, ⌈delay / dt⌉ = (n : ℤ) + 1 := ⟨(⌈delay / dt⌉ - 1).toNat, by omega⟩
    have hlt := Int.ceil_lt_add_one (delay / dt)
    have hnQ : (n : ℚ) ≤ Q := by
      have : ((⌈delay / dt⌉ : ℤ) : ℚ) = (n : ℚ) + 1 := by rw [hn]; push_cast; ring
      linarith
    have h2 : ((⌈delay / dt⌉ - 1 : ℤ) : ℚ) = (n : ℚ) := by rw [hn]; push_cast; ring
    rw [h2, floatKeep_reentry F Q B bud (F.fl dt) hh n f hnQ (by omega)]
    omega

/-- non-vacuity: exact arithmetic meets the budget (`Q = 10⁶`, `B = 10⁹`) -/
example : StepBudget Fl.exact (10 ^ 6) (10 ^ 9) :=
  { u_lt := by norm_num [Fl.exact], Q_nonneg := by norm_num, B_pos := by norm_num,
    snap := by norm_num [Fl.exact, relQ], sep := by norm_num [Fl.exact, relQ], ints := fun _ _ => rfl }

/-- Without `round(…, 9)` the count is wrong in both directions (IEEE doubles, kernel-checked): `2.1/0.3` lands
ABOVE 7 (a bare `ceil` gives 8 steps), `0.3/0.1` lands BELOW 3 (a floor/truncation based count gives 2). -/
theorem C11_witness_no_rounding : ((2.1 : Float) / 0.3 > 7.0) ∧ ((0.3 : Float) / 0.1 < 3.0) := by
  decide +kernel

end FloatC05

/-! ## Wave 7 — receiver ids that are not naturals; two models alive at once -/

/-- lookup by id: a negative receiver id is nobody's -/
theorem byIdInt_neg (as : List Agent) (i : Int) (h : i < 0) : byIdInt as i = none := by
  unfold byIdInt; rw [if_neg (by omega)]

/-- … and a non-negative one is found exactly when an agent has it -/
theorem byIdInt_nonneg (as : List Agent) (n : Nat) : byIdInt as (n : Int) = if hasId as n then some n else none := by
  simp [byIdInt]

/-- kernel-checked witness of the positional mechanism: `agents[-1]` is the LAST agent, `agents[-2]` the one before -/
theorem C11_witness_negative_index :
    pyIndex (run State.init [.create 0, .create 0, .create 0]).agents (-1) = some 2 ∧
    pyIndex (run State.init [.create 0, .create 0, .create 0]).agents (-2) = some 1 ∧
    byIdInt (run State.init [.create 0, .create 0, .create 0]).agents (-1) = none := by decide

/-- With per-model queues, interleaving the operations of two models changes nothing: each ends in the state of its
own history, so `C11_full` holds for each. -/
theorem twoS_isolated (ops : List (Bool × Op)) :
    ∀ t : TwoS, (runTwoS true t ops).a = run t.a (opsForS true ops) ∧ (runTwoS true t ops).b = run t.b (opsForS false ops) := by
  induction ops with
  | nil => intro t; exact ⟨rfl, rfl⟩
  | cons x rest ih =>
    intro t
    obtain ⟨w, o⟩ := x
    cases w with
    | true =>
      have := ih (stepTwoS true t (true, o))
      simpa [runTwoS, stepTwoS, opsForS, run] using this
    | false =>
      have := ih (stepTwoS true t (false, o))
      simpa [runTwoS, stepTwoS, opsForS, run] using this

theorem C11_two_models (ops : List (Bool × Op)) :
    Clauses (runTwoS true ⟨State.init, State.init⟩ ops).a ∧ Clauses (runTwoS true ⟨State.init, State.init⟩ ops).b := by
  obtain ⟨ha, hb⟩ := twoS_isolated ops ⟨State.init, State.init⟩
  rw [ha, hb]
  exact ⟨C11_full_proved _, C11_full_proved _⟩

/-- Witness (kernel-checked): with one queue for both models, an event sent in model A is handled by an agent of
model B — an event that was never sent in B. -/
theorem C11_witness_shared_queue :
    let t := runTwoS false ⟨State.init, State.init⟩ [(false, .create 0), (true, .send 0 0), (false, .step)]
    t.b.log.map (fun h => (h.agent, h.msg.seq)) = [(0, 0)] ∧ t.b.sent = [] := by decide

/-! ## Wave 9 — every dt, not only reciprocals of whole numbers

The per-run tie of the delay conversion: the harness probes, through the real `SimultaneousScheduler.run_step`, how
many steps a `DelayedEvent(delay)` is kept back for a lattice of (dt, delay) rows that includes dts whose reciprocal
is not a whole number (0.3, 0.4, 0.6, 0.75, 0.15, 1.5, 2, 2.5), writes the rows into `Gen/C11.lean`, and the kernel
decides `rows.all StepRow.ok`; `stepRow_ok_iff` says what that means in ℚ. -/

/-- a probed row is accepted exactly when the probed count is ⌈delay/dt⌉ computed in ℚ -/
theorem stepRow_ok_ceil (r : StepRow) (h : r.ok = true) :
    (r.probed : ℤ) = ⌈((r.dn : ℚ) / r.dd) / ((r.tn : ℚ) / r.td)⌉ := by
  simp only [StepRow.ok, Bool.and_eq_true, bne_iff_ne, ne_eq, beq_iff_eq] at h
  obtain ⟨⟨⟨hdd, htn⟩, htd⟩, hs⟩ := h
  rw [← hs]
  exact stepsOf_eq_ceil r.dn r.dd r.tn r.td (Nat.pos_of_ne_zero hdd) (Nat.pos_of_ne_zero htn) (Nat.pos_of_ne_zero htd)

/-- Witness (kernel-checked): counting the delay as `ceil(delay · round(1/dt))` is too short as soon as `1/dt` is not a
whole number — dt 0.3, delay 1: 3 instead of 4; dt 0.4, delay 1: 2 instead of 3; dt 0.75, delay 2: 2 instead of 3; for
dt > 1 `round(1/dt)` is 0 or 1 (dt 2, delay 4: 0 instead of 2); for dt = 0.1, 0.25 the two counts agree. -/
theorem C11_witness_steps_per_round :
    stepsBySpr 1 1 3 10 = 3 ∧ stepsOf 1 1 3 10 = 4 ∧
    stepsBySpr 1 1 4 10 = 2 ∧ stepsOf 1 1 4 10 = 3 ∧
    stepsBySpr 2 1 75 100 = 2 ∧ stepsOf 2 1 75 100 = 3 ∧
    stepsBySpr 4 1 2 1 = 0 ∧ stepsOf 4 1 2 1 = 2 ∧
    stepsBySpr 3 10 1 10 = stepsOf 3 10 1 10 ∧ stepsBySpr 7 4 1 4 = stepsOf 7 4 1 4 := by decide

#print axioms C11_full_proved
#print axioms C11_routing
#print axioms C11_dropped_only_when_absent
#print axioms C11_timing
#print axioms C11_next_step
#print axioms C11_once
#print axioms C11_order_same_send_step
#print axioms C11_pending
#print axioms C11_ids_unique
#print axioms stepsOf_least
#print axioms C11_witness_float_countdown
#print axioms C11_witness_positional
#print axioms C11_witness_requeue_reversal
#print axioms randomEvents_receivers
#print axioms broadcast_receivers
#print axioms midStep_linear
#print axioms mrun_linear
#print axioms C11_midstep
#print axioms C11_x_partial
#print axioms C11_x_at_most_once
#print axioms xstepFn_tabled_empty
#print axioms xrun_base
#print axioms C11_full_x
#print axioms X_witness_no_table
#print axioms X_witness_order
#print axioms X_witness_raise
#print axioms X_witness_ignored_lost
#print axioms ceilRound9_exact
#print axioms keptBack_eq_ceil
#print axioms stepsOf_eq_ceil
#print axioms delay_float_steps
#print axioms quot_float_err
#print axioms floatStepsRaw_exact
#print axioms floatSteps_first
#print axioms floatSteps_reentry
#print axioms floatKeep_exact
#print axioms stepBudget_double_arith
#print axioms C11_witness_no_rounding
#print axioms byIdInt_neg
#print axioms C11_witness_negative_index
#print axioms twoS_isolated
#print axioms C11_two_models
#print axioms C11_witness_shared_queue
#print axioms stepRow_ok_ceil
#print axioms C11_witness_steps_per_round

end Bptk.C11
