import Bptk.Core.C11
/-!
C11 — property theorems.  Quantifier: every operation history (`List Op`), unbounded: any population
history (create / delete / configure / reset), any send script (receiver alive, deleted or never created;
any delay), any number of steps.
-/
namespace Bptk.C11

/-- Mechanism facts probed on the real code on every run (one per repaired mechanism); the model below is
the model of the code for which all three are true. -/
structure Facts where
  routesById : Bool
  delayStepsExact : Bool
  requeueFifo : Bool
deriving DecidableEq, Repr

def Facts.good (f : Facts) : Bool := f.routesById && f.delayStepsExact && f.requeueFifo

/-! ### The distribution loop in closed form -/

def addTo (e : Ev) (a : Agent) : Agent :=
  if a.id = e.msg.rid then { a with inbox := a.inbox ++ [e] } else a

def dueFor (i : Nat) (e : Ev) : Bool := e.remaining == 0 && e.msg.rid == i
def addAll (L : List Ev) (a : Agent) : Agent := { a with inbox := a.inbox ++ L.filter (dueFor a.id) }
def isDelayed (e : Ev) : Bool := decide (0 < e.remaining)
def isDropped (ids : List Nat) (e : Ev) : Bool := e.remaining == 0 && !ids.contains e.msg.rid
def mkDrop (now : Nat) (live : List Nat) (e : Ev) : Dropped := { step := now, msg := e.msg, live := live }

theorem hasId_eq (as : List Agent) (i : Nat) : hasId as i = (as.map (·.id)).contains i := rfl

theorem addTo_id (e : Ev) (a : Agent) : (addTo e a).id = a.id := by
  unfold addTo; split <;> rfl

theorem map_addTo_ids (e : Ev) (as : List Agent) : (as.map (addTo e)).map (·.id) = as.map (·.id) := by
  simp [List.map_map, Function.comp_def, addTo_id]

theorem deliver_eq_map (as : List Agent) (e : Ev) (hn : (as.map (·.id)).Nodup) :
    deliver as e = as.map (addTo e) := by
  induction as with
  | nil => rfl
  | cons a rest ih =>
    simp only [List.map_cons, List.nodup_cons] at hn
    simp only [deliver, List.map_cons]
    by_cases h : a.id = e.msg.rid
    · have hrest : ∀ b ∈ rest, addTo e b = b := by
        intro b hb
        have hne : b.id ≠ e.msg.rid := by
          intro hb'
          apply hn.1
          rw [h, ← hb']
          exact List.mem_map.mpr ⟨b, hb, rfl⟩
        simp [addTo, hne]
      rw [if_pos h, List.map_congr_left hrest]
      simp [addTo, h]
    · rw [if_neg h, ih hn.2]
      simp [addTo, h]

theorem addAll_nil (a : Agent) : addAll [] a = a := by
  cases a; simp [addAll]

theorem dist_fold (now : Nat) (L : List Ev) :
    ∀ (as : List Agent) (dl : List Ev) (dr : List Dropped), (as.map (·.id)).Nodup →
      L.foldl (distOne now) { agents := as, delayed := dl, dropped := dr } =
        { agents := as.map (addAll L)
          delayed := dl ++ (L.filter isDelayed).map dec
          dropped := dr ++ (L.filter (isDropped (as.map (·.id)))).map (mkDrop now (as.map (·.id))) } := by
  induction L with
  | nil =>
    intro as dl dr _
    have : as.map (addAll []) = as := by
      rw [List.map_congr_left (fun a _ => addAll_nil a)]; simp
    simp [this]
  | cons e L ih =>
    intro as dl dr hn
    simp only [List.foldl_cons, distOne]
    by_cases hrem : 0 < e.remaining
    · have hne : (e.remaining == 0) = false := by simp; omega
      rw [if_pos hrem, ih as _ dr hn]
      have h1 : as.map (addAll (e :: L)) = as.map (addAll L) := by
        apply List.map_congr_left
        intro a _
        simp [addAll, dueFor, hne]
      have h2 : isDelayed e = true := by simp [isDelayed, hrem]
      have h3 : isDropped (as.map (·.id)) e = false := by simp [isDropped, hne]
      simp [h1, h2, h3]
    · have hz : e.remaining = 0 := by omega
      rw [if_neg hrem]
      have h2 : isDelayed e = false := by simp [isDelayed, hz]
      by_cases hid : hasId as e.msg.rid = true
      · simp only [hid, if_true]
        rw [deliver_eq_map as e hn, ih _ dl dr (by rw [map_addTo_ids]; exact hn), map_addTo_ids]
        have h3 : isDropped (as.map (·.id)) e = false := by
          rw [hasId_eq] at hid
          unfold isDropped; rw [hid]; simp
        have h1 : (as.map (addTo e)).map (addAll L) = as.map (addAll (e :: L)) := by
          rw [List.map_map]
          apply List.map_congr_left
          intro a _
          simp only [Function.comp, addAll, addTo_id, List.filter_cons, dueFor, hz]
          unfold addTo
          by_cases ha : a.id = e.msg.rid
          · simp [ha]
          · have : (e.msg.rid == a.id) = false := by simp; omega
            simp [ha, this]
        simp [h1, h2, h3]
      · have hid' : hasId as e.msg.rid = false := by simpa using hid
        simp only [hid', Bool.false_eq_true, if_false]
        rw [ih as dl _ hn]
        have h3 : isDropped (as.map (·.id)) e = true := by
          rw [hasId_eq] at hid'
          unfold isDropped; rw [hid', hz]; simp
        have h1 : as.map (addAll (e :: L)) = as.map (addAll L) := by
          apply List.map_congr_left
          intro a ha
          have hne : (e.msg.rid == a.id) = false := by
            rw [hasId_eq] at hid'
            have : ¬ e.msg.rid ∈ as.map (·.id) := by simpa using hid'
            have hmem : a.id ∈ as.map (·.id) := List.mem_map.mpr ⟨a, ha, rfl⟩
            simp
            intro h; rw [h] at this; exact this hmem
          simp [addAll, dueFor, hne]
        simp [h1, h2, h3, mkDrop]


/-! ### One scheduler step in closed form -/

/-- the handler invocations of agent `a` in step `now`: its due events in the order of `model.events` -/
def blockOf (now : Nat) (live : List Nat) (evs : List Ev) (a : Agent) : List Handled :=
  (evs.filter (dueFor a.id)).map (fun e => { step := now, agent := a.id, msg := e.msg, live := live })

theorem flatMap_congr_mem {α β : Type} {f g : α → List β} (l : List α) (h : ∀ a ∈ l, f a = g a) :
    l.flatMap f = l.flatMap g := by
  induction l with
  | nil => rfl
  | cons a rest ih =>
    simp only [List.flatMap_cons]
    rw [h a (by simp), ih (fun b hb => h b (by simp [hb]))]

theorem pairwise_lt_nodup (l : List Nat) (h : l.Pairwise (· < ·)) : l.Nodup :=
  h.imp (fun hab => Nat.ne_of_lt hab)

/-- The two `pop()` reversals cancel: every agent handles its due events in the order of `model.events`;
the delayed events go back to the queue in their original order. -/
theorem stepFn_spec (s : State) (hn : (s.agents.map (·.id)).Nodup) (hin : ∀ a ∈ s.agents, a.inbox = []) :
    stepFn s =
      { s with now := s.now + 1
               agents := s.agents
               log := s.log ++ s.agents.flatMap (blockOf (s.now + 1) (s.agents.map (·.id)) s.events)
               dropped := s.dropped ++ (s.events.reverse.filter (isDropped (s.agents.map (·.id)))).map
                            (mkDrop (s.now + 1) (s.agents.map (·.id)))
               events := (s.events.filter isDelayed).map dec } := by
  unfold stepFn
  simp only [dist_fold (s.now + 1) s.events.reverse s.agents [] [] hn]
  have hag : (s.agents.map (addAll s.events.reverse)).map clearInbox = s.agents := by
    rw [List.map_map]
    have : ∀ a ∈ s.agents, (clearInbox ∘ addAll s.events.reverse) a = a := by
      intro a ha
      have := hin a ha
      cases a
      simp only [Function.comp, clearInbox, addAll] at this ⊢
      simp [this]
    rw [List.map_congr_left this]; simp
  have hlog : (s.agents.map (addAll s.events.reverse)).flatMap (handleAgent (s.now + 1) (s.agents.map (·.id)))
      = s.agents.flatMap (blockOf (s.now + 1) (s.agents.map (·.id)) s.events) := by
    rw [List.flatMap_map]
    apply flatMap_congr_mem
    intro a ha
    simp [handleAgent, addAll, blockOf, hin a ha, List.filter_reverse]
  have hev : ([] ++ (s.events.reverse.filter isDelayed).map dec).reverse = (s.events.filter isDelayed).map dec := by
    simp [List.filter_reverse, List.map_reverse]
  rw [hag, hlog, hev]
  simp

/-! ### Invariant -/

/-- order relation on the log: chronological, and within one step and one agent by send number -/
def LogRel (a b : Handled) : Prop :=
  a.step ≤ b.step ∧ (a.step = b.step → a.agent = b.agent → a.msg.seq < b.msg.seq)

structure Inv (s : State) : Prop where
  idsSorted : (s.agents.map (·.id)).Pairwise (· < ·)
  idBound : ∀ a ∈ s.agents, a.id < s.next
  inboxEmpty : ∀ a ∈ s.agents, a.inbox = []
  evSorted : (s.events.map (·.msg.seq)).Pairwise (· < ·)
  evOk : ∀ e ∈ s.events, e.msg ∈ s.sent ∧ e.msg.sentAt + e.msg.delay = s.now + e.remaining
  sentLen : s.sent.length = s.nextSeq
  sentIdx : ∀ m ∈ s.sent, s.sent[m.seq]? = some m
  logOk : ∀ h ∈ s.log, h.msg ∈ s.sent ∧ h.agent = h.msg.rid ∧ h.agent ∈ h.live ∧
            h.step = h.msg.sentAt + 1 + h.msg.delay ∧ h.step ≤ s.now
  dropOk : ∀ d ∈ s.dropped, d.msg ∈ s.sent ∧ d.msg.rid ∉ d.live ∧
            d.step = d.msg.sentAt + 1 + d.msg.delay ∧ d.step ≤ s.now
  logOrder : s.log.Pairwise LogRel
  hdDisj : ∀ h ∈ s.log, ∀ d ∈ s.dropped, h.msg.seq ≠ d.msg.seq
  dropNodup : (s.dropped.map (·.msg.seq)).Nodup
  cover : ∀ m ∈ s.sent, (∃ e ∈ s.events, e.msg = m) ∨ (∃ h ∈ s.log, h.msg = m) ∨ (∃ d ∈ s.dropped, d.msg = m)

theorem inv_init : Inv State.init := by
  constructor <;> simp [State.init]

/-- the send number identifies the event -/
theorem Inv.seq_inj {s : State} (h : Inv s) {m₁ m₂ : Msg} (h₁ : m₁ ∈ s.sent) (h₂ : m₂ ∈ s.sent)
    (hs : m₁.seq = m₂.seq) : m₁ = m₂ := by
  have a := h.sentIdx m₁ h₁
  have b := h.sentIdx m₂ h₂
  rw [hs, b] at a
  exact (Option.some.inj a).symm

theorem Inv.seq_lt {s : State} (h : Inv s) {m : Msg} (hm : m ∈ s.sent) : m.seq < s.nextSeq := by
  have a := h.sentIdx m hm
  rw [List.getElem?_eq_some_iff] at a
  obtain ⟨hlt, _⟩ := a
  rw [← h.sentLen]; exact hlt

/-! population operations touch neither queue nor log -/

theorem inv_create (s : State) (ty : Nat) (h : Inv s) : Inv (create s ty) := by
  refine { h with idsSorted := ?_, idBound := ?_, inboxEmpty := ?_ }
  · simp only [create, List.map_append, List.map_cons, List.map_nil]
    rw [List.pairwise_append]
    refine ⟨h.idsSorted, by simp, ?_⟩
    intro a ha b hb
    simp at hb; subst hb
    simp at ha
    obtain ⟨x, hx, rfl⟩ := ha
    exact h.idBound x hx
  · intro a ha
    simp [create] at ha ⊢
    rcases ha with ha | rfl
    · have := h.idBound a ha; omega
    · simp
  · intro a ha
    simp [create] at ha
    rcases ha with ha | rfl
    · exact h.inboxEmpty a ha
    · rfl

theorem inv_createN (n : Nat) : ∀ (s : State) (ty : Nat), Inv s → Inv (createN s ty n) := by
  induction n with
  | zero => intro s ty h; exact h
  | succ n ih => intro s ty h; exact ih _ _ (inv_create s ty h)

theorem inv_createSpec (spec : List (Nat × Nat)) : ∀ s, Inv s → Inv (createSpec s spec) := by
  induction spec with
  | nil => intro s h; exact h
  | cons p rest ih => intro s h; obtain ⟨ty, n⟩ := p; exact ih _ (inv_createN n s ty h)

theorem inv_clear (s : State) (h : Inv s) : Inv (clear s) := by
  refine { h with idsSorted := ?_, idBound := ?_, inboxEmpty := ?_ } <;> simp [clear]

theorem inv_delete (s : State) (ids : List Nat) (h : Inv s) : Inv (delete s ids) := by
  refine { h with idsSorted := ?_, idBound := ?_, inboxEmpty := ?_ }
  · exact List.Pairwise.sublist (List.Sublist.map _ List.filter_sublist) h.idsSorted
  · intro a ha; exact h.idBound a (List.mem_filter.mp ha).1
  · intro a ha; exact h.inboxEmpty a (List.mem_filter.mp ha).1


/-! sending -/

theorem inv_send (s : State) (rid delay : Nat) (h : Inv s) : Inv (send s rid delay) := by
  have hmem : ∀ m, m ∈ s.sent → m ∈ s.sent ++ [{ seq := s.nextSeq, rid := rid, sentAt := s.now, delay := delay }] :=
    fun m hm => List.mem_append_left _ hm
  refine { h with evSorted := ?_, evOk := ?_, sentLen := ?_, sentIdx := ?_, logOk := ?_, dropOk := ?_, cover := ?_ }
  · simp only [send, List.map_append, List.map_cons, List.map_nil]
    rw [List.pairwise_append]
    refine ⟨h.evSorted, by simp, ?_⟩
    intro a ha b hb
    simp at hb; subst hb
    simp at ha
    obtain ⟨e, he, rfl⟩ := ha
    exact h.seq_lt (h.evOk e he).1
  · intro e he
    simp only [send, List.mem_append, List.mem_singleton] at he ⊢
    rcases he with he | rfl
    · exact ⟨Or.inl (h.evOk e he).1, (h.evOk e he).2⟩
    · exact ⟨Or.inr rfl, rfl⟩
  · simp [send, h.sentLen]
  · intro m hm
    simp only [send, List.mem_append, List.mem_singleton] at hm ⊢
    rcases hm with hm | rfl
    · rw [List.getElem?_append_left (by rw [h.sentLen]; exact h.seq_lt hm)]
      exact h.sentIdx m hm
    · simp only
      rw [← h.sentLen]
      exact List.getElem?_concat_length
  · intro x hx
    obtain ⟨a, b⟩ := h.logOk x hx
    exact ⟨hmem _ a, b⟩
  · intro x hx
    obtain ⟨a, b⟩ := h.dropOk x hx
    exact ⟨hmem _ a, b⟩
  · intro m hm
    simp only [send, List.mem_append, List.mem_singleton] at hm ⊢
    rcases hm with hm | rfl
    · rcases h.cover m hm with ⟨e, he, rfl⟩ | r
      · exact Or.inl ⟨e, Or.inl he, rfl⟩
      · exact Or.inr r
    · exact Or.inl ⟨_, Or.inr rfl, rfl⟩

theorem inv_sendAll (delay : Nat) (ids : List Nat) : ∀ s, Inv s → Inv (sendAll s delay ids) := by
  induction ids with
  | nil => intro s h; exact h
  | cons i rest ih => intro s h; exact ih _ (inv_send s i delay h)

/-! one step -/

theorem mem_blocks {now : Nat} {live : List Nat} {evs : List Ev} {as : List Agent} {x : Handled} :
    x ∈ as.flatMap (blockOf now live evs) ↔
      ∃ a ∈ as, ∃ e ∈ evs, e.remaining = 0 ∧ e.msg.rid = a.id ∧
        x = { step := now, agent := a.id, msg := e.msg, live := live } := by
  simp only [List.mem_flatMap, blockOf, List.mem_map, List.mem_filter, dueFor, Bool.and_eq_true, beq_iff_eq]
  constructor
  · rintro ⟨a, ha, e, ⟨he, h0, hr⟩, rfl⟩
    exact ⟨a, ha, e, he, h0, hr, rfl⟩
  · rintro ⟨a, ha, e, he, h0, hr, rfl⟩
    exact ⟨a, ha, e, ⟨he, h0, hr⟩, rfl⟩

theorem mem_drops {now : Nat} {ids : List Nat} {evs : List Ev} {d : Dropped} :
    d ∈ (evs.reverse.filter (isDropped ids)).map (mkDrop now ids) ↔
      ∃ e ∈ evs, e.remaining = 0 ∧ e.msg.rid ∉ ids ∧ d = { step := now, msg := e.msg, live := ids } := by
  have hc : ∀ x, ids.contains x = false ↔ x ∉ ids := by simp
  simp only [List.mem_map, List.mem_filter, List.mem_reverse, isDropped, mkDrop, Bool.and_eq_true, beq_iff_eq,
    Bool.not_eq_true', hc]
  constructor
  · rintro ⟨e, ⟨he, h0, hr⟩, rfl⟩
    exact ⟨e, he, h0, hr, rfl⟩
  · rintro ⟨e, he, h0, hr, rfl⟩
    exact ⟨e, ⟨he, h0, hr⟩, rfl⟩

theorem inv_stepFn (s : State) (h : Inv s) : Inv (stepFn s) := by
  have hn : (s.agents.map (·.id)).Nodup := pairwise_lt_nodup _ h.idsSorted
  rw [stepFn_spec s hn h.inboxEmpty]
  -- two queued events with the same send number are the same message
  have evInj : ∀ e₁ ∈ s.events, ∀ e₂ ∈ s.events, e₁.msg.seq = e₂.msg.seq → e₁.msg = e₂.msg :=
    fun e₁ h₁ e₂ h₂ hs => h.seq_inj (h.evOk e₁ h₁).1 (h.evOk e₂ h₂).1 hs
  have evPair : s.events.Pairwise (fun a b => a.msg.seq < b.msg.seq) := List.pairwise_map.mp h.evSorted
  constructor
  · exact h.idsSorted
  · exact h.idBound
  · exact h.inboxEmpty
  · -- evSorted
    show (((s.events.filter isDelayed).map dec).map (·.msg.seq)).Pairwise (· < ·)
    rw [List.map_map]
    exact List.Pairwise.sublist (List.Sublist.map _ List.filter_sublist) h.evSorted
  · -- evOk
    intro e he
    simp only [List.mem_map, List.mem_filter, isDelayed, decide_eq_true_eq] at he
    obtain ⟨e0, ⟨he0, hpos⟩, rfl⟩ := he
    obtain ⟨a, b⟩ := h.evOk e0 he0
    refine ⟨a, ?_⟩
    simp only [dec]
    omega
  · exact h.sentLen
  · exact h.sentIdx
  · -- logOk
    intro x hx
    simp only [List.mem_append] at hx
    rcases hx with hx | hx
    · obtain ⟨a, b, c, d, e⟩ := h.logOk x hx
      exact ⟨a, b, c, d, by simp only; omega⟩
    · obtain ⟨a, ha, e, he, h0, hr, rfl⟩ := mem_blocks.mp hx
      obtain ⟨p, q⟩ := h.evOk e he
      refine ⟨p, hr.symm, List.mem_map.mpr ⟨a, ha, rfl⟩, ?_, ?_⟩ <;> simp only <;> omega
  · -- dropOk
    intro x hx
    simp only [List.mem_append] at hx
    rcases hx with hx | hx
    · obtain ⟨a, b, c, d⟩ := h.dropOk x hx
      exact ⟨a, b, c, by simp only; omega⟩
    · obtain ⟨e, he, h0, hr, rfl⟩ := mem_drops.mp hx
      obtain ⟨p, q⟩ := h.evOk e he
      refine ⟨p, hr, ?_, ?_⟩ <;> simp only <;> omega
  · -- logOrder
    show (s.log ++ _).Pairwise LogRel
    rw [List.pairwise_append]
    refine ⟨h.logOrder, ?_, ?_⟩
    · rw [List.pairwise_flatMap]
      constructor
      · intro a _
        simp only [blockOf]
        rw [List.pairwise_map]
        apply List.Pairwise.sublist List.filter_sublist
        apply evPair.imp
        intro e₁ e₂ hlt
        exact ⟨Nat.le_refl _, fun _ _ => hlt⟩
      · have hag : s.agents.Pairwise (fun a b => a.id < b.id) := List.pairwise_map.mp h.idsSorted
        apply hag.imp
        intro a b hlt x hx y hy
        simp only [blockOf, List.mem_map] at hx hy
        obtain ⟨_, _, rfl⟩ := hx
        obtain ⟨_, _, rfl⟩ := hy
        refine ⟨Nat.le_refl _, fun _ hab => ?_⟩
        simp only at hab
        omega
    · intro x hx y hy
      obtain ⟨_, _, _, _, hle⟩ := h.logOk x hx
      obtain ⟨a, _, e, _, _, _, rfl⟩ := mem_blocks.mp hy
      exact ⟨by simp only; omega, fun heq => by simp only at heq; omega⟩
  · -- hdDisj
    intro x hx d hd
    simp only [List.mem_append] at hx hd
    rcases hx with hx | hx <;> rcases hd with hd | hd
    · exact h.hdDisj x hx d hd
    · obtain ⟨e, he, h0, _, rfl⟩ := mem_drops.mp hd
      obtain ⟨p, _, _, q, r⟩ := h.logOk x hx
      obtain ⟨p', q'⟩ := h.evOk e he
      intro hs
      have := h.seq_inj p p' hs
      rw [this] at q
      omega
    · obtain ⟨a, _, e, he, h0, _, rfl⟩ := mem_blocks.mp hx
      obtain ⟨p, _, q, r⟩ := h.dropOk d hd
      obtain ⟨p', q'⟩ := h.evOk e he
      intro hs
      have := h.seq_inj p' p hs
      rw [← this] at q
      omega
    · obtain ⟨a, ha, e, he, h0, hr, rfl⟩ := mem_blocks.mp hx
      obtain ⟨e', he', h0', hr', rfl⟩ := mem_drops.mp hd
      intro hs
      have := evInj e he e' he' hs
      apply hr'
      rw [← this, hr]
      exact List.mem_map.mpr ⟨a, ha, rfl⟩
  · -- dropNodup
    show ((s.dropped ++ _).map (·.msg.seq)).Nodup
    rw [List.map_append, List.nodup_append]
    refine ⟨h.dropNodup, ?_, ?_⟩
    · rw [List.map_map]
      have : (s.events.reverse.filter (isDropped (s.agents.map (·.id)))).map
          ((·.msg.seq) ∘ mkDrop (s.now + 1) (s.agents.map (·.id)))
          = (s.events.reverse.filter (isDropped (s.agents.map (·.id)))).map (·.msg.seq) := by
        apply List.map_congr_left; intro e _; rfl
      rw [this]
      apply List.Nodup.sublist (List.Sublist.map _ List.filter_sublist)
      rw [List.map_reverse]
      show List.Pairwise (· ≠ ·) _
      apply List.pairwise_reverse.mpr
      exact h.evSorted.imp (fun hab => (Nat.ne_of_lt hab).symm)
    · intro a ha b hb hab
      obtain ⟨d, hd, rfl⟩ := List.mem_map.mp ha
      obtain ⟨d', hd', rfl⟩ := List.mem_map.mp hb
      obtain ⟨e, he, h0, _, rfl⟩ := mem_drops.mp hd'
      obtain ⟨p, _, q, r⟩ := h.dropOk d hd
      obtain ⟨p', q'⟩ := h.evOk e he
      have := h.seq_inj p p' hab
      rw [this] at q
      omega
  · -- cover
    intro m hm
    rcases h.cover m hm with ⟨e, he, rfl⟩ | ⟨x, hx, rfl⟩ | ⟨d, hd, rfl⟩
    · by_cases hpos : 0 < e.remaining
      · refine Or.inl ⟨dec e, ?_, rfl⟩
        exact List.mem_map.mpr ⟨e, List.mem_filter.mpr ⟨he, by simp [isDelayed, hpos]⟩, rfl⟩
      · have h0 : e.remaining = 0 := by omega
        by_cases hid : e.msg.rid ∈ s.agents.map (·.id)
        · obtain ⟨a, ha, hai⟩ := List.mem_map.mp hid
          refine Or.inr (Or.inl ⟨_, List.mem_append_right _ (mem_blocks.mpr ⟨a, ha, e, he, h0, hai.symm, rfl⟩), rfl⟩)
        · refine Or.inr (Or.inr ⟨_, List.mem_append_right _ (mem_drops.mpr ⟨e, he, h0, hid, rfl⟩), rfl⟩)
    · exact Or.inr (Or.inl ⟨x, List.mem_append_left _ hx, rfl⟩)
    · exact Or.inr (Or.inr ⟨d, List.mem_append_left _ hd, rfl⟩)

theorem inv_step (s : State) (op : Op) (h : Inv s) : Inv (step s op) := by
  cases op with
  | create ty => exact inv_create s ty h
  | delete ids => exact inv_delete s ids h
  | configure spec => exact inv_createSpec spec _ (inv_clear s h)
  | reset => exact inv_clear s h
  | send rid delay => exact inv_send s rid delay h
  | broadcast ty delay => exact inv_sendAll delay _ s h
  | step => exact inv_stepFn s h

/-- The invariant holds in every reachable state. -/
theorem inv_run (ops : List Op) : ∀ s, Inv s → Inv (run s ops) := by
  induction ops with
  | nil => intro s h; exact h
  | cons op rest ih => intro s h; exact ih _ (inv_step s op h)

theorem inv_reachable (ops : List Op) : Inv (run State.init ops) := inv_run ops _ inv_init


/-! ### The property -/

/-- The step in which the statement wants `m` handled: sent in step `sentAt` ⇒ an undelayed event in step
`sentAt + 1`, a delayed one `delay` (= ⌈delay/dt⌉, see `stepsOf_least`) steps later. -/
def dueStep (m : Msg) : Nat := m.sentAt + 1 + m.delay

/-- **C11 at full strength**, for every operation history:
1. routing — a handler runs only in the agent whose id is the event's receiver id (an agent alive in that
   step), for an event that was really sent;
2. an event is discarded only in a step in which no agent has the receiver id (so it never reaches a
   different agent), and only when it is due;
3. timing — handled (or discarded) exactly in step `dueStep`;
4. exactly once — a sent event is handled-or-discarded exactly once as soon as `dueStep` has been run, and
   not at all before;  an event is never both handled and discarded;
5. order — the log is chronological and within one step one agent handles its events in send order
   (`seq` is the position in the send order: 6.). -/
def C11_full : Prop :=
  ∀ ops : List Op,
    let s := run State.init ops
    (∀ h ∈ s.log, h.msg ∈ s.sent ∧ h.agent = h.msg.rid ∧ h.agent ∈ h.live) ∧
    (∀ d ∈ s.dropped, d.msg ∈ s.sent ∧ d.msg.rid ∉ d.live) ∧
    ((∀ h ∈ s.log, h.step = dueStep h.msg) ∧ (∀ d ∈ s.dropped, d.step = dueStep d.msg)) ∧
    (∀ m ∈ s.sent, (s.log.map (·.msg)).count m + (s.dropped.map (·.msg)).count m
        = if dueStep m ≤ s.now then 1 else 0) ∧
    s.log.Pairwise (fun a b => a.step ≤ b.step ∧ (a.step = b.step → a.agent = b.agent → a.msg.seq < b.msg.seq)) ∧
    (s.sent.length = s.nextSeq ∧ ∀ m ∈ s.sent, s.sent[m.seq]? = some m)

theorem C11_routing (ops : List Op) :
    ∀ h ∈ (run State.init ops).log, h.msg ∈ (run State.init ops).sent ∧ h.agent = h.msg.rid ∧ h.agent ∈ h.live :=
  fun h hh => let ⟨a, b, c, _⟩ := (inv_reachable ops).logOk h hh; ⟨a, b, c⟩

theorem C11_dropped_only_when_absent (ops : List Op) :
    ∀ d ∈ (run State.init ops).dropped, d.msg ∈ (run State.init ops).sent ∧ d.msg.rid ∉ d.live :=
  fun d hd => let ⟨a, b, _⟩ := (inv_reachable ops).dropOk d hd; ⟨a, b⟩

/-- undelayed: the step after the one it was sent in; delayed: `delay` steps later than that -/
theorem C11_timing (ops : List Op) :
    (∀ h ∈ (run State.init ops).log, h.step = dueStep h.msg) ∧
    (∀ d ∈ (run State.init ops).dropped, d.step = dueStep d.msg) :=
  ⟨fun h hh => ((inv_reachable ops).logOk h hh).2.2.2.1, fun d hd => ((inv_reachable ops).dropOk d hd).2.2.1⟩

theorem C11_next_step (ops : List Op) :
    ∀ h ∈ (run State.init ops).log, h.msg.delay = 0 → h.step = h.msg.sentAt + 1 := by
  intro h hh h0
  have := (C11_timing ops).1 h hh
  simp only [dueStep] at this
  omega

theorem C11_order (ops : List Op) : (run State.init ops).log.Pairwise LogRel := (inv_reachable ops).logOrder

/-- events sent to the same agent in the same step are handled in the order sent -/
theorem C11_order_same_send_step (ops : List Op) :
    (run State.init ops).log.Pairwise
      (fun a b => a.agent = b.agent → a.msg.sentAt = b.msg.sentAt → a.step = b.step → a.msg.seq < b.msg.seq) :=
  (C11_order ops).imp (fun hab hag _ hst => hab.2 hst hag)

theorem log_msgs_nodup {s : State} (h : Inv s) : (s.log.map (·.msg)).Nodup := by
  show List.Pairwise (· ≠ ·) _
  rw [List.pairwise_map]
  apply List.Pairwise.imp_of_mem _ h.logOrder
  intro a b ha hb hab heq
  obtain ⟨_, a2, _, a4, _⟩ := h.logOk a ha
  obtain ⟨_, b2, _, b4, _⟩ := h.logOk b hb
  have := hab.2 (by rw [a4, b4, heq]) (by rw [a2, b2, heq])
  rw [heq] at this
  omega

theorem dropped_msgs_nodup {s : State} (h : Inv s) : (s.dropped.map (·.msg)).Nodup := by
  show List.Pairwise (· ≠ ·) _
  rw [List.pairwise_map]
  have : s.dropped.Pairwise (fun a b => a.msg.seq ≠ b.msg.seq) := List.pairwise_map.mp h.dropNodup
  exact this.imp (fun hne heq => hne (by rw [heq]))

theorem C11_once (ops : List Op) :
    ∀ m ∈ (run State.init ops).sent,
      ((run State.init ops).log.map (·.msg)).count m + ((run State.init ops).dropped.map (·.msg)).count m
        = if dueStep m ≤ (run State.init ops).now then 1 else 0 := by
  intro m hm
  have h := inv_reachable ops
  generalize run State.init ops = s at *
  rw [← List.count_append]
  have hnd : (s.log.map (·.msg) ++ s.dropped.map (·.msg)).Nodup := by
    rw [List.nodup_append]
    refine ⟨log_msgs_nodup h, dropped_msgs_nodup h, ?_⟩
    intro a ha b hb hab
    obtain ⟨x, hx, rfl⟩ := List.mem_map.mp ha
    obtain ⟨d, hd, rfl⟩ := List.mem_map.mp hb
    exact h.hdDisj x hx d hd (by rw [hab])
  have hle := List.nodup_iff_count.mp hnd m
  split
  · rename_i hdue
    have hmem : m ∈ s.log.map (·.msg) ++ s.dropped.map (·.msg) := by
      rcases h.cover m hm with ⟨e, he, rfl⟩ | ⟨x, hx, rfl⟩ | ⟨d, hd, rfl⟩
      · have := (h.evOk e he).2
        simp only [dueStep] at hdue
        omega
      · exact List.mem_append_left _ (List.mem_map.mpr ⟨x, hx, rfl⟩)
      · exact List.mem_append_right _ (List.mem_map.mpr ⟨d, hd, rfl⟩)
    have := List.count_pos_iff.mpr hmem
    omega
  · rename_i hdue
    apply List.count_eq_zero_of_not_mem
    intro hmem
    rcases List.mem_append.mp hmem with hmem | hmem
    · obtain ⟨x, hx, rfl⟩ := List.mem_map.mp hmem
      obtain ⟨_, _, _, a, b⟩ := h.logOk x hx
      simp only [dueStep] at hdue
      omega
    · obtain ⟨d, hd, rfl⟩ := List.mem_map.mp hmem
      obtain ⟨_, _, a, b⟩ := h.dropOk d hd
      simp only [dueStep] at hdue
      omega

/-- an event that is not yet due is still queued, with the number of steps it still has to wait -/
theorem C11_pending (ops : List Op) :
    ∀ m ∈ (run State.init ops).sent, (run State.init ops).now < dueStep m →
      ∃ e ∈ (run State.init ops).events, e.msg = m ∧ e.remaining + (run State.init ops).now + 1 = dueStep m := by
  intro m hm hlt
  have h := inv_reachable ops
  generalize run State.init ops = s at *
  simp only [dueStep] at hlt ⊢
  rcases h.cover m hm with ⟨e, he, rfl⟩ | ⟨x, hx, rfl⟩ | ⟨d, hd, rfl⟩
  · exact ⟨e, he, rfl, by have := (h.evOk e he).2; omega⟩
  · obtain ⟨_, _, _, a, b⟩ := h.logOk x hx; omega
  · obtain ⟨_, _, a, b⟩ := h.dropOk d hd; omega

/-- ids of live agents are unique, so "the agent that has that id" is well defined (as C14) -/
theorem C11_ids_unique (ops : List Op) : ((run State.init ops).agents.map (·.id)).Nodup :=
  pairwise_lt_nodup _ (inv_reachable ops).idsSorted

theorem C11_full_proved : C11_full := by
  intro ops s
  exact ⟨C11_routing ops, C11_dropped_only_when_absent ops, C11_timing ops, C11_once ops, C11_order ops,
    (inv_reachable ops).sentLen, (inv_reachable ops).sentIdx⟩

/-! ### delay in time units → delay in steps -/

/-- `stepsOf dn dd tn td` is ⌈(dn/dd)/(tn/td)⌉: the least number `k` of steps with `k·dt ≥ delay`
(`k·(tn/td) ≥ dn/dd ⇔ dn·td ≤ k·(dd·tn)`). -/
theorem stepsOf_least (dn dd tn td : Nat) (hdd : 0 < dd) (htn : 0 < tn) :
    dn * td ≤ stepsOf dn dd tn td * (dd * tn) ∧
    ∀ k, dn * td ≤ k * (dd * tn) → stepsOf dn dd tn td ≤ k := by
  have hb : 0 < dd * tn := Nat.mul_pos hdd htn
  unfold stepsOf
  generalize dn * td = a at *
  generalize dd * tn = b at *
  constructor
  · have h1 : (a + b - 1) / b < (a + b - 1) / b + 1 := Nat.lt_succ_self _
    rw [Nat.div_lt_iff_lt_mul hb, Nat.succ_mul] at h1
    omega
  · intro k hk
    have : (a + b - 1) / b < k + 1 := by
      rw [Nat.div_lt_iff_lt_mul hb, Nat.succ_mul]
      omega
    omega

/-- the countdown of the pinned tree, `while delay > 0: delay -= dt`, on IEEE doubles (fuel-bounded) -/
def floatCountdown (delay dt : Float) : Nat → Nat
  | 0 => 0
  | n + 1 => if delay > 0 then 1 + floatCountdown (delay - dt) dt n else 0

/-- kernel-checked witness of the repaired defect: repeated subtraction keeps an event with delay 1.0 back
for 11 steps of dt = 0.1, the statement wants ⌈1.0/0.1⌉ = 10 (0.3 and 0.1: 3 and 3 — no drift yet). -/
theorem C11_witness_float_countdown :
    floatCountdown 1.0 0.1 50 = 11 ∧ stepsOf 1 1 1 10 = 10 ∧ floatCountdown 0.3 0.1 50 = 3 ∧ stepsOf 3 10 1 10 = 3 := by
  decide +kernel

/-- the lookup of the pinned tree: `model.agents[receiver_id]` (position, not id) -/
def positional (as : List Agent) (rid : Nat) : Option Nat := (as[rid]?).map (·.id)

/-- kernel-checked witness of the repaired routing defect: after `delete_agent(1)` on ids 0..3 the positional
lookup hands an event for id 2 to the agent with id 3 and finds nobody (IndexError) for the live id 3. -/
theorem C11_witness_positional :
    positional (run State.init [.create 0, .create 0, .create 0, .create 0, .delete [1]]).agents 2 = some 3 ∧
    positional (run State.init [.create 0, .create 0, .create 0, .create 0, .delete [1]]).agents 3 = none ∧
    hasId (run State.init [.create 0, .create 0, .create 0, .create 0, .delete [1]]).agents 3 = true := by decide

/-- the re-queueing of the pinned tree: `model.events += delayed_events`, `delayed_events` in `pop()` order -/
def requeuePinned (evs : List Ev) : List Ev := (evs.reverse.filter isDelayed).map dec

/-- kernel-checked witness of the repaired order defect: one re-queue swaps two events sent in this order (odd
number of re-queues ⇒ handled in swapped order), two re-queues restore it. -/
theorem C11_witness_requeue_reversal :
    (requeuePinned [⟨⟨0, 0, 0, 1⟩, 1⟩, ⟨⟨1, 0, 0, 1⟩, 1⟩]).map (·.msg.seq) = [1, 0] ∧
    (requeuePinned (requeuePinned [⟨⟨0, 0, 0, 2⟩, 2⟩, ⟨⟨1, 0, 0, 2⟩, 2⟩])).map (·.msg.seq) = [0, 1] := by decide

/-! ### Non-vacuity: a history with deletion, an absent receiver, delayed events and a broadcast -/

def demo : State := run State.init
  [.create 0, .create 1, .create 0, .delete [1], .send 2 0, .send 2 2, .send 1 0, .send 2 2, .step,
   .configure [(0, 1), (1, 2)], .broadcast 1 1, .send 2 0, .step, .step, .step]

example : demo.log.map (fun h => (h.step, h.agent, h.msg.seq)) = [(1, 2, 0), (3, 4, 4), (3, 5, 5)] := by decide
example : demo.dropped.map (fun d => (d.step, d.msg.seq, d.live)) = [(1, 2, [0, 2]), (2, 6, [3, 4, 5]), (3, 3, [3, 4, 5]), (3, 1, [3, 4, 5])] := by decide
example : (run State.init [.create 0, .send 0 2, .send 0 0, .send 0 2, .step, .step, .step]).log.map
    (fun h => (h.step, h.agent, h.msg.seq)) = [(1, 0, 1), (3, 0, 0), (3, 0, 2)] := by decide
example : stepsOf 1 4 1 10 = 3 ∧ stepsOf 0 1 1 10 = 0 ∧ stepsOf 7 10 1 20 = 14 := by decide

#print axioms C11_full_proved
#print axioms C11_routing
#print axioms C11_dropped_only_when_absent
#print axioms C11_timing
#print axioms C11_next_step
#print axioms C11_once
#print axioms C11_order_same_send_step
#print axioms C11_pending
#print axioms C11_ids_unique
#print axioms stepsOf_least
#print axioms C11_witness_float_countdown
#print axioms C11_witness_positional
#print axioms C11_witness_requeue_reversal

end Bptk.C11
