import Bptk.Core.C09
/-!
C09 — property theorems.  Quantifiers: every simulator (`Sim`, only assumed causal), every run spec,
every base setting, every list of requested equations, every list of REST calls
(`run-step` / `run-steps m` / `stream-steps`, each with or without settings).
-/
namespace Bptk.C09

/-! ## formats -/

/-- dataframe, dict and json carry the same map (equation, time) ↦ value, on the same labels. -/
theorem formats_agree {S V L : Type} (sim : Sim S V) (spec : Spec L) (base : S) (eqs : List Nat)
    (i k : Nat) (hi : i < eqs.length) (hk : k ≤ spec.n) :
    ((batchDf sim spec base eqs)[k]?).bind (fun r => (r.2[i]?).map (fun v => (r.1, v)))
      = some (spec.label k, batchVal sim base eqs[i] k) ∧
    ((batchDict sim spec base eqs)[i]?).bind (fun d => d.2[k]?)
      = some (spec.label k, batchVal sim base eqs[i] k) := by
  have hk' : k < spec.n + 1 := by omega
  constructor <;> simp [batchDf, batchDict, hk', hi]

/-! ## partition invariance -/

theorem runList_append {S L V : Type} (c : Cfg) (sim : Sim S V) (spec : Spec L) (eqs : List Nat)
    (lazy : Bool) (a b : List (Option S)) : ∀ st : Sess S L V,
    runList c sim spec eqs lazy (a ++ b) st =
      ((runList c sim spec eqs lazy b (runList c sim spec eqs lazy a st).1).1,
       (runList c sim spec eqs lazy a st).2 ++ (runList c sim spec eqs lazy b (runList c sim spec eqs lazy a st).1).2) := by
  induction a with
  | nil => intro st; simp [runList]
  | cons s ss ih => intro st; simp [runList, ih]

theorem runSteps_eq {S L V : Type} (c : Cfg) (sim : Sim S V) (spec : Spec L) (eqs : List Nat)
    (lazy : Bool) (s : Option S) (m : Nat) : ∀ st : Sess S L V,
    runSteps c sim spec eqs lazy m st s = runList c sim spec eqs lazy (List.replicate m s) st := by
  induction m with
  | zero => intro st; simp [runSteps, runList]
  | succ m ih => intro st; simp [runSteps, runList, List.replicate_succ, ih]

theorem runStep_k {S L V : Type} (c : Cfg) (sim : Sim S V) (spec : Spec L) (eqs : List Nat)
    (lazy : Bool) (st : Sess S L V) (s : Option S) :
    (runStep c sim spec eqs lazy st s).1.k = tick spec.n (adv c spec) st.k := by
  unfold runStep tick
  split <;> rfl

theorem stream_eq {S L V : Type} (c : Cfg) (sim : Sim S V) (spec : Spec L) (eqs : List Nat)
    (lazy : Bool) (s : Option S) (f : Nat) : ∀ st : Sess S L V,
    stream c sim spec eqs lazy f st s =
      runList c sim spec eqs lazy (List.replicate (streamCount spec.n (adv c spec) f st.k) s) st := by
  induction f with
  | zero => intro st; simp [stream, streamCount, runList]
  | succ f ih =>
      intro st
      simp only [stream, streamCount]
      split
      · simp [runList]
      · rename_i hk
        have hk2 : (runStep c sim spec eqs lazy st s).1.k = st.k + adv c spec := by
          rw [runStep_k]; simp [tick, hk]
        rw [ih, hk2, Nat.add_comm 1, List.replicate_succ]
        simp [runList]

theorem runList_k {S L V : Type} (c : Cfg) (sim : Sim S V) (spec : Spec L) (eqs : List Nat)
    (lazy : Bool) (s : Option S) (m : Nat) : ∀ st : Sess S L V,
    (runList c sim spec eqs lazy (List.replicate m s) st).1.k = ticks spec.n (adv c spec) m st.k := by
  induction m with
  | zero => intro st; simp [runList, ticks]
  | succ m ih => intro st; simp [runList, ticks, List.replicate_succ, ih, runStep_k]

/-- **Partition invariance**: any list of `run-step` / `run-steps` / `stream-steps` calls leaves the
session in the state, and returns concatenated the replies, of the corresponding single `run-step`s. -/
theorem partition_invariance {S L V : Type} (c : Cfg) (sim : Sim S V) (spec : Spec L) (eqs : List Nat)
    (lazy : Bool) (cs : List (Call S)) : ∀ st : Sess S L V,
    calls c sim spec eqs lazy cs st = runList c sim spec eqs lazy (expand c spec cs st.k) st := by
  induction cs with
  | nil => intro st; simp [calls, expand, runList]
  | cons cl cs ih =>
      intro st
      cases cl with
      | step s =>
          simp only [calls, call, expand]
          rw [runList_append, ih]
          have : (runList c sim spec eqs lazy [s] st).1.k = ticks spec.n (adv c spec) 1 st.k := by
            simpa using runList_k c sim spec eqs lazy s 1 st
          rw [this]
      | steps m s =>
          simp only [calls, call, expand]
          rw [runList_append, ih, runSteps_eq, runList_k]
      | stream s =>
          simp only [calls, call, expand]
          rw [runList_append, ih, stream_eq, runList_k]

/-! ## what a session reports -/

/-- the simulator looks only backwards in time -/
def Causal {S V : Type} (sim : Sim S V) : Prop :=
  ∀ (f g : Nat → S) (e k : Nat), (∀ i, i ≤ k → f i = g i) → sim.val f e k = sim.val g e k

/-- the row the property demands for grid index `j` when the single steps carried the settings `ss`:
the batch label, and values computed with each step's settings in force from that step on. -/
def idealRow {S V L : Type} (sim : Sim S V) (spec : Spec L) (base : S) (ss : List (Option S))
    (eqs : List Nat) (j : Nat) : Row L V :=
  (spec.label j, eqs.map fun e => sim.val (accAt sim base ss) e j)

theorem accAt_append {S V : Type} (sim : Sim S V) (base : S) (a b : List (Option S)) (i : Nat)
    (h : i < a.length) : accAt sim base (a ++ b) i = accAt sim base a i := by
  unfold accAt
  rw [List.take_append_of_le_length (by omega)]

theorem accAt_last {S V : Type} (sim : Sim S V) (base : S) (a : List (Option S)) (s : Option S) :
    accAt sim base (a ++ [s]) a.length = mergeOpt sim (a.foldl (mergeOpt sim) base) s := by
  unfold accAt
  rw [List.take_of_length_le (by simp)]
  simp [List.foldl_append]

theorem idealRow_append {S V L : Type} (sim : Sim S V) (hc : Causal sim) (spec : Spec L) (base : S)
    (a b : List (Option S)) (eqs : List Nat) (j : Nat) (h : j < a.length) :
    idealRow sim spec base (a ++ b) eqs j = idealRow sim spec base a eqs j := by
  unfold idealRow
  congr 1
  apply List.map_congr_left
  intro e _
  exact hc _ _ e j (fun i hi => accAt_append sim base a b i (by omega))

structure SInv {S V L : Type} (sim : Sim S V) (spec : Spec L) (base : S) (eqs : List Nat)
    (st : Sess S L V) (done : List (Option S)) : Prop where
  clock : st.k = done.length
  acc : st.acc = done.foldl (mergeOpt sim) base
  hist : ∀ i, i < done.length → st.hist i = accAt sim base done i
  log : st.log = (List.range done.length).map (idealRow sim spec base done eqs)

theorem sinv_step {S V L : Type} (c : Cfg) (hg : c.good = true) (sim : Sim S V) (hc : Causal sim)
    (spec : Spec L) (base : S) (eqs : List Nat) (lazy : Bool) (st : Sess S L V)
    (done : List (Option S)) (s : Option S) (h : SInv sim spec base eqs st done)
    (hn : done.length ≤ spec.n) :
    SInv sim spec base eqs (runStep c sim spec eqs lazy st s).1 (done ++ [s]) := by
  simp only [Cfg.good, Bool.and_eq_true] at hg
  obtain ⟨⟨hdt, hclk⟩, hfin⟩ := hg
  have hk : ¬ st.k > spec.n := by rw [h.clock]; omega
  have hhist : ∀ i, i ≤ done.length →
      (fun i => if i < st.k then st.hist i else mergeOpt sim st.acc s) i = accAt sim base (done ++ [s]) i := by
    intro i hi
    simp only
    split
    · rename_i hlt
      rw [h.clock] at hlt
      rw [h.hist i hlt, accAt_append sim base done [s] i hlt]
    · rename_i hge
      rw [h.clock] at hge
      have : i = done.length := by omega
      subst this
      rw [accAt_last, h.acc]
  unfold runStep
  simp only [hk, if_false, hfin, Bool.true_or, if_true, adv, hdt, lbl, hclk]
  refine ⟨by simp [h.clock], by simp [h.acc, List.foldl_append], ?_, ?_⟩
  · intro i hi
    simp only [List.length_append, List.length_singleton] at hi
    exact hhist i (by omega)
  · simp only [List.length_append, List.length_singleton, List.range_succ, List.map_append,
      List.map_cons, List.map_nil]
    rw [h.log]
    congr 1
    · apply List.map_congr_left
      intro j hj
      rw [idealRow_append sim hc spec base done [s] eqs j (by simpa using hj)]
    · unfold idealRow
      rw [h.clock]
      congr 2
      apply List.map_congr_left
      intro e _
      exact hc _ _ e done.length (fun i hi => by have := hhist i hi; simpa [h.clock] using this)

theorem sinv_runList {S V L : Type} (c : Cfg) (hg : c.good = true) (sim : Sim S V) (hc : Causal sim)
    (spec : Spec L) (base : S) (eqs : List Nat) (lazy : Bool) (rest : List (Option S)) :
    ∀ (st : Sess S L V) (done : List (Option S)), SInv sim spec base eqs st done →
      done.length + rest.length ≤ spec.n + 1 →
      SInv sim spec base eqs (runList c sim spec eqs lazy rest st).1 (done ++ rest) := by
  induction rest with
  | nil => intro st done h _; simpa [runList] using h
  | cons s rest ih =>
      intro st done h hl
      simp only [List.length_cons] at hl
      have := ih _ (done ++ [s]) (sinv_step c hg sim hc spec base eqs lazy st done s h (by omega))
        (by simp; omega)
      simpa [runList] using this

/-- **The session reports, for whatever partition into calls, exactly the ideal rows**: batch labels
(the grid), and values in which the settings of each step are in force from that step on and not before. -/
def C09_full (c : Cfg) : Prop :=
  ∀ (S V L : Type) (sim : Sim S V), Causal sim →
  ∀ (spec : Spec L) (base : S) (eqs : List Nat) (lazy : Bool) (cs : List (Call S)),
    (expand c spec cs 0).length ≤ spec.n + 1 →
    (calls c sim spec eqs lazy cs (begin base)).1.log =
      (List.range (expand c spec cs 0).length).map (idealRow sim spec base (expand c spec cs 0) eqs)

theorem C09_full_of_good (c : Cfg) (hg : c.good = true) : C09_full c := by
  intro S V L sim hc spec base eqs lazy cs hl
  rw [partition_invariance]
  have h0 : SInv sim spec base eqs (begin base : Sess S L V) [] :=
    ⟨rfl, rfl, by intro i hi; simp at hi, by simp [begin]⟩
  have := sinv_runList c hg sim hc spec base eqs lazy (expand c spec cs 0) (begin base) [] h0
    (by simpa [begin] using hl)
  simpa [begin] using this.log

/-! ### corollaries in the words of the statement -/

theorem streamCount_full (n : Nat) : ∀ f k, k + f = n + 1 → streamCount n 1 f k = f := by
  intro f
  induction f with
  | zero => intro k _; rfl
  | succ f ih =>
      intro k h
      simp only [streamCount]
      have : ¬ k > n := by omega
      simp only [this, if_false]
      rw [ih (k + 1) (by omega)]; omega

theorem accAt_none {S V : Type} (sim : Sim S V) (base : S) (m i : Nat) :
    accAt sim base (List.replicate m none) i = base := by
  unfold accAt
  rw [List.take_replicate]
  generalize min (i + 1) m = r
  induction r with
  | zero => rfl
  | succ r ih => simpa [List.replicate_succ, mergeOpt] using ih

/-- **Session grid = batch grid, session values = batch values** (no settings): streaming a fresh
session to the end yields exactly the rows of the batch dataframe. -/
theorem C09_session_equals_batch (c : Cfg) (hg : c.good = true) {S V L : Type} (sim : Sim S V)
    (hc : Causal sim) (spec : Spec L) (base : S) (eqs : List Nat) (lazy : Bool) :
    (calls c sim spec eqs lazy [.stream none] (begin base)).1.log = batchDf sim spec base eqs := by
  have hadv : adv c spec = 1 := by
    simp only [Cfg.good, Bool.and_eq_true] at hg; simp [adv, hg.1.1]
  have hlen : (expand c spec [Call.stream (none : Option S)] 0).length = spec.n + 1 := by
    simp [expand, hadv, streamCount_full spec.n (spec.n + 1) 0 (by omega)]
  have := C09_full_of_good c hg S V L sim hc spec base eqs lazy [.stream none] (by omega)
  rw [this, hlen]
  unfold batchDf
  apply List.map_congr_left
  intro j _
  unfold idealRow batchVal
  congr 1
  apply List.map_congr_left
  intro e _
  apply hc
  intro i _
  simp [expand, hadv, streamCount_full spec.n (spec.n + 1) 0 (by omega), accAt_none]

/-- **Nothing before it**: two runs whose single steps carry the same settings up to (excluding)
step `k` report identical rows for all steps before `k`, whatever follows. -/
theorem settings_nothing_before {S V L : Type} (sim : Sim S V) (hc : Causal sim) (spec : Spec L)
    (base : S) (eqs : List Nat) (pre a b : List (Option S)) (j : Nat) (hj : j < pre.length) :
    idealRow sim spec base (pre ++ a) eqs j = idealRow sim spec base (pre ++ b) eqs j := by
  rw [idealRow_append sim hc spec base pre a eqs j hj, idealRow_append sim hc spec base pre b eqs j hj]

/-- a step past the stop time answers "Stoptime reached" and changes nothing -/
theorem runStep_stopped {S V L : Type} (c : Cfg) (sim : Sim S V) (spec : Spec L) (eqs : List Nat)
    (lazy : Bool) (st : Sess S L V) (s : Option S) (h : st.k > spec.n) :
    runStep c sim spec eqs lazy st s = (st, .stopped) := by
  simp [runStep, h]

/-! ### negation witnesses -/

def wSim : Sim Nat Nat := { merge := fun _ b => b, val := fun f _ k => f (k - 1) + 100 * k }
theorem wSim_causal : Causal wSim := by
  intro f g e k h
  simp only [wSim]
  rw [h (k - 1) (Nat.sub_le k 1)]

/-- scenario dt = 0.5 (two grid points per unit): the 1.0-session visits t_0, t_2 only -/
def wSpecDt : Spec Nat := { n := 2, stride := 2, label := fun k => k, rawLabel := fun k => k }
/-- dt = 0.1: three bare additions give 0.30000000000000004 (here: 1003) instead of 0.3 (3) -/
def wSpecClk : Spec Nat := { n := 3, stride := 1, label := fun k => k, rawLabel := fun k => if k = 3 then 1003 else k }

theorem C09_witness_session_dt (c : Cfg) (h : c.sessionDtFromScenario = false) : ¬ C09_full c := by
  intro hf
  have := hf Nat Nat Nat wSim wSim_causal wSpecDt 1 [0] false [.stream none]
  obtain ⟨d, k, f⟩ := c
  simp only at h; subst h
  cases k <;> cases f <;> exact absurd (this (by decide)) (by decide)

theorem C09_witness_clock (c : Cfg) (h : c.stepClockNormalised = false) : ¬ C09_full c := by
  intro hf
  have := hf Nat Nat Nat wSim wSim_causal wSpecClk 1 [0] false [.steps 4 none]
  obtain ⟨d, k, f⟩ := c
  simp only at h; subst h
  cases d <;> cases f <;> exact absurd (this (by decide)) (by decide)

/-- constant `c` = 1, changed to 10 with the third step; requested: an equation that reads `c` at the
previous grid point, which nobody had memoised (`lazy`): the new value leaks one step back. -/
theorem C09_witness_settings_leak (c : Cfg) (h : c.stepFinalisesAll = false) : ¬ C09_full c := by
  intro hf
  have := hf Nat Nat Nat wSim wSim_causal { wSpecClk with rawLabel := fun k => k } 1 [0] true
    [.step none, .step none, .step (some 10)]
  obtain ⟨d, k, f⟩ := c
  simp only at h; subst h
  cases d <;> cases k <;> exact absurd (this (by decide)) (by decide)

/-- What holds whatever the Cfg says: partition invariance and format agreement (above), and — the
settings part restricted to sessions in which every influenced equation is requested (`lazy = false`):
the reported values are the ideal ones as soon as the two grid facts hold. -/
theorem C09_partial_all_requested (c : Cfg) (hd : c.sessionDtFromScenario = true)
    (hk : c.stepClockNormalised = true) {S V L : Type} (sim : Sim S V) (hc : Causal sim)
    (spec : Spec L) (base : S) (eqs : List Nat) (cs : List (Call S))
    (hl : (expand c spec cs 0).length ≤ spec.n + 1) :
    (calls c sim spec eqs false cs (begin base)).1.log =
      (List.range (expand c spec cs 0).length).map (idealRow sim spec base (expand c spec cs 0) eqs) := by
  -- with `lazy = false` the model does not consult `stepFinalisesAll`
  have key : ∀ (ss : List (Option S)) (st : Sess S L V),
      runList c sim spec eqs false ss st = runList ⟨true, true, true⟩ sim spec eqs false ss st := by
    intro ss
    induction ss with
    | nil => intro st; rfl
    | cons s ss ih =>
        intro st
        have : runStep c sim spec eqs false st s = runStep ⟨true, true, true⟩ sim spec eqs false st s := by
          simp [runStep, adv, lbl, hd, hk]
        simp [runList, this, ih]
  have hexp : expand c spec cs 0 = expand ⟨true, true, true⟩ spec cs 0 := by
    have hadv : adv c spec = adv ⟨true, true, true⟩ spec := by simp [adv, hd]
    have : ∀ (cs : List (Call S)) k, expand c spec cs k = expand ⟨true, true, true⟩ spec cs k := by
      intro cs
      induction cs with
      | nil => intro k; rfl
      | cons cl cs ih => intro k; cases cl <;> simp [expand, hadv, ih]
    exact this cs 0
  have hb : (begin base : Sess S L V).k = 0 := rfl
  rw [partition_invariance, hb, key, hexp]
  have := C09_full_of_good ⟨true, true, true⟩ rfl S V L sim hc spec base eqs false cs (by rw [← hexp]; exact hl)
  rw [partition_invariance] at this
  simpa [begin] using this

/-- Non-vacuity: dt-0.25 scenario (`n = 4`), calls `run-step`, `run-steps 2` with a new constant,
`stream-steps`: five rows, labels 0..4, the setting shows from its own step (index 1) on. -/
example : (calls ⟨true, true, true⟩ wSim wSpecClk [0] true
    [.step none, .steps 2 (some 10), .stream none] (begin 1)).1.log
    = [(0, [1]), (1, [101]), (2, [210]), (3, [310])] := by decide

#print axioms C09_full_of_good
#print axioms partition_invariance
#print axioms formats_agree
#print axioms C09_session_equals_batch
#print axioms settings_nothing_before
#print axioms C09_partial_all_requested
#print axioms C09_witness_session_dt
#print axioms C09_witness_clock
#print axioms C09_witness_settings_leak

end Bptk.C09
