import Bptk.Core.C09
/-!
C09 — property theorems.  Quantifiers: every simulator (`Sim`, only assumed causal), every run spec,
every base setting, every list of requested equations, every list of REST calls
(`run-step` / `run-steps m` / `stream-steps`, each with or without settings).
-/
namespace Bptk.C09

/-! ## formats -/

/-- dataframe, dict and json carry the same map (equation, time) ↦ value, on the same labels. -/
theorem formats_agree {S V L : Type} (sim : Sim S V) (spec : Spec L) (base : S) (eqs : List Nat)
    (i k : Nat) (hi : i < eqs.length) (hk : k ≤ spec.n) :
    ((batchDf sim spec base eqs)[k]?).bind (fun r => (r.2[i]?).map (fun v => (r.1, v)))
      = some (spec.label k, batchVal sim base eqs[i] k) ∧
    ((batchDict sim spec base eqs)[i]?).bind (fun d => d.2[k]?)
      = some (spec.label k, batchVal sim base eqs[i] k) := by
  have hk' : k < spec.n + 1 := by omega
  constructor <;> simp [batchDf, batchDict, hk', hi]

/-! ## partition invariance -/

theorem runList_append {S L V : Type} (c : Cfg) (sim : Sim S V) (spec : Spec L) (eqs : List Nat)
    (lazy : Bool) (a b : List (Option S)) : ∀ st : Sess S L V,
    runList c sim spec eqs lazy (a ++ b) st =
      ((runList c sim spec eqs lazy b (runList c sim spec eqs lazy a st).1).1,
       (runList c sim spec eqs lazy a st).2 ++ (runList c sim spec eqs lazy b (runList c sim spec eqs lazy a st).1).2) := by
  induction a with
  | nil => intro st; simp [runList]
  | cons s ss ih => intro st; simp [runList, ih]

theorem runSteps_eq {S L V : Type} (c : Cfg) (sim : Sim S V) (spec : Spec L) (eqs : List Nat)
    (lazy : Bool) (s : Option S) (m : Nat) : ∀ st : Sess S L V,
    runSteps c sim spec eqs lazy m st s = runList c sim spec eqs lazy (List.replicate m s) st := by
  induction m with
  | zero => intro st; simp [runSteps, runList]
  | succ m ih => intro st; simp [runSteps, runList, List.replicate_succ, ih]

theorem runStep_k {S L V : Type} (c : Cfg) (sim : Sim S V) (spec : Spec L) (eqs : List Nat)
    (lazy : Bool) (st : Sess S L V) (s : Option S) :
    (runStep c sim spec eqs lazy st s).1.k = tick spec.n (adv c spec) st.k := by
  unfold runStep tick
  split <;> rfl

theorem stream_eq {S L V : Type} (c : Cfg) (sim : Sim S V) (spec : Spec L) (eqs : List Nat)
    (lazy : Bool) (s : Option S) (f : Nat) : ∀ st : Sess S L V,
    stream c sim spec eqs lazy f st s =
      runList c sim spec eqs lazy (List.replicate (streamCount spec.n (adv c spec) f st.k) s) st := by
  induction f with
  | zero => intro st; simp [stream, streamCount, runList]
  | succ f ih =>
      intro st
      simp only [stream, streamCount]
      split
      · simp [runList]
      · rename_i hk
        have hk2 : (runStep c sim spec eqs lazy st s).1.k = st.k + adv c spec := by
          rw [runStep_k]; simp [tick, hk]
        rw [ih, hk2, Nat.add_comm 1, List.replicate_succ]
        simp [runList]

theorem runList_k {S L V : Type} (c : Cfg) (sim : Sim S V) (spec : Spec L) (eqs : List Nat)
    (lazy : Bool) (s : Option S) (m : Nat) : ∀ st : Sess S L V,
    (runList c sim spec eqs lazy (List.replicate m s) st).1.k = ticks spec.n (adv c spec) m st.k := by
  induction m with
  | zero => intro st; simp [runList, ticks]
  | succ m ih => intro st; simp [runList, ticks, List.replicate_succ, ih, runStep_k]

/-- **Partition invariance**: any list of `run-step` / `run-steps` / `stream-steps` calls leaves the
session in the state, and returns concatenated the replies, of the corresponding single `run-step`s. -/
theorem partition_invariance {S L V : Type} (c : Cfg) (sim : Sim S V) (spec : Spec L) (eqs : List Nat)
    (lazy : Bool) (cs : List (Call S)) : ∀ st : Sess S L V,
    calls c sim spec eqs lazy cs st = runList c sim spec eqs lazy (expand c spec cs st.k) st := by
  induction cs with
  | nil => intro st; simp [calls, expand, runList]
  | cons cl cs ih =>
      intro st
      cases cl with
      | step s =>
          simp only [calls, call, expand]
          rw [runList_append, ih]
          have : (runList c sim spec eqs lazy [s] st).1.k = ticks spec.n (adv c spec) 1 st.k := by
            simpa using runList_k c sim spec eqs lazy s 1 st
          rw [this]
      | steps m s =>
          simp only [calls, call, expand]
          rw [runList_append, ih, runSteps_eq, runList_k]
      | stream s =>
          simp only [calls, call, expand]
          rw [runList_append, ih, stream_eq, runList_k]

/-! ## what a session reports -/

/-- the simulator looks only backwards in time -/
def Causal {S V : Type} (sim : Sim S V) : Prop :=
  ∀ (f g : Nat → S) (e k : Nat), (∀ i, i ≤ k → f i = g i) → sim.val f e k = sim.val g e k

/-- the row the property demands for grid index `j` when the single steps carried the settings `ss`:
the batch label, and values computed with each step's settings in force from that step on. -/
def idealRow {S V L : Type} (sim : Sim S V) (spec : Spec L) (base : S) (ss : List (Option S))
    (eqs : List Nat) (j : Nat) : Row L V :=
  (spec.label j, eqs.map fun e => sim.val (accAt sim base ss) e j)

theorem accAt_append {S V : Type} (sim : Sim S V) (base : S) (a b : List (Option S)) (i : Nat)
    (h : i < a.length) : accAt sim base (a ++ b) i = accAt sim base a i := by
  unfold accAt
  rw [List.take_append_of_le_length (by omega)]

theorem accAt_last {S V : Type} (sim : Sim S V) (base : S) (a : List (Option S)) (s : Option S) :
    accAt sim base (a ++ [s]) a.length = mergeOpt sim (a.foldl (mergeOpt sim) base) s := by
  unfold accAt
  rw [List.take_of_length_le (by simp)]
  simp [List.foldl_append]

theorem idealRow_append {S V L : Type} (sim : Sim S V) (hc : Causal sim) (spec : Spec L) (base : S)
    (a b : List (Option S)) (eqs : List Nat) (j : Nat) (h : j < a.length) :
    idealRow sim spec base (a ++ b) eqs j = idealRow sim spec base a eqs j := by
  unfold idealRow
  congr 1
  apply List.map_congr_left
  intro e _
  exact hc _ _ e j (fun i hi => accAt_append sim base a b i (by omega))

structure SInv {S V L : Type} (sim : Sim S V) (spec : Spec L) (base : S) (eqs : List Nat)
    (st : Sess S L V) (done : List (Option S)) : Prop where
  clock : st.k = done.length
  acc : st.acc = done.foldl (mergeOpt sim) base
  hist : ∀ i, i < done.length → st.hist i = accAt sim base done i
  log : st.log = (List.range done.length).map (idealRow sim spec base done eqs)

theorem sinv_step {S V L : Type} (c : Cfg) (hg : c.good = true) (sim : Sim S V) (hc : Causal sim)
    (spec : Spec L) (base : S) (eqs : List Nat) (lazy : Bool) (st : Sess S L V)
    (done : List (Option S)) (s : Option S) (h : SInv sim spec base eqs st done)
    (hn : done.length ≤ spec.n) :
    SInv sim spec base eqs (runStep c sim spec eqs lazy st s).1 (done ++ [s]) := by
  simp only [Cfg.good, Bool.and_eq_true] at hg
  obtain ⟨⟨hdt, hclk⟩, hfin⟩ := hg
  have hk : ¬ st.k > spec.n := by rw [h.clock]; omega
  have hhist : ∀ i, i ≤ done.length →
      (fun i => if i < st.k then st.hist i else mergeOpt sim st.acc s) i = accAt sim base (done ++ [s]) i := by
    intro i hi
    simp only
    split
    · rename_i hlt
      rw [h.clock] at hlt
      rw [h.hist i hlt, accAt_append sim base done [s] i hlt]
    · rename_i hge
      rw [h.clock] at hge
      have : i = done.length := by omega
      subst this
      rw [accAt_last, h.acc]
  unfold runStep
  simp only [hk, if_false, hfin, Bool.true_or, if_true, adv, hdt, lbl, hclk]
  refine ⟨by simp [h.clock], by simp [h.acc, List.foldl_append], ?_, ?_⟩
  · intro i hi
    simp only [List.length_append, List.length_singleton] at hi
    exact hhist i (by omega)
  · simp only [List.length_append, List.length_singleton, List.range_succ, List.map_append,
      List.map_cons, List.map_nil]
    rw [h.log]
    congr 1
    · apply List.map_congr_left
      intro j hj
      rw [idealRow_append sim hc spec base done [s] eqs j (by simpa using hj)]
    · unfold idealRow
      rw [h.clock]
      congr 2
      apply List.map_congr_left
      intro e _
      exact hc _ _ e done.length (fun i hi => by have := hhist i hi; simpa [h.clock] using this)

theorem sinv_runList {S V L : Type} (c : Cfg) (hg : c.good = true) (sim : Sim S V) (hc : Causal sim)
    (spec : Spec L) (base : S) (eqs : List Nat) (lazy : Bool) (rest : List (Option S)) :
    ∀ (st : Sess S L V) (done : List (Option S)), SInv sim spec base eqs st done →
      done.length + rest.length ≤ spec.n + 1 →
      SInv sim spec base eqs (runList c sim spec eqs lazy rest st).1 (done ++ rest) := by
  induction rest with
  | nil => intro st done h _; simpa [runList] using h
  | cons s rest ih =>
      intro st done h hl
      simp only [List.length_cons] at hl
      have := ih _ (done ++ [s]) (sinv_step c hg sim hc spec base eqs lazy st done s h (by omega))
        (by simp; omega)
      simpa [runList] using this

/-- **The session reports, for whatever partition into calls, exactly the ideal rows**: batch labels
(the grid), and values in which the settings of each step are in force from that step on and not before. -/
def C09_channels (c : Cfg) : Prop :=
  ∀ (S V L : Type) (sim : Sim S V), Causal sim →
  ∀ (spec : Spec L) (base : S) (eqs : List Nat) (lazy : Bool) (cs : List (Call S)),
    (expand c spec cs 0).length ≤ spec.n + 1 →
    (calls c sim spec eqs lazy cs (begin base)).1.log =
      (List.range (expand c spec cs 0).length).map (idealRow sim spec base (expand c spec cs 0) eqs)

theorem C09_channels_of_good (c : Cfg) (hg : c.good = true) : C09_channels c := by
  intro S V L sim hc spec base eqs lazy cs hl
  rw [partition_invariance]
  have h0 : SInv sim spec base eqs (begin base : Sess S L V) [] :=
    ⟨rfl, rfl, by intro i hi; simp at hi, by simp [begin]⟩
  have := sinv_runList c hg sim hc spec base eqs lazy (expand c spec cs 0) (begin base) [] h0
    (by simpa [begin] using hl)
  simpa [begin] using this.log

/-! ### corollaries in the words of the statement -/

theorem streamCount_full (n : Nat) : ∀ f k, k + f = n + 1 → streamCount n 1 f k = f := by
  intro f
  induction f with
  | zero => intro k _; rfl
  | succ f ih =>
      intro k h
      simp only [streamCount]
      have : ¬ k > n := by omega
      simp only [this, if_false]
      rw [ih (k + 1) (by omega)]; omega

theorem accAt_none {S V : Type} (sim : Sim S V) (base : S) (m i : Nat) :
    accAt sim base (List.replicate m none) i = base := by
  unfold accAt
  rw [List.take_replicate]
  generalize min (i + 1) m = r
  induction r with
  | zero => rfl
  | succ r ih => simpa [List.replicate_succ, mergeOpt] using ih

/-- **Session grid = batch grid, session values = batch values** (no settings): streaming a fresh
session to the end yields exactly the rows of the batch dataframe. -/
theorem C09_session_equals_batch (c : Cfg) (hg : c.good = true) {S V L : Type} (sim : Sim S V)
    (hc : Causal sim) (spec : Spec L) (base : S) (eqs : List Nat) (lazy : Bool) :
    (calls c sim spec eqs lazy [.stream none] (begin base)).1.log = batchDf sim spec base eqs := by
  have hadv : adv c spec = 1 := by
    simp only [Cfg.good, Bool.and_eq_true] at hg; simp [adv, hg.1.1]
  have hlen : (expand c spec [Call.stream (none : Option S)] 0).length = spec.n + 1 := by
    simp [expand, hadv, streamCount_full spec.n (spec.n + 1) 0 (by omega)]
  have := C09_channels_of_good c hg S V L sim hc spec base eqs lazy [.stream none] (by omega)
  rw [this, hlen]
  unfold batchDf
  apply List.map_congr_left
  intro j _
  unfold idealRow batchVal
  congr 1
  apply List.map_congr_left
  intro e _
  apply hc
  intro i _
  simp [expand, hadv, streamCount_full spec.n (spec.n + 1) 0 (by omega), accAt_none]

/-- **Nothing before it**: two runs whose single steps carry the same settings up to (excluding)
step `k` report identical rows for all steps before `k`, whatever follows. -/
theorem settings_nothing_before {S V L : Type} (sim : Sim S V) (hc : Causal sim) (spec : Spec L)
    (base : S) (eqs : List Nat) (pre a b : List (Option S)) (j : Nat) (hj : j < pre.length) :
    idealRow sim spec base (pre ++ a) eqs j = idealRow sim spec base (pre ++ b) eqs j := by
  rw [idealRow_append sim hc spec base pre a eqs j hj, idealRow_append sim hc spec base pre b eqs j hj]

/-- a step past the stop time answers "Stoptime reached" and changes nothing -/
theorem runStep_stopped {S V L : Type} (c : Cfg) (sim : Sim S V) (spec : Spec L) (eqs : List Nat)
    (lazy : Bool) (st : Sess S L V) (s : Option S) (h : st.k > spec.n) :
    runStep c sim spec eqs lazy st s = (st, .stopped) := by
  simp [runStep, h]

/-! ## Wave 2 — "settings from step k on, nothing before" derived at memo level

The session of `Core/C09` (`mstep`) runs C08's model of `Model.memoize` (`C08.evalK`) with definitions that
change between steps and a memo that is never reset.  Reference: the big-step value of an expression
under **time-varying definitions** — a reference to grid index `i` uses the definitions in force at `i`. -/

open Bptk.C08 (Expr Memo Key look Ops evalE evalK)

/- two facts about C08's `look` / `evalK` (also proved in Props/C08; restated here so that this file depends
on the model `Core/C08` only) -/
theorem look_cons' {α : Type} (m : Memo α) (k key : Key) (v : α) :
    look ((k, v) :: m) key = if k = key then some v else look m key := rfl

theorem evalK_stored' {α : Type} (ops : Ops α) (body : Nat → Expr α) (fuel : Nat) (m : Memo α)
    (key : Key) (v : α) (h : (evalK ops body fuel m key).2 = some v) :
    look (evalK ops body fuel m key).1 key = some v := by
  cases fuel with
  | zero => simp [evalK] at h
  | succ f =>
      simp only [evalK] at h ⊢
      cases hl : look m key with
      | some w => simp only [hl] at h ⊢; simp at h; subst h; rfl
      | none =>
          simp only [hl] at h ⊢
          rcases hee : evalE ops (evalK ops body f) (body key.1) key.2 m with ⟨m1, r⟩
          rw [hee] at h
          cases r with
          | none => simp at h
          | some x => simp at h; subst h; simp [look_cons']

/-- carrier of the witnesses: integers with `+ - * /` and `max(0, ·)` -/
def wOps : Ops Int := { bin := fun op x y => match op with | 0 => x + y | 1 => x - y | 2 => x * y | _ => x / y
                        max0 := fun x => if x < 0 then 0 else x }

inductive ValT {α : Type} (ops : Ops α) (defs : Nat → Nat → Expr α) : Expr α → Nat → α → Prop where
  | lit (x : α) (k : Nat) : ValT ops defs (.lit x) k x
  | ref (n k : Nat) (v : α) : ValT ops defs (defs k n) k v → ValT ops defs (.ref n) k v
  | prev (n k : Nat) (v : α) : ValT ops defs (defs k n) k v → ValT ops defs (.prev n) (k + 1) v
  | bin (op : Nat) (a b : Expr α) (k : Nat) (x y : α) :
      ValT ops defs a k x → ValT ops defs b k y → ValT ops defs (.bin op a b) k (ops.bin op x y)
  | max0 (a : Expr α) (k : Nat) (x : α) : ValT ops defs a k x → ValT ops defs (.max0 a) k (ops.max0 x)
  | atStart0 (a b : Expr α) (v : α) : ValT ops defs a 0 v → ValT ops defs (.atStart a b) 0 v
  | atStartS (a b : Expr α) (k : Nat) (v : α) :
      ValT ops defs b (k + 1) v → ValT ops defs (.atStart a b) (k + 1) v
  | lookup (p : Nat) (a : Expr α) (k : Nat) (x : α) :
      ValT ops defs a k x → ValT ops defs (.lookup p a) k (ops.lookup p x)

/-- pointwise relation of two lists (core Lean has no `Forall₂`) -/
inductive Rel₂ {β γ : Type} (R : β → γ → Prop) : List β → List γ → Prop where
  | nil : Rel₂ R [] []
  | cons {b : β} {c : γ} {bs : List β} {cs : List γ} : R b c → Rel₂ R bs cs → Rel₂ R (b :: bs) (c :: cs)

theorem Rel₂.imp {β γ : Type} {R R' : β → γ → Prop} {bs : List β} {cs : List γ}
    (h : ∀ b c, R b c → R' b c) (r : Rel₂ R bs cs) : Rel₂ R' bs cs := by
  induction r with
  | nil => exact .nil
  | cons hr _ ih => exact .cons (h _ _ hr) ih

/-- the ideal value is unique -/
theorem ValT.det {α : Type} {ops : Ops α} {defs : Nat → Nat → Expr α} {e : Expr α} {k : Nat} {v w : α}
    (h1 : ValT ops defs e k v) (h2 : ValT ops defs e k w) : v = w := by
  induction h1 generalizing w with
  | lit x k => cases h2; rfl
  | ref n k v _ ih => cases h2 with | ref _ _ _ h => exact ih h
  | prev n k v _ ih => cases h2 with | prev _ _ _ h => exact ih h
  | bin op a b k x y _ _ iha ihb =>
      cases h2 with | bin _ _ _ _ x' y' ha hb => rw [iha ha, ihb hb]
  | max0 a k x _ ih => cases h2 with | max0 _ _ x' h => rw [ih h]
  | atStart0 a b v _ ih => cases h2 with | atStart0 _ _ _ h => exact ih h
  | atStartS a b k v _ ih => cases h2 with | atStartS _ _ _ _ h => exact ih h
  | lookup p a k x _ ih => cases h2 with | lookup _ _ _ x' h => rw [ih h]

/-- **nothing before it**, at the level of values: the value at grid index `k` depends only on the
definitions in force at indices `≤ k` -/
theorem ValT.congr {α : Type} {ops : Ops α} {defs defs' : Nat → Nat → Expr α} {e : Expr α} {k : Nat} {v : α}
    (h : ValT ops defs e k v) : (∀ i, i ≤ k → defs i = defs' i) → ValT ops defs' e k v := by
  induction h with
  | lit x k => intro _; exact .lit x k
  | ref n k v _ ih => intro hag; have := ih hag; rw [hag k (Nat.le_refl k)] at this; exact .ref n k v this
  | prev n k v _ ih =>
      intro hag
      have := ih (fun i hi => hag i (Nat.le_succ_of_le hi))
      rw [hag k (Nat.le_succ k)] at this; exact .prev n k v this
  | bin op a b k x y _ _ iha ihb => intro hag; exact .bin op a b k x y (iha hag) (ihb hag)
  | max0 a k x _ ih => intro hag; exact .max0 a k x (ih hag)
  | atStart0 a b v _ ih => intro hag; exact .atStart0 a b v (ih hag)
  | atStartS a b k v _ ih => intro hag; exact .atStartS a b k v (ih hag)
  | lookup p a k x _ ih => intro hag; exact .lookup p a k x (ih hag)

/-- every element reference of the expression names one of the scenario's `nEq` equations -/
def Closed {α : Type} (nEq : Nat) : Expr α → Prop
  | .lit _ => True
  | .ref n => n < nEq
  | .prev n => n < nEq
  | .bin _ a b => Closed nEq a ∧ Closed nEq b
  | .max0 a => Closed nEq a
  | .atStart a b => Closed nEq a ∧ Closed nEq b
  | .rnd => True
  | .lookup _ a => Closed nEq a

/-- the memo during step `j`: every entry is the ideal value of its key and lies at an index `≤ j`;
**every equation has an entry at every earlier index** (what finalisation of all equations establishes) -/
structure MemInv {α : Type} (ops : Ops α) (defs : Nat → Nat → Expr α) (nEq j : Nat) (m : Memo α) : Prop where
  sound : ∀ n i v, look m (n, i) = some v → i ≤ j ∧ ValT ops defs (defs i n) i v
  complete : ∀ n i, n < nEq → i < j → ∃ v, look m (n, i) = some v

def Mono {α : Type} (m m' : Memo α) : Prop := ∀ key v, look m key = some v → look m' key = some v

theorem MemInv.of_mono {α : Type} {ops : Ops α} {defs : Nat → Nat → Expr α} {nEq j : Nat} {m m' : Memo α}
    (h : MemInv ops defs nEq j m) (hm : Mono m m')
    (hs : ∀ n i v, look m' (n, i) = some v → i ≤ j ∧ ValT ops defs (defs i n) i v) : MemInv ops defs nEq j m' :=
  ⟨hs, fun n i hn hi => by obtain ⟨v, hv⟩ := h.complete n i hn hi; exact ⟨v, hm _ _ hv⟩⟩

/-- specification of a key evaluator during step `j` (keys of the scenario at indices `≤ j`) -/
def EvOK {α : Type} (ops : Ops α) (defs : Nat → Nat → Expr α) (nEq j : Nat)
    (ev : Memo α → Key → Memo α × Option α) : Prop :=
  ∀ m n i, n < nEq → i ≤ j → MemInv ops defs nEq j m →
    MemInv ops defs nEq j (ev m (n, i)).1 ∧ Mono m (ev m (n, i)).1 ∧
    ∀ v, (ev m (n, i)).2 = some v → ValT ops defs (defs i n) i v

theorem evalE_ok {α : Type} (ops : Ops α) (defs : Nat → Nat → Expr α) (nEq j : Nat)
    (ev : Memo α → Key → Memo α × Option α) (hev : EvOK ops defs nEq j ev) :
    ∀ (e : Expr α), Closed nEq e → ∀ (i : Nat) (m : Memo α), i ≤ j → MemInv ops defs nEq j m →
      MemInv ops defs nEq j (evalE ops ev e i m).1 ∧ Mono m (evalE ops ev e i m).1 ∧
      ∀ v, (evalE ops ev e i m).2 = some v → ValT ops defs e i v := by
  intro e
  induction e with
  | lit x =>
      intro _ i m _ hm
      exact ⟨hm, fun _ _ h => h, by intro v h; simp [evalE] at h; subst h; exact .lit x i⟩
  | ref n =>
      intro hc i m hi hm
      have := hev m n i hc hi hm
      exact ⟨this.1, this.2.1, fun v h => .ref n i v (this.2.2 v h)⟩
  | prev n =>
      intro hc i m hi hm
      cases i with
      | zero => exact ⟨hm, fun _ _ h => h, by intro v h; simp [evalE] at h⟩
      | succ i' =>
          have := hev m n i' hc (by omega) hm
          exact ⟨this.1, this.2.1, fun v h => .prev n i' v (this.2.2 v h)⟩
  | bin op a b iha ihb =>
      intro hc i m hi hm
      have ha := iha hc.1 i m hi hm
      rcases hea : evalE ops ev a i m with ⟨m1, ra⟩
      rw [hea] at ha
      cases ra with
      | none => simp only [evalE, hea]; exact ⟨ha.1, ha.2.1, by intro v h; simp at h⟩
      | some x =>
          have hb := ihb hc.2 i m1 hi ha.1
          rcases heb : evalE ops ev b i m1 with ⟨m2, rb⟩
          rw [heb] at hb
          have hmono : Mono m m2 := fun key v h => hb.2.1 key v (ha.2.1 key v h)
          cases rb with
          | none => simp only [evalE, hea, heb]; exact ⟨hb.1, hmono, by intro v h; simp at h⟩
          | some y =>
              simp only [evalE, hea, heb]
              refine ⟨hb.1, hmono, ?_⟩
              intro v h; simp at h; subst h
              exact .bin op a b i x y (ha.2.2 x rfl) (hb.2.2 y rfl)
  | max0 a iha =>
      intro hc i m hi hm
      have ha := iha hc i m hi hm
      rcases hea : evalE ops ev a i m with ⟨m1, ra⟩
      rw [hea] at ha
      cases ra with
      | none => simp only [evalE, hea]; exact ⟨ha.1, ha.2.1, by intro v h; simp at h⟩
      | some x =>
          simp only [evalE, hea]
          refine ⟨ha.1, ha.2.1, ?_⟩
          intro v h; simp at h; subst h
          exact .max0 a i x (ha.2.2 x rfl)
  | atStart a b iha ihb =>
      intro hc i m hi hm
      cases i with
      | zero =>
          have ha := iha hc.1 0 m hi hm
          exact ⟨ha.1, ha.2.1, fun v h => .atStart0 a b v (ha.2.2 v h)⟩
      | succ i' =>
          have hb := ihb hc.2 (i' + 1) m hi hm
          exact ⟨hb.1, hb.2.1, fun v h => .atStartS a b i' v (hb.2.2 v h)⟩
  | rnd =>
      intro _ i m _ hm
      exact ⟨hm, fun _ _ h => h, by intro v h; simp [evalE] at h⟩
  | lookup p a iha =>
      intro hc i m hi hm
      have ha := iha hc i m hi hm
      rcases hea : evalE ops ev a i m with ⟨m1, ra⟩
      rw [hea] at ha
      cases ra with
      | none => simp only [evalE, hea]; exact ⟨ha.1, ha.2.1, by intro v h; simp at h⟩
      | some x =>
          simp only [evalE, hea]
          refine ⟨ha.1, ha.2.1, ?_⟩
          intro v h; simp at h; subst h
          exact .lookup p a i x (ha.2.2 x rfl)

/-- **`memoize` during step `j`** (C08's `evalK` run with the definitions in force at `j`): because every
equation already has its entry at every earlier index, a miss can only happen AT index `j`, where the
current definitions are the right ones — so every value returned, at whatever index, is the ideal one. -/
theorem evalK_ok {α : Type} (ops : Ops α) (defs : Nat → Nat → Expr α) (nEq j : Nat)
    (hcl : ∀ n, n < nEq → Closed nEq (defs j n)) :
    ∀ fuel, EvOK ops defs nEq j (evalK ops (defs j) fuel) := by
  intro fuel
  induction fuel with
  | zero => intro m n i _ _ hm; exact ⟨hm, fun _ _ h => h, by intro v h; simp [evalK] at h⟩
  | succ f ih =>
      intro m n i hn hi hm
      simp only [evalK]
      cases hl : look m (n, i) with
      | some v =>
          refine ⟨hm, fun _ _ h => h, ?_⟩
          intro w h; simp at h; subst h; exact (hm.sound n i v hl).2
      | none =>
          have hij : i = j := by
            rcases Nat.lt_or_ge i j with h | h
            · obtain ⟨v, hv⟩ := hm.complete n i hn h; rw [hl] at hv; cases hv
            · omega
          subst hij
          have he := evalE_ok ops defs nEq i _ ih (defs i n) (hcl n hn) i m (Nat.le_refl i) hm
          rcases hee : evalE ops (evalK ops (defs i) f) (defs i n) i m with ⟨m1, r⟩
          simp only [hee] at he ⊢
          cases r with
          | none => exact ⟨he.1, he.2.1, by intro v h; simp at h⟩
          | some v =>
              have hv := he.2.2 v rfl
              have hmono : Mono m ((((n, i) : Key), v) :: m1) := by
                intro key w h
                rw [look_cons']
                split
                · rename_i hk; subst hk; rw [hl] at h; cases h
                · exact he.2.1 key w h
              refine ⟨hm.of_mono hmono ?_, hmono, ?_⟩
              · intro n' i' w h
                rw [look_cons'] at h
                split at h
                · rename_i hk; cases hk; cases h; exact ⟨Nat.le_refl _, hv⟩
                · exact he.1.sound n' i' w h
              · intro w h; simp at h; subst h; exact hv

/-- a list of equations evaluated at index `j`: each returned value is the ideal one and is stored -/
theorem evalList_ok {α : Type} (ops : Ops α) (defs : Nat → Nat → Expr α) (nEq j fuel : Nat)
    (hcl : ∀ n, n < nEq → Closed nEq (defs j n)) :
    ∀ (es : List Nat), (∀ e ∈ es, e < nEq) → ∀ (m m' : Memo α) (vs : List α), MemInv ops defs nEq j m →
      evalList ops (defs j) fuel j es m = some (m', vs) →
      MemInv ops defs nEq j m' ∧ Mono m m' ∧ Rel₂ (fun e v => ValT ops defs (defs j e) j v) es vs ∧
      ∀ e ∈ es, ∃ v, look m' (e, j) = some v := by
  intro es
  induction es with
  | nil =>
      intro _ m m' vs hm h
      simp only [evalList, Option.some.injEq, Prod.mk.injEq] at h
      obtain ⟨rfl, rfl⟩ := h
      exact ⟨hm, fun _ _ h => h, .nil, by intro e he; cases he⟩
  | cons e es ih =>
      intro hes m m' vs hm h
      simp only [evalList] at h
      have hk := evalK_ok ops defs nEq j hcl fuel m e j (hes e List.mem_cons_self) (Nat.le_refl j) hm
      rcases hek : evalK ops (defs j) fuel m (e, j) with ⟨m1, r⟩
      rw [hek] at h hk
      cases r with
      | none => simp at h
      | some v =>
          simp only at h
          cases hr : evalList ops (defs j) fuel j es m1 with
          | none => rw [hr] at h; simp at h
          | some p =>
              obtain ⟨m2, ws⟩ := p
              rw [hr] at h
              simp only [Option.some.injEq, Prod.mk.injEq] at h
              obtain ⟨rfl, rfl⟩ := h
              have hrest := ih (fun x hx => hes x (List.mem_cons_of_mem _ hx)) m1 m2 ws hk.1 hr
              have hst : look m1 (e, j) = some v := by
                have := evalK_stored' ops (defs j) fuel m (e, j) v (by rw [hek])
                rw [hek] at this; exact this
              refine ⟨hrest.1, fun key w hw => hrest.2.1 key w (hk.2.1 key w hw), .cons (hk.2.2 v rfl) hrest.2.2.1, ?_⟩
              intro x hx
              rcases List.mem_cons.mp hx with rfl | hx'
              · exact ⟨v, hrest.2.1 _ _ hst⟩
              · exact hrest.2.2.2 x hx'

theorem closed_applySet {α : Type} (nEq : Nat) (body : Nat → Expr α) (s : CSet α)
    (h : ∀ n, n < nEq → Closed nEq (body n)) : ∀ n, n < nEq → Closed nEq (applySet body s n) := by
  induction s generalizing body with
  | nil => exact h
  | cons p rest ih =>
      simp only [applySet, List.foldl_cons] at ih ⊢
      apply ih
      intro n hn
      simp only [C08.updFn]
      split
      · trivial
      · exact h n hn

theorem defsAt_append_lt {α : Type} (base : Nat → Expr α) (a b : List (CSet α)) (i : Nat) (h : i < a.length) :
    defsAt base (a ++ b) i = defsAt base a i := by
  unfold defsAt
  rw [List.take_append_of_le_length (by omega)]

theorem defsAt_last {α : Type} (base : Nat → Expr α) (a : List (CSet α)) (s : CSet α) :
    defsAt base (a ++ [s]) a.length = applySet (a.foldl applySet base) s := by
  unfold defsAt
  rw [List.take_of_length_le (by simp)]
  simp [List.foldl_append]

theorem closed_defs {α : Type} (nEq : Nat) (base : Nat → Expr α) (hb : ∀ n, n < nEq → Closed nEq (base n))
    (ss : List (CSet α)) : ∀ n, n < nEq → Closed nEq (ss.foldl applySet base n) := by
  induction ss generalizing base with
  | nil => exact hb
  | cons s rest ih => simp only [List.foldl_cons]; exact ih _ (closed_applySet nEq base s hb)

/-- session invariant between steps, after the single steps `done` -/
structure MSInv {α : Type} (ops : Ops α) (nEq : Nat) (base : Nat → Expr α) (eqs : List Nat)
    (st : MSess α) (done : List (CSet α)) : Prop where
  clock : st.k = done.length
  body : st.body = done.foldl applySet base
  sound : ∀ n i v, look st.memo (n, i) = some v →
    i < done.length ∧ ValT ops (defsAt base done) (defsAt base done i n) i v
  complete : ∀ n i, n < nEq → i < done.length → ∃ v, look st.memo (n, i) = some v
  loglen : st.log.length = done.length
  log : ∀ j row, st.log[j]? = some row →
    Rel₂ (fun e v => ValT ops (defsAt base done) (defsAt base done j e) j v) eqs row

theorem msinv_step {α : Type} (ops : Ops α) (nEq : Nat) (kind : Nat → C08.Kind) (base : Nat → Expr α)
    (hb : ∀ n, n < nEq → Closed nEq (base n)) (fuel : Nat) (eqs : List Nat) (heqs : ∀ e ∈ eqs, e < nEq)
    (st st' : MSess α) (done : List (CSet α)) (s : CSet α) (h : MSInv ops nEq base eqs st done)
    (hs : mstep .all true true nEq kind ops fuel eqs st s = some st') :
    MSInv ops nEq base eqs st' (done ++ [s]) := by
  -- the definitions of the extended run; they agree with the old ones below `done.length`
  have hagree : ∀ i, i < done.length → ∀ i', i' ≤ i → defsAt base done i' = defsAt base (done ++ [s]) i' :=
    fun i hi i' hi' => (defsAt_append_lt base done [s] i' (by omega)).symm
  have hcur : defsAt base (done ++ [s]) done.length = applySet st.body s := by rw [defsAt_last, h.body]
  have hcl : ∀ n, n < nEq → Closed nEq (defsAt base (done ++ [s]) done.length n) := by
    rw [hcur, h.body]; exact closed_applySet nEq _ s (closed_defs nEq base hb done)
  have hm0 : MemInv ops (defsAt base (done ++ [s])) nEq done.length st.memo := by
    refine ⟨?_, h.complete⟩
    intro n i v hl
    obtain ⟨hi, hv⟩ := h.sound n i v hl
    refine ⟨by omega, ?_⟩
    have := hv.congr (hagree i hi)
    rw [hagree i hi i (Nat.le_refl i)] at this; exact this
  simp only [mstep, ↓reduceIte] at hs
  rw [← hcur, h.clock] at hs
  cases h1 : evalList ops (defsAt base (done ++ [s]) done.length) fuel done.length eqs st.memo with
  | none => rw [h1] at hs; simp at hs
  | some p1 =>
      obtain ⟨m1, row⟩ := p1
      rw [h1] at hs
      simp only at hs
      cases h2 : evalList ops (defsAt base (done ++ [s]) done.length) fuel done.length (finList .all nEq kind) m1 with
      | none => rw [h2] at hs; simp at hs
      | some p2 =>
          obtain ⟨m2, fin⟩ := p2
          rw [h2] at hs
          simp only [Option.some.injEq] at hs
          subst hs
          have r1 := evalList_ok ops _ nEq done.length fuel hcl eqs heqs st.memo m1 row hm0 h1
          have r2 := evalList_ok ops _ nEq done.length fuel hcl (finList .all nEq kind)
            (by intro e he; simpa [finList] using he) m1 m2 fin r1.1 h2
          refine ⟨by simp [h.clock], by show defsAt base (done ++ [s]) done.length = _; rw [defsAt_last]; simp [List.foldl_append], ?_, ?_, by simp [h.loglen], ?_⟩
          · intro n i v hl
            obtain ⟨hi, hv⟩ := r2.1.sound n i v hl
            exact ⟨by simp; omega, hv⟩
          · intro n i hn hi
            simp only [List.length_append, List.length_singleton] at hi
            rcases Nat.lt_or_ge i done.length with hlt | hge
            · exact r2.1.complete n i hn hlt
            · have : i = done.length := by omega
              subst this
              exact r2.2.2.2 n (by simpa [finList] using hn)
          · intro j rw' hj
            simp only at hj
            rcases Nat.lt_or_ge j st.log.length with hlt | hge
            · rw [List.getElem?_append_left hlt] at hj
              have hold := h.log j rw' hj
              have hjd : j < done.length := by rw [← h.loglen]; exact hlt
              refine Rel₂.imp ?_ hold
              intro e v hv
              have := hv.congr (hagree j hjd)
              rw [hagree j hjd j (Nat.le_refl j)] at this; exact this
            · rw [List.getElem?_append_right hge] at hj
              have hj0 : j - st.log.length = 0 := by
                rcases Nat.eq_zero_or_pos (j - st.log.length) with h0 | hp
                · exact h0
                · rw [List.getElem?_eq_none (by simp; omega)] at hj; cases hj
              rw [hj0] at hj
              simp only [List.getElem?_cons_zero, Option.some.injEq] at hj
              subst hj
              have : j = done.length := by rw [← h.loglen]; omega
              subst this
              exact r1.2.2.1

/-- **Settings from step k on, nothing before — derived from the memo mechanics.**  With every equation of
the scenario evaluated at each step: whatever the step settings, the requested list and the fuel, if the
session of `ss.length` steps returns, row `j` of its log holds for every requested equation THE value of
that equation at `t_j` under the definitions in force at each grid index (`ValT` is deterministic), i.e. the
settings of step `k` act on the rows `≥ k` and on no earlier one (`ValT.congr`). -/
def MemoSessionOK (fs : FinSet) (keep perKey : Bool) : Prop :=
  ∀ (α : Type) (ops : Ops α) (nEq : Nat) (kind : Nat → C08.Kind) (base : Nat → Expr α),
    (∀ n, n < nEq → Closed nEq (base n)) →
    ∀ (fuel : Nat) (eqs : List Nat), (∀ e ∈ eqs, e < nEq) →
    ∀ (ss : List (CSet α)) (st : MSess α), msteps fs keep perKey nEq kind ops fuel eqs ss (mbegin base) = some st →
      st.log.length = ss.length ∧
      ∀ j row, st.log[j]? = some row →
        Rel₂ (fun e v => ValT ops (defsAt base ss) (defsAt base ss j e) j v) eqs row

theorem msinv_run {α : Type} (ops : Ops α) (nEq : Nat) (kind : Nat → C08.Kind) (base : Nat → Expr α)
    (hb : ∀ n, n < nEq → Closed nEq (base n)) (fuel : Nat) (eqs : List Nat) (heqs : ∀ e ∈ eqs, e < nEq)
    (rest : List (CSet α)) : ∀ (st st' : MSess α) (done : List (CSet α)), MSInv ops nEq base eqs st done →
      msteps .all true true nEq kind ops fuel eqs rest st = some st' → MSInv ops nEq base eqs st' (done ++ rest) := by
  induction rest with
  | nil => intro st st' done h hs; simp only [msteps, Option.some.injEq] at hs; subst hs; simpa using h
  | cons s rest ih =>
      intro st st' done h hs
      simp only [msteps] at hs
      cases h1 : mstep .all true true nEq kind ops fuel eqs st s with
      | none => rw [h1] at hs; simp at hs
      | some st1 =>
          rw [h1] at hs
          have := ih st1 st' (done ++ [s]) (msinv_step ops nEq kind base hb fuel eqs heqs st st1 done s h h1) hs
          simpa using this

theorem memo_session_ideal : MemoSessionOK .all true true := by
  unfold MemoSessionOK
  intro α ops nEq kind base hb fuel eqs heqs ss st hs
  have h0 : MSInv ops nEq base eqs (mbegin base) [] :=
    ⟨rfl, rfl, by intro n i v h; simp [mbegin, look] at h, by intro n i _ hi; simp at hi, rfl,
     by intro j row h; simp [mbegin] at h⟩
  have := msinv_run ops nEq kind base hb fuel eqs heqs ss (mbegin base) st [] h0 hs
  simp only [List.nil_append] at this
  exact ⟨this.loglen, this.log⟩

/-- the same, in the words of the statement: two sessions whose steps carry the same settings up to
(excluding) step `k` have the same ideal value in every row before `k`, whatever follows -/
theorem memo_nothing_before {α : Type} (ops : Ops α) (base : Nat → Expr α) (pre a b : List (CSet α))
    (e : Expr α) (j : Nat) (v : α) (hj : j < pre.length)
    (h : ValT ops (defsAt base (pre ++ a)) e j v) : ValT ops (defsAt base (pre ++ b)) e j v :=
  h.congr fun i hi => by rw [defsAt_append_lt base pre a i (by omega), defsAt_append_lt base pre b i (by omega)]

/-! ### the look-back witness: only the state equations are finalised

Equations 0 = `c` (constant 1), 1 = `g = c` (auxiliary, **never requested**, read by no stock or flow at its
own time), 2 = `f = max(0, delay(g, dt))` (flow).  Requested: `[f]`.  Steps: two without settings, the third
sets `c = 10`.  `g(t_1)` was never evaluated during step 1 (only `f`, a state equation, was made final), so
step 2 evaluates it with the new `c`: the session reports `f(t_2) = 10`, the ideal value is `g(t_1) = 1`. -/

def wKind : Nat → C08.Kind := fun n => if n = 2 then .flow else .other
def wBody : Nat → Expr Int := fun n =>
  if n = 0 then .lit 1 else if n = 1 then .ref 0 else .max0 (.atStart (.ref 1) (.prev 1))
def wSteps : List (CSet Int) := [[], [], [(0, 10)]]

theorem wBody_closed : ∀ n, n < 3 → Closed 3 (wBody n) := by
  intro n hn
  have : n = 0 ∨ n = 1 ∨ n = 2 := by omega
  rcases this with rfl | rfl | rfl <;> simp [wBody, Closed]

theorem memo_witness_aux (fs : FinSet) (keep perKey : Bool)
    (hlog : (msteps fs keep perKey 3 wKind wOps 8 [2] wSteps (mbegin wBody)).map (·.log) = some [[1], [1], [10]]) :
    ¬ MemoSessionOK fs keep perKey := by
  intro hf
  cases hrun : msteps fs keep perKey 3 wKind wOps 8 [2] wSteps (mbegin wBody) with
  | none => rw [hrun] at hlog; simp at hlog
  | some st =>
      rw [hrun] at hlog
      simp only [Option.map_some, Option.some.injEq] at hlog
      have h := (hf Int wOps 3 wKind wBody wBody_closed 8 [2] (by decide) wSteps st hrun).2 2 [10]
        (by rw [hlog]; rfl)
      cases h with
      | cons hv _ =>
          have h0 : ValT wOps (defsAt wBody wSteps) (defsAt wBody wSteps 1 0) 1 1 := ValT.lit 1 1
          have h1 : ValT wOps (defsAt wBody wSteps) (defsAt wBody wSteps 1 1) 1 1 := ValT.ref 0 1 1 h0
          have h2 : ValT wOps (defsAt wBody wSteps) (.prev 1) 2 1 := ValT.prev 1 1 1 h1
          have h3 : ValT wOps (defsAt wBody wSteps) (.atStart (.ref 1) (.prev 1)) 2 1 := ValT.atStartS _ _ 1 1 h2
          have h4 : ValT wOps (defsAt wBody wSteps) (.max0 (.atStart (.ref 1) (.prev 1))) 2 (wOps.max0 1) :=
            ValT.max0 _ 2 1 h3
          have ideal : ValT wOps (defsAt wBody wSteps) (defsAt wBody wSteps 2 2) 2 1 := h4
          exact absurd (hv.det ideal) (by decide)

/-- kernel-checked: **only the state equations (stocks, flows) are finalised** ⇒ the session reports
`f(t_2) = 10` where the ideal value is `1` -/
theorem memo_witness_state_only (keep perKey : Bool) : ¬ MemoSessionOK .stateOnly keep perKey := by
  cases keep <;> cases perKey <;> exact memo_witness_aux .stateOnly _ _ (by decide)

/-- the pinned tree (only the requested equations are evaluated): same history, same leak -/
theorem memo_witness_requested_only (keep perKey : Bool) : ¬ MemoSessionOK .requestedOnly keep perKey := by
  cases keep <;> cases perKey <;> exact memo_witness_aux .requestedOnly _ _ (by decide)

/-- with every equation finalised the same history reports the ideal `[[1], [1], [1]]` (non-vacuity of
`memo_session_ideal`: the session returns, and the auxiliary's old value is the one used) -/
example : (msteps .all true true 3 wKind wOps 8 [2] wSteps (mbegin wBody)).map (·.log) = some [[1], [1], [1]] := by decide

/-! ## the property at full strength -/

/-! ### Wave 3 — a `/run` after a `/run` on the memoised simulator of one server -/

/-- memo transparency (C08: entries computed under the current definitions never change a result) -/
def MemoTransparent {C R Out : Type} (sim : RunSim C R Out) : Prop :=
  ∀ cur gens, (∀ g ∈ gens, g = cur) → sim.result gens cur = sim.result [] cur

/-- every reply of every sequence of `/run` requests on one server is the batch run of a freshly built model
with the settings accumulated so far -/
def RunSeqOK (c : Cfg) : Prop :=
  ∀ (C R Out : Type) (sim : RunSim C R Out), MemoTransparent sim →
  ∀ (base : C × R) (reqs : List (Option (RunSet C R))),
    rruns c sim reqs { cur := base, gens := [] } = idealRuns sim reqs base

theorem rruns_ideal (c : Cfg) (hc : c.runResetsOnAnySettings = true) {C R Out : Type} (sim : RunSim C R Out)
    (ht : MemoTransparent sim) (reqs : List (Option (RunSet C R))) :
    ∀ st : RunSt C R, (∀ g ∈ st.gens, g = st.cur) → rruns c sim reqs st = idealRuns sim reqs st.cur := by
  induction reqs with
  | nil => intro st _; rfl
  | cons q qs ih =>
      intro st hinv
      simp only [rruns, idealRuns]
      have hgens : ∀ g ∈ (if (match q with | none => false | some q => c.runResetsOnAnySettings || q.consts.isSome) = true
            then [] else st.gens), g = applyReq sim st.cur q := by
        cases q with
        | none => intro g hg; simp only [applyReq]; exact hinv g (by simpa using hg)
        | some q => intro g hg; simp [hc] at hg
      have h1 : (rstep c sim st q).2 = sim.result [] (applyReq sim st.cur q) := by
        simp only [rstep]; exact ht _ _ hgens
      have h2 : (rstep c sim st q).1.cur = applyReq sim st.cur q := rfl
      rw [h1, ih (rstep c sim st q).1 ?_, h2]
      intro g hg
      simp only [rstep, List.mem_append, List.mem_singleton] at hg
      rcases hg with hg | hg
      · rw [h2]; exact hgens g hg
      · rw [h2]; exact hg

theorem run_sequences_fresh (c : Cfg) (hc : c.runResetsOnAnySettings = true) : RunSeqOK c := by
  intro C R Out sim ht base reqs
  exact rruns_ideal c hc sim ht reqs _ (by intro g hg; cases hg)

/-- witness simulator: settings = (constant, dt); a run reports 100·(dt the memo was filled with) + current dt -/
def wRun : RunSim Nat Nat Nat :=
  { mergeC := fun _ b => b, mergeR := fun _ b => b
    result := fun gens cur => match gens.find? (fun g => g != cur) with
      | some g => 100 * g.2 + cur.2
      | none => 100 * cur.2 + cur.2 }

theorem wRun_transparent : MemoTransparent wRun := by
  intro cur gens h
  have : gens.find? (fun g => g != cur) = none := by
    rw [List.find?_eq_none]; intro g hg; simp [h g hg]
  simp [wRun, this]

/-- kernel-checked: a first `/run` without settings (dt = 2), then a `/run` whose settings carry ONLY run specs
(dt = 1): without the reset the second reply is computed on the memo of the first (201 instead of 101) -/
theorem run_witness_runspecs_only (c : Cfg) (h : c.runResetsOnAnySettings = false) : ¬ RunSeqOK c := by
  intro hf
  have := hf Nat Nat Nat wRun wRun_transparent (7, 2) [none, some { consts := none, rs := some 1 }]
  obtain ⟨d, k, f, g, r, m, q, w, x, y⟩ := c
  simp only at h; subst h
  revert this; cases d <;> cases k <;> cases f <;> cases g <;> cases m <;> cases q <;> cases w <;> cases x <;> cases y <;> decide

/-- … while a request that also carries constants resets in both cases (`rstep`: `|| q.consts.isSome`) -/
example : ∀ r, rruns ⟨true, true, true, true, r, true, true, true, true, true⟩ wRun [none, some { consts := some 3, rs := some 1 }] { cur := (7, 2), gens := [] }
    = [202, 101] := by intro r; cases r <;> decide

/-! ### Wave 9 — the by-equation views are a function of the current session's log -/

/-- every read over every lifecycle of sessions on one object (begin with or without a preceding end, steps, reads in any
number) returns exactly the rows the current session has logged -/
def ViewsOK (c : Cfg) : Prop :=
  ∀ (L V : Type) (ops : List (VOp L V)), vreads c ops { log := [], seen := 0, kept := [] } = idealReads ops []

theorem vreads_ideal (c : Cfg) (h : c.viewsDeriveFromCurrentLog = true) {L V : Type} (ops : List (VOp L V)) :
    ∀ st : VState L V, vreads c ops st = idealReads ops st.log := by
  induction ops with
  | nil => intro st; rfl
  | cons op ops ih =>
      intro st
      cases op with
      | begin => simp only [vreads, vstep, idealReads]; rw [ih]
      | step r => simp only [vreads, vstep, idealReads]; rw [ih]
      | read => simp only [vreads, vstep, h, if_true, idealReads]; rw [ih]
      | endS => simp only [vreads, vstep, idealReads]; rw [ih]

theorem views_current (c : Cfg) (h : c.viewsDeriveFromCurrentLog = true) : ViewsOK c :=
  fun L V ops => vreads_ideal c h ops _

/-- a view cache that survives `begin_session`: first session one step (row 1), read; second session begun WITHOUT
end_session, one step (row 2), read — the second read still shows the first session's row -/
theorem views_witness_cache_survives_begin (c : Cfg) (h : c.viewsDeriveFromCurrentLog = false) : ¬ ViewsOK c := by
  intro hf
  have := hf Nat Nat [.begin, .step (1, [10]), .read, .begin, .step (2, [20]), .read]
  obtain ⟨d, k, f, g, r, m, q, w, x, y⟩ := c
  simp only at h; subst h
  revert this; cases d <;> cases k <;> cases f <;> cases g <;> cases r <;> cases m <;> cases q <;> cases x <;> cases y <;> decide

/-- … while with `end_session` in between the same cache is dropped and both variants agree -/
example : ∀ w, vreads (L := Nat) (V := Nat) ⟨true, true, true, true, true, true, true, w, true, true⟩
    [.begin, .step (1, [10]), .read, .endS, .begin, .step (2, [20]), .read, .read] { log := [], seen := 0, kept := [] }
    = [[(1, [10])], [(2, [20])], [(2, [20])]] := by intro w; cases w <;> decide

/-! ### Wave 11 — the session walks the grid of the run specs in force AFTER begin_session's settings -/

/-- the grid (number of points, labels, stride) a session walks is the one of the scenario after the session settings were applied -/
def SessionClockOK (c : Cfg) : Prop :=
  ∀ (L : Type) (old new : Spec L), (beginSpec c old new).n = new.n ∧ (beginSpec c old new).stride = new.stride ∧
    ∀ k, (beginSpec c old new).label k = new.label k ∧ (beginSpec c old new).rawLabel k = new.rawLabel k

theorem session_clock_after_settings (c : Cfg) (h : c.sessionClockFromAppliedSettings = true) : SessionClockOK c := by
  intro L old new; simp [beginSpec, h]

/-- **session = batch on the post-settings grid**: a fresh session begun with settings, streamed to the end, yields exactly the rows of
the batch dataframe of the scenario carrying those settings' run specs -/
theorem C09_session_equals_batch_after_settings (c : Cfg) (hg : c.good = true) {S V L : Type} (sim : Sim S V) (hc : Causal sim)
    (old new : Spec L) (base : S) (eqs : List Nat) (lazy : Bool) :
    (calls c sim (beginSpec c old new) eqs lazy [.stream none] (begin base)).1.log = batchDf sim new base eqs := by
  have hx : c.sessionClockFromAppliedSettings = true := by
    simp only [Cfg.good, Bool.and_eq_true] at hg; exact hg.1.2
  have : beginSpec c old new = new := by simp [beginSpec, hx]
  rw [this]; exact C09_session_equals_batch c hg sim hc new base eqs lazy

/-- clock read BEFORE the settings: scenario dt 1 on [0, 4] (5 points), session settings {dt: 0.5} (9 points) -/
def wOld : Spec Nat := { n := 4, stride := 1, label := fun k => 2 * k, rawLabel := fun k => 2 * k }
def wNew : Spec Nat := { n := 8, stride := 1, label := fun k => k, rawLabel := fun k => k }

theorem session_clock_witness (c : Cfg) (h : c.sessionClockFromAppliedSettings = false) : ¬ SessionClockOK c := by
  intro hf
  have := (hf Nat wOld wNew).1
  simp [beginSpec, h, wOld, wNew] at this

/-! ### Wave 11 — the dataframe over several scenarios with different grids -/

/-- `formats_agree` lifted to several scenarios: the dataframe cell of (scenario i, t) equals the dict / json cell for every time of THAT
scenario's grid -/
def DfOK (c : Cfg) : Prop :=
  ∀ (V : Type) (ss : List (Series V)) (i t : Nat) (s : Series V), ss[i]? = some s → t ∈ s.map (·.1) → dfCell c ss i t = dictCell ss i t

theorem df_keeps_every_grid (c : Cfg) (h : c.dfKeepsEveryScenarioGrid = true) : DfOK c := by
  intro V ss i t s hs ht
  have hmem : s ∈ ss := List.mem_of_getElem? hs
  have : t ∈ dfIndex c ss := by
    simp only [dfIndex, h, if_true, List.mem_flatMap]
    exact ⟨s, hmem, ht⟩
  simp [dfCell, this]

/-- aligned to the first scenario's index: scenario `one` on [0, 1, 2], scenario `two` on [0 .. 4]: the cell of `two` at t = 3 is missing -/
theorem df_witness_first_index (c : Cfg) (h : c.dfKeepsEveryScenarioGrid = false) : ¬ DfOK c := by
  intro hf
  have := hf Nat [[(0, 10), (1, 11), (2, 12)], [(0, 20), (1, 21), (2, 22), (3, 23), (4, 24)]] 1 3
    [(0, 20), (1, 21), (2, 22), (3, 23), (4, 24)] rfl (by decide)
  simp [dfCell, dfIndex, h, dictCell, cellOf] at this

/-- C09: (1) channels — whatever the partition into calls, the session log is the ideal rows of the abstract
causal simulator on the batch grid; (2) mechanism — the session as it is implemented (definitions rebound by
step settings, memo never reset, the probed set of equations evaluated at each step) reports, for every model
in C08's expression language, every requested list, every settings script and every fuel, the ideal value of
every requested equation in every row; (3) every reply of every sequence of REST `/run` requests on one server is
the batch run of a freshly built model with the settings accumulated so far; (4) over every lifecycle of sessions on one
object every read of the by-equation / flat view shows exactly the current session's rows; (5) a session walks the grid of the run
specs in force after its settings were applied; (6) over several scenarios the dataframe agrees with dict / json on every scenario's own grid. -/
def C09_full (c : Cfg) : Prop := C09_channels c ∧ MemoSessionOK (finSet c) c.changeEquationKeepsMemo c.settingsAppliedPerKey ∧ RunSeqOK c ∧ ViewsOK c ∧ SessionClockOK c ∧ DfOK c

theorem C09_full_of_good (c : Cfg) (hg : c.good = true) : C09_full c := by
  simp only [Cfg.good, Bool.and_eq_true] at hg
  obtain ⟨⟨⟨⟨⟨⟨⟨⟨hd, hk⟩, hfin⟩, hr⟩, hm⟩, hq⟩, hw⟩, hx⟩, hy⟩ := hg
  refine ⟨C09_channels_of_good c (by simp [Cfg.good, hd, hk, hfin, hr, hm, hq, hw, hx, hy]), ?_, run_sequences_fresh c hr, views_current c hw,
          session_clock_after_settings c hx, df_keeps_every_grid c hy⟩
  have : finSet c = .all := by simp [finSet, hfin]
  rw [this, hm, hq]; exact memo_session_ideal

/-! ### Wave 4 — `change_equation` that also empties the changed equation's memo

Equations 0 = `c` (constant 1), 1 = stock `s` with `s.equation = c` (**the stock names the constant directly**, so it
reads `c(t-dt)`); requested `[s]`; the third step sets `c = 10`.  With the memo of `c` emptied by the setting,
`c(t_1)` is evaluated again — with the new definition: `s(t_2) = 1 + 10` instead of `1 + 1`. -/

def wBody2 : Nat → Expr Int := fun n =>
  if n = 0 then .lit 1 else .atStart (.lit 0) (.bin 0 (.prev 1) (.prev 0))
def wKind2 : Nat → C08.Kind := fun n => if n = 1 then .stock else .other

theorem wBody2_closed : ∀ n, n < 2 → Closed 2 (wBody2 n) := by
  intro n hn
  have : n = 0 ∨ n = 1 := by omega
  rcases this with rfl | rfl <;> simp [wBody2, Closed]

theorem memo_witness_memo_dropped (perKey : Bool) : ¬ MemoSessionOK .all false perKey := by
  intro hf
  have hlog : (msteps .all false perKey 2 wKind2 wOps 8 [1] wSteps (mbegin wBody2)).map (·.log) = some [[0], [1], [11]] := by cases perKey <;> decide
  cases hrun : msteps .all false perKey 2 wKind2 wOps 8 [1] wSteps (mbegin wBody2) with
  | none => rw [hrun] at hlog; simp at hlog
  | some st =>
      rw [hrun] at hlog
      simp only [Option.map_some, Option.some.injEq] at hlog
      have h := (hf Int wOps 2 wKind2 wBody2 wBody2_closed 8 [1] (by decide) wSteps st hrun).2 2 [11] (by rw [hlog]; rfl)
      cases h with
      | cons hv _ =>
          have s0 : ValT wOps (defsAt wBody2 wSteps) (defsAt wBody2 wSteps 0 1) 0 0 := ValT.atStart0 _ _ 0 (ValT.lit 0 0)
          have c0 : ValT wOps (defsAt wBody2 wSteps) (defsAt wBody2 wSteps 0 0) 0 1 := ValT.lit 1 0
          have s1 : ValT wOps (defsAt wBody2 wSteps) (defsAt wBody2 wSteps 1 1) 1 (wOps.bin 0 0 1) :=
            ValT.atStartS _ _ 0 _ (ValT.bin 0 _ _ 1 0 1 (ValT.prev 1 0 0 s0) (ValT.prev 0 0 1 c0))
          have c1 : ValT wOps (defsAt wBody2 wSteps) (defsAt wBody2 wSteps 1 0) 1 1 := ValT.lit 1 1
          have s2 : ValT wOps (defsAt wBody2 wSteps) (defsAt wBody2 wSteps 2 1) 2 (wOps.bin 0 (wOps.bin 0 0 1) 1) :=
            ValT.atStartS _ _ 1 _ (ValT.bin 0 _ _ 2 _ 1 (ValT.prev 1 1 _ s1) (ValT.prev 0 1 1 c1))
          exact absurd (hv.det s2) (by decide)

/-- with the memo kept the same history reports the ideal `[[0], [1], [2]]` -/
example : (msteps .all true true 2 wKind2 wOps 8 [1] wSteps (mbegin wBody2)).map (·.log) = some [[0], [1], [2]] := by decide

/-! ### Wave 8 — a settings dictionary with several constants: every name gets ITS value -/

/-- the fold over the dictionary writes each key independently: a name that the dictionary binds (once) denotes
its own value afterwards, every other name keeps its definition -/
theorem applyAll_independent {α : Type} (body : Nat → Expr α) (s : CSet α) (hnd : (s.map (·.1)).Nodup) :
    (∀ n v, (n, v) ∈ s → applySet body s n = .lit v) ∧ (∀ n, n ∉ s.map (·.1) → applySet body s n = body n) := by
  induction s generalizing body with
  | nil => exact ⟨fun n v h => absurd h (by simp), fun n _ => rfl⟩
  | cons p rest ih =>
      obtain ⟨k, w⟩ := p
      simp only [List.map_cons, List.nodup_cons] at hnd
      have ih' := ih (C08.updFn body k (.lit w)) hnd.2
      simp only [applySet, List.foldl_cons] at ih' ⊢
      refine ⟨?_, ?_⟩
      · intro n v hm
        rcases List.mem_cons.mp hm with h | h
        · cases h
          rw [ih'.2 k hnd.1]; simp [C08.updFn]
        · exact ih'.1 n v h
      · intro n hn
        simp only [List.map_cons, List.mem_cons, not_or] at hn
        rw [ih'.2 n hn.2]; simp [C08.updFn, hn.1]

/-- witness: constants `c = 1`, `d = 2`, both requested; ONE step sets `{c: 5, d: 7}`.  Late binding reports `[7, 7]`. -/
def wBody3 : Nat → Expr Int := fun n => if n = 0 then .lit 1 else .lit 2

theorem memo_witness_last_value (keep : Bool) : ¬ MemoSessionOK .all keep false := by
  intro hf
  have hlog : (msteps .all keep false 2 (fun _ => .other) wOps 8 [0, 1] [[(0, 5), (1, 7)]] (mbegin wBody3)).map (·.log) = some [[7, 7]] := by
    cases keep <;> decide
  cases hrun : msteps .all keep false 2 (fun _ => .other) wOps 8 [0, 1] [[(0, 5), (1, 7)]] (mbegin wBody3) with
  | none => rw [hrun] at hlog; simp at hlog
  | some st =>
      rw [hrun] at hlog
      simp only [Option.map_some, Option.some.injEq] at hlog
      have h := (hf Int wOps 2 (fun _ => .other) wBody3 (by intro n _; unfold wBody3; split <;> trivial) 8 [0, 1] (by decide)
        [[(0, 5), (1, 7)]] st hrun).2 0 [7, 7] (by rw [hlog]; rfl)
      cases h with
      | cons hv _ =>
          have ideal : ValT wOps (defsAt wBody3 [[(0, 5), (1, 7)]]) (defsAt wBody3 [[(0, 5), (1, 7)]] 0 0) 0 5 := ValT.lit 5 0
          exact absurd (hv.det ideal) (by decide)

/-- applied per key the same step reports `[5, 7]` -/
example : (msteps .all true true 2 (fun _ => .other) wOps 8 [0, 1] [[(0, 5), (1, 7)]] (mbegin wBody3)).map (·.log) = some [[5, 7]] := by decide

theorem C09_witness_last_value (c : Cfg) (h1 : c.stepFinalisesAll = true) (h2 : c.settingsAppliedPerKey = false) : ¬ C09_full c := by
  intro hf
  have : finSet c = .all := by simp [finSet, h1]
  have h := hf.2.1
  rw [this, h2] at h
  exact memo_witness_last_value _ h

theorem C09_witness_session_clock (c : Cfg) (h : c.sessionClockFromAppliedSettings = false) : ¬ C09_full c :=
  fun hf => session_clock_witness c h hf.2.2.2.2.1

theorem C09_witness_df_first_index (c : Cfg) (h : c.dfKeepsEveryScenarioGrid = false) : ¬ C09_full c :=
  fun hf => df_witness_first_index c h hf.2.2.2.2.2

theorem C09_witness_view_cache (c : Cfg) (h : c.viewsDeriveFromCurrentLog = false) : ¬ C09_full c :=
  fun hf => views_witness_cache_survives_begin c h hf.2.2.2.1

theorem C09_witness_memo_dropped (c : Cfg) (h1 : c.stepFinalisesAll = true) (h2 : c.changeEquationKeepsMemo = false) :
    ¬ C09_full c := by
  intro hf
  have : finSet c = .all := by simp [finSet, h1]
  have h := hf.2.1
  rw [this, h2] at h
  exact memo_witness_memo_dropped _ h

theorem C09_witness_run_runspecs_only (c : Cfg) (h : c.runResetsOnAnySettings = false) : ¬ C09_full c :=
  fun hf => run_witness_runspecs_only c h hf.2.2.1

theorem C09_witness_state_only (c : Cfg) (h1 : c.stepFinalisesAll = false) (h2 : c.stepFinalisesState = true) :
    ¬ C09_full c := by
  intro hf
  have : finSet c = .stateOnly := by simp [finSet, h1, h2]
  exact memo_witness_state_only _ _ (this ▸ hf.2.1)

theorem C09_witness_requested_only (c : Cfg) (h1 : c.stepFinalisesAll = false) (h2 : c.stepFinalisesState = false) :
    ¬ C09_full c := by
  intro hf
  have : finSet c = .requestedOnly := by simp [finSet, h1, h2]
  exact memo_witness_requested_only _ _ (this ▸ hf.2.1)

/-! ### negation witnesses -/

def wSim : Sim Nat Nat := { merge := fun _ b => b, val := fun f _ k => f (k - 1) + 100 * k }
theorem wSim_causal : Causal wSim := by
  intro f g e k h
  simp only [wSim]
  rw [h (k - 1) (Nat.sub_le k 1)]

/-- scenario dt = 0.5 (two grid points per unit): the 1.0-session visits t_0, t_2 only -/
def wSpecDt : Spec Nat := { n := 2, stride := 2, label := fun k => k, rawLabel := fun k => k }
/-- dt = 0.1: three bare additions give 0.30000000000000004 (here: 1003) instead of 0.3 (3) -/
def wSpecClk : Spec Nat := { n := 3, stride := 1, label := fun k => k, rawLabel := fun k => if k = 3 then 1003 else k }

theorem C09_witness_session_dt (c : Cfg) (h : c.sessionDtFromScenario = false) : ¬ C09_full c := by
  intro hf
  have := hf.1 Nat Nat Nat wSim wSim_causal wSpecDt 1 [0] false [.stream none]
  obtain ⟨d, k, f, g, r, m, q, w, x, y⟩ := c
  simp only at h; subst h
  cases k <;> cases f <;> cases g <;> cases r <;> cases m <;> cases q <;> cases w <;> cases x <;> cases y <;> exact absurd (this (by decide)) (by decide)

theorem C09_witness_clock (c : Cfg) (h : c.stepClockNormalised = false) : ¬ C09_full c := by
  intro hf
  have := hf.1 Nat Nat Nat wSim wSim_causal wSpecClk 1 [0] false [.steps 4 none]
  obtain ⟨d, k, f, g, r, m, q, w, x, y⟩ := c
  simp only at h; subst h
  cases d <;> cases f <;> cases g <;> cases r <;> cases m <;> cases q <;> cases w <;> cases x <;> cases y <;> exact absurd (this (by decide)) (by decide)

/-- constant `c` = 1, changed to 10 with the third step; requested: an equation that reads `c` at the
previous grid point, which nobody had memoised (`lazy`): the new value leaks one step back. -/
theorem C09_witness_settings_leak (c : Cfg) (h : c.stepFinalisesAll = false) : ¬ C09_full c := by
  intro hf
  have := hf.1 Nat Nat Nat wSim wSim_causal { wSpecClk with rawLabel := fun k => k } 1 [0] true
    [.step none, .step none, .step (some 10)]
  obtain ⟨d, k, f, g, r, m, q, w, x, y⟩ := c
  simp only at h; subst h
  cases d <;> cases k <;> cases g <;> cases r <;> cases m <;> cases q <;> cases w <;> cases x <;> cases y <;> exact absurd (this (by decide)) (by decide)

/-- What holds whatever the Cfg says: partition invariance and format agreement (above), and — the
settings part restricted to sessions in which every influenced equation is requested (`lazy = false`):
the reported values are the ideal ones as soon as the two grid facts hold. -/
theorem C09_partial_all_requested (c : Cfg) (hd : c.sessionDtFromScenario = true)
    (hk : c.stepClockNormalised = true) {S V L : Type} (sim : Sim S V) (hc : Causal sim)
    (spec : Spec L) (base : S) (eqs : List Nat) (cs : List (Call S))
    (hl : (expand c spec cs 0).length ≤ spec.n + 1) :
    (calls c sim spec eqs false cs (begin base)).1.log =
      (List.range (expand c spec cs 0).length).map (idealRow sim spec base (expand c spec cs 0) eqs) := by
  -- with `lazy = false` the model does not consult `stepFinalisesAll`
  have key : ∀ (ss : List (Option S)) (st : Sess S L V),
      runList c sim spec eqs false ss st = runList ⟨true, true, true, true, true, true, true, true, true, true⟩ sim spec eqs false ss st := by
    intro ss
    induction ss with
    | nil => intro st; rfl
    | cons s ss ih =>
        intro st
        have : runStep c sim spec eqs false st s = runStep ⟨true, true, true, true, true, true, true, true, true, true⟩ sim spec eqs false st s := by
          simp [runStep, adv, lbl, hd, hk]
        simp [runList, this, ih]
  have hexp : expand c spec cs 0 = expand ⟨true, true, true, true, true, true, true, true, true, true⟩ spec cs 0 := by
    have hadv : adv c spec = adv ⟨true, true, true, true, true, true, true, true, true, true⟩ spec := by simp [adv, hd]
    have : ∀ (cs : List (Call S)) k, expand c spec cs k = expand ⟨true, true, true, true, true, true, true, true, true, true⟩ spec cs k := by
      intro cs
      induction cs with
      | nil => intro k; rfl
      | cons cl cs ih => intro k; cases cl <;> simp [expand, hadv, ih]
    exact this cs 0
  have hb : (begin base : Sess S L V).k = 0 := rfl
  rw [partition_invariance, hb, key, hexp]
  have := C09_channels_of_good ⟨true, true, true, true, true, true, true, true, true, true⟩ rfl S V L sim hc spec base eqs false cs (by rw [← hexp]; exact hl)
  rw [partition_invariance] at this
  simpa [begin] using this

/-- Non-vacuity: dt-0.25 scenario (`n = 4`), calls `run-step`, `run-steps 2` with a new constant,
`stream-steps`: five rows, labels 0..4, the setting shows from its own step (index 1) on. -/
example : (calls ⟨true, true, true, true, true, true, true, true, true, true⟩ wSim wSpecClk [0] true
    [.step none, .steps 2 (some 10), .stream none] (begin 1)).1.log
    = [(0, [1]), (1, [101]), (2, [210]), (3, [310])] := by decide

#print axioms C09_full_of_good
#print axioms partition_invariance
#print axioms formats_agree
#print axioms C09_session_equals_batch
#print axioms settings_nothing_before
#print axioms C09_partial_all_requested
#print axioms C09_witness_session_dt
#print axioms C09_witness_clock
#print axioms C09_witness_settings_leak
#print axioms C09_channels_of_good
#print axioms memo_session_ideal
#print axioms memo_nothing_before
#print axioms evalK_ok
#print axioms memo_witness_state_only
#print axioms memo_witness_requested_only
#print axioms C09_witness_state_only
#print axioms C09_witness_requested_only
#print axioms run_sequences_fresh
#print axioms C09_witness_run_runspecs_only
#print axioms memo_witness_memo_dropped
#print axioms C09_witness_memo_dropped
#print axioms applyAll_independent
#print axioms memo_witness_last_value
#print axioms C09_witness_last_value
#print axioms views_current
#print axioms C09_witness_view_cache
#print axioms C09_session_equals_batch_after_settings
#print axioms C09_witness_session_clock
#print axioms df_keeps_every_grid
#print axioms C09_witness_df_first_index

end Bptk.C09
