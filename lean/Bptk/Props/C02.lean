import Bptk.Proofs.PyFrag
import Bptk.Proofs.PyDet
import Bptk.Proofs.PyComplete
/-!
C02 — SD-DSL expressions keep the grouping of the Python expression that built them.

Quantifier: every expression tree over the operator table (any size, any nesting) — structural
induction, no depth bound.  The operator table is regenerated from /repo on every run
(`Bptk.Gen.C02Table`); the per-run obligations are `tableOK 6 table` and `specOK table` (by `decide`).
-/
namespace Bptk.Py

/-! ### Carrier-generic evaluation: values are opaque, operations uninterpreted -/

structure Carrier (α : Type) where
  num : String → α
  name : String → α
  str : String → α
  neg : α → α
  not : α → α
  bin : BinOp → α → α → α
  ite : α → α → α → α          -- (then, cond, else)
  attr : α → String → α
  call : α → List α → α
  index : α → α → α
  list : List α → α
  kw : String → α → α

variable {α : Type}

mutual
/-- evaluation of a Python tree; holes take their value from `ρ`; parentheses are transparent -/
def eval (C : Carrier α) (ρ : Nat → α) : Py → α
  | .num s => C.num s
  | .name s => C.name s
  | .str s => C.str s
  | .hole i => ρ i
  | .paren e => eval C ρ e
  | .neg e => C.neg (eval C ρ e)
  | .not e => C.not (eval C ρ e)
  | .bin k l r => C.bin k (eval C ρ l) (eval C ρ r)
  | .ite x c y => C.ite (eval C ρ x) (eval C ρ c) (eval C ρ y)
  | .attr e a => C.attr (eval C ρ e) a
  | .call f args => C.call (eval C ρ f) (evalL C ρ args)
  | .index e i => C.index (eval C ρ e) (eval C ρ i)
  | .list es => C.list (evalL C ρ es)
  | .kw n e => C.kw n (eval C ρ e)
def evalL (C : Carrier α) (ρ : Nat → α) : List Py → List α
  | [] => []
  | e :: es => eval C ρ e :: evalL C ρ es
end

mutual
/-- evaluating a template with operand TREES plugged in = evaluating the template on operand VALUES -/
theorem eval_subst (C : Carrier α) (ρ : Nat → α) (σ : Nat → Py) (s : Py) :
    eval C ρ (subst σ s) = eval C (fun i => eval C ρ (σ i)) s := by
  match s with
  | .num _ => simp [subst, eval]
  | .name _ => simp [subst, eval]
  | .str _ => simp [subst, eval]
  | .hole i => simp [subst, eval]
  | .paren e => simp [subst, eval, eval_subst C ρ σ e]
  | .neg e => simp [subst, eval, eval_subst C ρ σ e]
  | .not e => simp [subst, eval, eval_subst C ρ σ e]
  | .bin k l r => simp [subst, eval, eval_subst C ρ σ l, eval_subst C ρ σ r]
  | .ite x c y => simp [subst, eval, eval_subst C ρ σ x, eval_subst C ρ σ c, eval_subst C ρ σ y]
  | .attr e a => simp [subst, eval, eval_subst C ρ σ e]
  | .call f args => simp [subst, eval, eval_subst C ρ σ f, evalL_subst C ρ σ args]
  | .index e i => simp [subst, eval, eval_subst C ρ σ e, eval_subst C ρ σ i]
  | .list es => simp [subst, eval, evalL_subst C ρ σ es]
  | .kw n e => simp [subst, eval, eval_subst C ρ σ e]
theorem evalL_subst (C : Carrier α) (ρ : Nat → α) (σ : Nat → Py) (es : List Py) :
    evalL C ρ (substL σ es) = evalL C (fun i => eval C ρ (σ i)) es := by
  match es with
  | [] => simp [substL, evalL]
  | e :: es => simp [substL, evalL, eval_subst C ρ σ e, evalL_subst C ρ σ es]
end

mutual
theorem eval_erase (C : Carrier α) (ρ : Nat → α) (e : Py) : eval C ρ (erase e) = eval C ρ e := by
  match e with
  | .num _ => simp [erase]
  | .name _ => simp [erase]
  | .str _ => simp [erase]
  | .hole i => simp [erase]
  | .paren e => simp [erase, eval, eval_erase C ρ e]
  | .neg e => simp [erase, eval, eval_erase C ρ e]
  | .not e => simp [erase, eval, eval_erase C ρ e]
  | .bin k l r => simp [erase, eval, eval_erase C ρ l, eval_erase C ρ r]
  | .ite x c y => simp [erase, eval, eval_erase C ρ x, eval_erase C ρ c, eval_erase C ρ y]
  | .attr e a => simp [erase, eval, eval_erase C ρ e]
  | .call f args => simp [erase, eval, eval_erase C ρ f, evalL_erase C ρ args]
  | .index e i => simp [erase, eval, eval_erase C ρ e, eval_erase C ρ i]
  | .list es => simp [erase, eval, evalL_erase C ρ es]
  | .kw n e => simp [erase, eval, eval_erase C ρ e]
theorem evalL_erase (C : Carrier α) (ρ : Nat → α) (es : List Py) :
    evalL C ρ (eraseL es) = evalL C ρ es := by
  match es with
  | [] => simp [eraseL, evalL]
  | e :: es => simp [eraseL, evalL, eval_erase C ρ e, evalL_erase C ρ es]
end

/-! ### The value the DSL expression tree denotes: each operator applied to its operands' values -/

mutual
/-- reference semantics of an expression tree: a leaf is its own value; an operator node is its
shape evaluated on the VALUES of its operands (each operand a unit). -/
def value (C : Carrier α) (T : Table) : E → α
  | .leaf p => eval C (fun _ => C.name "MISSING") p
  | .node k cs => eval C (nthD (C.name "MISSING") (valueL C T cs)) (T.shape k)
def valueL (C : Carrier α) (T : Table) : List E → List α
  | [] => []
  | c :: cs => value C T c :: valueL C T cs
end

theorem nthD_map_eval (C : Carrier α) (ρ : Nat → α) (l : List Py) (i : Nat) :
    eval C ρ (nthD (.name "MISSING") l i) = nthD (C.name "MISSING") (evalL C ρ l) i := by
  induction l generalizing i with
  | nil => simp [nthD, eval, evalL]
  | cons x xs ih => cases i <;> simp [nthD, evalL, ih]

mutual
theorem eval_denote (C : Carrier α) (T : Table) (e : E) :
    eval C (fun _ => C.name "MISSING") (denote T e) = value C T e := by
  match e with
  | .leaf p => simp [denote, value]
  | .node k cs =>
    simp only [denote, value, eval_subst]
    congr 1
    funext i
    rw [nthD_map_eval, evalL_denote C T cs]
theorem evalL_denote (C : Carrier α) (T : Table) (cs : List E) :
    evalL C (fun _ => C.name "MISSING") (denoteL T cs) = valueL C T cs := by
  match cs with
  | [] => simp [denoteL, evalL, valueL]
  | c :: cs => simp [denoteL, evalL, valueL, eval_denote C T c, evalL_denote C T cs]
end

/-! ### Intended shapes of the C02 vocabulary (hand-written specification table) -/

mutual
def beqPy : Py → Py → Bool
  | .num a, .num b => a == b
  | .name a, .name b => a == b
  | .str a, .str b => a == b
  | .hole a, .hole b => a == b
  | .paren a, .paren b => beqPy a b
  | .neg a, .neg b => beqPy a b
  | .not a, .not b => beqPy a b
  | .bin k a b, .bin k' a' b' => decide (k = k') && beqPy a a' && beqPy b b'
  | .ite a b c, .ite a' b' c' => beqPy a a' && beqPy b b' && beqPy c c'
  | .attr a s, .attr a' s' => beqPy a a' && s == s'
  | .call f as, .call f' as' => beqPy f f' && beqPyL as as'
  | .index a b, .index a' b' => beqPy a a' && beqPy b b'
  | .list as, .list as' => beqPyL as as'
  | .kw n a, .kw n' a' => n == n' && beqPy a a'
  | _, _ => false
def beqPyL : List Py → List Py → Bool
  | [], [] => true
  | a :: as, b :: bs => beqPy a b && beqPyL as bs
  | _, _ => false
end

mutual
theorem beqPy_eq (a b : Py) (h : beqPy a b = true) : a = b := by
  match a, b, h with
  | .num a, .num b, h => simp [beqPy] at h; simp [h]
  | .name a, .name b, h => simp [beqPy] at h; simp [h]
  | .str a, .str b, h => simp [beqPy] at h; simp [h]
  | .hole a, .hole b, h => simp [beqPy] at h; simp [h]
  | .paren a, .paren b, h => simp only [beqPy] at h; rw [beqPy_eq a b h]
  | .neg a, .neg b, h => simp only [beqPy] at h; rw [beqPy_eq a b h]
  | .not a, .not b, h => simp only [beqPy] at h; rw [beqPy_eq a b h]
  | .bin k a b, .bin k' a' b', h =>
    simp only [beqPy, Bool.and_eq_true, decide_eq_true_eq] at h
    rw [h.1.1, beqPy_eq a a' h.1.2, beqPy_eq b b' h.2]
  | .ite a b c, .ite a' b' c', h =>
    simp only [beqPy, Bool.and_eq_true] at h
    rw [beqPy_eq a a' h.1.1, beqPy_eq b b' h.1.2, beqPy_eq c c' h.2]
  | .attr a s, .attr a' s', h =>
    simp only [beqPy, Bool.and_eq_true, beq_iff_eq] at h
    rw [beqPy_eq a a' h.1, h.2]
  | .call f as, .call f' as', h =>
    simp only [beqPy, Bool.and_eq_true] at h
    rw [beqPy_eq f f' h.1, beqPyL_eq as as' h.2]
  | .index a b, .index a' b', h =>
    simp only [beqPy, Bool.and_eq_true] at h
    rw [beqPy_eq a a' h.1, beqPy_eq b b' h.2]
  | .list as, .list as', h => simp only [beqPy] at h; rw [beqPyL_eq as as' h]
  | .kw n a, .kw n' a', h =>
    simp only [beqPy, Bool.and_eq_true, beq_iff_eq] at h
    rw [h.1, beqPy_eq a a' h.2]
theorem beqPyL_eq (as bs : List Py) (h : beqPyL as bs = true) : as = bs := by
  match as, bs, h with
  | [], [], _ => rfl
  | a :: as, b :: bs, h =>
    simp only [beqPyL, Bool.and_eq_true] at h
    rw [beqPy_eq a b h.1, beqPyL_eq as bs h.2]
end

private def h0 : Py := .hole 0
private def h1 : Py := .hole 1
private def h2 : Py := .hole 2
private def fn1 (f : String) (a : Py) : Py := .call (.name f) [a]
private def np1 (f : String) (a : Py) : Py := .call (.attr (.name "np") f) [a]

/-- what each operator class of the C02 vocabulary is meant to compute, as a parenthesis-free tree
over its operands (`hole i` = i-th operand in the order the probe numbers them: constructor order). -/
def specPy : String → Option Py
  | "AdditionOperator" => some (.bin .add h0 h1)
  | "SubtractionOperator" => some (.bin .sub h0 h1)
  | "MultiplicationOperator" => some (.bin .mul h0 h1)
  | "DivisionOperator" => some (.bin .div h0 h1)
  | "ModOperator" => some (.bin .mod h0 h1)
  | "PowerOperator" => some (.bin .pow h0 h1)
  | "NumericalMultiplicationOperator" => some (.bin .mul h1 h0)     -- `x * e` with the number first
  | "ComparisonOperator[>]" => some (.bin .gt h0 h1)
  | "ComparisonOperator[<]" => some (.bin .lt h0 h1)
  | "ComparisonOperator[>=]" => some (.bin .ge h0 h1)
  | "ComparisonOperator[<=]" => some (.bin .le h0 h1)
  | "ComparisonOperator[==]" => some (.bin .eq h0 h1)
  | "ComparisonOperator[!=]" => some (.bin .ne h0 h1)
  | "If" => some (.ite h1 h0 h2)                                     -- If(cond, then, else)
  | "And" => some (.bin .and h0 h1)
  | "Or" => some (.bin .or h0 h1)
  | "Not" => some (.not h0)
  | "AbsOperator" => some (fn1 "abs" h0)
  | "MaxOperator" => some (.call (.name "max") [h0, h1])
  | "MinOperator" => some (.call (.name "min") [h0, h1])
  | "Exp" => some (np1 "exp" h0)
  | "Sqrt" => some (.bin .pow h0 (.bin .div (.num "1") (.num "2")))
  | "Round" => some (.call (.name "round") [h0, h1])
  | "Sin" => some (np1 "sin" h0)
  | "Cos" => some (np1 "cos" h0)
  | "Tan" => some (np1 "tan" h0)
  | "Arcsin" => some (np1 "arcsin" h0)
  | "Arccos" => some (np1 "arccos" h0)
  | "Arctan" => some (np1 "arctan" h0)
  | _ => none

def specOK (T : Table) : Bool :=
  T.all fun t => match specPy t.cls with
    | some s => beqPy (erase (shapeOf t)) s
    | none => true

/-! ### Reflected operator overloads (`k op e` with the number on the left)

Python evaluates `2.0 ** e` as `e.__rpow__(2.0)`: the reflected method receives the operands in swapped order and must
build the operator with `other` as LEFT operand.  The probe calls every `__rX__` defined on `Element` and on `Operator`
with placeholder operands (`hole 0` = self, `hole 1` = other) and records the emitted text as a table row
`Element.__rX__` / `Operator.__rX__`; the intended shape is `other X self`. -/

def reflOp : String → Option BinOp
  | "Element.__radd__" | "Operator.__radd__" => some .add
  | "Element.__rsub__" | "Operator.__rsub__" => some .sub
  | "Element.__rmul__" | "Operator.__rmul__" => some .mul
  | "Element.__rtruediv__" | "Operator.__rtruediv__" => some .div
  | "Element.__rmod__" | "Operator.__rmod__" => some .mod
  | "Element.__rpow__" | "Operator.__rpow__" => some .pow
  | _ => none

/-- operators whose two operand orders are the same operation on numbers (IEEE `+` and `*` are commutative bit for
bit): the code builds `2.0 * a` as `a * 2.0` (`NumericalMultiplicationOperator` prints the element first) -/
def commutes : BinOp → Bool
  | .add | .mul => true
  | _ => false

def reflRowOK (t : Tmpl) : Bool :=
  match reflOp t.cls with
  | some k => beqPy (erase (shapeOf t)) (.bin k h1 h0) || (commutes k && beqPy (erase (shapeOf t)) (.bin k h0 h1))
  | none => true

/-- per-run obligation on the probed table of reflected overloads (a method the specification does not know is
reported by the harness, not decided here) -/
def reflOK (T : Table) : Bool := T.all reflRowOK

/-- **a reflected build denotes `k op e`**: for every probed reflected overload, in any arithmetic, the value of
the built term is the operator applied to (other, self) — the number is the LEFT operand; only for the commutative
`+` and `*` the operands may also appear in the other order -/
theorem refl_build_denotes (T : Table) (h : reflOK T = true) (t : Tmpl) (ht : t ∈ T) (k : BinOp)
    (hk : reflOp t.cls = some k) (α : Type) (C : Carrier α) (ρ : Nat → α) :
    eval C ρ (shapeOf t) = C.bin k (ρ 1) (ρ 0) ∨
    (commutes k = true ∧ eval C ρ (shapeOf t) = C.bin k (ρ 0) (ρ 1)) := by
  unfold reflOK at h
  rw [List.all_eq_true] at h
  have := h t ht
  simp only [reflRowOK, hk, Bool.or_eq_true, Bool.and_eq_true] at this
  rcases this with h1' | ⟨hc, h2'⟩
  · left
    rw [← eval_erase C ρ (shapeOf t), beqPy_eq _ _ h1']
    simp [eval, h0, h1]
  · right
    refine ⟨hc, ?_⟩
    rw [← eval_erase C ρ (shapeOf t), beqPy_eq _ _ h2']
    simp [eval, h0, h1]

/-- witness for the swapped overload (`Operator.__rpow__` written as a copy of `__pow__`: `PowerOperator(self, other)`):
`2.0 ** (a+b)` would be built as `(a+b) ** 2.0` — the obligation is false on that row -/
def swappedRpow : Tmpl :=
  { cls := "Operator.__rpow__", arity := 2,
    toks := [.lp, .lp, .hole 0, .rp, .op .pow, .lp, .hole 1, .rp, .rp] }
theorem C02_witness_rpow_swapped : reflOK [swappedRpow] = false := by decide +kernel

/-- … and the correct overload satisfies it (non-vacuity) -/
def goodRpow : Tmpl :=
  { cls := "Operator.__rpow__", arity := 2,
    toks := [.lp, .lp, .hole 1, .rp, .op .pow, .lp, .hole 0, .rp, .rp] }
example : reflOK [goodRpow] = true := by decide +kernel

/-! ### Unary minus as a build step

`-e` does not go through a template: `Element.__neg__` / `Operator.__neg__` BUILD `NumericalMultiplicationOperator(e, -1.0)`.
The probe applies one, two and three unary minus signs to an instance of every operator class (placeholder operands) and to a
plain element, and records the emitted text with the text of `e` itself replaced by `hole 0` (tables `negated1/2/3`).
The row must be n nested `(-1.0) * (…)` around `hole 0`: the operand is used as a unit and never dropped or replaced. -/

/-- the tree is `n` nested multiplications by the literal −1 around `hole 0` (`-1` for the first sign on a plain element) -/
def isNegN : Nat → Py → Bool
  | 0, e => beqPy e (.hole 0)
  | n + 1, .bin .mul (.neg (.num s)) r => (s == "1.0" || s == "1") && isNegN n r
  | _ + 1, _ => false

/-- `n` signs may also be built as `m ≤ n` nested multiplications with `m ≡ n (mod 2)`: folding `-(-e)` to `e` is exact
(multiplying by −1.0 twice returns the same double), so a build that cancels pairs of signs is a harmless rewrite -/
def isNegPar (n : Nat) (e : Py) : Bool := (List.range (n + 1)).any fun m => m % 2 == n % 2 && isNegN m e

def negOK (n : Nat) (T : Table) : Bool := T.all fun t => isNegPar n (erase (shapeOf t))

/-- value of n unary minus signs applied to `v` -/
def negVal (C : Carrier α) : Nat → α → α
  | 0, v => v
  | n + 1, v => C.bin .mul (C.neg (C.num "1.0")) (negVal C n v)

theorem isNegN_eval (C : Carrier α) (hC : C.num "1" = C.num "1.0") (ρ : Nat → α) (n : Nat) (e : Py)
    (h : isNegN n e = true) : eval C ρ e = negVal C n (ρ 0) := by
  fun_induction isNegN n e with
  | case1 e =>
    rw [beqPy_eq _ _ h]; simp [eval, negVal]
  | case2 n s r ih =>
    simp only [Bool.and_eq_true, Bool.or_eq_true, beq_iff_eq] at h
    obtain ⟨hs, hr⟩ := h
    simp only [eval, negVal, ih hr]
    rcases hs with rfl | rfl
    · rfl
    · rw [hC]
  | case3 => simp at h

theorem negVal_add_two_mul (C : Carrier α)
    (hI : ∀ v, C.bin .mul (C.neg (C.num "1.0")) (C.bin .mul (C.neg (C.num "1.0")) v) = v) (m : Nat) (v : α) :
    ∀ k, negVal C (m + 2 * k) v = negVal C m v := by
  intro k
  induction k with
  | zero => rfl
  | succ k ih =>
    have : m + 2 * (k + 1) = (m + 2 * k) + 1 + 1 := by omega
    rw [this]
    simp only [negVal]
    rw [hI, ih]

/-- **`-e` (n signs) denotes (−1.0)·…·(−1.0)·e with `e` as a unit**, for every probed class, in any arithmetic in which
the literals `1` and `1.0` are the same number and multiplying by −1.0 twice is the identity (IEEE doubles) -/
theorem neg_build_denotes (n : Nat) (T : Table) (h : negOK n T = true) (t : Tmpl) (ht : t ∈ T)
    (α : Type) (C : Carrier α) (hC : C.num "1" = C.num "1.0")
    (hI : ∀ v, C.bin .mul (C.neg (C.num "1.0")) (C.bin .mul (C.neg (C.num "1.0")) v) = v) (ρ : Nat → α) :
    eval C ρ (shapeOf t) = negVal C n (ρ 0) := by
  unfold negOK at h
  rw [List.all_eq_true] at h
  have h1 := h t ht
  simp only [isNegPar, List.any_eq_true, List.mem_range, Bool.and_eq_true, beq_iff_eq] at h1
  obtain ⟨m, hm, hpar, hN⟩ := h1
  rw [← eval_erase C ρ (shapeOf t), isNegN_eval C hC ρ m _ hN]
  obtain ⟨k, rfl⟩ : ∃ k, n = m + 2 * k := ⟨(n - m) / 2, by omega⟩
  exact (negVal_add_two_mul C hI m (ρ 0) k).symm

/-- witness for a sign fold that takes the operand of `abs`/`exp` for "the number" (both are subclasses of the wrapper of
plain numbers): `-(-abs(x))` is built as the literal `-1.0` — the operand is dropped, the obligation is false on that row -/
def foldedAbs : Tmpl := { cls := "AbsOperator", arity := 1, toks := [.op .sub, .num "1.0"] }
theorem C02_witness_neg_fold : negOK 2 [foldedAbs] = false := by decide +kernel

def goodAbs2 : Tmpl :=
  { cls := "AbsOperator", arity := 1,
    toks := [.lp, .op .sub, .num "1.0", .rp, .op .mul, .lp, .lp, .op .sub, .num "1.0", .rp, .op .mul, .lp, .hole 0, .rp, .rp] }
example : negOK 2 [goodAbs2] = true := by decide +kernel

/-! ### Forward overloads as build steps: no algebraic rewriting when the tree is built

`e X k` with a number literal `k` calls `type(e).__X__(e, k)`.  The probe calls every forward overload
(`__add__ __sub__ __mul__ __truediv__ __mod__ __pow__` and the six comparisons) on an instance of every operator class — once
with placeholder operands and, for the classes that take two operands, once with a NUMBER as second operand, so that a
rewrite keyed on "both are literals" is reached — and records the text with the text of `e` itself replaced by `hole 0`
and the literal by `hole 1` (one generated table per overload).  The row must be `hole 0 X hole 1`. -/

def fwdRowOK (k : BinOp) (t : Tmpl) : Bool :=
  beqPy (erase (shapeOf t)) (.bin k h0 h1) || (commutes k && beqPy (erase (shapeOf t)) (.bin k h1 h0))

def fwdOK (k : BinOp) (T : Table) : Bool := T.all (fwdRowOK k)

/-- **a forward build denotes `e X k` with `e` as a unit** (for `+`/`*` possibly with the operands exchanged) -/
theorem fwd_build_denotes (k : BinOp) (T : Table) (h : fwdOK k T = true) (t : Tmpl) (ht : t ∈ T)
    (α : Type) (C : Carrier α) (ρ : Nat → α) :
    eval C ρ (shapeOf t) = C.bin k (ρ 0) (ρ 1) ∨
    (commutes k = true ∧ eval C ρ (shapeOf t) = C.bin k (ρ 1) (ρ 0)) := by
  unfold fwdOK at h
  rw [List.all_eq_true] at h
  have := h t ht
  simp only [fwdRowOK, Bool.or_eq_true, Bool.and_eq_true] at this
  rcases this with h1' | ⟨hc, h2'⟩
  · left
    rw [← eval_erase C ρ (shapeOf t), beqPy_eq _ _ h1']
    simp [eval, h0, h1]
  · right
    refine ⟨hc, ?_⟩
    rw [← eval_erase C ρ (shapeOf t), beqPy_eq _ _ h2']
    simp [eval, h0, h1]

/-- witness: `(x ** 2.0) ** 7.5` built as ONE power `x ** 15.0` (the identity (x^m)^n = x^(mn) applied at build time) — the
operand `x ** 2.0` is not used as a unit, the row is refused -/
def foldedPow : Tmpl :=
  { cls := "PowerOperator", arity := 2,
    toks := [.lp, .lp, .hole 0, .rp, .op .pow, .lp, .num "15.0", .rp, .rp] }
theorem C02_witness_pow_fold : fwdOK .pow [foldedPow] = false := by decide +kernel

/-- … and the identity is false outside its domain: over ℤ with `x ^ (1/2)` read as the integer square root of a square,
`((-3)^2)^(1/2) = 3` but `(-3)^(2·(1/2)) = (-3)^1 = -3` -/
theorem pow_fold_outside_domain : Int.ofNat (Nat.sqrt (((-3 : Int) ^ 2).toNat)) ≠ (-3 : Int) ^ 1 := by decide

def goodPow : Tmpl :=
  { cls := "PowerOperator", arity := 2,
    toks := [.lp, .lp, .hole 0, .rp, .op .pow, .lp, .hole 1, .rp, .rp] }
example : fwdOK .pow [goodPow] = true := by decide +kernel

/-- every class of the C02 vocabulary is present in the table -/
def vocabulary : List String :=
  ["AdditionOperator", "SubtractionOperator", "MultiplicationOperator", "DivisionOperator", "ModOperator",
   "PowerOperator", "NumericalMultiplicationOperator", "ComparisonOperator[>]", "ComparisonOperator[<]",
   "ComparisonOperator[>=]", "ComparisonOperator[<=]", "ComparisonOperator[==]", "ComparisonOperator[!=]",
   "If", "And", "Or", "Not", "AbsOperator", "MaxOperator", "MinOperator", "Exp", "Sqrt", "Round"]

def vocabOK (T : Table) : Bool := vocabulary.all fun c => T.any fun t => t.cls == c

/-- operand level of the SD DSL: every operand (leaf or operator term) binds at least as tightly as
`*` (level 6); negative number literals (level 7) and element references (primaries) are leaves. -/
def L : Nat := 6

/-- **C02 at full strength** for operator table `T`: for EVERY expression tree over the table,
the emitted text has a parse (CPython precedence) whose value — in any arithmetic, i.e. for every
carrier with uninterpreted operations — equals the value of the tree with every operand used as a
unit; and for every class of the C02 vocabulary that unit-wise value is the intended operation. -/
def C02_full (T : Table) : Prop :=
  (∀ e : E, E.ok T L e = true →
     Parses (render T e) (denote T e) ∧
     -- (wave 3) … and the executable parser — the one validated against CPython's `ast.parse` on every run —
     -- returns exactly that tree (completeness of the fuelled parser with the fuel `parse` uses)
     parse (render T e) = some (denote T e) ∧
     ∀ (α : Type) (C : Carrier α), eval C (fun _ => C.name "MISSING") (denote T e) = value C T e) ∧
  (∀ t ∈ T, ∀ s, specPy t.cls = some s →
     ∀ (α : Type) (C : Carrier α) (ρ : Nat → α), eval C ρ (shapeOf t) = eval C ρ s) ∧
  vocabOK T = true

theorem C02_full_of_tableOK (T : Table) (hT : tableOK L T = true) (hS : specOK T = true)
    (hV : vocabOK T = true) : C02_full T := by
  refine ⟨?_, ?_, hV⟩
  · intro e he
    exact ⟨render_parses L (by decide) T hT e he, parse_render_eq L (by decide) T hT e he,
      fun α C => eval_denote C T e⟩
  · intro t ht s hs α C ρ
    unfold specOK at hS
    rw [List.all_eq_true] at hS
    have := hS t ht
    simp only [hs] at this
    rw [← eval_erase C ρ (shapeOf t), beqPy_eq _ _ this]

/-- Uniqueness: under the same per-run obligation, EVERY parse of the emitted text — in particular
the one the executable parser (differentially validated against CPython's `ast.parse`) returns — is the
tree with operands as units, so its value in any arithmetic is the unit-wise value. -/
theorem C02_parse_unique (T : Table) (hT : tableOK L T = true) (e : E) (he : E.ok T L e = true) :
    (∀ p, Parses (render T e) p → p = denote T e) ∧
    (∀ p, parse (render T e) = some p → p = denote T e) ∧
    (∀ p, Parses (render T e) p → ∀ (α : Type) (C : Carrier α),
        eval C (fun _ => C.name "MISSING") p = value C T e) := by
  refine ⟨fun p hp => render_parse_unique L (by decide) T hT e he p hp,
    fun p hp => parse_render L (by decide) T hT e he p hp, ?_⟩
  intro p hp α C
  rw [render_parse_unique L (by decide) T hT e he p hp]
  exact eval_denote C T e

/-- **Completeness corollary (wave 3)**: under the per-run obligation the executable parser SUCCEEDS on the
emitted text of every tree and returns the tree with operands as units (`parse_complete`: the fuelled parser
finds every derivation of the relation with fuel `2·length + 2 ≤ 4·length + 8`); with `parse_sound` the
executable parser decides the relation (`parse_iff`). -/
theorem C02_parse_complete (T : Table) (hT : tableOK L T = true) (e : E) (he : E.ok T L e = true) :
    parse (render T e) = some (denote T e) ∧
    (∀ (α : Type) (C : Carrier α), (parse (render T e)).map (eval C (fun _ => C.name "MISSING")) = some (value C T e)) := by
  have h := parse_render_eq L (by decide) T hT e he
  refine ⟨h, fun α C => ?_⟩
  rw [h]; simp [eval_denote C T e]

theorem C02_parse_decides (ts : List Tok) (e : Py) : parse ts = some e ↔ Parses ts e := parse_iff ts e

/-! ### Negation witnesses for the bare-infix templates of the pinned tree (before the repair) -/

/-- With `SubtractionOperator` rendered bare (`H0-H1`), `a-(b-c)` re-parses as `(a-b)-c`: no table
containing that template satisfies the grouping property. Kernel-checked on the concrete tree. -/
def bareSub : Tmpl := { cls := "SubtractionOperator", arity := 2, toks := [.hole 0, .op .sub, .hole 1] }

theorem C02_witness_bare_sub :
    (parse (render [bareSub] (.node 0 [.leaf (.name "a"), .node 0 [.leaf (.name "b"), .leaf (.name "c")]]))).map sexp
      = some "(- (- (name a) (name b)) (name c))" := by decide +kernel

theorem C02_bare_sub_not_ok : tableOK L [bareSub] = false := by decide +kernel

/-- Non-vacuity: a table with parenthesised subtraction and multiplication satisfies `tableOK`,
and a nested tree over it is `E.ok`. -/
def demoTable : Table :=
  [{ cls := "SubtractionOperator", arity := 2, toks := [.lp, .hole 0, .op .sub, .hole 1, .rp] },
   { cls := "MultiplicationOperator", arity := 2,
     toks := [.lp, .hole 0, .rp, .op .mul, .lp, .hole 1, .rp] }]

example : tableOK L demoTable = true ∧ specOK demoTable = true ∧
    E.ok demoTable L (.node 0 [.leaf (.name "a"), .node 1 [.leaf (.neg (.num "1.0")),
      .node 0 [.leaf (.name "b"), .leaf (.name "c")]]]) = true := by decide +kernel

#print axioms C02_full_of_tableOK
#print axioms C02_parse_unique
#print axioms C02_parse_complete
#print axioms refl_build_denotes
#print axioms neg_build_denotes
#print axioms fwd_build_denotes
#print axioms C02_witness_pow_fold
#print axioms C02_witness_neg_fold
#print axioms C02_witness_rpow_swapped
#print axioms C02_parse_decides
#print axioms C02_witness_bare_sub
#print axioms render_parses
#print axioms parse_print

end Bptk.Py
