import Bptk.Core.C13
import Mathlib.Algebra.Order.Field.Basic
import Mathlib.Algebra.Order.Field.Rat
import Mathlib.Algebra.BigOperators.Group.List.Basic
import Mathlib.Tactic.Linarith
import Mathlib.Tactic.FieldSimp
/-!
C13 — property theorems.  Quantifier: every population (list of agents of any types, states, property
entries incl. non-numeric ones), unbounded.  The carrier-generic part (`stat_spec`) holds for any
operations (so also for IEEE doubles: same operation tree in the same order); the value-level part
(`C13_full`) is over `Int`.
-/
namespace Bptk.C13
variable {α : Type}

/-! ### one property record inside one group -/

theorem lookup_updProp (o : Ops α) (c : Nat) (n p : Nat) (v : α) : ∀ ps : List (Nat × PStat α),
    lookupProp (updProp o c ps n v) p =
      if n = p then some (upd1 o c (lookupProp ps n) v) else lookupProp ps p := by
  intro ps
  induction ps with
  | nil => simp [updProp, lookupProp]
  | cons x rest ih =>
    obtain ⟨m, s⟩ := x
    by_cases hmn : m = n
    · subst hmn
      by_cases hmp : m = p
      · simp [updProp, lookupProp, hmp]
      · simp [updProp, lookupProp, hmp]
    · by_cases hnp : n = p
      · subst hnp
        simp [updProp, lookupProp, hmn, ih]
      · by_cases hmp : m = p
        · subst hmp; simp [updProp, lookupProp, hmn, hnp]
        · simp [updProp, lookupProp, hmn, hnp, hmp, ih]

def stepP (o : Ops α) (c : Nat) (st : Option (PStat α)) (v : α) : Option (PStat α) := some (upd1 o c st v)

theorem lookup_foldl_entries (o : Ops α) (c p : Nat) : ∀ (es : List (Entry α)) (ps : List (Nat × PStat α)),
    lookupProp (es.foldl (updEntry o c) ps) p =
      ((es.filter (fun e => e.numeric && e.name == p)).map (·.value)).foldl (stepP o c) (lookupProp ps p) := by
  intro es
  induction es with
  | nil => intro ps; rfl
  | cons e rest ih =>
    intro ps
    rw [List.foldl_cons, ih]
    by_cases hn : e.numeric = true
    · by_cases hp : e.name = p
      · simp [updEntry, hn, hp, lookup_updProp, stepP]
      · simp [updEntry, hn, hp, lookup_updProp]
    · simp [updEntry, hn]

/-- the updates property `p` receives while the agents `ms` join a group whose count is `c`:
(count at that moment, value). -/
def pupdates (p : Nat) : Nat → List (Agent α) → List (Nat × α)
  | _, [] => []
  | c, a :: rest => (numericOf a p).map (fun v => (c + 1, v)) ++ pupdates p (c + 1) rest

def stepU (o : Ops α) (st : Option (PStat α)) (u : Nat × α) : Option (PStat α) := some (upd1 o u.1 st u.2)

theorem group_fold (o : Ops α) (p : Nat) : ∀ (ms : List (Agent α)) (g : Group α),
    (ms.foldl (procGroup o) g).count = g.count + ms.length ∧
    lookupProp (ms.foldl (procGroup o) g).props p =
      (pupdates p g.count ms).foldl (stepU o) (lookupProp g.props p) := by
  intro ms
  induction ms with
  | nil => intro g; simp [pupdates]
  | cons a rest ih =>
    intro g
    obtain ⟨h1, h2⟩ := ih (procGroup o g a)
    refine ⟨?_, ?_⟩
    · rw [List.foldl_cons, h1]; simp [procGroup]; omega
    · rw [List.foldl_cons, h2]
      simp only [procGroup, pupdates, List.foldl_append, List.foldl_map, lookup_foldl_entries, numericOf]
      rfl

theorem pupdates_values (p : Nat) : ∀ (ms : List (Agent α)) (c : Nat),
    (pupdates p c ms).map (·.2) = valuesOf ms p := by
  intro ms
  induction ms with
  | nil => intro c; rfl
  | cons a rest ih =>
    intro c
    simp [pupdates, valuesOf, List.flatMap_cons, ih (c + 1), Function.comp_def]

/-- count carried by the last update (`d` when there is none). -/
def lastC : Nat → List (Nat × α) → Nat
  | d, [] => d
  | _, u :: us => lastC u.1 us

theorem lastC_append (d : Nat) : ∀ (xs ys : List (Nat × α)) , lastC d (xs ++ ys) = lastC (lastC d xs) ys
  | [], ys => rfl
  | x :: xs, ys => by simp [lastC, lastC_append x.1 xs ys]

theorem lastC_map (d c : Nat) : ∀ (vs : List α), vs ≠ [] → lastC d (vs.map (fun v => (c, v))) = c
  | [], h => absurd rfl h
  | [v], _ => rfl
  | v :: w :: rest, _ => by
    simp only [List.map_cons, lastC]
    have := lastC_map c c (w :: rest) (by simp)
    simpa [List.map_cons, lastC] using this

/-- when every agent of the group carries the property, the last update sees the full count. -/
theorem lastC_homogeneous (p : Nat) : ∀ (ms : List (Agent α)) (d c : Nat),
    (∀ a ∈ ms, numericOf a p ≠ []) → ms ≠ [] → lastC d (pupdates p c ms) = c + ms.length := by
  intro ms
  induction ms with
  | nil => intro d c _ h; exact absurd rfl h
  | cons a rest ih =>
    intro d c hall _
    have ha : numericOf a p ≠ [] := hall a (by simp)
    simp only [pupdates, lastC_append, lastC_map d (c + 1) _ ha]
    by_cases hr : rest = []
    · subst hr; simp [pupdates, lastC]
    · rw [ih _ _ (fun b hb => hall b (by simp [hb])) hr]; simp; omega

/-- folding updates into an existing record. -/
theorem foldU_some (o : Ops α) : ∀ (us : List (Nat × α)) (s : PStat α), s.meanNum = s.total →
    ∃ r, us.foldl (stepU o) (some s) = some r ∧
      r.total = (us.map (·.2)).foldl o.add s.total ∧
      r.min = (us.map (·.2)).foldl (pyMin o) s.min ∧
      r.max = (us.map (·.2)).foldl (pyMax o) s.max ∧
      r.meanNum = r.total ∧ r.meanDen = lastC s.meanDen us := by
  intro us
  induction us with
  | nil => intro s hs; exact ⟨s, rfl, rfl, rfl, rfl, hs, rfl⟩
  | cons u rest ih =>
    intro s _
    obtain ⟨r, h1, h2, h3, h4, h5, h6⟩ := ih (upd1 o u.1 (some s) u.2) rfl
    exact ⟨r, by simpa [stepU] using h1, by simpa [upd1] using h2, by simpa [upd1] using h3,
      by simpa [upd1] using h4, h5, by simpa [upd1, lastC] using h6⟩

/-- folding updates from "no record yet". -/
theorem foldU_none (o : Ops α) (us : List (Nat × α)) :
    match us.map (·.2) with
    | [] => us.foldl (stepU o) none = none
    | v :: vs => ∃ r, us.foldl (stepU o) none = some r ∧
        r.total = (v :: vs).foldl o.add o.zero ∧ r.min = vs.foldl (pyMin o) v ∧ r.max = vs.foldl (pyMax o) v ∧
        r.meanNum = r.total ∧ r.meanDen = lastC 0 us := by
  cases us with
  | nil => simp
  | cons u rest =>
    obtain ⟨r, h1, h2, h3, h4, h5, h6⟩ := foldU_some o rest (upd1 o u.1 none u.2) rfl
    simp only [List.map_cons]
    exact ⟨r, by simpa [stepU] using h1, by simpa [upd1] using h2, by simpa [upd1] using h3,
      by simpa [upd1] using h4, h5, by simpa [upd1, lastC] using h6⟩

/-! ### groups inside the statistics of one time -/

theorem lookup_addAgent (o : Ops α) (a : Agent α) (k : Nat × Nat) : ∀ s : Stats α,
    lookupGroup (addAgent o s a) k =
      if (a.ty, a.state) = k then some (procOpt o (lookupGroup s (a.ty, a.state)) a) else lookupGroup s k := by
  intro s
  induction s with
  | nil => simp [addAgent, lookupGroup]
  | cons x rest ih =>
    obtain ⟨m, g⟩ := x
    by_cases hmn : m = (a.ty, a.state)
    · subst hmn
      by_cases hmp : (a.ty, a.state) = k
      · simp [addAgent, lookupGroup, hmp]
      · simp [addAgent, lookupGroup, hmp]
    · by_cases hnp : (a.ty, a.state) = k
      · subst hnp
        simp [addAgent, lookupGroup, hmn, ih]
      · by_cases hmp : m = k
        · subst hmp; simp [addAgent, lookupGroup, hmn, hnp]
        · simp [addAgent, lookupGroup, hmn, hnp, hmp, ih]

def stepG (o : Ops α) (g : Option (Group α)) (a : Agent α) : Option (Group α) := some (procOpt o g a)

theorem lookup_foldl_agents (o : Ops α) (k : Nat × Nat) : ∀ (agents : List (Agent α)) (s : Stats α),
    lookupGroup (agents.foldl (addAgent o) s) k = (members agents k).foldl (stepG o) (lookupGroup s k) := by
  intro agents
  induction agents with
  | nil => intro s; rfl
  | cons a rest ih =>
    intro s
    rw [List.foldl_cons, ih, lookup_addAgent]
    by_cases hk : (a.ty, a.state) = k
    · subst hk; simp [members, stepG]
    · simp [members, hk]

theorem foldG_some (o : Ops α) : ∀ (ms : List (Agent α)) (g : Group α),
    ms.foldl (stepG o) (some g) = some (ms.foldl (procGroup o) g) := by
  intro ms
  induction ms with
  | nil => intro g; rfl
  | cons a rest ih => intro g; simp [List.foldl_cons, stepG, procOpt, ih]

/-- the group of key `k` after `collect` is built from exactly the agents of that type and state, in
list order, and from nothing else. -/
theorem lookup_collect (o : Ops α) (agents : List (Agent α)) (k : Nat × Nat) :
    lookupGroup (collect o agents) k =
      match members agents k with
      | [] => none
      | a :: rest => some ((a :: rest).foldl (procGroup o) Group.empty) := by
  unfold collect
  rw [lookup_foldl_agents]
  cases members agents k with
  | nil => rfl
  | cons a rest => simp [lookupGroup, List.foldl_cons, stepG, procOpt, foldG_some]

/-- Carrier-generic specification of `collect`: count, and per property the operation trees. -/
theorem stat_spec (o : Ops α) (agents : List (Agent α)) (k : Nat × Nat) :
    (members agents k = [] → lookupGroup (collect o agents) k = none) ∧
    (members agents k ≠ [] → ∃ g, lookupGroup (collect o agents) k = some g ∧
      g.count = (members agents k).length ∧
      ∀ p, match valuesOf (members agents k) p with
        | [] => lookupProp g.props p = none
        | v :: vs => ∃ r, lookupProp g.props p = some r ∧
            r.total = (v :: vs).foldl o.add o.zero ∧ r.min = vs.foldl (pyMin o) v ∧
            r.max = vs.foldl (pyMax o) v ∧ r.meanNum = r.total ∧
            r.meanDen = lastC 0 (pupdates p 0 (members agents k))) := by
  rw [lookup_collect]
  constructor
  · intro h; rw [h]
  · intro h
    cases hm : members agents k with
    | nil => exact absurd hm h
    | cons a rest =>
      refine ⟨_, rfl, ?_, ?_⟩
      · have := (group_fold o 0 (a :: rest) Group.empty).1
        simpa [Group.empty] using this
      · intro p
        have h2 := (group_fold o p (a :: rest) Group.empty).2
        have h3 := foldU_none o (pupdates p 0 (a :: rest))
        rw [pupdates_values] at h3
        simp only [Group.empty, lookupProp] at h2
        simp only [Group.empty]
        rw [h2]
        exact h3

/-! ### value level, over `Int` -/

def intOps : Ops Int := { zero := 0, add := (· + ·), lt := fun a b => decide (a < b) }

theorem foldl_add_sum : ∀ (vs : List Int) (z : Int), vs.foldl intOps.add z = z + vs.sum := by
  intro vs
  induction vs with
  | nil => intro z; simp
  | cons v rest ih => intro z; rw [List.foldl_cons, ih]; simp [intOps]; omega

theorem foldl_min_spec : ∀ (vs : List Int) (v : Int),
    (vs.foldl (pyMin intOps) v ∈ v :: vs) ∧ ∀ x ∈ v :: vs, vs.foldl (pyMin intOps) v ≤ x := by
  intro vs
  induction vs with
  | nil => intro v; simp
  | cons w rest ih =>
    intro v
    obtain ⟨h1, h2⟩ := ih (pyMin intOps v w)
    have hle : pyMin intOps v w ≤ v ∧ pyMin intOps v w ≤ w ∧ (pyMin intOps v w = v ∨ pyMin intOps v w = w) := by
      simp only [pyMin, intOps]
      by_cases h : w < v
      · simp [h]; omega
      · simp [h]; omega
    rw [List.foldl_cons]
    constructor
    · rcases List.mem_cons.mp h1 with h | h
      · rcases hle.2.2 with e | e
        · rw [h, e]; simp
        · rw [h, e]; simp
      · simp [h]
    · intro x hx
      have hm := h2 (pyMin intOps v w) (by simp)
      rcases List.mem_cons.mp hx with rfl | hx
      · omega
      · rcases List.mem_cons.mp hx with rfl | hx
        · omega
        · exact h2 x (by simp [hx])

theorem foldl_max_spec : ∀ (vs : List Int) (v : Int),
    (vs.foldl (pyMax intOps) v ∈ v :: vs) ∧ ∀ x ∈ v :: vs, x ≤ vs.foldl (pyMax intOps) v := by
  intro vs
  induction vs with
  | nil => intro v; simp
  | cons w rest ih =>
    intro v
    obtain ⟨h1, h2⟩ := ih (pyMax intOps v w)
    have hle : v ≤ pyMax intOps v w ∧ w ≤ pyMax intOps v w ∧ (pyMax intOps v w = v ∨ pyMax intOps v w = w) := by
      simp only [pyMax, intOps]
      by_cases h : v < w
      · simp [h]; omega
      · simp [h]; omega
    rw [List.foldl_cons]
    constructor
    · rcases List.mem_cons.mp h1 with h | h
      · rcases hle.2.2 with e | e
        · rw [h, e]; simp
        · rw [h, e]; simp
      · simp [h]
    · intro x hx
      have hm := h2 (pyMax intOps v w) (by simp)
      rcases List.mem_cons.mp hx with rfl | hx
      · omega
      · rcases List.mem_cons.mp hx with rfl | hx
        · omega
        · exact h2 x (by simp [hx])

/-- what the statement says about one (type, state) group and one property name. -/
structure PropClauses (agents : List (Agent Int)) (ty st p : Nat) : Prop where
  /-- nobody in the group carries the property: no record, the frame shows 0 -/
  absent : valuesOf (members agents (ty, st)) p = [] →
    ∀ w, aggCell (collect intOps agents) ty st p w = none
  total : valuesOf (members agents (ty, st)) p ≠ [] →
    aggCell (collect intOps agents) ty st p .total = some (valuesOf (members agents (ty, st)) p).sum
  min : valuesOf (members agents (ty, st)) p ≠ [] →
    ∃ m, aggCell (collect intOps agents) ty st p .min = some m ∧ m ∈ valuesOf (members agents (ty, st)) p ∧
      ∀ x ∈ valuesOf (members agents (ty, st)) p, m ≤ x
  max : valuesOf (members agents (ty, st)) p ≠ [] →
    ∃ m, aggCell (collect intOps agents) ty st p .max = some m ∧ m ∈ valuesOf (members agents (ty, st)) p ∧
      ∀ x ∈ valuesOf (members agents (ty, st)) p, x ≤ m
  /-- homogeneous group (every agent carries the property): mean = sum / number of agents -/
  mean : members agents (ty, st) ≠ [] → (∀ a ∈ members agents (ty, st), numericOf a p ≠ []) →
    meanCell (collect intOps agents) ty st p =
      some ((valuesOf (members agents (ty, st)) p).sum, (members agents (ty, st)).length)

theorem valuesOf_ne_nil (ms : List (Agent Int)) (p : Nat) (h : ms ≠ []) (hall : ∀ a ∈ ms, numericOf a p ≠ []) :
    valuesOf ms p ≠ [] := by
  cases ms with
  | nil => exact absurd rfl h
  | cons a rest =>
    have := hall a (by simp)
    simp [valuesOf, List.flatMap_cons, this]

theorem propClauses (agents : List (Agent Int)) (ty st p : Nat) : PropClauses agents ty st p := by
  obtain ⟨hnone, hsome⟩ := stat_spec intOps agents (ty, st)
  by_cases hm : members agents (ty, st) = []
  · have hg := hnone hm
    have hv : valuesOf (members agents (ty, st)) p = [] := by simp [hm, valuesOf]
    refine ⟨fun _ w => by simp [aggCell, hg], fun h => absurd hv h, fun h => absurd hv h, fun h => absurd hv h,
      fun h => absurd hm h⟩
  · obtain ⟨g, hg, hc, hp⟩ := hsome hm
    have hp' := hp p
    cases hv : valuesOf (members agents (ty, st)) p with
    | nil =>
      rw [hv] at hp'
      refine ⟨fun _ w => by simp [aggCell, hg, hp'], fun h => absurd hv h, fun h => absurd hv h,
        fun h => absurd hv h, ?_⟩
      intro h hall
      exact absurd hv (valuesOf_ne_nil _ p h hall)
    | cons v vs =>
      rw [hv] at hp'
      obtain ⟨r, hr, ht, hmin, hmax, hmn, hmd⟩ := hp'
      refine ⟨fun h => by rw [hv] at h; exact absurd h (by simp), ?_, ?_, ?_, ?_⟩
      · intro _
        rw [hv]
        simp only [aggCell, hg, hr, ht]
        rw [foldl_add_sum]; simp [intOps]
      · intro _
        rw [hv]
        exact ⟨r.min, by simp [aggCell, hg, hr], by rw [hmin]; exact (foldl_min_spec vs v).1,
          by rw [hmin]; exact (foldl_min_spec vs v).2⟩
      · intro _
        rw [hv]
        exact ⟨r.max, by simp [aggCell, hg, hr], by rw [hmax]; exact (foldl_max_spec vs v).1,
          by rw [hmax]; exact (foldl_max_spec vs v).2⟩
      · intro h hall
        have hl := lastC_homogeneous p (members agents (ty, st)) 0 0 hall h
        rw [hv]
        simp only [meanCell, hg, hr, Option.map_some, hmn, ht, hmd, hl]
        rw [foldl_add_sum]; simp [intOps]

/-- The full property: for every population, every (type, state): the count is the number of agents of
that type in that state (0 and no record when there is none), and for every property name the
total / min / max / mean clauses. -/
def C13_int : Prop :=
  ∀ (agents : List (Agent Int)) (ty st : Nat),
    countCell (collect intOps agents) ty st = (members agents (ty, st)).length ∧
    (members agents (ty, st) = [] → lookupGroup (collect intOps agents) (ty, st) = none) ∧
    ∀ p, PropClauses agents ty st p

theorem C13_int_proved : C13_int := by
  intro agents ty st
  obtain ⟨hnone, hsome⟩ := stat_spec intOps agents (ty, st)
  refine ⟨?_, hnone, fun p => propClauses agents ty st p⟩
  by_cases hm : members agents (ty, st) = []
  · simp [countCell, hnone hm, hm]
  · obtain ⟨g, hg, hc, _⟩ := hsome hm
    simp [countCell, hg, hc]

/-- Outside the domain (an agent of the group lacks the property) the reported mean is *not* the mean
of the carriers and depends on the order: values 4 then (none) gives 4/2, (none) then 4 gives 4/2 as
well but 4, none, none gives 4/1 — concrete evidence, not part of the claim. -/
example : meanCell (collect intOps [⟨0, 0, [⟨7, true, 4⟩]⟩, ⟨0, 0, []⟩, ⟨0, 0, []⟩]) 0 0 7 = some (4, 1) ∧
    meanCell (collect intOps [⟨0, 0, []⟩, ⟨0, 0, []⟩, ⟨0, 0, [⟨7, true, 4⟩]⟩]) 0 0 7 = some (4, 3) := by decide

/-- Non-vacuity: two types, two states, negative / zero values, a non-numeric entry; the four numbers
of property 7 in group (0, 1) differ. -/
example :
    let pop : List (Agent Int) :=
      [⟨0, 1, [⟨7, true, -3⟩, ⟨8, false, 99⟩]⟩, ⟨1, 1, [⟨7, true, 50⟩]⟩, ⟨0, 1, [⟨7, true, 0⟩]⟩,
       ⟨0, 0, [⟨7, true, 5⟩]⟩, ⟨0, 1, [⟨7, true, 9⟩]⟩]
    countCell (collect intOps pop) 0 1 = 3 ∧ aggCell (collect intOps pop) 0 1 7 .total = some 6 ∧
    aggCell (collect intOps pop) 0 1 7 .min = some (-3) ∧ aggCell (collect intOps pop) 0 1 7 .max = some 9 ∧
    meanCell (collect intOps pop) 0 1 7 = some (6, 3) ∧ aggCell (collect intOps pop) 0 1 8 .total = none ∧
    countCell (collect intOps pop) 1 0 = 0 := by decide

/-! ### wave 2 (1): the value level over an ordered field

`K` is any linearly ordered field (instantiated at ℚ below).  The mean is the *quotient* the Python code
computes, `total / count`, taken in the field. -/

section Field
set_option linter.unusedSectionVars false
variable {K : Type} [Field K] [LinearOrder K] [IsStrictOrderedRing K]

def fieldOps : Ops K := { zero := 0, add := (· + ·), lt := fun a b => decide (a < b) }

/-- the number the code reports for the mean: numerator / denominator in the field. -/
def meanVal (c : Option (K × Nat)) : Option K := c.map (fun x => x.1 / (x.2 : K))

theorem foldl_add_sum_f : ∀ (vs : List K) (z : K), vs.foldl (fieldOps (K := K)).add z = z + vs.sum := by
  intro vs
  induction vs with
  | nil => intro z; simp
  | cons v rest ih => intro z; rw [List.foldl_cons, ih]; simp [fieldOps, add_assoc]

theorem pyMin_f (v w : K) : pyMin fieldOps v w ≤ v ∧ pyMin fieldOps v w ≤ w ∧
    (pyMin fieldOps v w = v ∨ pyMin fieldOps v w = w) := by
  simp only [pyMin, fieldOps]
  by_cases h : w < v
  · simp [h, le_of_lt h]
  · simp [h, not_lt.mp h]

theorem pyMax_f (v w : K) : v ≤ pyMax fieldOps v w ∧ w ≤ pyMax fieldOps v w ∧
    (pyMax fieldOps v w = v ∨ pyMax fieldOps v w = w) := by
  simp only [pyMax, fieldOps]
  by_cases h : v < w
  · simp [h, le_of_lt h]
  · simp [h, not_lt.mp h]

theorem foldl_min_spec_f : ∀ (vs : List K) (v : K),
    (vs.foldl (pyMin fieldOps) v ∈ v :: vs) ∧ ∀ x ∈ v :: vs, vs.foldl (pyMin fieldOps) v ≤ x := by
  intro vs
  induction vs with
  | nil => intro v; simp
  | cons w rest ih =>
    intro v
    obtain ⟨h1, h2⟩ := ih (pyMin fieldOps v w)
    obtain ⟨hv, hw, hor⟩ := pyMin_f v w
    rw [List.foldl_cons]
    constructor
    · rcases List.mem_cons.mp h1 with h | h
      · rcases hor with e | e
        · rw [h, e]; simp
        · rw [h, e]; simp
      · simp [h]
    · intro x hx
      have hm := h2 (pyMin fieldOps v w) (by simp)
      rcases List.mem_cons.mp hx with rfl | hx
      · exact le_trans hm hv
      · rcases List.mem_cons.mp hx with rfl | hx
        · exact le_trans hm hw
        · exact h2 x (by simp [hx])

theorem foldl_max_spec_f : ∀ (vs : List K) (v : K),
    (vs.foldl (pyMax fieldOps) v ∈ v :: vs) ∧ ∀ x ∈ v :: vs, x ≤ vs.foldl (pyMax fieldOps) v := by
  intro vs
  induction vs with
  | nil => intro v; simp
  | cons w rest ih =>
    intro v
    obtain ⟨h1, h2⟩ := ih (pyMax fieldOps v w)
    obtain ⟨hv, hw, hor⟩ := pyMax_f v w
    rw [List.foldl_cons]
    constructor
    · rcases List.mem_cons.mp h1 with h | h
      · rcases hor with e | e
        · rw [h, e]; simp
        · rw [h, e]; simp
      · simp [h]
    · intro x hx
      have hm := h2 (pyMax fieldOps v w) (by simp)
      rcases List.mem_cons.mp hx with rfl | hx
      · exact le_trans hv hm
      · rcases List.mem_cons.mp hx with rfl | hx
        · exact le_trans hw hm
        · exact h2 x (by simp [hx])

/-- a sum of `n ≥ 1` numbers lies between `n · least` and `n · greatest`. -/
theorem sum_bounds : ∀ (vs : List K) (lo hi : K), (∀ x ∈ vs, lo ≤ x) → (∀ x ∈ vs, x ≤ hi) →
    (vs.length : K) * lo ≤ vs.sum ∧ vs.sum ≤ (vs.length : K) * hi := by
  intro vs
  induction vs with
  | nil => intro lo hi _ _; simp
  | cons v rest ih =>
    intro lo hi hlo hhi
    obtain ⟨h1, h2⟩ := ih lo hi (fun x hx => hlo x (by simp [hx])) (fun x hx => hhi x (by simp [hx]))
    have := hlo v (by simp); have := hhi v (by simp)
    simp only [List.length_cons, List.sum_cons, Nat.cast_add, Nat.cast_one]
    constructor <;> nlinarith

theorem valuesOf_length_of_single {β : Type} (p : Nat) : ∀ (ms : List (Agent β)),
    (∀ a ∈ ms, (numericOf a p).length = 1) → (valuesOf ms p).length = ms.length := by
  intro ms
  induction ms with
  | nil => intro _; rfl
  | cons a rest ih =>
    intro h
    have ha := h a (by simp)
    have := ih (fun b hb => h b (by simp [hb]))
    simp [valuesOf, List.flatMap_cons] at this ⊢
    omega

/-- The statement for one (type, state) group and one property over the ordered field `K`. -/
structure FieldClauses (agents : List (Agent K)) (ty st p : Nat) : Prop where
  absent : valuesOf (members agents (ty, st)) p = [] →
    (∀ w, aggCell (collect fieldOps agents) ty st p w = none) ∧ meanCell (collect fieldOps agents) ty st p = none
  total : valuesOf (members agents (ty, st)) p ≠ [] →
    aggCell (collect fieldOps agents) ty st p .total = some (valuesOf (members agents (ty, st)) p).sum
  /-- min is the least element of the values -/
  min : valuesOf (members agents (ty, st)) p ≠ [] →
    ∃ m, aggCell (collect fieldOps agents) ty st p .min = some m ∧ m ∈ valuesOf (members agents (ty, st)) p ∧
      ∀ x ∈ valuesOf (members agents (ty, st)) p, m ≤ x
  /-- max is the greatest element of the values -/
  max : valuesOf (members agents (ty, st)) p ≠ [] →
    ∃ m, aggCell (collect fieldOps agents) ty st p .max = some m ∧ m ∈ valuesOf (members agents (ty, st)) p ∧
      ∀ x ∈ valuesOf (members agents (ty, st)) p, x ≤ m
  /-- homogeneous group: the reported mean is the quotient total / count, count = number of agents -/
  mean : members agents (ty, st) ≠ [] → (∀ a ∈ members agents (ty, st), numericOf a p ≠ []) →
    meanVal (meanCell (collect fieldOps agents) ty st p) =
      some ((valuesOf (members agents (ty, st)) p).sum / ((members agents (ty, st)).length : K))
  /-- every agent of the group carries the property exactly once (agent.properties is a dict): the reported
  mean is the arithmetic mean of the values and lies between the reported min and max -/
  mean_arith : members agents (ty, st) ≠ [] → (∀ a ∈ members agents (ty, st), (numericOf a p).length = 1) →
    ∃ mn mx, aggCell (collect fieldOps agents) ty st p .min = some mn ∧
      aggCell (collect fieldOps agents) ty st p .max = some mx ∧
      meanVal (meanCell (collect fieldOps agents) ty st p) =
        some ((valuesOf (members agents (ty, st)) p).sum / ((valuesOf (members agents (ty, st)) p).length : K)) ∧
      mn ≤ (valuesOf (members agents (ty, st)) p).sum / ((valuesOf (members agents (ty, st)) p).length : K) ∧
      (valuesOf (members agents (ty, st)) p).sum / ((valuesOf (members agents (ty, st)) p).length : K) ≤ mx
  /-- a group of one agent carrying the value `v`: all four numbers are `v` -/
  single : ∀ a v, members agents (ty, st) = [a] → numericOf a p = [v] →
    aggCell (collect fieldOps agents) ty st p .total = some v ∧ aggCell (collect fieldOps agents) ty st p .min = some v ∧
    aggCell (collect fieldOps agents) ty st p .max = some v ∧
    meanVal (meanCell (collect fieldOps agents) ty st p) = some v

theorem valuesOf_ne_nil' {β : Type} (ms : List (Agent β)) (p : Nat) (h : ms ≠ []) (hall : ∀ a ∈ ms, numericOf a p ≠ []) :
    valuesOf ms p ≠ [] := by
  cases ms with
  | nil => exact absurd rfl h
  | cons a rest =>
    have := hall a (by simp)
    simp [valuesOf, List.flatMap_cons, this]

theorem fieldClauses (agents : List (Agent K)) (ty st p : Nat) : FieldClauses agents ty st p := by
  obtain ⟨hnone, hsome⟩ := stat_spec fieldOps agents (ty, st)
  -- the three basic clauses first
  have htot : valuesOf (members agents (ty, st)) p ≠ [] →
      aggCell (collect fieldOps agents) ty st p .total = some (valuesOf (members agents (ty, st)) p).sum := by
    intro hne
    have hm : members agents (ty, st) ≠ [] := by
      intro h; apply hne; simp [h, valuesOf]
    obtain ⟨g, hg, _, hp⟩ := hsome hm
    have hp' := hp p
    cases hv : valuesOf (members agents (ty, st)) p with
    | nil => exact absurd hv hne
    | cons v vs =>
      rw [hv] at hp'
      obtain ⟨r, hr, ht, _⟩ := hp'
      simp only [aggCell, hg, hr, ht]
      rw [foldl_add_sum_f]; simp [fieldOps]
  have hmin : valuesOf (members agents (ty, st)) p ≠ [] →
      ∃ m, aggCell (collect fieldOps agents) ty st p .min = some m ∧ m ∈ valuesOf (members agents (ty, st)) p ∧
        ∀ x ∈ valuesOf (members agents (ty, st)) p, m ≤ x := by
    intro hne
    have hm : members agents (ty, st) ≠ [] := by
      intro h; apply hne; simp [h, valuesOf]
    obtain ⟨g, hg, _, hp⟩ := hsome hm
    have hp' := hp p
    cases hv : valuesOf (members agents (ty, st)) p with
    | nil => exact absurd hv hne
    | cons v vs =>
      rw [hv] at hp'
      obtain ⟨r, hr, _, hmin, _⟩ := hp'
      exact ⟨r.min, by simp [aggCell, hg, hr], by rw [hmin]; exact (foldl_min_spec_f vs v).1,
        by rw [hmin]; exact (foldl_min_spec_f vs v).2⟩
  have hmax : valuesOf (members agents (ty, st)) p ≠ [] →
      ∃ m, aggCell (collect fieldOps agents) ty st p .max = some m ∧ m ∈ valuesOf (members agents (ty, st)) p ∧
        ∀ x ∈ valuesOf (members agents (ty, st)) p, x ≤ m := by
    intro hne
    have hm : members agents (ty, st) ≠ [] := by
      intro h; apply hne; simp [h, valuesOf]
    obtain ⟨g, hg, _, hp⟩ := hsome hm
    have hp' := hp p
    cases hv : valuesOf (members agents (ty, st)) p with
    | nil => exact absurd hv hne
    | cons v vs =>
      rw [hv] at hp'
      obtain ⟨r, hr, _, _, hmax, _⟩ := hp'
      exact ⟨r.max, by simp [aggCell, hg, hr], by rw [hmax]; exact (foldl_max_spec_f vs v).1,
        by rw [hmax]; exact (foldl_max_spec_f vs v).2⟩
  have hmean : members agents (ty, st) ≠ [] → (∀ a ∈ members agents (ty, st), numericOf a p ≠ []) →
      meanVal (meanCell (collect fieldOps agents) ty st p) =
        some ((valuesOf (members agents (ty, st)) p).sum / ((members agents (ty, st)).length : K)) := by
    intro hm hall
    obtain ⟨g, hg, _, hp⟩ := hsome hm
    have hp' := hp p
    have hne := valuesOf_ne_nil' _ p hm hall
    have hl := lastC_homogeneous p (members agents (ty, st)) 0 0 hall hm
    cases hv : valuesOf (members agents (ty, st)) p with
    | nil => exact absurd hv hne
    | cons v vs =>
      rw [hv] at hp'
      obtain ⟨r, hr, ht, _, _, hmn, hmd⟩ := hp'
      simp only [meanVal, meanCell, hg, hr, Option.map_some, hmn, ht, hmd, hl]
      rw [foldl_add_sum_f]; simp [fieldOps]
  refine ⟨?_, htot, hmin, hmax, hmean, ?_, ?_⟩
  · intro hv
    by_cases hm : members agents (ty, st) = []
    · have hg := hnone hm
      exact ⟨fun w => by simp [aggCell, hg], by simp [meanCell, hg]⟩
    · obtain ⟨g, hg, _, hp⟩ := hsome hm
      have hp' := hp p
      rw [hv] at hp'
      exact ⟨fun w => by simp [aggCell, hg, hp'], by simp [meanCell, hg, hp']⟩
  · intro hm hone
    have hall : ∀ a ∈ members agents (ty, st), numericOf a p ≠ [] := by
      intro a ha h
      have := hone a ha
      simp [h] at this
    have hne := valuesOf_ne_nil' _ p hm hall
    have hlen := valuesOf_length_of_single p _ hone
    obtain ⟨mn, h1, _, h3⟩ := hmin hne
    obtain ⟨mx, h4, _, h6⟩ := hmax hne
    have hmv := hmean hm hall
    rw [← hlen] at hmv
    obtain ⟨hb1, hb2⟩ := sum_bounds (valuesOf (members agents (ty, st)) p) mn mx h3 h6
    have hpos : (0 : K) < ((valuesOf (members agents (ty, st)) p).length : K) := by
      have : 0 < (valuesOf (members agents (ty, st)) p).length := List.length_pos_iff.mpr hne
      exact_mod_cast this
    refine ⟨mn, mx, h1, h4, hmv, ?_, ?_⟩
    · rw [le_div_iff₀ hpos]; linarith
    · rw [div_le_iff₀ hpos]; linarith
  · intro a v hms hv
    have hm : members agents (ty, st) ≠ [] := by simp [hms]
    have hvals : valuesOf (members agents (ty, st)) p = [v] := by simp [hms, valuesOf, hv]
    have hne : valuesOf (members agents (ty, st)) p ≠ [] := by simp [hvals]
    have hall : ∀ b ∈ members agents (ty, st), numericOf b p ≠ [] := by
      intro b hb; rw [hms] at hb; simp at hb; subst hb; simp [hv]
    obtain ⟨mn, h1, h2, _⟩ := hmin hne
    obtain ⟨mx, h4, h5, _⟩ := hmax hne
    rw [hvals] at h2 h5
    simp at h2 h5
    refine ⟨by rw [htot hne, hvals]; simp, by rw [h1, h2], by rw [h4, h5], ?_⟩
    rw [hmean hm hall, hvals, hms]; simp

/-- C13 over an ordered field: for every population, every (type, state): count = number of agents of that
type in that state (no record when none), and all `FieldClauses` for every property name. -/
def C13_field (K : Type) [Field K] [LinearOrder K] [IsStrictOrderedRing K] : Prop :=
  ∀ (agents : List (Agent K)) (ty st : Nat),
    countCell (collect fieldOps agents) ty st = (members agents (ty, st)).length ∧
    (members agents (ty, st) = [] → lookupGroup (collect fieldOps agents) (ty, st) = none) ∧
    ∀ p, FieldClauses agents ty st p

theorem C13_field_proved : C13_field K := by
  intro agents ty st
  obtain ⟨hnone, hsome⟩ := stat_spec fieldOps agents (ty, st)
  refine ⟨?_, hnone, fun p => fieldClauses agents ty st p⟩
  by_cases hm : members agents (ty, st) = []
  · simp [countCell, hnone hm, hm]
  · obtain ⟨g, hg, hc, _⟩ := hsome hm
    simp [countCell, hg, hc]

end Field

/-- the instance the property text speaks of: rational values. -/
theorem C13_rat : C13_field ℚ := C13_field_proved

/-- Non-vacuity over ℚ: negative, zero and fractional values; group (0,1) has three agents, total 13/2,
min −3, max 9, mean 13/6 (between min and max); a single-agent group reports its value four times. -/
example :
    let pop : List (Agent ℚ) :=
      [⟨0, 1, [⟨7, true, -3⟩]⟩, ⟨1, 1, [⟨7, true, 50⟩]⟩, ⟨0, 1, [⟨7, true, 1/2⟩]⟩, ⟨0, 0, [⟨7, true, -5/4⟩]⟩,
       ⟨0, 1, [⟨7, true, 9⟩]⟩]
    aggCell (collect fieldOps pop) 0 1 7 .total = some (13/2) ∧ aggCell (collect fieldOps pop) 0 1 7 .min = some (-3) ∧
    aggCell (collect fieldOps pop) 0 1 7 .max = some 9 ∧ meanVal (meanCell (collect fieldOps pop) 0 1 7) = some (13/6) ∧
    meanVal (meanCell (collect fieldOps pop) 0 0 7) = some (-5/4) ∧ aggCell (collect fieldOps pop) 0 0 7 .min = some (-5/4) := by
  decide +kernel

/-! ### wave 2 (2): the cell function of `run_scenario` / `run_scenario_step`

`selection_spec`: whatever else a selection names, a selected (agent type, state, property, aggregate, time)
— or (agent type, state, time) in count mode — is reported as the number `pointCell` reads straight from the
statistics of that time; `formats_agree`: df, dict and json report the same number; `empty_state_zero`: it is 0
where the state is empty. -/

section Select
variable {α : Type}

theorem lookupA_keys {κ β : Type} [DecidableEq κ] (f : κ → β) (k : κ) : ∀ l : List κ,
    lookupA (l.map (fun k => (k, f k))) k = if k ∈ l then some (f k) else none := by
  intro l
  induction l with
  | nil => simp [lookupA]
  | cons x rest ih =>
    by_cases h : x = k
    · subst h; simp [lookupA]
    · have h' : ¬ k = x := fun e => h e.symm
      simp [lookupA, h, h', ih]

theorem lookupA_append {κ β : Type} [DecidableEq κ] (k : κ) : ∀ (l1 l2 : List (κ × β)),
    lookupA (l1 ++ l2) k = match lookupA l1 k with | some v => some v | none => lookupA l2 k := by
  intro l1
  induction l1 with
  | nil => intro l2; simp [lookupA]
  | cons x rest ih =>
    intro l2
    obtain ⟨k', v⟩ := x
    by_cases h : k' = k
    · simp [lookupA, h]
    · simp [lookupA, h, ih]

theorem lookupA_mem {κ β : Type} [DecidableEq κ] (k : κ) (v : β) : ∀ (l : List (κ × β)),
    lookupA l k = some v → (k, v) ∈ l := by
  intro l
  induction l with
  | nil => simp [lookupA]
  | cons x rest ih =>
    obtain ⟨k', w⟩ := x
    by_cases h : k' = k
    · subst h; simp [lookupA]; intro e; left; exact e.symm
    · simp only [lookupA, h, if_false]; intro e; exact List.mem_cons_of_mem _ (ih e)

/-- the column is one the selection (with aggregate list `aggs`) asks for in a state. -/
def Wanted (props : List Nat) (aggs : List Agg4) (c : Col) : Prop :=
  match c.pa with
  | none => props = []
  | some (p, a) => props ≠ [] ∧ p ∈ props ∧ a ∈ aggs

instance Wanted.dec (props : List Nat) (aggs : List Agg4) (c : Col) : Decidable (Wanted props aggs c) := by
  obtain ⟨cs, cpa⟩ := c
  cases cpa with
  | none => exact inferInstanceAs (Decidable (props = []))
  | some pa => exact inferInstanceAs (Decidable (props ≠ [] ∧ pa.1 ∈ props ∧ pa.2 ∈ aggs))

theorem mem_groupCols (props : List Nat) (aggs : List Agg4) (st : Nat) (c : Col) :
    c ∈ groupCols props aggs st ↔ c.state = st ∧ Wanted props aggs c := by
  obtain ⟨cs, cpa⟩ := c
  unfold groupCols Wanted
  by_cases hp : props = []
  · cases cpa with
    | none => simp [hp]
    | some pa => simp [hp]
  · cases cpa with
    | none => simp [hp]
    | some pa =>
      obtain ⟨p, a⟩ := pa
      simp only [hp, if_false, List.mem_flatMap, List.mem_map, Col.mk.injEq, Option.some.injEq, Prod.mk.injEq]
      constructor
      · rintro ⟨p', hp', a', ha', e1, e2, e3⟩
        subst e1 e2 e3
        exact ⟨rfl, fun h => hp h, hp', ha'⟩
      · rintro ⟨e, _, h2, h3⟩
        exact ⟨p, h2, a, h3, e.symm, rfl, rfl⟩

/-- reading a column in the `counts` dict of one time. -/
theorem lookup_rowOf (sel : Sel) (aggs : List Agg4) (ag : Nat) (c : Col) : ∀ s : Stats α,
    lookupA (rowOf sel aggs s ag) c =
      if c.state ∈ sel.states ∧ Wanted sel.props aggs c then (lookupGroup s (ag, c.state)).map (fun g => valOf g c)
      else none := by
  intro s
  induction s with
  | nil => simp [rowOf, statesOf, lookupA, lookupGroup]
  | cons x rest ih =>
    obtain ⟨⟨ty, st⟩, g⟩ := x
    have hrow : rowOf sel aggs (((ty, st), g) :: rest) ag =
        (if ty = ag then (if st ∈ sel.states then cellsOfGroup sel.props aggs st g else []) else []) ++
          rowOf sel aggs rest ag := by
      by_cases h : ty = ag
      · simp [rowOf, statesOf, List.filterMap_cons, h]
      · simp [rowOf, statesOf, List.filterMap_cons, h]
    rw [hrow, lookupA_append, ih]
    by_cases hty : ty = ag
    · by_cases hst : st ∈ sel.states
      · simp only [hty, hst, if_true, cellsOfGroup, lookupA_keys, mem_groupCols]
        by_cases hcs : c.state = st
        · by_cases hw : Wanted sel.props aggs c
          · simp [hcs, hw, hst, lookupGroup, hty]
          · simp [hcs, hw]
        · have hne : ¬ ((ty, st) = (ag, c.state)) := by
            intro e; apply hcs; simp at e; exact e.2.symm
          have hne' : ¬ ((ag, st) = (ag, c.state)) := by
            intro e; apply hcs; simp at e; exact e.symm
          simp [hcs, lookupGroup, hne']
      · have hne : ¬ ((ag, st) = (ag, c.state)) ∨ c.state ∉ sel.states := by
          by_cases e : st = c.state
          · right; rw [← e]; exact hst
          · left; intro e'; apply e; simp at e'; exact e'
        rcases hne with hne | hne
        · simp [hty, hst, lookupA, lookupGroup, hne]
        · simp [hty, hst, lookupA, hne]
    · have hne : ¬ ((ty, st) = (ag, c.state)) := by
        intro e; apply hty; simp at e; exact e.1
      simp [hty, lookupA, lookupGroup, hne]

/-- the frame cell of a wanted column in a selected state is the number read from the statistics. -/
theorem cell_getDf (sel : Sel) (aggs : List Agg4) (data : History α) (ag : Nat) (c : Col) (t : Nat)
    (hs : c.state ∈ sel.states) (hw : Wanted sel.props aggs c) :
    (getDf sel aggs data ag).cell c t = pointCell data ag c t := by
  simp only [getDf, pointCell]
  cases lookupA data t with
  | none => rfl
  | some s =>
    simp only [lookup_rowOf, hs, hw, and_self, if_true, cellOf]
    cases lookupGroup s (ag, c.state) <;> rfl

/-- a time without a row: every cell of the frame is a filled 0. -/
theorem cell_zero_of_not_index (sel : Sel) (aggs : List Agg4) (data : History α) (ag : Nat) (c : Col) (t : Nat)
    (h : t ∉ (getDf sel aggs data ag).index) : (getDf sel aggs data ag).cell c t = .zero := by
  simp only [getDf]
  cases hl : lookupA data t with
  | none => rfl
  | some s =>
    have hmem := lookupA_mem t s data hl
    have hrow : rowOf sel aggs s ag = [] := by
      by_contra hne
      apply h
      simp only [getDf, List.mem_map, List.mem_filter]
      exact ⟨(t, s), ⟨hmem, by simpa using hne⟩, rfl⟩
    simp [hrow, lookupA]

/-- a column that is not in the frame: the state is never occupied, all its numbers are 0. -/
theorem cell_zero_of_not_col (sel : Sel) (aggs : List Agg4) (data : History α) (ag : Nat) (c : Col) (t : Nat)
    (h : c ∉ (getDf sel aggs data ag).cols) : (getDf sel aggs data ag).cell c t = .zero := by
  simp only [getDf]
  cases hl : lookupA data t with
  | none => rfl
  | some s =>
    have hmem := lookupA_mem t s data hl
    cases hc : lookupA (rowOf sel aggs s ag) c with
    | none => simp [hc]
    | some v =>
      exfalso; apply h
      have := lookupA_mem c v _ hc
      simp only [getDf, List.mem_append, List.mem_flatMap, List.mem_map]
      left
      exact ⟨(t, s), hmem, (c, v), this, rfl⟩

theorem mem_selCols (sel : Sel) (aggs : List Agg4) (c : Col) (hs : c.state ∈ sel.states)
    (hw : Wanted sel.props aggs c) (hp : sel.props ≠ []) : c ∈ selCols sel aggs := by
  obtain ⟨cs, cpa⟩ := c
  cases cpa with
  | none => exact absurd hw hp
  | some pa =>
    obtain ⟨p, a⟩ := pa
    obtain ⟨_, h2, h3⟩ := hw
    simp only [selCols, List.mem_flatMap, List.mem_map]
    exact ⟨cs, hs, p, h2, a, h3, rfl⟩

theorem mem_effAggs (fmt : Fmt) (aggs : List Agg4) (a : Agg4) (h : a ∈ aggs) : a ∈ effAggs fmt aggs := by
  have hne : aggs ≠ [] := by intro e; rw [e] at h; simp at h
  cases fmt <;> cases a <;> simp [effAggs, hne, h]

/-- the selection names this column. -/
def Selected (sel : Sel) (c : Col) : Prop := c.state ∈ sel.states ∧ Wanted sel.props sel.aggs c

theorem wanted_eff (fmt : Fmt) (sel : Sel) (c : Col) (h : Wanted sel.props sel.aggs c) :
    Wanted sel.props (effAggs fmt sel.aggs) c := by
  obtain ⟨cs, cpa⟩ := c
  cases cpa with
  | none => exact h
  | some pa => exact ⟨h.1, h.2.1, mem_effAggs fmt _ _ h.2.2⟩

/-- **selection_spec.** If the call returns, every selected cell — whatever else the selection names, in
whichever format — is the number `pointCell` reads from the statistics of that time (0 when there is no such
time or no such group), and that number is not a `KeyError`. -/
theorem selection_spec (fmt : Fmt) (sel : Sel) (data : History α) (out : Out α)
    (hrun : runOut fmt sel data = some out) (ag : Nat) (hag : ag ∈ sel.agents) (c : Col) (hc : Selected sel c)
    (t : Nat) :
    readOut out ag c t = pointCell data ag c t ∧ (pointCell data ag c t).isErr = false := by
  obtain ⟨hs, hw0⟩ := hc
  have hw := wanted_eff fmt sel c hw0
  simp only [runOut] at hrun
  by_cases hr : raises sel (effAggs fmt sel.aggs) data = true
  · simp [hr] at hrun
  · simp only [hr] at hrun
    have hcell := cell_getDf sel (effAggs fmt sel.aggs) data ag c t hs hw
    -- the number is not a KeyError
    have hnoerr : (pointCell data ag c t).isErr = false := by
      cases hpe : (pointCell data ag c t).isErr with
      | false => rfl
      | true =>
        exfalso; apply hr
        simp only [pointCell] at hpe
        cases hl : lookupA data t with
        | none => simp [hl, Num.isErr] at hpe
        | some s =>
          have hmem := lookupA_mem t s data hl
          simp only [hl, cellOf] at hpe
          have hrow := lookup_rowOf sel (effAggs fmt sel.aggs) ag c s
          simp only [hs, hw, and_self, if_true] at hrow
          cases hg : lookupGroup s (ag, c.state) with
          | none => simp [hg, Num.isErr] at hpe
          | some g =>
            simp only [hg] at hpe
            rw [hg] at hrow
            have hin := lookupA_mem c _ _ hrow
            simp only [raises, Bool.or_eq_true, List.any_eq_true]
            right
            exact ⟨(t, s), hmem, ag, hag, (c, valOf g c), hin, hpe⟩
    refine ⟨?_, hnoerr⟩
    by_cases hd : data.isEmpty = true
    · simp only [hd, if_true, Bool.false_eq_true, if_false, Option.some.injEq] at hrun
      subst hrun
      have : data = [] := by simpa using hd
      simp [readOut, lookupA, pointCell, this]
    · simp only [hd, Bool.false_eq_true, if_false, Option.some.injEq] at hrun
      subst hrun
      simp only [readOut]
      rw [lookupA_keys (fun k => series (getDf sel (effAggs fmt sel.aggs) data k.1)
        (outIndex fmt sel (effAggs fmt sel.aggs) data k.1) k.2) (ag, c)]
      by_cases hk : (ag, c) ∈ outKeys sel (effAggs fmt sel.aggs) data
      · simp only [hk, if_true, series]
        rw [lookupA_keys (fun t => (getDf sel (effAggs fmt sel.aggs) data ag).cell c t) t]
        by_cases ht : t ∈ outIndex fmt sel (effAggs fmt sel.aggs) data ag
        · simp [ht, hcell]
        · have hni : t ∉ (getDf sel (effAggs fmt sel.aggs) data ag).index := by
            intro hin; apply ht
            cases fmt
            · simp only [outIndex, List.mem_flatMap]; exact ⟨ag, hag, hin⟩
            · exact hin
            · exact hin
          have := cell_zero_of_not_index sel (effAggs fmt sel.aggs) data ag c t hni
          simp [ht, ← hcell, this]
      · simp only [hk, if_false]
        have hnc : c ∉ outCols sel (effAggs fmt sel.aggs) (getDf sel (effAggs fmt sel.aggs) data ag) := by
          intro hin; apply hk
          simp only [outKeys, List.mem_flatMap, List.mem_map]
          exact ⟨ag, hag, c, hin, rfl⟩
        by_cases hp : sel.props = []
        · simp only [outCols, hp, if_true] at hnc
          have := cell_zero_of_not_col sel (effAggs fmt sel.aggs) data ag c t hnc
          rw [← hcell, this]
        · exfalso; apply hnc
          simp only [outCols, hp, if_false]
          exact mem_selCols sel _ c hs hw hp

/-- **formats_agree.** df, dict and json report the same number for every selected cell. -/
theorem formats_agree (f1 f2 : Fmt) (sel : Sel) (data : History α) (o1 o2 : Out α)
    (h1 : runOut f1 sel data = some o1) (h2 : runOut f2 sel data = some o2)
    (ag : Nat) (hag : ag ∈ sel.agents) (c : Col) (hc : Selected sel c) (t : Nat) :
    readOut o1 ag c t = readOut o2 ag c t := by
  rw [(selection_spec f1 sel data o1 h1 ag hag c hc t).1, (selection_spec f2 sel data o2 h2 ag hag c hc t).1]

/-- **selection independence.** Two selections (any subsets of agents / states / properties / aggregate types,
any formats) that both name a cell report the same number for it. -/
theorem selection_indep (f1 f2 : Fmt) (s1 s2 : Sel) (data : History α) (o1 o2 : Out α)
    (h1 : runOut f1 s1 data = some o1) (h2 : runOut f2 s2 data = some o2)
    (ag : Nat) (ha1 : ag ∈ s1.agents) (ha2 : ag ∈ s2.agents) (c : Col) (hc1 : Selected s1 c) (hc2 : Selected s2 c)
    (t : Nat) : readOut o1 ag c t = readOut o2 ag c t := by
  rw [(selection_spec f1 s1 data o1 h1 ag ha1 c hc1 t).1, (selection_spec f2 s2 data o2 h2 ag ha2 c hc2 t).1]

theorem lookupA_histOf (o : Ops α) (t : Nat) : ∀ pops : List (Nat × List (Agent α)),
    lookupA (histOf o pops) t = (lookupA pops t).map (collect o) := by
  intro pops
  induction pops with
  | nil => rfl
  | cons x rest ih =>
    obtain ⟨t', as⟩ := x
    by_cases h : t' = t
    · simp [histOf, lookupA, h]
    · have := ih
      simp only [histOf] at this
      simp [histOf, lookupA, h, this]

/-- on the statistics history of a run: the number of a time is the number of that time's population. -/
theorem pointCell_histOf (o : Ops α) (pops : List (Nat × List (Agent α))) (ag : Nat) (c : Col) (t : Nat) :
    pointCell (histOf o pops) ag c t =
      match lookupA pops t with
      | none => .zero
      | some agents => cellOf (collect o agents) ag c := by
  simp only [pointCell, lookupA_histOf]
  cases lookupA pops t <;> rfl

/-- **zero where the state is empty**: no agent of the type in the state at that time (or no such time). -/
theorem empty_state_zero (o : Ops α) (agents : List (Agent α)) (ag : Nat) (c : Col)
    (h : members agents (ag, c.state) = []) : cellOf (collect o agents) ag c = .zero := by
  simp [cellOf, (stat_spec o agents (ag, c.state)).1 h]

/-- the numbers `cellOf` reads are the cells `C13_int` / `C13_field` speak about. -/
theorem cellOf_count (s : Stats α) (ag st : Nat) :
    cellOf s ag ⟨st, none⟩ = match lookupGroup s (ag, st) with | none => .zero | some _ => .cnt (countCell s ag st) := by
  simp only [cellOf, countCell, valOf]
  cases lookupGroup s (ag, st) <;> rfl

theorem cellOf_agg (s : Stats α) (ag st p : Nat) (g : Group α) (hg : lookupGroup s (ag, st) = some g) :
    cellOf s ag ⟨st, some (p, .total)⟩ = (match aggCell s ag st p .total with | some v => .val v | none => .keyError) ∧
    cellOf s ag ⟨st, some (p, .min)⟩ = (match aggCell s ag st p .min with | some v => .val v | none => .keyError) ∧
    cellOf s ag ⟨st, some (p, .max)⟩ = (match aggCell s ag st p .max with | some v => .val v | none => .keyError) ∧
    cellOf s ag ⟨st, some (p, .mean)⟩ =
      (match meanCell s ag st p with | some x => .ratio x.1 x.2 | none => .keyError) := by
  simp only [cellOf, aggCell, meanCell, hg, valOf, readRec]
  cases lookupProp g.props p <;> simp [recCell]

end Select

/-- integer reading of a reported number (per-run probe obligations on the frame model). -/
def numInt : Num Int → Option Int
  | .cnt n => some n
  | .val v => some v
  | .zero => some 0
  | _ => none

/-- The selection part of the property: on the statistics history of any run (any populations at any recorded
times, any carrier operations), for any format and any selection on which the call returns, every selected
cell is the number of that time's population, 0 where the state is empty or the time is not recorded, never a
KeyError; hence independent of the format and of the rest of the selection. -/
def C13_selection : Prop :=
  ∀ (α : Type) (o : Ops α) (pops : List (Nat × List (Agent α))) (fmt : Fmt) (sel : Sel) (out : Out α),
    runOut fmt sel (histOf o pops) = some out →
    ∀ ag ∈ sel.agents, ∀ c, Selected sel c → ∀ t,
      (readOut out ag c t = match lookupA pops t with
        | none => .zero
        | some agents => cellOf (collect o agents) ag c) ∧
      (∀ agents, lookupA pops t = some agents → members agents (ag, c.state) = [] → readOut out ag c t = .zero) ∧
      (readOut out ag c t).isErr = false

theorem C13_selection_proved : C13_selection := by
  intro α o pops fmt sel out hrun ag hag c hc t
  obtain ⟨h1, h2⟩ := selection_spec fmt sel (histOf o pops) out hrun ag hag c hc t
  rw [pointCell_histOf] at h1 h2
  refine ⟨h1, ?_, by rw [h1]; exact h2⟩
  intro agents hl hm
  rw [h1, hl]
  exact empty_state_zero o agents ag c hm

/-- Non-vacuity of the selection theorem: two recorded times, two agent types; property mode in df and count
mode in json return, select an occupied and a never occupied state, and the numbers read are 5, 0 and count 2. -/
example :
    let pops : List (Nat × List (Agent Int)) :=
      [(1, [⟨0, 0, [⟨7, true, 5⟩]⟩, ⟨1, 0, [⟨7, true, 2⟩]⟩]), (2, [⟨0, 0, [⟨7, true, -1⟩]⟩, ⟨0, 0, [⟨7, true, 4⟩]⟩])]
    (∃ out, runOut .df ⟨[0, 1], [0, 2], [7], [.max, .total]⟩ (histOf intOps pops) = some out ∧
      readOut out 0 ⟨0, some (7, .max)⟩ 1 = .val 5 ∧
      readOut out 0 ⟨2, some (7, .max)⟩ 1 = .zero ∧
      readOut out 1 ⟨0, some (7, .total)⟩ 2 = .zero) ∧
    (∃ out, runOut .json ⟨[0], [0, 1], [], []⟩ (histOf intOps pops) = some out ∧
      readOut out 0 ⟨0, none⟩ 2 = .cnt 2) ∧
    runOut .dict ⟨[0], [0], [9], [.min]⟩ (histOf intOps pops) = none := by
  refine ⟨⟨_, rfl, ?_⟩, ⟨_, rfl, ?_⟩, ?_⟩ <;> decide

/-! ### wave 3: statistics of a time = aggregates over the agents live at the end of the step -/

section StepPop
variable {α : Type}

theorem endOfStep_append (pop : List (IAgent α)) (a b : List (PopOp α)) :
    endOfStep pop (a ++ b) = endOfStep (endOfStep pop a) b := by simp [endOfStep, List.foldl_append]

/-- an agent deleted by the last operation of the step is not in the population the statistics are taken from. -/
theorem deleted_not_live (pop : List (IAgent α)) (ops : List (PopOp α)) (ids : List Nat) :
    ∀ x ∈ endOfStep pop (ops ++ [.delete ids]), x.id ∉ ids := by
  intro x hx
  rw [endOfStep_append] at hx
  simp only [endOfStep, List.foldl_cons, List.foldl_nil, applyOp, List.mem_filter] at hx
  simpa using hx.2

/-- … and stays out unless it is created again: later operations other than `create` add nobody. -/
theorem applyOp_ids_subset (pop : List (IAgent α)) (op : PopOp α) (hc : ∀ a, op ≠ .create a) :
    ∀ x ∈ applyOp pop op, ∃ y ∈ pop, y.id = x.id := by
  intro x hx
  cases op with
  | delete ids => exact ⟨x, (List.mem_filter.mp hx).1, rfl⟩
  | create a => exact absurd rfl (hc a)
  | setState id st =>
    simp only [applyOp, List.mem_map] at hx
    obtain ⟨y, hy, rfl⟩ := hx
    exact ⟨y, hy, by split <;> rfl⟩
  | setValue id p v =>
    simp only [applyOp, List.mem_map] at hx
    obtain ⟨y, hy, rfl⟩ := hx
    exact ⟨y, hy, by split <;> rfl⟩
  | clear => simp [applyOp] at hx

/-- the count recorded for the time of a step is the number of agents of that type in that state that are live at
the end of the step (after everything `begin_round`, the agents and `end_round` did), 0 / no record when none. -/
theorem collectStep_count (o : Ops α) (pop : List (IAgent α)) (ops : List (PopOp α)) (ty st : Nat) :
    countCell (collectStep o pop ops) ty st = (members ((endOfStep pop ops).map (·.agent)) (ty, st)).length ∧
    (members ((endOfStep pop ops).map (·.agent)) (ty, st) = [] → lookupGroup (collectStep o pop ops) (ty, st) = none) := by
  obtain ⟨hnone, hsome⟩ := stat_spec o ((endOfStep pop ops).map (·.agent)) (ty, st)
  refine ⟨?_, hnone⟩
  by_cases hm : members ((endOfStep pop ops).map (·.agent)) (ty, st) = []
  · simp [collectStep, countCell, hnone hm, hm]
  · obtain ⟨g, hg, hc, _⟩ := hsome hm
    simp [collectStep, countCell, hg, hc]

end StepPop

/-- Over `Int` / an ordered field every clause of `C13_int` / `C13_field` applies to `collectStep`, because it *is*
`collect` of the end-of-step population (definitional); stated once for reference. -/
theorem collectStep_int (pop : List (IAgent Int)) (ops : List (PopOp Int)) (ty st p : Nat) :
    PropClauses ((endOfStep pop ops).map (·.agent)) ty st p := propClauses _ ty st p

/-- concrete: agent 1 deletes itself while acting, `end_round` deletes agent 0 and creates agent 3 — the statistics
of the time count agents 2 and 3 only; taken over the list bound before the loop (the stale object) they would
count three. -/
example :
    let pop : List (IAgent Int) := [⟨0, ⟨0, 0, [⟨7, true, 5⟩]⟩⟩, ⟨1, ⟨0, 0, [⟨7, true, 1⟩]⟩⟩, ⟨2, ⟨0, 0, [⟨7, true, -2⟩]⟩⟩]
    let ops : List (PopOp Int) := [.delete [1], .delete [0], .create ⟨3, ⟨0, 0, [⟨7, true, 9⟩]⟩⟩]
    countCell (collectStep intOps pop ops) 0 0 = 2 ∧ aggCell (collectStep intOps pop ops) 0 0 7 .total = some 7 ∧
    countCell (collect intOps (pop.map (·.agent))) 0 0 = 3 := by decide

/-! ### wave 6 (2a): heterogeneous groups — what the code reports for the mean, for EVERY population

`mean = total / count` is assigned inside the loop each time an agent carrying the property is folded in, with the
group's count *at that moment*.  So the reported mean is `sum of the values / position (1-based, within the group, in
list order) of the last agent that carries the property`. -/

section Hetero
variable {α : Type}

/-- 1-based position, within the group, of the last agent that carries `p` as a numeric property (0 = nobody). -/
def lastCarrier (p : Nat) : List (Agent α) → Nat
  | [] => 0
  | a :: rest =>
    if lastCarrier p rest = 0 then (if (numericOf a p).isEmpty then 0 else 1) else lastCarrier p rest + 1

theorem lastC_pupdates (p : Nat) : ∀ (ms : List (Agent α)) (d c : Nat),
    lastC d (pupdates p c ms) = if lastCarrier p ms = 0 then d else c + lastCarrier p ms := by
  intro ms
  induction ms with
  | nil => intro d c; simp [pupdates, lastC, lastCarrier]
  | cons a rest ih =>
    intro d c
    simp only [pupdates, lastC_append, ih]
    by_cases hr : lastCarrier p rest = 0
    · by_cases ha : (numericOf a p).isEmpty = true
      · have : numericOf a p = [] := by simpa using ha
        simp [lastCarrier, hr, ha, this, lastC]
      · have hne : numericOf a p ≠ [] := by simpa using ha
        simp [lastCarrier, hr, ha, lastC_map d (c + 1) _ hne]
    · simp [lastCarrier, hr]; omega

theorem lastCarrier_le (p : Nat) : ∀ ms : List (Agent α), lastCarrier p ms ≤ ms.length := by
  intro ms
  induction ms with
  | nil => simp [lastCarrier]
  | cons a rest ih =>
    simp only [lastCarrier, List.length_cons]
    split
    · split <;> omega
    · omega

theorem lastCarrier_pos (p : Nat) : ∀ ms : List (Agent α), valuesOf ms p ≠ [] → 0 < lastCarrier p ms := by
  intro ms
  induction ms with
  | nil => intro h; simp [valuesOf] at h
  | cons a rest ih =>
    intro h
    simp only [lastCarrier]
    by_cases hr : lastCarrier p rest = 0
    · have hrest : valuesOf rest p = [] := by
        by_contra hne; have := ih hne; omega
      have ha : numericOf a p ≠ [] := by
        intro ha; apply h; simp [valuesOf, List.flatMap_cons, ha] at hrest ⊢; exact hrest
      have : (numericOf a p).isEmpty = false := by simpa using ha
      simp [hr, this]
    · simp [hr]

/-- carrier-generic, every population: the denominator of the reported mean is the position of the last carrier. -/
theorem meanDen_lastCarrier (o : Ops α) (agents : List (Agent α)) (ty st p : Nat) (x : α × Nat)
    (h : meanCell (collect o agents) ty st p = some x) :
    x.2 = lastCarrier p (members agents (ty, st)) := by
  obtain ⟨hnone, hsome⟩ := stat_spec o agents (ty, st)
  by_cases hm : members agents (ty, st) = []
  · simp [meanCell, hnone hm] at h
  · obtain ⟨g, hg, _, hp⟩ := hsome hm
    have hp' := hp p
    cases hv : valuesOf (members agents (ty, st)) p with
    | nil => rw [hv] at hp'; simp [meanCell, hg, hp'] at h
    | cons v vs =>
      rw [hv] at hp'
      obtain ⟨r, hr, _, _, _, _, hmd⟩ := hp'
      simp only [meanCell, hg, hr, Option.map_some, Option.some.injEq] at h
      subst h
      simp only [hmd, lastC_pupdates]
      split <;> simp_all

end Hetero

/-- **the mean for every population over an ordered field** (no homogeneity hypothesis): whenever some agent of the
group carries the property, the reported mean is `sum of the values / position of the last carrier in the group`.
With the last agent of the group carrying it, that is `sum / number of agents of the group`; on a homogeneous group
this is `FieldClauses.mean`. -/
theorem mean_general {K : Type} [Field K] [LinearOrder K] [IsStrictOrderedRing K]
    (agents : List (Agent K)) (ty st p : Nat) (hne : valuesOf (members agents (ty, st)) p ≠ []) :
    meanVal (meanCell (collect fieldOps agents) ty st p) =
      some ((valuesOf (members agents (ty, st)) p).sum / ((lastCarrier p (members agents (ty, st)) : Nat) : K)) ∧
    0 < lastCarrier p (members agents (ty, st)) ∧
    lastCarrier p (members agents (ty, st)) ≤ (members agents (ty, st)).length := by
  refine ⟨?_, lastCarrier_pos p _ hne, lastCarrier_le p _⟩
  obtain ⟨_, hsome⟩ := stat_spec fieldOps agents (ty, st)
  have hm : members agents (ty, st) ≠ [] := by intro h; apply hne; simp [h, valuesOf]
  obtain ⟨g, hg, _, hp⟩ := hsome hm
  have hp' := hp p
  cases hv : valuesOf (members agents (ty, st)) p with
  | nil => exact absurd hv hne
  | cons v vs =>
    rw [hv] at hp'
    obtain ⟨r, hr, ht, _, _, hmn, _⟩ := hp'
    have hmc : meanCell (collect fieldOps agents) ty st p = some (r.meanNum, r.meanDen) := by simp [meanCell, hg, hr]
    have hden := meanDen_lastCarrier fieldOps agents ty st p _ hmc
    simp only at hden
    rw [hmc]
    simp only [meanVal, Option.map_some, hmn, ht, hden]
    rw [foldl_add_sum_f]; simp [fieldOps]

/-- exactly when the reported mean is the arithmetic mean of the values (the property's right-hand side): iff the last
carrier's position equals the number of values — e.g. every agent of the group carries the property once (homogeneous),
or the carriers come first in the list; a group whose last carrier is preceded by an agent lacking the property is
**out of domain**: there the reported number is `sum / position` and depends on the list order (sum ≠ 0). -/
theorem mean_is_arithmetic_iff {K : Type} [Field K] [LinearOrder K] [IsStrictOrderedRing K]
    (agents : List (Agent K)) (ty st p : Nat) (hne : valuesOf (members agents (ty, st)) p ≠ [])
    (hs : (valuesOf (members agents (ty, st)) p).sum ≠ 0) :
    meanVal (meanCell (collect fieldOps agents) ty st p) =
        some ((valuesOf (members agents (ty, st)) p).sum / ((valuesOf (members agents (ty, st)) p).length : K)) ↔
      lastCarrier p (members agents (ty, st)) = (valuesOf (members agents (ty, st)) p).length := by
  obtain ⟨hm, hpos, _⟩ := mean_general agents ty st p hne
  rw [hm]
  have hlen : 0 < (valuesOf (members agents (ty, st)) p).length := List.length_pos_iff.mpr hne
  have h1 : ((lastCarrier p (members agents (ty, st)) : Nat) : K) ≠ 0 := by exact_mod_cast (by omega : lastCarrier p (members agents (ty, st)) ≠ 0)
  have h2 : (((valuesOf (members agents (ty, st)) p).length : Nat) : K) ≠ 0 := by exact_mod_cast (by omega : (valuesOf (members agents (ty, st)) p).length ≠ 0)
  constructor
  · intro h
    simp only [Option.some.injEq] at h
    have := (div_eq_div_iff h1 h2).mp h
    have h3 : ((valuesOf (members agents (ty, st)) p).length : K) = (lastCarrier p (members agents (ty, st)) : K) :=
      mul_left_cancel₀ hs this
    exact_mod_cast h3.symm
  · intro h; rw [h]

/-- x = 4 carried by the first of three agents: reported 4/1; carried by the last: 4/3; arithmetic mean over the carriers: 4. -/
example : lastCarrier 7 ([⟨0, 0, [⟨7, true, 4⟩]⟩, ⟨0, 0, []⟩, ⟨0, 0, []⟩] : List (Agent ℚ)) = 1 ∧
    lastCarrier 7 ([⟨0, 0, []⟩, ⟨0, 0, []⟩, ⟨0, 0, [⟨7, true, 4⟩]⟩] : List (Agent ℚ)) = 3 := by decide

/-! ### wave 6 (2b): requests over several agent types -/

section MultiType
variable {α : Type}

/-- the request restricted to one of its agent types. -/
def restrict (sel : Sel) (ag : Nat) : Sel := { sel with agents := [ag] }

theorem rowOf_restrict (sel : Sel) (ag : Nat) (aggs : List Agg4) (s : Stats α) (ag' : Nat) :
    rowOf (restrict sel ag) aggs s ag' = rowOf sel aggs s ag' := rfl

theorem raises_restrict (sel : Sel) (aggs : List Agg4) (data : History α) (ag : Nat) (hag : ag ∈ sel.agents)
    (h : raises sel aggs data = false) : raises (restrict sel ag) aggs data = false := by
  cases hr : raises (restrict sel ag) aggs data with
  | false => rfl
  | true =>
    exfalso
    have : raises sel aggs data = true := by
      simp only [raises, restrict, Bool.or_eq_true, Bool.and_eq_true, List.any_eq_true, List.mem_singleton] at hr ⊢
      rcases hr with ⟨h1, x, hx, a, rfl, ha⟩ | ⟨x, hx, a, rfl, y, hy, hye⟩
      · exact Or.inl ⟨h1, x, hx, a, hag, ha⟩
      · exact Or.inr ⟨x, hx, a, hag, y, hy, hye⟩
    rw [h] at this; cases this

/-- if the request over several types returns, so does the request for each single type. -/
theorem runOut_restrict (fmt : Fmt) (sel : Sel) (data : History α) (out : Out α) (h : runOut fmt sel data = some out)
    (ag : Nat) (hag : ag ∈ sel.agents) : ∃ out1, runOut fmt (restrict sel ag) data = some out1 := by
  simp only [runOut] at h ⊢
  by_cases hr : raises sel (effAggs fmt sel.aggs) data = true
  · simp [hr] at h
  · have hr' : raises sel (effAggs fmt sel.aggs) data = false := by simpa using hr
    have := raises_restrict sel (effAggs fmt sel.aggs) data ag hag hr'
    simp only [restrict] at this ⊢
    simp only [this, Bool.false_eq_true, if_false]
    split <;> exact ⟨_, rfl⟩

/-- **cross-type clause.** The result of a request over several agent types is, cell by cell, the union of the
per-type results: every selected cell of type `ag` equals the cell of the single-type request — in every format,
whatever the other types are, in whatever order the types are listed, also at times at which another type (or this
one) has no agent (0). -/
theorem multi_type_union (fmt : Fmt) (sel : Sel) (data : History α) (out out1 : Out α)
    (h : runOut fmt sel data = some out) (ag : Nat) (hag : ag ∈ sel.agents)
    (h1 : runOut fmt (restrict sel ag) data = some out1) (c : Col) (hc : Selected sel c) (t : Nat) :
    readOut out ag c t = readOut out1 ag c t :=
  selection_indep fmt fmt sel (restrict sel ag) data out out1 h h1 ag hag (by simp [restrict]) c hc hc t

/-- listing order (or repetition) of the agent types is immaterial. -/
theorem listing_order_indep (f1 f2 : Fmt) (s1 s2 : Sel) (data : History α) (o1 o2 : Out α)
    (hst : s2.states = s1.states) (hpr : s2.props = s1.props) (hag : s2.aggs = s1.aggs)
    (hmem : ∀ a, a ∈ s2.agents ↔ a ∈ s1.agents)
    (h1 : runOut f1 s1 data = some o1) (h2 : runOut f2 s2 data = some o2)
    (ag : Nat) (ha : ag ∈ s1.agents) (c : Col) (hc : Selected s1 c) (t : Nat) :
    readOut o1 ag c t = readOut o2 ag c t :=
  selection_indep f1 f2 s1 s2 data o1 o2 h1 h2 ag ha ((hmem ag).mpr ha) c hc
    (by simpa [Selected, hst, hpr, hag] using hc) t

/-- the df frame's row index is the union of the per-type row indices. -/
theorem df_index_union (sel : Sel) (aggs : List Agg4) (data : History α) (ag : Nat) (t : Nat) :
    t ∈ outIndex .df sel aggs data ag ↔ ∃ ag' ∈ sel.agents, t ∈ (getDf sel aggs data ag').index := by
  simp [outIndex, List.mem_flatMap]

/-- the defective assembly the cross-type clause excludes: every type's columns cut to the FIRST listed type's row index. -/
def runOutFirstIndex (sel : Sel) (aggs : List Agg4) (data : History α) : Out α :=
  let idx := match sel.agents with | [] => [] | a :: _ => (getDf sel aggs data a).index
  (outKeys sel aggs data).map (fun k => (k, series (getDf sel aggs data k.1) idx k.2))

end MultiType

/-- witness for first-type index alignment: type 0 has an agent at t = 1 only, type 1 at t = 1 and t = 2.  Listed as
[0, 1], the frame cut to type 0's rows loses type 1's count at t = 2 (reads 0, the population has 1); listed as [1, 0]
it is right; the model of the code (`runOut`, union index) reports 1 in both orders. -/
theorem first_type_alignment_witness :
    let data : History Int := histOf intOps [(1, [⟨0, 0, []⟩, ⟨1, 0, []⟩]), (2, [⟨1, 0, []⟩])]
    readOut (runOutFirstIndex ⟨[0, 1], [0], [], []⟩ [] data) 1 ⟨0, none⟩ 2 = .zero ∧
    pointCell data 1 ⟨0, none⟩ 2 = .cnt 1 ∧
    readOut (runOutFirstIndex ⟨[1, 0], [0], [], []⟩ [] data) 1 ⟨0, none⟩ 2 = .cnt 1 ∧
    (∃ o, runOut .df ⟨[0, 1], [0], [], []⟩ data = some o ∧ readOut o 1 ⟨0, none⟩ 2 = .cnt 1) ∧
    (∃ o, runOut .df ⟨[1, 0], [0], [], []⟩ data = some o ∧ readOut o 1 ⟨0, none⟩ 2 = .cnt 1) := by
  refine ⟨by decide, by decide, by decide, ⟨_, rfl, by decide⟩, ⟨_, rfl, by decide⟩⟩

/-! ### wave 7: column keys are text — the naming condition and its negation witness -/

/-- with state names `s1`, `s1_x` and property names `x_y`, `y`, two different columns have the same key text: the
dictionary `get_stats_for` fills keeps only the later one (`s1_x_y_total`: total of `y` in state `s1_x` overwrites total
of `x_y` in state `s1`).  Such requests are outside the model's domain (`keysDistinct = false`). -/
theorem key_collision_witness :
    renderKey ["s1", "s1_x"] ["x_y", "y"] ⟨0, some (0, .total)⟩ = renderKey ["s1", "s1_x"] ["x_y", "y"] ⟨1, some (1, .total)⟩ ∧
    (⟨0, some (0, .total)⟩ : Col) ≠ ⟨1, some (1, .total)⟩ ∧
    keysDistinct ["s1", "s1_x"] ["x_y", "y"] = false := by decide

/-- names without the separator cannot collide — e.g. the wave-1 name tables. -/
example : keysDistinct ["active", "s1", "s2"] ["x", "k", "nm", "y"] = true := by decide

/-! ### wave 9: a scenario reads its own statistics iff the collectors are different objects -/

section Collectors
variable {α : Type}

theorem lookupA_filter_ne {β : Type} (c c' : Nat) : ∀ st : List (Nat × β),
    lookupA (st.filter (fun x => !decide (x.1 = c))) c' = if c' = c then none else lookupA st c' := by
  intro st
  induction st with
  | nil => simp [lookupA]
  | cons x rest ih =>
    obtain ⟨k, v⟩ := x
    by_cases hk : k = c
    · subst hk
      by_cases hc : c' = k
      · subst hc; simp [lookupA, ih]
      · have : ¬ k = c' := fun e => hc e.symm
        simp [lookupA, ih, hc, this]
    · by_cases hc : c' = c
      · subst hc
        have : ¬ k = c' := hk
        simp [List.filter_cons, hk, lookupA, ih, this]
      · by_cases hkc : k = c'
        · subst hkc; simp [List.filter_cons, hk, lookupA]
        · simp [List.filter_cons, hk, lookupA, ih, hc, hkc]

theorem lookupA_writeRun (st : Store α) (c c' : Nat) (h : History α) :
    lookupA (writeRun st c h) c' = if c = c' then some h else lookupA st c' := by
  by_cases hc : c = c'
  · simp [writeRun, lookupA, hc]
  · have hc' : ¬ c' = c := fun e => hc e.symm
    simp [writeRun, lookupA, hc, lookupA_filter_ne, hc']

theorem foldl_writeRun_other (c : Nat) : ∀ (runs : List (Nat × History α)) (st : Store α),
    c ∉ runs.map (·.1) → lookupA (runs.foldl (fun st x => writeRun st x.1 x.2) st) c = lookupA st c := by
  intro runs
  induction runs with
  | nil => intro st _; rfl
  | cons x rest ih =>
    intro st hc
    simp only [List.map_cons, List.mem_cons, not_or] at hc
    rw [List.foldl_cons, ih _ hc.2, lookupA_writeRun]
    have : ¬ x.1 = c := fun e => hc.1 e.symm
    simp [this]

theorem foldl_writeRun_own : ∀ (runs : List (Nat × History α)) (st : Store α), (runs.map (·.1)).Nodup →
    ∀ x ∈ runs, lookupA (runs.foldl (fun st x => writeRun st x.1 x.2) st) x.1 = some x.2 := by
  intro runs
  induction runs with
  | nil => intro st _ x hx; simp at hx
  | cons y rest ih =>
    intro st hnd x hx
    simp only [List.map_cons, List.nodup_cons] at hnd
    rw [List.foldl_cons]
    rcases List.mem_cons.mp hx with rfl | hx
    · rw [foldl_writeRun_other _ rest _ hnd.1, lookupA_writeRun]; simp
    · exact ih _ hnd.2 x hx

/-- **own statistics.** When the collectors are pairwise different objects, every scenario — whatever the order in
which the scenarios were simulated (the runner's threads) — reads exactly the history of its own run. -/
theorem reads_own (runs : List (Nat × History α)) (hnd : (runs.map (·.1)).Nodup) :
    ∀ x ∈ runs, readStats (runAll runs) x.1 = x.2 := by
  intro x hx
  simp [readStats, runAll, foldl_writeRun_own runs [] hnd x hx]

end Collectors

/-- witness for a shared collector: two scenarios with different populations writing into ONE collector — the
scenario simulated first reads the other one's statistics (count 2 instead of 1). -/
theorem shared_collector_witness :
    let h1 : History Int := histOf intOps [(1, [⟨0, 0, []⟩])]
    let h2 : History Int := histOf intOps [(1, [⟨0, 0, []⟩, ⟨0, 0, []⟩])]
    pointCell (readStats (runAll [(7, h1), (7, h2)]) 7) 0 ⟨0, none⟩ 1 = .cnt 2 ∧ pointCell h1 0 ⟨0, none⟩ 1 = .cnt 1 ∧
    collectorsDistinct [7, 7] none = false ∧ collectorsDistinct [1, 2] (some 1) = false ∧ collectorsDistinct [1, 2] (some 0) = true := by
  decide

/-- The full property: the aggregates over `Int` (wave 1), over every ordered field with the mean as a quotient
(instantiated at ℚ), and the selection / format independence of the reported cells. -/
def C13_mean_every_population : Prop :=
  ∀ (agents : List (Agent ℚ)) (ty st p : Nat), valuesOf (members agents (ty, st)) p ≠ [] →
    meanVal (meanCell (collect fieldOps agents) ty st p) =
      some ((valuesOf (members agents (ty, st)) p).sum / ((lastCarrier p (members agents (ty, st)) : Nat) : ℚ)) ∧
    0 < lastCarrier p (members agents (ty, st)) ∧ lastCarrier p (members agents (ty, st)) ≤ (members agents (ty, st)).length

def C13_multi_type : Prop :=
  ∀ (α : Type) (fmt : Fmt) (sel : Sel) (data : History α) (out : Out α), runOut fmt sel data = some out →
    ∀ ag ∈ sel.agents, ∃ out1, runOut fmt (restrict sel ag) data = some out1 ∧
      ∀ c, Selected sel c → ∀ t, readOut out ag c t = readOut out1 ag c t

theorem C13_multi_type_proved : C13_multi_type := by
  intro α fmt sel data out h ag hag
  obtain ⟨out1, h1⟩ := runOut_restrict fmt sel data out h ag hag
  exact ⟨out1, h1, fun c hc t => multi_type_union fmt sel data out out1 h ag hag h1 c hc t⟩

def C13_full : Prop := C13_int ∧ C13_field ℚ ∧ C13_selection ∧ C13_mean_every_population ∧ C13_multi_type

theorem C13_full_proved : C13_full :=
  ⟨C13_int_proved, C13_rat, C13_selection_proved, fun agents ty st p h => mean_general agents ty st p h, C13_multi_type_proved⟩

#print axioms C13_int_proved
#print axioms C13_field_proved
#print axioms C13_rat
#print axioms C13_full_proved
#print axioms C13_selection_proved
#print axioms reads_own
#print axioms shared_collector_witness
#print axioms key_collision_witness
#print axioms mean_general
#print axioms mean_is_arithmetic_iff
#print axioms meanDen_lastCarrier
#print axioms multi_type_union
#print axioms listing_order_indep
#print axioms runOut_restrict
#print axioms first_type_alignment_witness
#print axioms collectStep_count
#print axioms deleted_not_live
#print axioms selection_spec
#print axioms formats_agree
#print axioms selection_indep
#print axioms stat_spec
#print axioms lookup_collect
#print axioms lastC_homogeneous

end Bptk.C13
