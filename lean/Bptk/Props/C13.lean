import Bptk.Core.C13
/-!
C13 — property theorems.  Quantifier: every population (list of agents of any types, states, property
entries incl. non-numeric ones), unbounded.  The carrier-generic part (`stat_spec`) holds for any
operations (so also for IEEE doubles: same operation tree in the same order); the value-level part
(`C13_full`) is over `Int`.
-/
namespace Bptk.C13
variable {α : Type}

/-! ### one property record inside one group -/

theorem lookup_updProp (o : Ops α) (c : Nat) (n p : Nat) (v : α) : ∀ ps : List (Nat × PStat α),
    lookupProp (updProp o c ps n v) p =
      if n = p then some (upd1 o c (lookupProp ps n) v) else lookupProp ps p := by
  intro ps
  induction ps with
  | nil => simp [updProp, lookupProp]
  | cons x rest ih =>
    obtain ⟨m, s⟩ := x
    by_cases hmn : m = n
    · subst hmn
      by_cases hmp : m = p
      · simp [updProp, lookupProp, hmp]
      · simp [updProp, lookupProp, hmp]
    · by_cases hnp : n = p
      · subst hnp
        simp [updProp, lookupProp, hmn, ih]
      · by_cases hmp : m = p
        · subst hmp; simp [updProp, lookupProp, hmn, hnp]
        · simp [updProp, lookupProp, hmn, hnp, hmp, ih]

def stepP (o : Ops α) (c : Nat) (st : Option (PStat α)) (v : α) : Option (PStat α) := some (upd1 o c st v)

theorem lookup_foldl_entries (o : Ops α) (c p : Nat) : ∀ (es : List (Entry α)) (ps : List (Nat × PStat α)),
    lookupProp (es.foldl (updEntry o c) ps) p =
      ((es.filter (fun e => e.numeric && e.name == p)).map (·.value)).foldl (stepP o c) (lookupProp ps p) := by
  intro es
  induction es with
  | nil => intro ps; rfl
  | cons e rest ih =>
    intro ps
    rw [List.foldl_cons, ih]
    by_cases hn : e.numeric = true
    · by_cases hp : e.name = p
      · simp [updEntry, hn, hp, lookup_updProp, stepP]
      · simp [updEntry, hn, hp, lookup_updProp]
    · simp [updEntry, hn]

/-- the updates property `p` receives while the agents `ms` join a group whose count is `c`:
(count at that moment, value). -/
def pupdates (p : Nat) : Nat → List (Agent α) → List (Nat × α)
  | _, [] => []
  | c, a :: rest => (numericOf a p).map (fun v => (c + 1, v)) ++ pupdates p (c + 1) rest

def stepU (o : Ops α) (st : Option (PStat α)) (u : Nat × α) : Option (PStat α) := some (upd1 o u.1 st u.2)

theorem group_fold (o : Ops α) (p : Nat) : ∀ (ms : List (Agent α)) (g : Group α),
    (ms.foldl (procGroup o) g).count = g.count + ms.length ∧
    lookupProp (ms.foldl (procGroup o) g).props p =
      (pupdates p g.count ms).foldl (stepU o) (lookupProp g.props p) := by
  intro ms
  induction ms with
  | nil => intro g; simp [pupdates]
  | cons a rest ih =>
    intro g
    obtain ⟨h1, h2⟩ := ih (procGroup o g a)
    refine ⟨?_, ?_⟩
    · rw [List.foldl_cons, h1]; simp [procGroup]; omega
    · rw [List.foldl_cons, h2]
      simp only [procGroup, pupdates, List.foldl_append, List.foldl_map, lookup_foldl_entries, numericOf]
      rfl

theorem pupdates_values (p : Nat) : ∀ (ms : List (Agent α)) (c : Nat),
    (pupdates p c ms).map (·.2) = valuesOf ms p := by
  intro ms
  induction ms with
  | nil => intro c; rfl
  | cons a rest ih =>
    intro c
    simp [pupdates, valuesOf, List.flatMap_cons, ih (c + 1), Function.comp_def]

/-- count carried by the last update (`d` when there is none). -/
def lastC : Nat → List (Nat × α) → Nat
  | d, [] => d
  | _, u :: us => lastC u.1 us

theorem lastC_append (d : Nat) : ∀ (xs ys : List (Nat × α)) , lastC d (xs ++ ys) = lastC (lastC d xs) ys
  | [], ys => rfl
  | x :: xs, ys => by simp [lastC, lastC_append x.1 xs ys]

theorem lastC_map (d c : Nat) : ∀ (vs : List α), vs ≠ [] → lastC d (vs.map (fun v => (c, v))) = c
  | [], h => absurd rfl h
  | [v], _ => rfl
  | v :: w :: rest, _ => by
    simp only [List.map_cons, lastC]
    have := lastC_map c c (w :: rest) (by simp)
    simpa [List.map_cons, lastC] using this

/-- when every agent of the group carries the property, the last update sees the full count. -/
theorem lastC_homogeneous (p : Nat) : ∀ (ms : List (Agent α)) (d c : Nat),
    (∀ a ∈ ms, numericOf a p ≠ []) → ms ≠ [] → lastC d (pupdates p c ms) = c + ms.length := by
  intro ms
  induction ms with
  | nil => intro d c _ h; exact absurd rfl h
  | cons a rest ih =>
    intro d c hall _
    have ha : numericOf a p ≠ [] := hall a (by simp)
    simp only [pupdates, lastC_append, lastC_map d (c + 1) _ ha]
    by_cases hr : rest = []
    · subst hr; simp [pupdates, lastC]
    · rw [ih _ _ (fun b hb => hall b (by simp [hb])) hr]; simp; omega

/-- folding updates into an existing record. -/
theorem foldU_some (o : Ops α) : ∀ (us : List (Nat × α)) (s : PStat α), s.meanNum = s.total →
    ∃ r, us.foldl (stepU o) (some s) = some r ∧
      r.total = (us.map (·.2)).foldl o.add s.total ∧
      r.min = (us.map (·.2)).foldl (pyMin o) s.min ∧
      r.max = (us.map (·.2)).foldl (pyMax o) s.max ∧
      r.meanNum = r.total ∧ r.meanDen = lastC s.meanDen us := by
  intro us
  induction us with
  | nil => intro s hs; exact ⟨s, rfl, rfl, rfl, rfl, hs, rfl⟩
  | cons u rest ih =>
    intro s _
    obtain ⟨r, h1, h2, h3, h4, h5, h6⟩ := ih (upd1 o u.1 (some s) u.2) rfl
    exact ⟨r, by simpa [stepU] using h1, by simpa [upd1] using h2, by simpa [upd1] using h3,
      by simpa [upd1] using h4, h5, by simpa [upd1, lastC] using h6⟩

/-- folding updates from "no record yet". -/
theorem foldU_none (o : Ops α) (us : List (Nat × α)) :
    match us.map (·.2) with
    | [] => us.foldl (stepU o) none = none
    | v :: vs => ∃ r, us.foldl (stepU o) none = some r ∧
        r.total = (v :: vs).foldl o.add o.zero ∧ r.min = vs.foldl (pyMin o) v ∧ r.max = vs.foldl (pyMax o) v ∧
        r.meanNum = r.total ∧ r.meanDen = lastC 0 us := by
  cases us with
  | nil => simp
  | cons u rest =>
    obtain ⟨r, h1, h2, h3, h4, h5, h6⟩ := foldU_some o rest (upd1 o u.1 none u.2) rfl
    simp only [List.map_cons]
    exact ⟨r, by simpa [stepU] using h1, by simpa [upd1] using h2, by simpa [upd1] using h3,
      by simpa [upd1] using h4, h5, by simpa [upd1, lastC] using h6⟩

/-! ### groups inside the statistics of one time -/

theorem lookup_addAgent (o : Ops α) (a : Agent α) (k : Nat × Nat) : ∀ s : Stats α,
    lookupGroup (addAgent o s a) k =
      if (a.ty, a.state) = k then some (procOpt o (lookupGroup s (a.ty, a.state)) a) else lookupGroup s k := by
  intro s
  induction s with
  | nil => simp [addAgent, lookupGroup]
  | cons x rest ih =>
    obtain ⟨m, g⟩ := x
    by_cases hmn : m = (a.ty, a.state)
    · subst hmn
      by_cases hmp : (a.ty, a.state) = k
      · simp [addAgent, lookupGroup, hmp]
      · simp [addAgent, lookupGroup, hmp]
    · by_cases hnp : (a.ty, a.state) = k
      · subst hnp
        simp [addAgent, lookupGroup, hmn, ih]
      · by_cases hmp : m = k
        · subst hmp; simp [addAgent, lookupGroup, hmn, hnp]
        · simp [addAgent, lookupGroup, hmn, hnp, hmp, ih]

def stepG (o : Ops α) (g : Option (Group α)) (a : Agent α) : Option (Group α) := some (procOpt o g a)

theorem lookup_foldl_agents (o : Ops α) (k : Nat × Nat) : ∀ (agents : List (Agent α)) (s : Stats α),
    lookupGroup (agents.foldl (addAgent o) s) k = (members agents k).foldl (stepG o) (lookupGroup s k) := by
  intro agents
  induction agents with
  | nil => intro s; rfl
  | cons a rest ih =>
    intro s
    rw [List.foldl_cons, ih, lookup_addAgent]
    by_cases hk : (a.ty, a.state) = k
    · subst hk; simp [members, stepG]
    · simp [members, hk]

theorem foldG_some (o : Ops α) : ∀ (ms : List (Agent α)) (g : Group α),
    ms.foldl (stepG o) (some g) = some (ms.foldl (procGroup o) g) := by
  intro ms
  induction ms with
  | nil => intro g; rfl
  | cons a rest ih => intro g; simp [List.foldl_cons, stepG, procOpt, ih]

/-- the group of key `k` after `collect` is built from exactly the agents of that type and state, in
list order, and from nothing else. -/
theorem lookup_collect (o : Ops α) (agents : List (Agent α)) (k : Nat × Nat) :
    lookupGroup (collect o agents) k =
      match members agents k with
      | [] => none
      | a :: rest => some ((a :: rest).foldl (procGroup o) Group.empty) := by
  unfold collect
  rw [lookup_foldl_agents]
  cases members agents k with
  | nil => rfl
  | cons a rest => simp [lookupGroup, List.foldl_cons, stepG, procOpt, foldG_some]

/-- Carrier-generic specification of `collect`: count, and per property the operation trees. -/
theorem stat_spec (o : Ops α) (agents : List (Agent α)) (k : Nat × Nat) :
    (members agents k = [] → lookupGroup (collect o agents) k = none) ∧
    (members agents k ≠ [] → ∃ g, lookupGroup (collect o agents) k = some g ∧
      g.count = (members agents k).length ∧
      ∀ p, match valuesOf (members agents k) p with
        | [] => lookupProp g.props p = none
        | v :: vs => ∃ r, lookupProp g.props p = some r ∧
            r.total = (v :: vs).foldl o.add o.zero ∧ r.min = vs.foldl (pyMin o) v ∧
            r.max = vs.foldl (pyMax o) v ∧ r.meanNum = r.total ∧
            r.meanDen = lastC 0 (pupdates p 0 (members agents k))) := by
  rw [lookup_collect]
  constructor
  · intro h; rw [h]
  · intro h
    cases hm : members agents k with
    | nil => exact absurd hm h
    | cons a rest =>
      refine ⟨_, rfl, ?_, ?_⟩
      · have := (group_fold o 0 (a :: rest) Group.empty).1
        simpa [Group.empty] using this
      · intro p
        have h2 := (group_fold o p (a :: rest) Group.empty).2
        have h3 := foldU_none o (pupdates p 0 (a :: rest))
        rw [pupdates_values] at h3
        simp only [Group.empty, lookupProp] at h2
        simp only [Group.empty]
        rw [h2]
        exact h3

/-! ### value level, over `Int` -/

def intOps : Ops Int := { zero := 0, add := (· + ·), lt := fun a b => decide (a < b) }

theorem foldl_add_sum : ∀ (vs : List Int) (z : Int), vs.foldl intOps.add z = z + vs.sum := by
  intro vs
  induction vs with
  | nil => intro z; simp
  | cons v rest ih => intro z; rw [List.foldl_cons, ih]; simp [intOps]; omega

theorem foldl_min_spec : ∀ (vs : List Int) (v : Int),
    (vs.foldl (pyMin intOps) v ∈ v :: vs) ∧ ∀ x ∈ v :: vs, vs.foldl (pyMin intOps) v ≤ x := by
  intro vs
  induction vs with
  | nil => intro v; simp
  | cons w rest ih =>
    intro v
    obtain ⟨h1, h2⟩ := ih (pyMin intOps v w)
    have hle : pyMin intOps v w ≤ v ∧ pyMin intOps v w ≤ w ∧ (pyMin intOps v w = v ∨ pyMin intOps v w = w) := by
      simp only [pyMin, intOps]
      by_cases h : w < v
      · simp [h]; omega
      · simp [h]; omega
    rw [List.foldl_cons]
    constructor
    · rcases List.mem_cons.mp h1 with h | h
      · rcases hle.2.2 with e | e
        · rw [h, e]; simp
        · rw [h, e]; simp
      · simp [h]
    · intro x hx
      have hm := h2 (pyMin intOps v w) (by simp)
      rcases List.mem_cons.mp hx with rfl | hx
      · omega
      · rcases List.mem_cons.mp hx with rfl | hx
        · omega
        · exact h2 x (by simp [hx])

theorem foldl_max_spec : ∀ (vs : List Int) (v : Int),
    (vs.foldl (pyMax intOps) v ∈ v :: vs) ∧ ∀ x ∈ v :: vs, x ≤ vs.foldl (pyMax intOps) v := by
  intro vs
  induction vs with
  | nil => intro v; simp
  | cons w rest ih =>
    intro v
    obtain ⟨h1, h2⟩ := ih (pyMax intOps v w)
    have hle : v ≤ pyMax intOps v w ∧ w ≤ pyMax intOps v w ∧ (pyMax intOps v w = v ∨ pyMax intOps v w = w) := by
      simp only [pyMax, intOps]
      by_cases h : v < w
      · simp [h]; omega
      · simp [h]; omega
    rw [List.foldl_cons]
    constructor
    · rcases List.mem_cons.mp h1 with h | h
      · rcases hle.2.2 with e | e
        · rw [h, e]; simp
        · rw [h, e]; simp
      · simp [h]
    · intro x hx
      have hm := h2 (pyMax intOps v w) (by simp)
      rcases List.mem_cons.mp hx with rfl | hx
      · omega
      · rcases List.mem_cons.mp hx with rfl | hx
        · omega
        · exact h2 x (by simp [hx])

/-- what the statement says about one (type, state) group and one property name. -/
structure PropClauses (agents : List (Agent Int)) (ty st p : Nat) : Prop where
  /-- nobody in the group carries the property: no record, the frame shows 0 -/
  absent : valuesOf (members agents (ty, st)) p = [] →
    ∀ w, aggCell (collect intOps agents) ty st p w = none
  total : valuesOf (members agents (ty, st)) p ≠ [] →
    aggCell (collect intOps agents) ty st p .total = some (valuesOf (members agents (ty, st)) p).sum
  min : valuesOf (members agents (ty, st)) p ≠ [] →
    ∃ m, aggCell (collect intOps agents) ty st p .min = some m ∧ m ∈ valuesOf (members agents (ty, st)) p ∧
      ∀ x ∈ valuesOf (members agents (ty, st)) p, m ≤ x
  max : valuesOf (members agents (ty, st)) p ≠ [] →
    ∃ m, aggCell (collect intOps agents) ty st p .max = some m ∧ m ∈ valuesOf (members agents (ty, st)) p ∧
      ∀ x ∈ valuesOf (members agents (ty, st)) p, x ≤ m
  /-- homogeneous group (every agent carries the property): mean = sum / number of agents -/
  mean : members agents (ty, st) ≠ [] → (∀ a ∈ members agents (ty, st), numericOf a p ≠ []) →
    meanCell (collect intOps agents) ty st p =
      some ((valuesOf (members agents (ty, st)) p).sum, (members agents (ty, st)).length)

theorem valuesOf_ne_nil (ms : List (Agent Int)) (p : Nat) (h : ms ≠ []) (hall : ∀ a ∈ ms, numericOf a p ≠ []) :
    valuesOf ms p ≠ [] := by
  cases ms with
  | nil => exact absurd rfl h
  | cons a rest =>
    have := hall a (by simp)
    simp [valuesOf, List.flatMap_cons, this]

theorem propClauses (agents : List (Agent Int)) (ty st p : Nat) : PropClauses agents ty st p := by
  obtain ⟨hnone, hsome⟩ := stat_spec intOps agents (ty, st)
  by_cases hm : members agents (ty, st) = []
  · have hg := hnone hm
    have hv : valuesOf (members agents (ty, st)) p = [] := by simp [hm, valuesOf]
    refine ⟨fun _ w => by simp [aggCell, hg], fun h => absurd hv h, fun h => absurd hv h, fun h => absurd hv h,
      fun h => absurd hm h⟩
  · obtain ⟨g, hg, hc, hp⟩ := hsome hm
    have hp' := hp p
    cases hv : valuesOf (members agents (ty, st)) p with
    | nil =>
      rw [hv] at hp'
      refine ⟨fun _ w => by simp [aggCell, hg, hp'], fun h => absurd hv h, fun h => absurd hv h,
        fun h => absurd hv h, ?_⟩
      intro h hall
      exact absurd hv (valuesOf_ne_nil _ p h hall)
    | cons v vs =>
      rw [hv] at hp'
      obtain ⟨r, hr, ht, hmin, hmax, hmn, hmd⟩ := hp'
      refine ⟨fun h => by rw [hv] at h; exact absurd h (by simp), ?_, ?_, ?_, ?_⟩
      · intro _
        rw [hv]
        simp only [aggCell, hg, hr, ht]
        rw [foldl_add_sum]; simp [intOps]
      · intro _
        rw [hv]
        exact ⟨r.min, by simp [aggCell, hg, hr], by rw [hmin]; exact (foldl_min_spec vs v).1,
          by rw [hmin]; exact (foldl_min_spec vs v).2⟩
      · intro _
        rw [hv]
        exact ⟨r.max, by simp [aggCell, hg, hr], by rw [hmax]; exact (foldl_max_spec vs v).1,
          by rw [hmax]; exact (foldl_max_spec vs v).2⟩
      · intro h hall
        have hl := lastC_homogeneous p (members agents (ty, st)) 0 0 hall h
        rw [hv]
        simp only [meanCell, hg, hr, Option.map_some, hmn, ht, hmd, hl]
        rw [foldl_add_sum]; simp [intOps]

/-- The full property: for every population, every (type, state): the count is the number of agents of
that type in that state (0 and no record when there is none), and for every property name the
total / min / max / mean clauses. -/
def C13_full : Prop :=
  ∀ (agents : List (Agent Int)) (ty st : Nat),
    countCell (collect intOps agents) ty st = (members agents (ty, st)).length ∧
    (members agents (ty, st) = [] → lookupGroup (collect intOps agents) (ty, st) = none) ∧
    ∀ p, PropClauses agents ty st p

theorem C13_full_proved : C13_full := by
  intro agents ty st
  obtain ⟨hnone, hsome⟩ := stat_spec intOps agents (ty, st)
  refine ⟨?_, hnone, fun p => propClauses agents ty st p⟩
  by_cases hm : members agents (ty, st) = []
  · simp [countCell, hnone hm, hm]
  · obtain ⟨g, hg, hc, _⟩ := hsome hm
    simp [countCell, hg, hc]

/-- Outside the domain (an agent of the group lacks the property) the reported mean is *not* the mean
of the carriers and depends on the order: values 4 then (none) gives 4/2, (none) then 4 gives 4/2 as
well but 4, none, none gives 4/1 — concrete evidence, not part of the claim. -/
example : meanCell (collect intOps [⟨0, 0, [⟨7, true, 4⟩]⟩, ⟨0, 0, []⟩, ⟨0, 0, []⟩]) 0 0 7 = some (4, 1) ∧
    meanCell (collect intOps [⟨0, 0, []⟩, ⟨0, 0, []⟩, ⟨0, 0, [⟨7, true, 4⟩]⟩]) 0 0 7 = some (4, 3) := by decide

/-- Non-vacuity: two types, two states, negative / zero values, a non-numeric entry; the four numbers
of property 7 in group (0, 1) differ. -/
example :
    let pop : List (Agent Int) :=
      [⟨0, 1, [⟨7, true, -3⟩, ⟨8, false, 99⟩]⟩, ⟨1, 1, [⟨7, true, 50⟩]⟩, ⟨0, 1, [⟨7, true, 0⟩]⟩,
       ⟨0, 0, [⟨7, true, 5⟩]⟩, ⟨0, 1, [⟨7, true, 9⟩]⟩]
    countCell (collect intOps pop) 0 1 = 3 ∧ aggCell (collect intOps pop) 0 1 7 .total = some 6 ∧
    aggCell (collect intOps pop) 0 1 7 .min = some (-3) ∧ aggCell (collect intOps pop) 0 1 7 .max = some 9 ∧
    meanCell (collect intOps pop) 0 1 7 = some (6, 3) ∧ aggCell (collect intOps pop) 0 1 8 .total = none ∧
    countCell (collect intOps pop) 1 0 = 0 := by decide

#print axioms C13_full_proved
#print axioms stat_spec
#print axioms lookup_collect
#print axioms lastC_homogeneous

end Bptk.C13
