import Bptk.Core.C06
/-!
C06 — property theorems.  Quantifier: every operation history (`List Op`), every base model, every
scenario slot — unbounded.

Shape: the shared heap machine `exec` (managers, scenarios, clones, base model, cells addressed by
reference) is related to the heap-free machine `soloExec` in which scenario `i` exists alone on a model
freshly built from the base model's own settings and receives only the operations addressed to it.
Isolation = the dereferenced view of slot `i` in the shared machine equals the solo state, for every
history; results are an uninterpreted function `Sim` of what a read sees, hence equal.
-/
namespace Bptk.C06

/-- Separation invariant: the cells reachable from distinct scenarios and from the base model are
disjoint, and the base model's cells hold the base model's own settings. -/
structure Inv (b : Base) (st : State) : Prop where
  nextPos : 0 < st.next
  refLt : ∀ i s, st.scns i = some s → 0 < s.ref ∧ s.ref < st.next
  refInj : ∀ i j si sj, st.scns i = some si → st.scns j = some sj → si.ref = sj.ref → i = j
  ptsOwn : ∀ i s, st.scns i = some s → s.ptsRef = s.ref
  elLt : ∀ i s, st.scns i = some s → s.elRef < st.next
  elOk : ∀ i s, st.scns i = some s → st.hel s.elRef = b.elems
  basePts : st.hp 0 = b.pts
  baseEqs : st.he 0 = []
  baseEl : st.hel 0 = b.elems

structure Rel (st : State) (i : Nat) (ss : SoloSt) : Prop where
  mgrs : st.mgrs = ss.mgrs
  scn : view st i = ss.s

theorem inv_init (b : Base) : Inv b (State.init b) := by
  constructor <;> simp [State.init]

theorem rel_init (b : Base) (i : Nat) : Rel (State.init b) i { mgrs := fun _ => none, s := none } := by
  constructor <;> simp [State.init, view]

/-- scenario objects of `st'` sit on the same cells as those of `st` -/
def SameRefs (st st' : State) : Prop :=
  ∀ j s', st'.scns j = some s' → ∃ s, st.scns j = some s ∧ s'.ref = s.ref ∧ s'.ptsRef = s.ptsRef ∧ s'.elRef = s.elRef

theorem same_self (st : State) : SameRefs st st := fun _ s' h => ⟨s', h, rfl, rfl, rfl⟩

/-- Operations that allocate nothing, keep every scenario on its cells and leave the base model's
cells alone preserve the invariant. -/
theorem inv_frame (b : Base) (st st' : State) (h : Inv b st)
    (hnext : st'.next = st.next) (hscn : SameRefs st st')
    (hel : st'.hel = st.hel) (hp0 : st'.hp 0 = st.hp 0) (he0 : st'.he 0 = st.he 0) : Inv b st' := by
  obtain ⟨nextPos, refLt, refInj, ptsOwn, elLt, elOk, basePts, baseEqs, baseEl⟩ := h
  constructor
  · omega
  · intro j s' hj; obtain ⟨s, hs, h1, _, _⟩ := hscn j s' hj; have := refLt j s hs; omega
  · intro j k sj sk hj hk hr
    obtain ⟨s1, hs1, h1, _, _⟩ := hscn j sj hj
    obtain ⟨s2, hs2, h2, _, _⟩ := hscn k sk hk
    exact refInj j k s1 s2 hs1 hs2 (by omega)
  · intro j s' hj; obtain ⟨s, hs, h1, h2, _⟩ := hscn j s' hj; have := ptsOwn j s hs; omega
  · intro j s' hj; obtain ⟨s, hs, _, _, h3⟩ := hscn j s' hj; have := elLt j s hs; omega
  · intro j s' hj; obtain ⟨s, hs, _, _, h3⟩ := hscn j s' hj; rw [hel, h3]; exact elOk j s hs
  · rw [hp0]; exact basePts
  · rw [he0]; exact baseEqs
  · rw [hel]; exact baseEl

/-- The invariant is preserved by every operation (given that clones own their points table). -/
theorem inv_step (c : Cfg) (hc : c.cloneOwnsPoints = true) (b : Base) (st : State) (op : Op)
    (h : Inv b st) : Inv b (step c b st op) := by
  obtain ⟨nextPos, refLt, refInj, ptsOwn, elLt, elOk, basePts, baseEqs, baseEl⟩ := h
  cases op with
  | regMgr m bc bp =>
      simp only [step]; split
      · exact ⟨nextPos, refLt, refInj, ptsOwn, elLt, elOk, basePts, baseEqs, baseEl⟩
      · exact ⟨nextPos, refLt, refInj, ptsOwn, elLt, elOk, basePts, baseEqs, baseEl⟩
  | add i m d =>
      simp only [step]; split
      · exact ⟨nextPos, refLt, refInj, ptsOwn, elLt, elOk, basePts, baseEqs, baseEl⟩
      · have hne : (0 : Nat) ≠ st.next := by omega
        constructor <;> dsimp only
        · omega
        · intro j s hj
          simp only [updFn] at hj
          split at hj
          · cases hj; dsimp only; omega
          · have := refLt j s hj; omega
        · intro j k sj sk hj hk hr
          simp only [updFn] at hj hk
          split at hj <;> split at hk
          · omega
          · cases hj; have := refLt k sk hk; simp at hr; omega
          · cases hk; have := refLt j sj hj; simp at hr; omega
          · exact refInj j k sj sk hj hk hr
        · intro j s hj
          simp only [updFn] at hj
          split at hj
          · cases hj; simp
          · exact ptsOwn j s hj
        · intro j s hj
          simp only [updFn] at hj
          split at hj
          · cases hj; dsimp only; split <;> omega
          · have := elLt j s hj; omega
        · intro j s hj
          simp only [updFn] at hj
          split at hj
          · cases hj; simp [updFn]; split <;> simp_all
          · have h1 := elLt j s hj
            have h2 := elOk j s hj
            simp only [updFn]
            rw [if_neg (by omega)]; exact h2
        · simp [updFn, hne, basePts]
        · simp [updFn, hne, baseEqs]
        · simp [updFn, hne, baseEl]
  | run i =>
      cases hs : st.scns i with
      | none => simpa [step, hs] using (⟨nextPos, refLt, refInj, ptsOwn, elLt, elOk, basePts, baseEqs, baseEl⟩ : Inv b st)
      | some s =>
          have := refLt _ s hs; have := ptsOwn _ s hs
          simp only [step, hs]
          apply inv_frame b st _ ⟨nextPos, refLt, refInj, ptsOwn, elLt, elOk, basePts, baseEqs, baseEl⟩
          · rfl
          · intro j s' hj
            simp only [simulate, applyScn, updFn] at hj
            split at hj
            · cases hj; subst_vars; exact ⟨s, hs, rfl, rfl, rfl⟩
            · exact ⟨s', hj, rfl, rfl, rfl⟩
          · rfl
          · simp only [simulate, applyScn, updFn]; rw [if_neg (by omega)]
          · simp only [simulate, applyScn, updFn]; rw [if_neg (by omega)]
  | configure i d =>
      cases hs : st.scns i with
      | none => simpa [step, hs] using (⟨nextPos, refLt, refInj, ptsOwn, elLt, elOk, basePts, baseEqs, baseEl⟩ : Inv b st)
      | some s =>
          simp only [step, hs]
          apply inv_frame b st _ ⟨nextPos, refLt, refInj, ptsOwn, elLt, elOk, basePts, baseEqs, baseEl⟩
          · rfl
          · intro j s' hj
            simp only [updFn] at hj
            split at hj
            · cases hj; subst_vars; exact ⟨s, hs, rfl, rfl, rfl⟩
            · exact ⟨s', hj, rfl, rfl, rfl⟩
          · rfl
          · rfl
          · rfl
  | reset i =>
      cases hs : st.scns i with
      | none => simpa [step, hs] using (⟨nextPos, refLt, refInj, ptsOwn, elLt, elOk, basePts, baseEqs, baseEl⟩ : Inv b st)
      | some s =>
          simp only [step, hs]
          apply inv_frame b st _ ⟨nextPos, refLt, refInj, ptsOwn, elLt, elOk, basePts, baseEqs, baseEl⟩
          · rfl
          · intro j s' hj
            simp only [updFn] at hj
            split at hj
            · cases hj; subst_vars; exact ⟨s, hs, rfl, rfl, rfl⟩
            · exact ⟨s', hj, rfl, rfl, rfl⟩
          · rfl
          · rfl
          · rfl
  | step i d t =>
      cases hs : st.scns i with
      | none => simpa [step, hs] using (⟨nextPos, refLt, refInj, ptsOwn, elLt, elOk, basePts, baseEqs, baseEl⟩ : Inv b st)
      | some s =>
          have := refLt _ s hs; have := ptsOwn _ s hs
          simp only [step, hs]
          apply inv_frame b st _ ⟨nextPos, refLt, refInj, ptsOwn, elLt, elOk, basePts, baseEqs, baseEl⟩
          · cases s.live <;> rfl
          · intro j s' hj
            cases hl : s.live <;> simp only [hl, simulate, applyScn, updFn] at hj <;> split at hj
            · cases hj; subst_vars; exact ⟨s, hs, rfl, rfl, rfl⟩
            · exact ⟨s', hj, rfl, rfl, rfl⟩
            · cases hj; subst_vars; exact ⟨s, hs, rfl, rfl, rfl⟩
            · exact ⟨s', hj, rfl, rfl, rfl⟩
          · cases s.live <;> rfl
          · have h0 : (0 : Nat) ≠ s.ptsRef := by omega
            cases hl : s.live <;> simp [simulate, applyScn, updFn, h0, hl]
          · have h0 : (0 : Nat) ≠ s.ref := by omega
            cases hl : s.live <;> simp [simulate, applyScn, updFn, h0, hl]
  | evalBase =>
      simp only [step]
      apply inv_frame b st _ ⟨nextPos, refLt, refInj, ptsOwn, elLt, elOk, basePts, baseEqs, baseEl⟩
      · rfl
      · exact same_self st
      · rfl
      · rfl
      · rfl

theorem deref_frame (st st' : State) (s : Scn) (h1 : st'.he s.ref = st.he s.ref)
    (h2 : st'.hp s.ptsRef = st.hp s.ptsRef) (h3 : st'.hm s.ref = st.hm s.ref)
    (h4 : st'.hel s.elRef = st.hel s.elRef) : deref st' s = deref st s := by
  simp [deref, *]

/-- Every operation acts on slot `i`'s view exactly as on the scenario alone (and not at all when it
is addressed to another slot or to the base model). -/
theorem rel_step (c : Cfg) (hc : c.cloneOwnsPoints = true) (b : Base) (st : State) (i : Nat) (ss : SoloSt)
    (op : Op) (hI : Inv b st) (hR : Rel st i ss) : Rel (step c b st op) i (soloStep b i ss op) := by
  obtain ⟨hm, hv⟩ := hR
  cases op with
  | regMgr m bc bp =>
      simp only [step, soloStep, ← hm]
      cases st.mgrs m with
      | some _ => exact ⟨hm, hv⟩
      | none => exact ⟨rfl, hv⟩
  | add j m d =>
      simp only [step, soloStep, ← hm]
      cases hmm : st.mgrs m with
      | none => simp only []; split <;> exact ⟨hm, hv⟩
      | some p =>
          obtain ⟨bc, bp⟩ := p
          simp only []
          by_cases hji : j = i
          · subst hji
            rw [if_pos rfl]
            refine ⟨rfl, ?_⟩
            have hne : (0 : Nat) ≠ st.next := by have := hI.nextPos; omega
            have hbe := hI.baseEl
            simp [view, deref, updFn, Solo.fresh, hc, hI.basePts, hI.baseEl, hne]
            split <;> simp_all
          · rw [if_neg hji]
            refine ⟨hm, ?_⟩
            rw [← hv]
            simp only [view, updFn, if_neg (Ne.symm hji)]
            cases hs : st.scns i with
            | none => rfl
            | some s =>
                have h1 := hI.refLt i s hs; have h2 := hI.ptsOwn i s hs; have h3 := hI.elLt i s hs
                simp only [Option.map]
                congr 1
                apply deref_frame <;> simp only [updFn] <;> rw [if_neg (by omega)]
  | run j =>
      simp only [step, soloStep]
      cases hs : st.scns j with
      | none =>
          simp only []
          by_cases hji : j = i
          · subst hji; rw [if_pos rfl]; refine ⟨hm, ?_⟩
            simp only [view, hs, Option.map] at hv
            simp [view, hs, ← hv]
          · rw [if_neg hji]; exact ⟨hm, hv⟩
      | some s =>
          simp only []
          by_cases hji : j = i
          · subst hji; rw [if_pos rfl]; refine ⟨hm, ?_⟩
            simp only [view, hs, Option.map] at hv
            simp [view, ← hv, deref, simulate, applyScn, updFn, Solo.run, Solo.apply, Solo.simulate, Solo.eff, effOf]
          · rw [if_neg hji]; refine ⟨hm, ?_⟩
            rw [← hv]
            simp only [view, simulate, applyScn, updFn, if_neg (Ne.symm hji)]
            cases hsi : st.scns i with
            | none => rfl
            | some si =>
                have h1 := hI.refInj i j si s hsi hs
                have h2 := hI.ptsOwn i si hsi; have h3 := hI.ptsOwn j s hs
                have hne : si.ref ≠ s.ref := fun h => hji (h1 h).symm
                simp only [Option.map]
                congr 1
                apply deref_frame <;> simp only [updFn] <;> try (first | rfl | rw [if_neg (by omega)])
  | configure j d =>
      simp only [step, soloStep]
      cases hs : st.scns j with
      | none =>
          simp only []
          by_cases hji : j = i
          · subst hji; rw [if_pos rfl]; refine ⟨hm, ?_⟩
            simp only [view, hs, Option.map] at hv
            simp [view, hs, ← hv]
          · rw [if_neg hji]; exact ⟨hm, hv⟩
      | some s =>
          simp only []
          by_cases hji : j = i
          · subst hji; rw [if_pos rfl]; refine ⟨hm, ?_⟩
            simp only [view, hs, Option.map] at hv
            simp [view, ← hv, deref, updFn, Solo.configure]
          · rw [if_neg hji]; refine ⟨hm, ?_⟩
            rw [← hv]
            simp only [view, updFn, if_neg (Ne.symm hji)]
            cases hsi : st.scns i with
            | none => rfl
            | some si =>
                have h1 := hI.refInj i j si s hsi hs
                have h2 := hI.ptsOwn i si hsi; have h3 := hI.ptsOwn j s hs
                have hne : si.ref ≠ s.ref := fun h => hji (h1 h).symm
                simp only [Option.map]
                rfl
  | reset j =>
      simp only [step, soloStep]
      cases hs : st.scns j with
      | none =>
          simp only []
          by_cases hji : j = i
          · subst hji; rw [if_pos rfl]; refine ⟨hm, ?_⟩
            simp only [view, hs, Option.map] at hv
            simp [view, hs, ← hv]
          · rw [if_neg hji]; exact ⟨hm, hv⟩
      | some s =>
          simp only []
          by_cases hji : j = i
          · subst hji; rw [if_pos rfl]; refine ⟨hm, ?_⟩
            simp only [view, hs, Option.map] at hv
            simp [view, ← hv, deref, updFn, Solo.reset]
          · rw [if_neg hji]; refine ⟨hm, ?_⟩
            rw [← hv]
            simp only [view, updFn, if_neg (Ne.symm hji)]
            cases hsi : st.scns i with
            | none => rfl
            | some si =>
                have h1 := hI.refInj i j si s hsi hs
                have h2 := hI.ptsOwn i si hsi; have h3 := hI.ptsOwn j s hs
                have hne : si.ref ≠ s.ref := fun h => hji (h1 h).symm
                simp only [Option.map]
                congr 1
                apply deref_frame <;> simp only [updFn] <;> try (first | rfl | rw [if_neg (by omega)])
  | step j d t =>
      simp only [step, soloStep]
      cases hs : st.scns j with
      | none =>
          simp only []
          by_cases hji : j = i
          · subst hji; rw [if_pos rfl]; refine ⟨hm, ?_⟩
            simp only [view, hs, Option.map] at hv
            simp [view, hs, ← hv]
          · rw [if_neg hji]; exact ⟨hm, hv⟩
      | some s =>
          simp only []
          by_cases hji : j = i
          · subst hji; rw [if_pos rfl]
            simp only [view, hs, Option.map] at hv
            cases hl : s.live
            · refine ⟨hm, ?_⟩
              simp [view, ← hv, deref, simulate, applyScn, updFn, Solo.step, Solo.prepare, Solo.stepSet,
                Solo.apply, Solo.simulate, Solo.eff, effOf, hl]
            · refine ⟨hm, ?_⟩
              simp [view, ← hv, deref, simulate, updFn, Solo.step, Solo.prepare, Solo.stepSet,
                Solo.apply, Solo.simulate, Solo.eff, effOf, hl]
          · rw [if_neg hji]
            cases hsi : st.scns i with
            | none =>
                cases hl : s.live
                · refine ⟨hm, ?_⟩; rw [← hv]; simp [view, simulate, applyScn, updFn, Ne.symm hji, hsi]
                · refine ⟨hm, ?_⟩; rw [← hv]; simp [view, simulate, applyScn, updFn, Ne.symm hji, hsi]
            | some si =>
                have h1 := hI.refInj i j si s hsi hs
                have h2 := hI.ptsOwn i si hsi; have h3 := hI.ptsOwn j s hs
                have hne : si.ref ≠ s.ref := fun h => hji (h1 h).symm
                have hne2 : si.ptsRef ≠ s.ptsRef := by omega
                cases hl : s.live
                · refine ⟨hm, ?_⟩; rw [← hv]
                  simp [view, deref, simulate, applyScn, updFn, Ne.symm hji, hsi, hne, hne2]
                · refine ⟨hm, ?_⟩; rw [← hv]
                  simp [view, deref, simulate, applyScn, updFn, Ne.symm hji, hsi, hne, hne2]
  | evalBase =>
      simp only [step, soloStep]
      refine ⟨hm, ?_⟩
      rw [← hv]
      simp only [view]
      cases hsi : st.scns i with
      | none => rfl
      | some si =>
          have h1 := hI.refLt i si hsi
          simp only [Option.map]
          congr 1
          apply deref_frame <;> simp only [updFn] <;> try (first | rfl | rw [if_neg (by omega)])

theorem run_rel (c : Cfg) (hc : c.cloneOwnsPoints = true) (b : Base) (i : Nat) (ops : List Op) :
    ∀ (st : State) (ss : SoloSt), Inv b st → Rel st i ss →
      Inv b (ops.foldl (step c b) st) ∧ Rel (ops.foldl (step c b) st) i (ops.foldl (soloStep b i) ss) := by
  induction ops with
  | nil => intro st ss h1 h2; exact ⟨h1, h2⟩
  | cons op rest ih =>
      intro st ss h1 h2
      exact ih _ _ (inv_step c hc b st op h1) (rel_step c hc b st i ss op h1 h2)

theorem inv_run (c : Cfg) (hc : c.cloneOwnsPoints = true) (b : Base) (ops : List Op) : Inv b (exec c b ops) :=
  (run_rel c hc b 0 ops _ _ (inv_init b) (rel_init b 0)).1

/-- does the operation concern slot `i` (manager registrations concern every slot: base values apply
to every scenario of the manager) -/
def relevant (i : Nat) : Op → Bool
  | .regMgr _ _ _ => true
  | .add j _ _ => j == i
  | .run j => j == i
  | .configure j _ => j == i
  | .reset j => j == i
  | .step j _ _ => j == i
  | .evalBase => false

theorem solo_irrelevant (b : Base) (i : Nat) (ss : SoloSt) (op : Op) (h : relevant i op = false) :
    soloStep b i ss op = ss := by
  cases op <;> simp_all [relevant, soloStep]

theorem solo_filter (b : Base) (i : Nat) (ops : List Op) : ∀ ss : SoloSt,
    ops.foldl (soloStep b i) ss = (ops.filter (relevant i)).foldl (soloStep b i) ss := by
  induction ops with
  | nil => intro ss; rfl
  | cons op rest ih =>
      intro ss
      cases h : relevant i op
      · simp [List.filter, h, solo_irrelevant b i ss op h, ih]
      · simp [List.filter, h, ih]

/-- the base model's memo cell: one generation per direct evaluation, each under the base model's own settings -/
theorem hm0_step (c : Cfg) (b : Base) (st : State) (op : Op) (h : Inv b st) :
    (step c b st op).hm 0 = if isEvalBase op then st.hm 0 ++ [(b.eff, none)] else st.hm 0 := by
  have hnp := h.nextPos
  cases op with
  | regMgr m bc bp => simp only [step, isEvalBase]; split <;> rfl
  | add i m d =>
      simp only [step, isEvalBase]; split
      · rfl
      · simp [updFn]; omega
  | run i =>
      simp only [step, isEvalBase]
      cases hs : st.scns i with
      | none => rfl
      | some s => have := h.refLt i s hs; simp [simulate, applyScn, updFn]; omega
  | configure i d =>
      simp only [step, isEvalBase]
      cases hs : st.scns i with
      | none => rfl
      | some s => rfl
  | reset i =>
      simp only [step, isEvalBase]
      cases hs : st.scns i with
      | none => rfl
      | some s => have := h.refLt i s hs; simp [updFn]; omega
  | step i d t =>
      simp only [step, isEvalBase]
      cases hs : st.scns i with
      | none => rfl
      | some s =>
          have := h.refLt i s hs
          have h0 : (0 : Nat) ≠ s.ref := by omega
          cases hl : s.live <;> simp [simulate, applyScn, updFn, h0, hl]
  | evalBase =>
      simp [step, isEvalBase, updFn, baseEff, Base.eff, h.basePts, h.baseEqs, h.baseEl]

theorem run_base (c : Cfg) (hc : c.cloneOwnsPoints = true) (b : Base) (ops : List Op) :
    ∀ (st : State), Inv b st →
      (ops.foldl (step c b) st).hm 0 = st.hm 0 ++ (ops.filter isEvalBase).map (fun _ => (b.eff, none)) := by
  induction ops with
  | nil => intro st _; simp
  | cons op rest ih =>
      intro st h
      rw [List.foldl_cons, ih _ (inv_step c hc b st op h), hm0_step c b st op h]
      cases hop : isEvalBase op <;> simp [List.filter, hop]

/-! ### The property -/

/-- C06 at full strength: for every base model and every history of register / add / run / configure
(session or REST settings) / reset-cache / step / base-evaluation operations over any number of
managers and scenarios, (1) every scenario slot looks — scenario-level settings, the settings a
simulation of it reads through the heap, memo content — exactly like that scenario alone on a model
freshly built from the base model's own settings after the operations addressed to it (and the
registrations of managers); (2) the base model looks as if no scenario had ever been registered. -/
def C06_full (c : Cfg) : Prop :=
  ∀ (b : Base) (ops : List Op),
    (∀ i, view (exec c b ops) i = (soloExec b i (ops.filter (relevant i))).s) ∧
    baseView b (exec c b ops) = baseAlone b ops

theorem C06_full_of_good (c : Cfg) (hc : c.cloneOwnsPoints = true) : C06_full c := by
  intro b ops
  constructor
  · intro i
    have h := (run_rel c hc b i ops _ _ (inv_init b) (rel_init b i)).2.scn
    rw [soloExec, ← solo_filter]
    exact h
  · have hI := inv_run c hc b ops
    have hm := run_base c hc b ops _ (inv_init b)
    simp only [baseView, baseAlone, baseEff, Base.eff]
    rw [show (exec c b ops).hm 0 = _ from hm]
    simp [hI.basePts, hI.baseEqs, hI.baseEl, State.init, Base.eff]

/-- Results are a function of what a read sees, so they agree as well — whatever the numeric
simulation `Sim` is. -/
theorem C06_results {R : Type} (Sim : Solo → R) (c : Cfg) (hc : c.cloneOwnsPoints = true) (b : Base)
    (ops : List Op) (i : Nat) :
    (view (exec c b ops) i).map Sim = ((soloExec b i (ops.filter (relevant i))).s).map Sim := by
  rw [(C06_full_of_good c hc b ops).1 i]

/-- What holds whatever `_elements` sharing is: no operation of the alphabet writes an arrayed-element
table, so sharing it between clones does not break isolation. -/
theorem C06_partial (c : Cfg) (hc : c.cloneOwnsPoints = true) :
    C06_full { c with cloneOwnsElements := false } ∧ C06_full { c with cloneOwnsElements := true } :=
  ⟨C06_full_of_good _ hc, C06_full_of_good _ hc⟩

def witnessBase : Base := { pts := [(0, 1)], rs := { start := 0, stop := 4, dt := 1 }, elems := 9 }
def noDict : Dict := { consts := [], pts := [], start := none, stop := none, dt := none }
/-- register a manager, add scenarios 0 and 1 without own points, step scenario 0 with step settings
`points {0: 7}`, run scenario 1. -/
def witnessOps : List Op :=
  [.regMgr 0 [] [], .add 0 0 noDict, .add 1 0 noDict, .step 0 { noDict with pts := [(0, 7)] } 0, .run 1]

/-- Negation witness for the shared points dictionary: scenario 1's run reads points 7 for name 0
although nothing was ever set on scenario 1 (and the base model reads 7 as well). -/
theorem C06_witness_shared_points (c : Cfg) (hc : c.cloneOwnsPoints = false) : ¬ C06_full c := by
  intro h
  have h1 := (h witnessBase witnessOps).1 1
  obtain ⟨p, e⟩ := c
  simp only at hc; subst hc
  revert h1
  cases e <;> decide

theorem C06_witness_base (c : Cfg) (hc : c.cloneOwnsPoints = false) :
    baseView witnessBase (exec c witnessBase witnessOps) ≠ baseAlone witnessBase witnessOps := by
  obtain ⟨p, e⟩ := c
  simp only at hc; subst hc
  cases e <;> decide

/-- Non-vacuity: on a history using every operation kind, two managers with base constants / base
points, three scenarios, the shared machine's view of slot 1 is a concrete non-trivial state. -/
example :
    (view (exec ⟨true, false⟩ witnessBase
      [.regMgr 0 [(5, 50)] [(1, 11)], .regMgr 1 [] [], .add 0 0 noDict, .add 1 0 { noDict with consts := [(5, 51)], stop := some 8 },
       .add 2 1 noDict, .run 0, .configure 1 { noDict with pts := [(0, 3)] }, .reset 1, .step 1 { noDict with consts := [(6, 60)] } 2,
       .step 0 { noDict with pts := [(0, 7)] } 2, .evalBase, .run 2]) 1).map (fun s => (s.meqs, s.mpts, s.mrs.stop, s.memo.length))
    = some ([(5, 51), (6, 60)], [(0, 3), (1, 11)], 8, 1) := by decide

#print axioms C06_full_of_good
#print axioms C06_results
#print axioms C06_partial
#print axioms C06_witness_shared_points
#print axioms C06_witness_base
#print axioms inv_run

end Bptk.C06
