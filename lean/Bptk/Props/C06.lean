import Bptk.Core.C06
/-!
C06 — property theorems.  Quantifier: every operation history (`List Op`), every base model, every
scenario slot — unbounded.

Shape: the shared heap machine `exec` (managers, scenarios, clones, base model, cells addressed by
reference) is related to the heap-free machine `soloExec` in which scenario `i` exists alone on a model
freshly built from the base model's own settings and receives only the operations addressed to it.
Isolation = the dereferenced view of slot `i` in the shared machine equals the solo state, for every
history; results are an uninterpreted function `Sim` of what a read sees, hence equal.
-/
namespace Bptk.C06

/-- Separation invariant: the cells reachable from distinct scenarios and from the base model are
disjoint, and the base model's cells hold the base model's own settings. -/
structure Inv (b : Base) (st : State) : Prop where
  nextPos : 0 < st.next
  refLt : ∀ i s, st.scns i = some s → 0 < s.ref ∧ s.ref < st.next
  refInj : ∀ i j si sj, st.scns i = some si → st.scns j = some sj → si.ref = sj.ref → i = j
  ptsOwn : ∀ i s, st.scns i = some s → s.ptsRef = s.ref
  elLt : ∀ i s, st.scns i = some s → s.elRef < st.next
  elOk : ∀ i s, st.scns i = some s → st.hel s.elRef = b.elems
  basePts : st.hp 0 = b.pts
  baseEqs : st.he 0 = []
  baseEl : st.hel 0 = b.elems
  noShare : ∀ i s, st.scns i = some s → s.cShared = false ∧ s.pShared = false

structure Rel (st : State) (i : Nat) (ss : SoloSt) : Prop where
  mgrs : st.mgrs = ss.mgrs
  scn : view st i = ss.s

theorem inv_init (b : Base) : Inv b (State.init b) := by
  constructor <;> simp [State.init]

theorem rel_init (b : Base) (i : Nat) : Rel (State.init b) i { mgrs := fun _ => none, s := none } := by
  constructor <;> simp [State.init, view]

/-- scenario objects of `st'` sit on the same cells as those of `st` -/
def SameRefs (st st' : State) : Prop :=
  ∀ j s', st'.scns j = some s' → ∃ s, st.scns j = some s ∧ s'.ref = s.ref ∧ s'.ptsRef = s.ptsRef ∧ s'.elRef = s.elRef ∧
    s'.cShared = s.cShared ∧ s'.pShared = s.pShared

theorem same_self (st : State) : SameRefs st st := fun _ s' h => ⟨s', h, rfl, rfl, rfl, rfl, rfl⟩

/-- Operations that allocate nothing, keep every scenario on its cells and leave the base model's
cells alone preserve the invariant. -/
theorem inv_frame (b : Base) (st st' : State) (h : Inv b st)
    (hnext : st'.next = st.next) (hscn : SameRefs st st')
    (hel : st'.hel = st.hel) (hp0 : st'.hp 0 = st.hp 0) (he0 : st'.he 0 = st.he 0) : Inv b st' := by
  obtain ⟨nextPos, refLt, refInj, ptsOwn, elLt, elOk, basePts, baseEqs, baseEl, noShare⟩ := h
  constructor
  · omega
  · intro j s' hj; obtain ⟨s, hs, h1, _, _⟩ := hscn j s' hj; have := refLt j s hs; omega
  · intro j k sj sk hj hk hr
    obtain ⟨s1, hs1, h1, _, _⟩ := hscn j sj hj
    obtain ⟨s2, hs2, h2, _, _⟩ := hscn k sk hk
    exact refInj j k s1 s2 hs1 hs2 (by omega)
  · intro j s' hj; obtain ⟨s, hs, h1, h2, _⟩ := hscn j s' hj; have := ptsOwn j s hs; omega
  · intro j s' hj; obtain ⟨s, hs, _, _, h3, _⟩ := hscn j s' hj; have := elLt j s hs; omega
  · intro j s' hj; obtain ⟨s, hs, _, _, h3, _⟩ := hscn j s' hj; rw [hel, h3]; exact elOk j s hs
  · rw [hp0]; exact basePts
  · rw [he0]; exact baseEqs
  · rw [hel]; exact baseEl
  · intro j s' hj; obtain ⟨s, hs, _, _, _, h4, h5⟩ := hscn j s' hj; rw [h4, h5]; exact noShare j s hs

/-- The invariant is preserved by every operation (given that clones own their points table). -/
theorem inv_step (c : Cfg) (hc : c.cloneOwnsPoints = true) (hmo : c.mergeOwnsDict = true) (hrr : c.reregFreshClone = true) (b : Base) (st : State) (op : Op)
    (h : Inv b st) : Inv b (step c b st op) := by
  obtain ⟨nextPos, refLt, refInj, ptsOwn, elLt, elOk, basePts, baseEqs, baseEl, noShare⟩ := h
  cases op with
  | regMgr m bc bp =>
      simp only [step]; split
      · exact ⟨nextPos, refLt, refInj, ptsOwn, elLt, elOk, basePts, baseEqs, baseEl, noShare⟩
      · exact ⟨nextPos, refLt, refInj, ptsOwn, elLt, elOk, basePts, baseEqs, baseEl, noShare⟩
  | add i m d =>
      simp only [step, reuseOf, hrr, ↓reduceIte]; split
      · exact ⟨nextPos, refLt, refInj, ptsOwn, elLt, elOk, basePts, baseEqs, baseEl, noShare⟩
      · have hne : (0 : Nat) ≠ st.next := by omega
        constructor <;> dsimp only
        · omega
        · intro j s hj
          simp only [updFn] at hj
          split at hj
          · cases hj; dsimp only; omega
          · have := refLt j s hj; omega
        · intro j k sj sk hj hk hr
          simp only [updFn] at hj hk
          split at hj <;> split at hk
          · omega
          · cases hj; have := refLt k sk hk; simp at hr; omega
          · cases hk; have := refLt j sj hj; simp at hr; omega
          · exact refInj j k sj sk hj hk hr
        · intro j s hj
          simp only [updFn] at hj
          split at hj
          · cases hj; simp
          · exact ptsOwn j s hj
        · intro j s hj
          simp only [updFn] at hj
          split at hj
          · cases hj; dsimp only; split <;> omega
          · have := elLt j s hj; omega
        · intro j s hj
          simp only [updFn] at hj
          split at hj
          · cases hj; simp [updFn]; split <;> simp_all
          · have h1 := elLt j s hj
            have h2 := elOk j s hj
            simp only [updFn]
            rw [if_neg (by omega)]; exact h2
        · simp [updFn, hne, basePts]
        · simp [updFn, hne, baseEqs]
        · simp [updFn, hne, baseEl]
        · intro j s hj
          simp only [updFn] at hj
          split at hj
          · cases hj; simp [hmo]
          · exact noShare j s hj
  | run i =>
      cases hs : st.scns i with
      | none => simpa [step, hs] using (⟨nextPos, refLt, refInj, ptsOwn, elLt, elOk, basePts, baseEqs, baseEl, noShare⟩ : Inv b st)
      | some s =>
          have := refLt _ s hs; have := ptsOwn _ s hs
          simp only [step, hs]
          apply inv_frame b st _ ⟨nextPos, refLt, refInj, ptsOwn, elLt, elOk, basePts, baseEqs, baseEl, noShare⟩
          · rfl
          · intro j s' hj
            simp only [simulate, applyScn, updFn] at hj
            split at hj
            · cases hj; subst_vars; exact ⟨s, hs, rfl, rfl, rfl, rfl, rfl⟩
            · exact ⟨s', hj, rfl, rfl, rfl, rfl, rfl⟩
          · rfl
          · simp only [simulate, applyScn, updFn]; rw [if_neg (by omega)]
          · simp only [simulate, applyScn, updFn]; rw [if_neg (by omega)]
  | configure i d =>
      cases hs : st.scns i with
      | none => simpa [step, hs] using (⟨nextPos, refLt, refInj, ptsOwn, elLt, elOk, basePts, baseEqs, baseEl, noShare⟩ : Inv b st)
      | some s =>
          have hns := noShare i s hs
          have hcfg : configureScn st i s d = { st with scns := updFn st.scns i (some { s with
              consts := Store.update s.consts d.consts, pts := Store.update s.pts d.pts, rs := s.rs.override d }) } := by
            simp [configureScn, hns.1, hns.2]
          simp only [step, hs, hcfg]
          apply inv_frame b st _ ⟨nextPos, refLt, refInj, ptsOwn, elLt, elOk, basePts, baseEqs, baseEl, noShare⟩
          · rfl
          · intro j s' hj
            simp only [updFn] at hj
            split at hj
            · cases hj; subst_vars; exact ⟨s, hs, rfl, rfl, rfl, rfl, rfl⟩
            · exact ⟨s', hj, rfl, rfl, rfl, rfl, rfl⟩
          · rfl
          · rfl
          · rfl
  | reset i =>
      cases hs : st.scns i with
      | none => simpa [step, hs] using (⟨nextPos, refLt, refInj, ptsOwn, elLt, elOk, basePts, baseEqs, baseEl, noShare⟩ : Inv b st)
      | some s =>
          simp only [step, hs]
          apply inv_frame b st _ ⟨nextPos, refLt, refInj, ptsOwn, elLt, elOk, basePts, baseEqs, baseEl, noShare⟩
          · rfl
          · intro j s' hj
            simp only [updFn] at hj
            split at hj
            · cases hj; subst_vars; exact ⟨s, hs, rfl, rfl, rfl, rfl, rfl⟩
            · exact ⟨s', hj, rfl, rfl, rfl, rfl, rfl⟩
          · rfl
          · rfl
          · rfl
  | step i d t =>
      cases hs : st.scns i with
      | none => simpa [step, hs] using (⟨nextPos, refLt, refInj, ptsOwn, elLt, elOk, basePts, baseEqs, baseEl, noShare⟩ : Inv b st)
      | some s =>
          have := refLt _ s hs; have := ptsOwn _ s hs
          simp only [step, hs]
          apply inv_frame b st _ ⟨nextPos, refLt, refInj, ptsOwn, elLt, elOk, basePts, baseEqs, baseEl, noShare⟩
          · cases s.live <;> rfl
          · intro j s' hj
            cases hl : s.live <;> simp only [hl, simulate, applyScn, updFn] at hj <;> split at hj
            · cases hj; subst_vars; exact ⟨s, hs, rfl, rfl, rfl, rfl, rfl⟩
            · exact ⟨s', hj, rfl, rfl, rfl, rfl, rfl⟩
            · cases hj; subst_vars; exact ⟨s, hs, rfl, rfl, rfl, rfl, rfl⟩
            · exact ⟨s', hj, rfl, rfl, rfl, rfl, rfl⟩
          · cases s.live <;> rfl
          · have h0 : (0 : Nat) ≠ s.ptsRef := by omega
            cases hl : s.live <;> simp [simulate, applyScn, updFn, h0, hl]
          · have h0 : (0 : Nat) ≠ s.ref := by omega
            cases hl : s.live <;> simp [simulate, applyScn, updFn, h0, hl]
  | evalBase =>
      simp only [step]
      apply inv_frame b st _ ⟨nextPos, refLt, refInj, ptsOwn, elLt, elOk, basePts, baseEqs, baseEl, noShare⟩
      · rfl
      · exact same_self st
      · rfl
      · rfl
      · rfl
  | setup i =>
      cases hs : st.scns i with
      | none => simpa [step, hs] using (⟨nextPos, refLt, refInj, ptsOwn, elLt, elOk, basePts, baseEqs, baseEl, noShare⟩ : Inv b st)
      | some s =>
          have := refLt _ s hs; have := ptsOwn _ s hs
          simp only [step, hs]
          apply inv_frame b st _ ⟨nextPos, refLt, refInj, ptsOwn, elLt, elOk, basePts, baseEqs, baseEl, noShare⟩
          · rfl
          · exact same_self st
          · rfl
          · simp only [setupScn, updFn]; rw [if_neg (by omega)]
          · simp only [setupScn, updFn]; rw [if_neg (by omega)]

-- (the `setup` case of `inv_step` is proved as a separate lemma and used below)
theorem deref_frame (st st' : State) (s : Scn) (hns : s.cShared = false ∧ s.pShared = false)
    (h1 : st'.he s.ref = st.he s.ref)
    (h2 : st'.hp s.ptsRef = st.hp s.ptsRef) (h3 : st'.hm s.ref = st.hm s.ref)
    (h4 : st'.hel s.elRef = st.hel s.elRef) : deref st' s = deref st s := by
  simp [deref, scnConsts, scnPts, hns.1, hns.2, *]

/-- Every operation acts on slot `i`'s view exactly as on the scenario alone (and not at all when it
is addressed to another slot or to the base model). -/
theorem rel_step (c : Cfg) (hc : c.cloneOwnsPoints = true) (hmo : c.mergeOwnsDict = true) (hrr : c.reregFreshClone = true) (b : Base) (st : State) (i : Nat) (ss : SoloSt)
    (op : Op) (hI : Inv b st) (hR : Rel st i ss) : Rel (step c b st op) i (soloStep b i ss op) := by
  obtain ⟨hm, hv⟩ := hR
  cases op with
  | regMgr m bc bp =>
      simp only [step, soloStep, ← hm]
      cases st.mgrs m with
      | some _ => exact ⟨hm, hv⟩
      | none =>
          refine ⟨rfl, ?_⟩
          rw [← hv]
          simp only [view]
          cases hs : st.scns i with
          | none => rfl
          | some s =>
              simp only [Option.map]
              congr 1
              exact deref_frame _ _ _ (hI.noShare _ _ hs) rfl rfl rfl rfl
  | add j m d =>
      simp only [step, soloStep, ← hm, reuseOf, hrr, ↓reduceIte]
      cases hmm : st.mgrs m with
      | none => simp only []; split <;> exact ⟨hm, hv⟩
      | some p =>
          obtain ⟨bc, bp⟩ := p
          simp only []
          by_cases hji : j = i
          · subst hji
            rw [if_pos rfl]
            refine ⟨rfl, ?_⟩
            have hne : (0 : Nat) ≠ st.next := by have := hI.nextPos; omega
            have hbe := hI.baseEl
            simp [view, deref, updFn, Solo.fresh, hc, hmo, hI.basePts, hI.baseEl, hne, scnConsts, scnPts]
            split <;> simp_all
          · rw [if_neg hji]
            refine ⟨hm, ?_⟩
            rw [← hv]
            simp only [view, updFn, if_neg (Ne.symm hji)]
            cases hs : st.scns i with
            | none => rfl
            | some s =>
                have h1 := hI.refLt i s hs; have h2 := hI.ptsOwn i s hs; have h3 := hI.elLt i s hs
                simp only [Option.map]
                congr 1
                apply deref_frame _ _ _ (hI.noShare _ _ (by assumption)) <;> simp only [updFn] <;> rw [if_neg (by omega)]
  | run j =>
      simp only [step, soloStep]
      cases hs : st.scns j with
      | none =>
          simp only []
          by_cases hji : j = i
          · subst hji; rw [if_pos rfl]; refine ⟨hm, ?_⟩
            simp only [view, hs, Option.map] at hv
            simp [view, hs, ← hv]
          · rw [if_neg hji]; exact ⟨hm, hv⟩
      | some s =>
          simp only []
          by_cases hji : j = i
          · subst hji; rw [if_pos rfl]; refine ⟨hm, ?_⟩
            simp only [view, hs, Option.map] at hv
            simp [view, ← hv, deref, simulate, applyScn, updFn, Solo.run, Solo.apply, Solo.simulate, Solo.eff, effOf, scnConsts, scnPts, mgrConsts, mgrPts]
          · rw [if_neg hji]; refine ⟨hm, ?_⟩
            rw [← hv]
            simp only [view, simulate, applyScn, updFn, if_neg (Ne.symm hji)]
            cases hsi : st.scns i with
            | none => rfl
            | some si =>
                have h1 := hI.refInj i j si s hsi hs
                have h2 := hI.ptsOwn i si hsi; have h3 := hI.ptsOwn j s hs
                have hne : si.ref ≠ s.ref := fun h => hji (h1 h).symm
                simp only [Option.map]
                congr 1
                apply deref_frame _ _ _ (hI.noShare _ _ (by assumption)) <;> simp only [updFn] <;> try (first | rfl | rw [if_neg (by omega)])
  | configure j d =>
      simp only [step, soloStep]
      cases hs : st.scns j with
      | none =>
          simp only []
          by_cases hji : j = i
          · subst hji; rw [if_pos rfl]; refine ⟨hm, ?_⟩
            simp only [view, hs, Option.map] at hv
            simp [view, hs, ← hv]
          · rw [if_neg hji]; exact ⟨hm, hv⟩
      | some s =>
          have hns := hI.noShare j s hs
          have hcfg : configureScn st j s d = { st with scns := updFn st.scns j (some { s with
              consts := Store.update s.consts d.consts, pts := Store.update s.pts d.pts, rs := s.rs.override d }) } := by
            simp [configureScn, hns.1, hns.2]
          simp only [hcfg]
          by_cases hji : j = i
          · subst hji; rw [if_pos rfl]; refine ⟨hm, ?_⟩
            simp only [view, hs, Option.map] at hv
            simp [view, ← hv, deref, updFn, Solo.configure, scnConsts, scnPts, hns.1, hns.2]
          · rw [if_neg hji]; refine ⟨hm, ?_⟩
            rw [← hv]
            simp only [view, updFn, if_neg (Ne.symm hji)]
            cases hsi : st.scns i with
            | none => rfl
            | some si => rfl
  | reset j =>
      simp only [step, soloStep]
      cases hs : st.scns j with
      | none =>
          simp only []
          by_cases hji : j = i
          · subst hji; rw [if_pos rfl]; refine ⟨hm, ?_⟩
            simp only [view, hs, Option.map] at hv
            simp [view, hs, ← hv]
          · rw [if_neg hji]; exact ⟨hm, hv⟩
      | some s =>
          simp only []
          by_cases hji : j = i
          · subst hji; rw [if_pos rfl]; refine ⟨hm, ?_⟩
            simp only [view, hs, Option.map] at hv
            simp [view, ← hv, deref, updFn, Solo.reset, scnConsts, scnPts, mgrConsts, mgrPts]
          · rw [if_neg hji]; refine ⟨hm, ?_⟩
            rw [← hv]
            simp only [view, updFn, if_neg (Ne.symm hji)]
            cases hsi : st.scns i with
            | none => rfl
            | some si =>
                have h1 := hI.refInj i j si s hsi hs
                have h2 := hI.ptsOwn i si hsi; have h3 := hI.ptsOwn j s hs
                have hne : si.ref ≠ s.ref := fun h => hji (h1 h).symm
                simp only [Option.map]
                congr 1
                apply deref_frame _ _ _ (hI.noShare _ _ (by assumption)) <;> simp only [updFn] <;> try (first | rfl | rw [if_neg (by omega)])
  | step j d t =>
      simp only [step, soloStep]
      cases hs : st.scns j with
      | none =>
          simp only []
          by_cases hji : j = i
          · subst hji; rw [if_pos rfl]; refine ⟨hm, ?_⟩
            simp only [view, hs, Option.map] at hv
            simp [view, hs, ← hv]
          · rw [if_neg hji]; exact ⟨hm, hv⟩
      | some s =>
          simp only []
          by_cases hji : j = i
          · subst hji; rw [if_pos rfl]
            simp only [view, hs, Option.map] at hv
            cases hl : s.live
            · refine ⟨hm, ?_⟩
              simp [view, ← hv, deref, simulate, applyScn, updFn, Solo.step, Solo.prepare, Solo.stepSet,
                Solo.apply, Solo.simulate, Solo.eff, effOf, hl, scnConsts, scnPts, mgrConsts, mgrPts]
            · refine ⟨hm, ?_⟩
              simp [view, ← hv, deref, simulate, updFn, Solo.step, Solo.prepare, Solo.stepSet,
                Solo.apply, Solo.simulate, Solo.eff, effOf, hl, scnConsts, scnPts, mgrConsts, mgrPts]
          · rw [if_neg hji]
            cases hsi : st.scns i with
            | none =>
                cases hl : s.live
                · refine ⟨hm, ?_⟩; rw [← hv]; simp [view, simulate, applyScn, updFn, Ne.symm hji, hsi]
                · refine ⟨hm, ?_⟩; rw [← hv]; simp [view, simulate, updFn, Ne.symm hji, hsi]
            | some si =>
                have h1 := hI.refInj i j si s hsi hs
                have h2 := hI.ptsOwn i si hsi; have h3 := hI.ptsOwn j s hs
                have hne : si.ref ≠ s.ref := fun h => hji (h1 h).symm
                have hne2 : si.ptsRef ≠ s.ptsRef := by omega
                cases hl : s.live
                · refine ⟨hm, ?_⟩; rw [← hv]
                  simp [view, deref, simulate, applyScn, updFn, Ne.symm hji, hsi, hne, hne2, scnConsts, scnPts, mgrConsts, mgrPts]
                · refine ⟨hm, ?_⟩; rw [← hv]
                  simp [view, deref, simulate, updFn, Ne.symm hji, hsi, hne, hne2, scnConsts, scnPts, mgrConsts, mgrPts]
  | evalBase =>
      simp only [step, soloStep]
      refine ⟨hm, ?_⟩
      rw [← hv]
      simp only [view]
      cases hsi : st.scns i with
      | none => rfl
      | some si =>
          have h1 := hI.refLt i si hsi
          simp only [Option.map]
          congr 1
          apply deref_frame _ _ _ (hI.noShare _ _ (by assumption)) <;> simp only [updFn] <;> try (first | rfl | rw [if_neg (by omega)])
  | setup j =>
      simp only [step, soloStep]
      cases hs : st.scns j with
      | none =>
          simp only []
          by_cases hji : j = i
          · subst hji; rw [if_pos rfl]; refine ⟨hm, ?_⟩
            simp only [view, hs, Option.map] at hv
            simp [view, hs, ← hv]
          · rw [if_neg hji]; exact ⟨hm, hv⟩
      | some s =>
          simp only []
          have hns := hI.noShare j s hs
          by_cases hji : j = i
          · subst hji; rw [if_pos rfl]; refine ⟨hm, ?_⟩
            simp only [view, hs, Option.map] at hv
            simp [view, hs, ← hv, deref, setupScn, updFn, Solo.setup, scnConsts, scnPts, hns.1, hns.2]
          · rw [if_neg hji]; refine ⟨hm, ?_⟩
            rw [← hv]
            simp only [view, setupScn]
            cases hsi : st.scns i with
            | none => rfl
            | some si =>
                have h1 := hI.refInj i j si s hsi hs
                have h2 := hI.ptsOwn i si hsi; have h3 := hI.ptsOwn j s hs
                have hne : si.ref ≠ s.ref := fun h => hji (h1 h).symm
                simp only [Option.map]
                congr 1
                apply deref_frame _ _ _ (hI.noShare _ _ (by assumption)) <;> simp only [updFn] <;> try (first | rfl | rw [if_neg (by omega)])

theorem run_rel (c : Cfg) (hc : c.cloneOwnsPoints = true) (hmo : c.mergeOwnsDict = true) (hrr : c.reregFreshClone = true) (b : Base) (i : Nat) (ops : List Op) :
    ∀ (st : State) (ss : SoloSt), Inv b st → Rel st i ss →
      Inv b (ops.foldl (step c b) st) ∧ Rel (ops.foldl (step c b) st) i (ops.foldl (soloStep b i) ss) := by
  induction ops with
  | nil => intro st ss h1 h2; exact ⟨h1, h2⟩
  | cons op rest ih =>
      intro st ss h1 h2
      exact ih _ _ (inv_step c hc hmo hrr b st op h1) (rel_step c hc hmo hrr b st i ss op h1 h2)

theorem inv_run (c : Cfg) (hc : c.cloneOwnsPoints = true) (hmo : c.mergeOwnsDict = true) (hrr : c.reregFreshClone = true) (b : Base) (ops : List Op) :
    Inv b (exec c b ops) :=
  (run_rel c hc hmo hrr b 0 ops _ _ (inv_init b) (rel_init b 0)).1

/-- does the operation concern slot `i` (manager registrations concern every slot: base values apply
to every scenario of the manager) -/
def relevant (i : Nat) : Op → Bool
  | .regMgr _ _ _ => true
  | .add j _ _ => j == i
  | .run j => j == i
  | .configure j _ => j == i
  | .reset j => j == i
  | .step j _ _ => j == i
  | .evalBase => false
  | .setup j => j == i

theorem solo_irrelevant (b : Base) (i : Nat) (ss : SoloSt) (op : Op) (h : relevant i op = false) :
    soloStep b i ss op = ss := by
  cases op <;> simp_all [relevant, soloStep]

theorem solo_filter (b : Base) (i : Nat) (ops : List Op) : ∀ ss : SoloSt,
    ops.foldl (soloStep b i) ss = (ops.filter (relevant i)).foldl (soloStep b i) ss := by
  induction ops with
  | nil => intro ss; rfl
  | cons op rest ih =>
      intro ss
      cases h : relevant i op
      · simp [List.filter, h, solo_irrelevant b i ss op h, ih]
      · simp [List.filter, h, ih]

/-- the base model's memo cell: one generation per direct evaluation, each under the base model's own settings -/
theorem hm0_step (c : Cfg) (hrr : c.reregFreshClone = true) (b : Base) (st : State) (op : Op) (h : Inv b st) :
    (step c b st op).hm 0 = if isEvalBase op then st.hm 0 ++ [(b.eff, none)] else st.hm 0 := by
  have hnp := h.nextPos
  cases op with
  | regMgr m bc bp => simp only [step, isEvalBase]; split <;> rfl
  | add i m d =>
      simp only [step, isEvalBase, reuseOf, hrr, ↓reduceIte]; split
      · rfl
      · simp [updFn]; omega
  | run i =>
      simp only [step, isEvalBase]
      cases hs : st.scns i with
      | none => rfl
      | some s => have := h.refLt i s hs; simp [simulate, applyScn, updFn]; omega
  | configure i d =>
      simp only [step, isEvalBase]
      cases hs : st.scns i with
      | none => rfl
      | some s => simp only [configureScn]; split <;> rfl
  | reset i =>
      simp only [step, isEvalBase]
      cases hs : st.scns i with
      | none => rfl
      | some s => have := h.refLt i s hs; simp [updFn]; omega
  | step i d t =>
      simp only [step, isEvalBase]
      cases hs : st.scns i with
      | none => rfl
      | some s =>
          have := h.refLt i s hs
          have h0 : (0 : Nat) ≠ s.ref := by omega
          cases hl : s.live <;> simp [simulate, applyScn, updFn, h0, hl]
  | evalBase =>
      simp [step, isEvalBase, updFn, baseEff, Base.eff, h.basePts, h.baseEqs, h.baseEl]
  | setup i =>
      simp only [step, isEvalBase]
      cases hs : st.scns i with
      | none => rfl
      | some s => rfl

theorem run_base (c : Cfg) (hc : c.cloneOwnsPoints = true) (hmo : c.mergeOwnsDict = true) (hrr : c.reregFreshClone = true) (b : Base) (ops : List Op) :
    ∀ (st : State), Inv b st →
      (ops.foldl (step c b) st).hm 0 = st.hm 0 ++ (ops.filter isEvalBase).map (fun _ => (b.eff, none)) := by
  induction ops with
  | nil => intro st _; simp
  | cons op rest ih =>
      intro st h
      rw [List.foldl_cons, ih _ (inv_step c hc hmo hrr b st op h), hm0_step c hrr b st op h]
      cases hop : isEvalBase op <;> simp [List.filter, hop]

/-! ### The property -/

/-- C06 at full strength: for every base model and every history of register / add / run / configure
(session or REST settings) / reset-cache / step / base-evaluation operations over any number of
managers and scenarios, (1) every scenario slot looks — scenario-level settings, the settings a
simulation of it reads through the heap, memo content — exactly like that scenario alone on a model
freshly built from the base model's own settings after the operations addressed to it (and the
registrations of managers); (2) the base model looks as if no scenario had ever been registered. -/
def C06_full (c : Cfg) : Prop :=
  ∀ (b : Base) (ops : List Op),
    (∀ i, view (exec c b ops) i = (soloExec b i (ops.filter (relevant i))).s) ∧
    baseView b (exec c b ops) = baseAlone b ops

theorem C06_full_of_good (c : Cfg) (hc : c.cloneOwnsPoints = true) (hmo : c.mergeOwnsDict = true) (hrr : c.reregFreshClone = true) : C06_full c := by
  intro b ops
  constructor
  · intro i
    have h := (run_rel c hc hmo hrr b i ops _ _ (inv_init b) (rel_init b i)).2.scn
    rw [soloExec, ← solo_filter]
    exact h
  · have hI := inv_run c hc hmo hrr b ops
    have hm := run_base c hc hmo hrr b ops _ (inv_init b)
    simp only [baseView, baseAlone, baseEff, Base.eff]
    rw [show (exec c b ops).hm 0 = _ from hm]
    simp [hI.basePts, hI.baseEqs, hI.baseEl, State.init, Base.eff]

/-- Results are a function of what a read sees, so they agree as well — whatever the numeric
simulation `Sim` is. -/
theorem C06_results {R : Type} (Sim : Solo → R) (c : Cfg) (hc : c.cloneOwnsPoints = true)
    (hmo : c.mergeOwnsDict = true) (hrr : c.reregFreshClone = true) (b : Base)
    (ops : List Op) (i : Nat) :
    (view (exec c b ops) i).map Sim = ((soloExec b i (ops.filter (relevant i))).s).map Sim := by
  rw [(C06_full_of_good c hc hmo hrr b ops).1 i]

/-- What holds whatever `_elements` sharing is: no operation of the alphabet writes an arrayed-element
table, so sharing it between clones does not break isolation. -/
theorem C06_partial (c : Cfg) (hc : c.cloneOwnsPoints = true) (hmo : c.mergeOwnsDict = true) (hrr : c.reregFreshClone = true) :
    C06_full { c with cloneOwnsElements := false } ∧ C06_full { c with cloneOwnsElements := true } :=
  ⟨C06_full_of_good _ hc hmo hrr, C06_full_of_good _ hc hmo hrr⟩

def witnessBase : Base := { pts := [(0, 1)], rs := { start := 0, stop := 4, dt := 1 }, elems := 9 }
def noDict : Dict := { consts := [], pts := [], start := none, stop := none, dt := none }
/-- register a manager, add scenarios 0 and 1 without own points, step scenario 0 with step settings
`points {0: 7}`, run scenario 1. -/
def witnessOps : List Op :=
  [.regMgr 0 [] [], .add 0 0 noDict, .add 1 0 noDict, .step 0 { noDict with pts := [(0, 7)] } 0, .run 1]

/-- Negation witness for the shared points dictionary: scenario 1's run reads points 7 for name 0
although nothing was ever set on scenario 1 (and the base model reads 7 as well). -/
theorem C06_witness_shared_points (c : Cfg) (hc : c.cloneOwnsPoints = false) : ¬ C06_full c := by
  intro h
  have h1 := (h witnessBase witnessOps).1 1
  obtain ⟨p, e, m, rr, sa⟩ := c
  simp only at hc; subst hc
  revert h1
  cases e <;> cases m <;> cases rr <;> cases sa <;> decide

theorem C06_witness_base (c : Cfg) (hc : c.cloneOwnsPoints = false) :
    baseView witnessBase (exec c witnessBase witnessOps) ≠ baseAlone witnessBase witnessOps := by
  obtain ⟨p, e, m, rr, sa⟩ := c
  simp only at hc; subst hc
  cases e <;> cases m <;> cases rr <;> cases sa <;> decide

/-- register a manager WITH base constants, add scenarios 0 and 1 without own constants, re-parameterise
scenario 0 (session / REST settings), run scenario 1. -/
def witnessMergeOps : List Op :=
  [.regMgr 0 [(5, 50)] [], .add 0 0 noDict, .add 1 0 noDict, .configure 0 { noDict with consts := [(5, 51)] }, .run 1]

/-- same, but scenario 1 is registered only AFTER scenario 0 was re-parameterised. -/
def witnessLateOps : List Op :=
  [.regMgr 0 [(5, 50)] [(1, 11)], .add 0 0 noDict, .configure 0 { noDict with consts := [(5, 51)], pts := [(1, 12)] },
   .add 1 0 noDict]

/-- Negation witness for the shared base dictionary (`mergeOwnsDict = false`): scenario 1 runs with constant
5 ↦ 51 although only scenario 0 was re-parameterised — whatever the two clone facts are. -/
theorem C06_witness_shared_base_dict (c : Cfg) (hm : c.mergeOwnsDict = false) : ¬ C06_full c := by
  intro h
  have h1 := (h witnessBase witnessMergeOps).1 1
  obtain ⟨p, e, m, rr, sa⟩ := c
  simp only at hm; subst hm
  revert h1
  cases p <;> cases e <;> cases rr <;> cases sa <;> decide

/-- the same mechanism reaches scenarios registered later: their merge reads the manager's (rewritten) base
dictionaries, constants and points alike. -/
theorem C06_witness_late_registration (c : Cfg) (hm : c.mergeOwnsDict = false) :
    view (exec c witnessBase witnessLateOps) 1 ≠ (soloExec witnessBase 1 (witnessLateOps.filter (relevant 1))).s := by
  obtain ⟨p, e, m, rr, sa⟩ := c
  simp only at hm; subst hm
  cases p <;> cases e <;> cases rr <;> cases sa <;> decide

/-- register scenario 0 WITH an own constant and own points, run it, register the same name again WITHOUT them, run. -/
def witnessReregOps : List Op :=
  [.regMgr 0 [] [], .add 0 0 { noDict with consts := [(5, 51)], pts := [(0, 7)], stop := some 9 }, .run 0, .add 0 0 noDict, .run 0]

/-- Negation witness for the reused clone (`reregFreshClone = false`), whatever the other facts are: after the
re-registration that lists nothing, scenario 0 still runs with constant 5 ↦ 51 (and, with own points tables, with
graphical function 0 ↦ 7 and stop time 9): the previous clone was handed over after `reset_cache()` only. -/
theorem C06_witness_reused_clone (c : Cfg) (h : c.reregFreshClone = false) : ¬ C06_full c := by
  intro hf
  have h1 := (hf witnessBase witnessReregOps).1 0
  obtain ⟨p, e, m, rr, sa⟩ := c
  simp only at h; subst h
  revert h1
  cases p <;> cases e <;> cases m <;> cases sa <;> decide

/-- Re-registration under the same name is an operation of the theorem: with the good facts the view of a slot
after `add i …` twice (with anything in between) is that of the LAST registration alone on a freshly built model —
nothing of the earlier incarnation survives.  (Instance of `C06_full_of_good`, stated for the record on a history
shape.) -/
theorem C06_reregistration (c : Cfg) (hc : c.cloneOwnsPoints = true) (hmo : c.mergeOwnsDict = true)
    (hrr : c.reregFreshClone = true) (b : Base) (pre mid post : List Op) (i m m' : Nat) (d d' : Dict) :
    view (exec c b (pre ++ [Op.add i m d] ++ mid ++ [Op.add i m' d'] ++ post)) i =
    (soloExec b i ((pre ++ [Op.add i m d] ++ mid ++ [Op.add i m' d'] ++ post).filter (relevant i))).s :=
  (C06_full_of_good c hc hmo hrr b _).1 i

/-! ### Calls: sessions address (manager, scenario) pairs -/

/-- C06 over API calls: a history of calls (plain operations and `begin_session` over several managers with settings per
(manager, scenario)) is executed as the code lowers it; every slot must look like the scenario alone after what the calls
ADDRESS to it (`intent`), the base model as if nothing had been registered. -/
def C06_calls (c : Cfg) : Prop :=
  ∀ (b : Base) (calls : List Call),
    (∀ i, view (exec c b (calls.flatMap (lower c))) i = (soloExec b i ((calls.flatMap intent).filter (relevant i))).s) ∧
    baseView b (exec c b (calls.flatMap (lower c))) = baseAlone b (calls.flatMap intent)

theorem lower_eq_intent (c : Cfg) (hs : c.sessionAddressesPair = true) (x : Call) : lower c x = intent x := by
  cases x <;> simp [lower, intent, hs]

theorem C06_calls_of_good (c : Cfg) (hc : c.cloneOwnsPoints = true) (hmo : c.mergeOwnsDict = true)
    (hrr : c.reregFreshClone = true) (hs : c.sessionAddressesPair = true) : C06_calls c := by
  intro b calls
  have : calls.flatMap (lower c) = calls.flatMap intent := by
    induction calls with
    | nil => rfl
    | cons x rest ih => simp only [List.flatMap_cons, ih, lower_eq_intent c hs]
  rw [this]
  exact C06_full_of_good c hc hmo hrr b _

/-- two managers that each own a scenario of the same name (slots 0 and 3, three names per manager); ONE session over
both, settings given under the first manager only; then the other manager's scenario runs. -/
def witnessSessionCalls : List Call :=
  [.op (.regMgr 0 [] []), .op (.regMgr 1 [] []), .op (.add 0 0 noDict), .op (.add 3 1 noDict),
   .session 3 [0, 3] [(0, { noDict with consts := [(5, 51)] })], .op (.run 3)]

/-- Negation witness for name-only addressing of session settings (`sessionAddressesPair = false`), whatever the other
facts are: the scenario of the OTHER manager with the same name is configured with constant 5 ↦ 51 and runs with it;
the setting is stored in the scenario object, so it outlives the session. -/
theorem C06_witness_session_by_name (c : Cfg) (h : c.sessionAddressesPair = false) : ¬ C06_calls c := by
  intro hf
  have h1 := (hf witnessBase witnessSessionCalls).1 3
  obtain ⟨p, e, m, rr, sa⟩ := c
  simp only at h; subst h
  revert h1
  cases p <;> cases e <;> cases m <;> cases rr <;> decide

/-! ### Wave 2 — what holds under the defective mechanisms

`Lock`: two runs of the machine on the same history under configurations that differ only in
`cloneOwnsPoints` stay in lockstep on everything except the points cells (`hp`, `ptsRef`, the `pts` component of
memo generations).  Hence (a) everything but the points table is isolated even under an aliased points table
(`C06_partial_consts`), and (b) on histories in which no operation carries points the aliased machine is
indistinguishable from the good one (`PF` invariant: every reachable points cell still holds the base model's
table), hence fully isolated (`C06_partial_nopoints`). -/

theorem Store.update_nil (s : Store) : Store.update s [] = s := rfl

theorem updFn_self {α : Type} (f : Nat → α) (k : Nat) : updFn f k (f k) = f := by
  funext x; simp only [updFn]; split
  · subst_vars; rfl
  · rfl

def Eff.noPts (e : Eff) : Eff := { e with pts := [] }
def eraseEntry (e : MemoEntry) : MemoEntry := (e.1.noPts, e.2)
/-- a view without what depends on the points table -/
def Solo.erase (s : Solo) : Solo := { s with mpts := [], memo := s.memo.map eraseEntry }
def BaseView.erase (v : BaseView) : BaseView := { eff := v.eff.noPts, memo := v.memo.map eraseEntry }
def Scn.noP (s : Scn) : Scn := { s with ptsRef := 0 }

structure Lock (st st' : State) : Prop where
  mgrs : st.mgrs = st'.mgrs
  next : st.next = st'.next
  he : st.he = st'.he
  hel : st.hel = st'.hel
  scns : ∀ i, (st.scns i).map Scn.noP = (st'.scns i).map Scn.noP
  hm : ∀ r, (st.hm r).map eraseEntry = (st'.hm r).map eraseEntry

theorem lock_refl (st : State) : Lock st st := ⟨rfl, rfl, rfl, rfl, fun _ => rfl, fun _ => rfl⟩

theorem noP_cases (a a' : Option Scn) (h : a.map Scn.noP = a'.map Scn.noP) :
    (a = none ∧ a' = none) ∨ ∃ s p', a = some s ∧ a' = some { s with ptsRef := p' } := by
  cases a with
  | none =>
      cases a' with
      | none => exact Or.inl ⟨rfl, rfl⟩
      | some s' => simp at h
  | some s =>
      cases a' with
      | none => simp at h
      | some s' =>
          refine Or.inr ⟨s, s'.ptsRef, rfl, ?_⟩
          cases s; cases s'
          simp [Scn.noP] at h
          simp [h]

theorem lock_step (c c' : Cfg) (h1 : c.cloneOwnsElements = c'.cloneOwnsElements)
    (h2 : c.mergeOwnsDict = c'.mergeOwnsDict) (hrr : c.reregFreshClone = true) (hrr' : c'.reregFreshClone = true) (b : Base) (st st' : State) (op : Op) (hL : Lock st st') :
    Lock (step c b st op) (step c' b st' op) := by
  obtain ⟨mgrs, scns, hp, he, hm, hel, next⟩ := st
  obtain ⟨mgrs', scns', hp', he', hm', hel', next'⟩ := st'
  obtain ⟨e1, e2, e3, e4, hS, hM⟩ := hL
  simp only at e1 e2 e3 e4 hS hM
  subst e1 e2 e3 e4
  cases op with
  | regMgr m bc bp =>
      simp only [step]
      cases mgrs m <;> exact ⟨rfl, rfl, rfl, rfl, hS, hM⟩
  | add i m d =>
      simp only [step, reuseOf, hrr, hrr', ↓reduceIte]
      cases hmm : mgrs m with
      | none => exact ⟨rfl, rfl, rfl, rfl, hS, hM⟩
      | some p =>
          obtain ⟨bc, bp⟩ := p
          refine ⟨rfl, rfl, rfl, rfl, ?_, ?_⟩
          · intro k; simp only [updFn]; split
            · simp [Scn.noP, h1, h2]
            · exact hS k
          · intro r; simp only [updFn]; split
            · rfl
            · exact hM r
  | run i =>
      rcases noP_cases _ _ (hS i) with ⟨h, h'⟩ | ⟨s, p', h, h'⟩
      · simp only [step, h, h']; exact ⟨rfl, rfl, rfl, rfl, hS, hM⟩
      · simp only [step, h, h', applyScn, simulate]
        refine ⟨rfl, rfl, ?_, rfl, ?_, ?_⟩
        · simp [scnConsts, mgrConsts]
        · intro k; simp only [updFn]; split
          · simp [Scn.noP]
          · exact hS k
        · intro r; simp only [updFn]; split
          · simp [hM, eraseEntry, Eff.noPts, effOf, scnConsts, mgrConsts, updFn]
          · exact hM r
  | configure i d =>
      rcases noP_cases _ _ (hS i) with ⟨h, h'⟩ | ⟨s, p', h, h'⟩
      · simp only [step, h, h']; exact ⟨rfl, rfl, rfl, rfl, hS, hM⟩
      · simp only [step, h, h', configureScn]
        split
        · refine ⟨rfl, rfl, rfl, rfl, ?_, hM⟩
          intro k; simp only [updFn]; split
          · simp [Scn.noP]
          · exact hS k
        · refine ⟨rfl, rfl, rfl, rfl, ?_, hM⟩
          intro k; simp only [updFn]; split
          · simp [Scn.noP]
          · exact hS k
  | reset i =>
      rcases noP_cases _ _ (hS i) with ⟨h, h'⟩ | ⟨s, p', h, h'⟩
      · simp only [step, h, h']; exact ⟨rfl, rfl, rfl, rfl, hS, hM⟩
      · simp only [step, h, h']
        refine ⟨rfl, rfl, rfl, rfl, ?_, ?_⟩
        · intro k; simp only [updFn]; split
          · simp [Scn.noP]
          · exact hS k
        · intro r; simp only [updFn]; split
          · rfl
          · exact hM r
  | step i d t =>
      rcases noP_cases _ _ (hS i) with ⟨h, h'⟩ | ⟨s, p', h, h'⟩
      · simp only [step, h, h']; exact ⟨rfl, rfl, rfl, rfl, hS, hM⟩
      · simp only [step, h, h']
        cases hl : s.live
        · simp only [applyScn, simulate, Bool.false_eq_true, if_false]
          refine ⟨rfl, rfl, ?_, rfl, ?_, ?_⟩
          · simp [scnConsts, mgrConsts]
          · intro k; simp only [updFn]; split
            · simp [Scn.noP]
            · exact hS k
          · intro r; simp only [updFn]; split
            · simp [hM, eraseEntry, Eff.noPts, effOf, scnConsts, mgrConsts, updFn]
            · exact hM r
        · simp only [simulate, if_true]
          refine ⟨rfl, rfl, rfl, rfl, ?_, ?_⟩
          · intro k; simp only [updFn]; split
            · simp [Scn.noP]
            · exact hS k
          · intro r; simp only [updFn]; split
            · simp [hM, eraseEntry, Eff.noPts, effOf, updFn]
            · exact hM r
  | evalBase =>
      simp only [step]
      refine ⟨rfl, rfl, rfl, rfl, hS, ?_⟩
      intro r; simp only [updFn]; split
      · simp [hM, eraseEntry, Eff.noPts, baseEff]
      · exact hM r
  | setup i =>
      rcases noP_cases _ _ (hS i) with ⟨h, h'⟩ | ⟨s, p', h, h'⟩
      · simp only [step, h, h']; exact ⟨rfl, rfl, rfl, rfl, hS, hM⟩
      · simp only [step, h, h', setupScn]
        refine ⟨rfl, rfl, ?_, rfl, hS, hM⟩
        simp [scnConsts, mgrConsts]

theorem lock_run (c c' : Cfg) (h1 : c.cloneOwnsElements = c'.cloneOwnsElements)
    (h2 : c.mergeOwnsDict = c'.mergeOwnsDict) (hrr : c.reregFreshClone = true) (hrr' : c'.reregFreshClone = true) (b : Base) (ops : List Op) :
    ∀ st st', Lock st st' → Lock (ops.foldl (step c b) st) (ops.foldl (step c' b) st') := by
  induction ops with
  | nil => intro st st' h; exact h
  | cons op rest ih => intro st st' h; exact ih _ _ (lock_step c c' h1 h2 hrr hrr' b st st' op h)

/-- in lockstep, the two machines show the same view of every slot up to the points table -/
theorem view_erase_of_lock (st st' : State) (i : Nat) (hL : Lock st st') :
    (view st i).map Solo.erase = (view st' i).map Solo.erase := by
  obtain ⟨e1, e2, e3, e4, hS, hM⟩ := hL
  rcases noP_cases _ _ (hS i) with ⟨h, h'⟩ | ⟨s, p', h, h'⟩
  · simp [view, h, h']
  · simp [view, h, h', deref, Solo.erase, scnConsts, scnPts, mgrConsts, mgrPts, e1, e3, e4, hM]

theorem base_erase_of_lock (b : Base) (st st' : State) (hL : Lock st st') :
    (baseView b st).erase = (baseView b st').erase := by
  obtain ⟨e1, e2, e3, e4, hS, hM⟩ := hL
  simp [baseView, BaseView.erase, baseEff, Eff.noPts, e3, e4, hM]

/-- **`C06_partial` of the design, constants half** — whatever `get_cloned_model` does with the points table
(aliased or copied): for every base model, every history and every slot, everything a view holds except the
points table — scenario-level constants / points / run specs, the clone's equation overrides (`change_equation`
rebinds per-clone `equations`), its run specs, live flag, and every memo generation up to its points component —
equals that of the scenario alone; same for the base model. -/
theorem C06_partial_consts (c : Cfg) (hmo : c.mergeOwnsDict = true) (hrr : c.reregFreshClone = true) (b : Base) (ops : List Op) :
    (∀ i, (view (exec c b ops) i).map Solo.erase = ((soloExec b i (ops.filter (relevant i))).s).map Solo.erase) ∧
    (baseView b (exec c b ops)).erase = (baseAlone b ops).erase := by
  have hL := lock_run c { c with cloneOwnsPoints := true } rfl rfl hrr hrr b ops _ _ (lock_refl (State.init b))
  have hG := C06_full_of_good { c with cloneOwnsPoints := true } rfl hmo hrr b ops
  constructor
  · intro i
    rw [← hG.1 i]
    exact view_erase_of_lock _ _ i hL
  · rw [← hG.2]
    exact base_erase_of_lock b _ _ hL

/-- an operation that carries no graphical-function points -/
def ptsFree : Op → Bool
  | .regMgr _ _ bp => bp.isEmpty
  | .add _ _ d => d.pts.isEmpty
  | .configure _ d => d.pts.isEmpty
  | .step _ d _ => d.pts.isEmpty
  | _ => true

/-- on points-free histories every reachable points cell holds the base model's table -/
structure PF (b : Base) (st : State) : Prop where
  base : st.hp 0 = b.pts
  mgr : ∀ m p, st.mgrs m = some p → p.2 = []
  scn : ∀ i s, st.scns i = some s → st.hp s.ptsRef = b.pts ∧ s.pts = [] ∧ s.cShared = false ∧ s.pShared = false
  memo : ∀ r e, e ∈ st.hm r → e.1.pts = b.pts

theorem pf_init (b : Base) : PF b (State.init b) := by
  constructor <;> simp [State.init]

theorem pf_step (c : Cfg) (hmo : c.mergeOwnsDict = true) (hrr : c.reregFreshClone = true) (b : Base) (st : State) (op : Op)
    (hop : ptsFree op = true) (h : PF b st) : PF b (step c b st op) := by
  obtain ⟨hb, hmg, hsc, hme⟩ := h
  cases op with
  | regMgr m bc bp =>
      simp only [ptsFree, List.isEmpty_iff] at hop
      subst hop
      simp only [step]
      cases hmm : st.mgrs m with
      | some _ => exact ⟨hb, hmg, hsc, hme⟩
      | none =>
          refine ⟨hb, ?_, hsc, hme⟩
          intro m' p hp
          simp only [updFn] at hp
          split at hp
          · cases hp; rfl
          · exact hmg m' p hp
  | add i m d =>
      simp only [ptsFree, List.isEmpty_iff] at hop
      simp only [step, reuseOf, hrr, ↓reduceIte]
      cases hmm : st.mgrs m with
      | none => exact ⟨hb, hmg, hsc, hme⟩
      | some p =>
          obtain ⟨bc, bp⟩ := p
          have hbp : bp = [] := hmg m _ hmm
          subst hbp
          have hfill : Store.fill d.pts [] = [] := by rw [hop]; rfl
          simp only [hfill, List.isEmpty_nil, if_true, hmo]
          refine ⟨?_, hmg, ?_, ?_⟩
          · simp only [updFn]; split
            · exact hb
            · exact hb
          · intro k s hk
            simp only [updFn] at hk
            split at hk
            · cases hk
              refine ⟨?_, rfl, by simp, by simp⟩
              cases c.cloneOwnsPoints <;> simp [updFn, hb]
            · obtain ⟨h1, h2, h3, h4⟩ := hsc k s hk
              refine ⟨?_, h2, h3, h4⟩
              simp only [updFn]; split
              · exact hb
              · exact h1
          · intro r e he
            simp only [updFn] at he
            split at he
            · simp at he
            · exact hme r e he
  | run i =>
      simp only [step]
      cases hs : st.scns i with
      | none => exact ⟨hb, hmg, hsc, hme⟩
      | some s =>
          obtain ⟨h1, h2, h3, h4⟩ := hsc i s hs
          have hp : scnPts st s = [] := by simp [scnPts, h4, h2]
          simp only [applyScn, simulate, hp, Store.update_nil, updFn_self]
          refine ⟨hb, hmg, ?_, ?_⟩
          · intro k s' hk
            simp only [updFn] at hk
            split at hk
            · cases hk; exact ⟨h1, h2, h3, h4⟩
            · exact hsc k s' hk
          · intro r e he
            simp only [updFn] at he
            split at he
            · rcases List.mem_append.mp he with he | he
              · exact hme _ e he
              · simp only [List.mem_singleton] at he; subst he; simpa [effOf] using h1
            · exact hme r e he
  | configure i d =>
      simp only [ptsFree, List.isEmpty_iff] at hop
      simp only [step]
      cases hs : st.scns i with
      | none => exact ⟨hb, hmg, hsc, hme⟩
      | some s =>
          obtain ⟨h1, h2, h3, h4⟩ := hsc i s hs
          simp only [configureScn, h3, h4, Bool.or_self, Bool.false_eq_true, if_false, hop, h2, Store.update_nil]
          refine ⟨hb, hmg, ?_, hme⟩
          intro k s' hk
          simp only [updFn] at hk
          split at hk
          · cases hk; exact ⟨h1, rfl, rfl, rfl⟩
          · exact hsc k s' hk
  | reset i =>
      simp only [step]
      cases hs : st.scns i with
      | none => exact ⟨hb, hmg, hsc, hme⟩
      | some s =>
          obtain ⟨h1, h2, h3, h4⟩ := hsc i s hs
          refine ⟨hb, hmg, ?_, ?_⟩
          · intro k s' hk
            simp only [updFn] at hk
            split at hk
            · cases hk; exact ⟨h1, h2, h3, h4⟩
            · exact hsc k s' hk
          · intro r e he
            simp only [updFn] at he
            split at he
            · simp at he
            · exact hme r e he
  | step i d t =>
      simp only [ptsFree, List.isEmpty_iff] at hop
      simp only [step]
      cases hs : st.scns i with
      | none => exact ⟨hb, hmg, hsc, hme⟩
      | some s =>
          obtain ⟨h1, h2, h3, h4⟩ := hsc i s hs
          have hp : scnPts st s = [] := by simp [scnPts, h4, h2]
          cases hl : s.live
          · simp only [hl, applyScn, simulate, hp, hop, Store.update_nil, updFn_self, Bool.false_eq_true, if_false]
            refine ⟨hb, hmg, ?_, ?_⟩
            · intro k s' hk
              simp only [updFn] at hk
              split at hk
              · cases hk; exact ⟨h1, h2, h3, h4⟩
              · exact hsc k s' hk
            · intro r e he
              simp only [updFn] at he
              split at he
              · rcases List.mem_append.mp he with he | he
                · exact hme _ e he
                · simp only [List.mem_singleton] at he; subst he; simpa [effOf] using h1
              · exact hme r e he
          · simp only [hl, simulate, hop, Store.update_nil, updFn_self, if_true]
            refine ⟨hb, hmg, ?_, ?_⟩
            · intro k s' hk
              simp only [updFn] at hk
              split at hk
              · cases hk; exact ⟨h1, h2, h3, h4⟩
              · exact hsc k s' hk
            · intro r e he
              simp only [updFn] at he
              split at he
              · rcases List.mem_append.mp he with he | he
                · exact hme _ e he
                · simp only [List.mem_singleton] at he; subst he; simpa [effOf] using h1
              · exact hme r e he
  | evalBase =>
      simp only [step]
      refine ⟨hb, hmg, hsc, ?_⟩
      intro r e he
      simp only [updFn] at he
      split at he
      · rcases List.mem_append.mp he with he | he
        · exact hme _ e he
        · simp only [List.mem_singleton] at he; subst he; simpa [baseEff] using hb
      · exact hme r e he
  | setup i =>
      simp only [step]
      cases hs : st.scns i with
      | none => exact ⟨hb, hmg, hsc, hme⟩
      | some s =>
          obtain ⟨h1, h2, h3, h4⟩ := hsc i s hs
          have hp : scnPts st s = [] := by simp [scnPts, h4, h2]
          simp only [setupScn, hp, Store.update_nil, updFn_self]
          exact ⟨hb, hmg, hsc, hme⟩

theorem pf_run (c : Cfg) (hmo : c.mergeOwnsDict = true) (hrr : c.reregFreshClone = true) (b : Base) (ops : List Op)
    (hpf : ∀ op ∈ ops, ptsFree op = true) : ∀ st, PF b st → PF b (ops.foldl (step c b) st) := by
  induction ops with
  | nil => intro st h; exact h
  | cons op rest ih =>
      intro st h
      exact ih (fun o ho => hpf o (List.mem_cons_of_mem _ ho)) _
        (pf_step c hmo hrr b st op (hpf op List.mem_cons_self) h)

theorem erase_inj (p : Store) : ∀ (l l' : List MemoEntry), l.map eraseEntry = l'.map eraseEntry →
    (∀ e ∈ l, e.1.pts = p) → (∀ e ∈ l', e.1.pts = p) → l = l' := by
  intro l
  induction l with
  | nil => intro l' h _ _; cases l' with
    | nil => rfl
    | cons a t => simp at h
  | cons a t ih =>
      intro l' h h1 h2
      cases l' with
      | nil => simp at h
      | cons a' t' =>
          simp only [List.map_cons, List.cons.injEq] at h
          have ha : a = a' := by
            have e1 := h1 a List.mem_cons_self
            have e2 := h2 a' List.mem_cons_self
            obtain ⟨⟨q1, q2, q3, q4⟩, q5⟩ := a
            obtain ⟨⟨r1, r2, r3, r4⟩, r5⟩ := a'
            simp [eraseEntry, Eff.noPts] at h
            simp only at e1 e2
            simp [h.1, e1, e2]
          rw [ha, ih t' h.2 (fun e he => h1 e (List.mem_cons_of_mem _ he)) (fun e he => h2 e (List.mem_cons_of_mem _ he))]

theorem view_of_lock_pf (b : Base) (st st' : State) (i : Nat) (hL : Lock st st') (h : PF b st) (h' : PF b st') :
    view st i = view st' i := by
  obtain ⟨e1, e2, e3, e4, hS, hM⟩ := hL
  rcases noP_cases _ _ (hS i) with ⟨hn, hn'⟩ | ⟨s, p', hs, hs'⟩
  · simp [view, hn, hn']
  · have q := (h.scn i s hs).1
    have q' := (h'.scn i _ hs').1
    simp only at q'
    have hmemo : st.hm s.ref = st'.hm s.ref :=
      erase_inj b.pts _ _ (hM s.ref) (h.memo s.ref) (h'.memo s.ref)
    simp [view, hs, hs', deref, scnConsts, scnPts, mgrConsts, mgrPts, e1, e3, e4, q, q', hmemo]

/-- **`C06_partial` of the design, points half** — under an ALIASED points table (`cloneOwnsPoints` arbitrary,
in particular false): on every history in which no operation carries points (no base points, no scenario points,
no points in session / REST / step settings) the full isolation statement holds — every slot looks exactly like
the scenario alone, the base model as if no scenario had been registered. -/
theorem C06_partial_nopoints (c : Cfg) (hmo : c.mergeOwnsDict = true) (hrr : c.reregFreshClone = true) (b : Base) (ops : List Op)
    (hpf : ∀ op ∈ ops, ptsFree op = true) :
    (∀ i, view (exec c b ops) i = (soloExec b i (ops.filter (relevant i))).s) ∧
    baseView b (exec c b ops) = baseAlone b ops := by
  have hL := lock_run c { c with cloneOwnsPoints := true } rfl rfl hrr hrr b ops _ _ (lock_refl (State.init b))
  have hP := pf_run c hmo hrr b ops hpf _ (pf_init b)
  have hP' := pf_run { c with cloneOwnsPoints := true } hmo hrr b ops hpf _ (pf_init b)
  have hG := C06_full_of_good { c with cloneOwnsPoints := true } rfl hmo hrr b ops
  constructor
  · intro i
    rw [← hG.1 i]
    exact view_of_lock_pf b _ _ i hL hP hP'
  · rw [← hG.2]
    have hm0 := erase_inj b.pts _ _ (hL.hm 0) (hP.memo 0) (hP'.memo 0)
    simp only [baseView, baseEff, exec]
    rw [hm0, hL.he, hL.hel, hP.base, hP'.base]

/-- a manager registration without base constants and base points -/
def baseFree : Op → Bool
  | .regMgr _ bc bp => bc.isEmpty && bp.isEmpty
  | _ => true

structure NB (st : State) : Prop where
  mgr : ∀ m p, st.mgrs m = some p → p = ([], [])
  scn : ∀ i s, st.scns i = some s → s.cShared = false ∧ s.pShared = false

theorem nb_step (c : Cfg) (hrr : c.reregFreshClone = true) (b : Base) (st : State) (op : Op) (hop : baseFree op = true) (h : NB st) :
    NB (step c b st op) ∧ step c b st op = step { c with mergeOwnsDict := true } b st op := by
  obtain ⟨hmg, hsc⟩ := h
  cases op with
  | regMgr m bc bp =>
      simp only [baseFree, Bool.and_eq_true, List.isEmpty_iff] at hop
      obtain ⟨rfl, rfl⟩ := hop
      refine ⟨?_, rfl⟩
      simp only [step]
      cases hmm : st.mgrs m with
      | some _ => exact ⟨hmg, hsc⟩
      | none =>
          refine ⟨?_, hsc⟩
          intro m' p hp
          simp only [updFn] at hp
          split at hp
          · cases hp; rfl
          · exact hmg m' p hp
  | add i m d =>
      simp only [step, reuseOf, hrr, ↓reduceIte]
      cases hmm : st.mgrs m with
      | none => exact ⟨⟨hmg, hsc⟩, rfl⟩
      | some p =>
          have hp := hmg m p hmm
          subst hp
          simp only [List.isEmpty_nil, Bool.not_true, Bool.and_false]
          refine ⟨⟨hmg, ?_⟩, trivial⟩
          intro k s hk
          simp only [updFn] at hk
          split at hk
          · cases hk; exact ⟨rfl, rfl⟩
          · exact hsc k s hk
  | run i =>
      refine ⟨?_, rfl⟩
      simp only [step]
      cases hs : st.scns i with
      | none => exact ⟨hmg, hsc⟩
      | some s =>
          refine ⟨hmg, ?_⟩
          intro k s' hk
          simp only [simulate, applyScn, updFn] at hk
          split at hk
          · cases hk; exact hsc i s hs
          · exact hsc k s' hk
  | configure i d =>
      refine ⟨?_, rfl⟩
      simp only [step]
      cases hs : st.scns i with
      | none => exact ⟨hmg, hsc⟩
      | some s =>
          obtain ⟨h3, h4⟩ := hsc i s hs
          simp only [configureScn, h3, h4, Bool.or_self, Bool.false_eq_true, if_false]
          refine ⟨hmg, ?_⟩
          intro k s' hk
          simp only [updFn] at hk
          split at hk
          · cases hk; exact ⟨rfl, rfl⟩
          · exact hsc k s' hk
  | reset i =>
      refine ⟨?_, rfl⟩
      simp only [step]
      cases hs : st.scns i with
      | none => exact ⟨hmg, hsc⟩
      | some s =>
          refine ⟨hmg, ?_⟩
          intro k s' hk
          simp only [updFn] at hk
          split at hk
          · cases hk; exact hsc i s hs
          · exact hsc k s' hk
  | step i d t =>
      refine ⟨?_, rfl⟩
      simp only [step]
      cases hs : st.scns i with
      | none => exact ⟨hmg, hsc⟩
      | some s =>
          cases hl : s.live
          · simp only [hl, Bool.false_eq_true, if_false, applyScn, simulate]
            refine ⟨hmg, ?_⟩
            intro k s' hk
            simp only [updFn] at hk
            split at hk
            · cases hk; exact hsc i s hs
            · exact hsc k s' hk
          · simp only [hl, if_true, simulate]
            refine ⟨hmg, ?_⟩
            intro k s' hk
            simp only [updFn] at hk
            split at hk
            · cases hk; exact hsc i s hs
            · exact hsc k s' hk
  | evalBase => exact ⟨⟨hmg, hsc⟩, rfl⟩
  | setup i =>
      refine ⟨?_, rfl⟩
      simp only [step]
      cases hs : st.scns i with
      | none => exact ⟨hmg, hsc⟩
      | some s => exact ⟨hmg, hsc⟩

theorem nb_run (c : Cfg) (hrr : c.reregFreshClone = true) (b : Base) (ops : List Op) (hnb : ∀ op ∈ ops, baseFree op = true) :
    ∀ st, NB st → ops.foldl (step c b) st = ops.foldl (step { c with mergeOwnsDict := true } b) st := by
  induction ops with
  | nil => intro st _; rfl
  | cons op rest ih =>
      intro st h
      have hs := nb_step c hrr b st op (hnb op List.mem_cons_self) h
      rw [List.foldl_cons, List.foldl_cons, ← hs.2]
      exact ih (fun o ho => hnb o (List.mem_cons_of_mem _ ho)) _ hs.1

/-- What holds whatever the merge of base values does (`mergeOwnsDict` arbitrary): on histories whose managers
carry no base constants / base points nothing is ever shared, and the full isolation statement holds. -/
theorem C06_partial_nobase (c : Cfg) (hc : c.cloneOwnsPoints = true) (hrr : c.reregFreshClone = true) (b : Base) (ops : List Op)
    (hnb : ∀ op ∈ ops, baseFree op = true) :
    (∀ i, view (exec c b ops) i = (soloExec b i (ops.filter (relevant i))).s) ∧
    baseView b (exec c b ops) = baseAlone b ops := by
  have he : exec c b ops = exec { c with mergeOwnsDict := true } b ops :=
    nb_run c hrr b ops hnb _ ⟨by simp [State.init], by simp [State.init]⟩
  rw [he]
  exact C06_full_of_good { c with mergeOwnsDict := true } hc rfl hrr b ops

/-- Non-vacuity: on a history using every operation kind, two managers with base constants / base
points, three scenarios, the shared machine's view of slot 1 is a concrete non-trivial state. -/
example :
    (view (exec ⟨true, false, true, true, true⟩ witnessBase
      [.regMgr 0 [(5, 50)] [(1, 11)], .regMgr 1 [] [], .add 0 0 noDict, .add 1 0 { noDict with consts := [(5, 51)], stop := some 8 },
       .add 2 1 noDict, .run 0, .configure 1 { noDict with pts := [(0, 3)] }, .reset 1, .step 1 { noDict with consts := [(6, 60)] } 2,
       .step 0 { noDict with pts := [(0, 7)] } 2, .evalBase, .run 2]) 1).map (fun s => (s.meqs, s.mpts, s.mrs.stop, s.memo.length))
    = some ([(5, 51), (6, 60)], [(0, 3), (1, 11)], 8, 1) := by decide

/-- Non-vacuity of the partial theorems: a points-free history with base constants under an ALIASED points
table on which slot 1 is a concrete non-trivial state (its own base constant, the base model's table). -/
example :
    (∀ op ∈ witnessMergeOps, ptsFree op = true) ∧
    (view (exec ⟨false, false, true, true, true⟩ witnessBase witnessMergeOps) 1).map (fun s => (s.consts, s.meqs, s.mpts, s.memo.length))
      = some ([(5, 50)], [(5, 50)], [(0, 1)], 1) := by decide

/-- Non-vacuity for file-loaded managers: registration followed by `setup` (the scenario's constants and points are in
the model before any run), two scenarios of one manager with base constants / base points; slot 1 is untouched by
slot 0's set-up and run. -/
example :
    (view (exec ⟨true, false, true, true, true⟩ witnessBase
      [.regMgr 0 [(5, 50)] [(1, 11)], .add 0 0 { noDict with consts := [(5, 51)] }, .setup 0, .add 1 0 noDict, .setup 1, .run 0]) 1).map
        (fun s => (s.consts, s.meqs, s.mpts, s.memo.length))
      = some ([(5, 50)], [(5, 50)], [(0, 1), (1, 11)], 0) := by decide

#print axioms C06_full_of_good
#print axioms C06_results
#print axioms C06_partial
#print axioms C06_witness_shared_points
#print axioms C06_witness_base
#print axioms C06_witness_shared_base_dict
#print axioms C06_witness_late_registration
#print axioms C06_witness_reused_clone
#print axioms C06_reregistration
#print axioms C06_calls_of_good
#print axioms C06_witness_session_by_name
#print axioms C06_partial_consts
#print axioms C06_partial_nopoints
#print axioms C06_partial_nobase
#print axioms inv_run

end Bptk.C06
